// drive: runs generated histories against the real application and writes the step trace
// (one JSON object per line) consumed by the Lean model driver.
package main

import (
	"bufio"
	"encoding/json"
	"flag"
	"fmt"
	"os"
	"saoverif/sim"
)

func main() {
	seed := flag.Uint64("seed", 1, "PRNG seed")
	hists := flag.Int("hists", 1, "number of histories")
	steps := flag.Int("steps", 300, "steps per history")
	profile := flag.String("profile", "main", "generator profile")
	out := flag.String("out", "-", "output file")
	flag.Parse()
	var wr *bufio.Writer
	if *out == "-" {
		wr = bufio.NewWriterSize(os.Stdout, 1<<20)
	} else {
		f, err := os.Create(*out)
		if err != nil {
			panic(err)
		}
		defer f.Close()
		wr = bufio.NewWriterSize(f, 1<<20)
	}
	defer wr.Flush()
	enc := json.NewEncoder(wr)
	for h := 0; h < *hists; h++ {
		hs := *seed*1000 + uint64(h)
		c := sim.NewChain(sim.GenesisCfg{})
		w := sim.NewWorld(c)
		g := sim.NewGen(w, hs, *profile)
		enc.Encode(sim.M{"genesis": sim.M{"env": w.EnvJSON(), "state": w.Dump(c.Ctx())}, "hist": hs, "profile": *profile})
		for i := 0; i < *steps; i++ {
			op := g.Next()
			res, o := w.Exec(&op)
			enc.Encode(sim.M{"i": i, "op": o, "res": res, "state": w.Dump(c.Ctx()), "raw": op})
			if res.Res == "hang" {
				// a goroutine is still spinning inside the application: this process is done
				wr.Flush()
				fmt.Fprintln(os.Stderr, "hang: exiting")
				os.Exit(0)
			}
			if res.Res == "panic" {
				// the chain is halted: nothing further can be observed in this history
				break
			}
		}
		wr.Flush()
	}
	fmt.Fprintln(os.Stderr, "done")
}
