// drive: runs generated histories against the real application and writes the step trace
// (one JSON object per line) consumed by the Lean model driver. Each history runs in its own
// child process so that a hang or crash inside the application ends only that history.
package main

import (
	sdk "github.com/cosmos/cosmos-sdk/types"
	"bufio"
	"encoding/json"
	"flag"
	"fmt"
	"os"
	"os/exec"
	"saoverif/sim"
	"sync"
)

func runHistory(hs uint64, steps int, profile string, wr *bufio.Writer) {
	enc := json.NewEncoder(wr)
	c, rejected := sim.TryNewChain(sim.GenesisForProfile(profile, hs))
	if rejected != "" {
		// the application refuses this genesis: there is no chain, hence no history — only the refusal itself, which the
		// driver compares with the model of the parameter validation
		cfg := sim.GenesisForProfile(profile, hs)
		p := sim.DefaultNodeParams(sim.Denom)
		if cfg.NodeParams != nil {
			p = *cfg.NodeParams
		}
		th, _ := sdk.NewDecFromStr(p.ShareThreshold)
		enc.Encode(sim.M{"genesisRejected": rejected, "params": sim.ParamsJSON(p, th, nil), "hist": hs, "profile": profile})
		wr.Flush()
		return
	}
	w := sim.NewWorld(c)
	g := sim.NewGen(w, hs, profile)
	enc.Encode(sim.M{"genesis": sim.M{"env": w.EnvJSON(), "state": w.Dump(w.C.Ctx())}, "hist": hs, "profile": profile})
	for i := 0; i < steps; i++ {
		op := g.Next()
		res, o := w.Exec(&op)
		enc.Encode(sim.M{"i": i, "op": o, "res": res, "state": w.Dump(w.C.Ctx()), "raw": op})
		if res.Res == "hang" {
			// a goroutine is still spinning inside the application: this process is done
			wr.Flush()
			os.Exit(0)
		}
		if res.Res == "panic" {
			// the chain is halted: nothing further can be observed in this history
			break
		}
	}
	wr.Flush()
}

func main() {
	seed := flag.Uint64("seed", 1, "PRNG seed")
	hists := flag.Int("hists", 1, "number of histories")
	steps := flag.Int("steps", 300, "steps per history")
	profile := flag.String("profile", "main", "generator profile")
	out := flag.String("out", "-", "output file")
	child := flag.Bool("child", false, "run exactly one history with -seed as history seed, to stdout")
	jobs := flag.Int("j", 8, "parallel child processes")
	replay := flag.String("replay", "", "replay the ops of a trace/replay file instead of generating")
	restarts := flag.Bool("restarts", false, "with -replay: emulate a process restart after every operation")
	twin := flag.String("twin", "", "compare a trace with its replay under restarts (crash-restart equivalence); prints TWIN lines")
	flag.Parse()
	if *twin != "" {
		os.Exit(sim.Twin(os.Args[0], *twin, os.Stdout))
	}
	if *replay != "" {
		os.Exit(sim.ReplayOpt(*replay, os.Stdout, *restarts))
	}
	if *child {
		wr := bufio.NewWriterSize(os.Stdout, 1<<20)
		runHistory(*seed, *steps, *profile, wr)
		return
	}
	var f *os.File = os.Stdout
	if *out != "-" {
		var err error
		f, err = os.Create(*out)
		if err != nil {
			panic(err)
		}
		defer f.Close()
	}
	outs := make([][]byte, *hists)
	var wg sync.WaitGroup
	sem := make(chan struct{}, *jobs)
	for h := 0; h < *hists; h++ {
		wg.Add(1)
		go func(h int) {
			defer wg.Done()
			sem <- struct{}{}
			defer func() { <-sem }()
			hs := *seed*1000 + uint64(h)
			cmd := exec.Command(os.Args[0], "-child", "-seed", fmt.Sprint(hs), "-steps", fmt.Sprint(*steps), "-profile", *profile)
			cmd.Stderr = os.Stderr
			b, err := cmd.Output()
			if err != nil {
				fmt.Fprintf(os.Stderr, "history %d: child failed: %v\n", hs, err)
				b = append(b, []byte(fmt.Sprintf("{\"crash\":%q,\"hist\":%d}\n", err.Error(), hs))...)
			}
			outs[h] = b
		}(h)
	}
	wg.Wait()
	for _, b := range outs {
		f.Write(b)
	}
}
