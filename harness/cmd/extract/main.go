// extract: regenerates static facts about the SAO source tree into a Lean file (DESIGN §4, Tie 1).
// Standard library only (go/parser, go/ast, go/types with a lenient importer), so it builds offline in
// a fraction of a second and reads whatever tree it is pointed at.
package main

import (
	"flag"
	"fmt"
	"go/ast"
	"go/parser"
	"go/token"
	"go/types"
	"os"
	"path/filepath"
	"sort"
	"strings"
)

type fact struct{ a, b, c string }

// skel: the decision skeleton of one function — every branching construct in source order, with what a guard's branch ends in
type skel struct {
	file, fn string
	conds    []string
}

func branchEnd(b *ast.BlockStmt) string {
	if b == nil || len(b.List) == 0 {
		return ""
	}
	switch l := b.List[len(b.List)-1].(type) {
	case *ast.ReturnStmt:
		if len(l.Results) > 0 && exprStr(l.Results[len(l.Results)-1]) != "nil" {
			return " => return " + exprStr(l.Results[len(l.Results)-1])
		}
		return " => return"
	case *ast.BranchStmt:
		return " => " + l.Tok.String()
	case *ast.ExprStmt:
		if c, ok := l.X.(*ast.CallExpr); ok && exprStr(c.Fun) == "panic" {
			return " => panic"
		}
	}
	return ""
}

func skeletonOf(body *ast.BlockStmt) []string {
	var out []string
	ast.Inspect(body, func(n ast.Node) bool {
		switch n := n.(type) {
		case *ast.FuncLit:
			out = append(out, "func literal")
		case *ast.IfStmt:
			out = append(out, "if "+exprStr(n.Cond)+branchEnd(n.Body))
		case *ast.SwitchStmt:
			out = append(out, "switch "+exprStr(n.Tag))
		case *ast.TypeSwitchStmt:
			out = append(out, "type switch")
		case *ast.CaseClause:
			var es []string
			for _, e := range n.List {
				es = append(es, exprStr(e))
			}
			if len(es) == 0 {
				out = append(out, "default")
			} else {
				out = append(out, "case "+strings.Join(es, ", "))
			}
		case *ast.ForStmt:
			out = append(out, "for "+exprStr(n.Cond))
		case *ast.RangeStmt:
			out = append(out, "range "+exprStr(n.X))
		}
		return true
	})
	return out
}

func exprStr(e ast.Expr) string {
	if e == nil {
		return ""
	}
	return types.ExprString(e)
}

type fakeImporter struct{}

func (fakeImporter) Import(path string) (*types.Package, error) {
	name := path[strings.LastIndex(path, "/")+1:]
	p := types.NewPackage(path, name)
	p.MarkComplete()
	return p, nil
}

func main() {
	repo := flag.String("repo", "/repo", "source tree")
	out := flag.String("out", "", "output directory (Facts.lean is written there) or a .lean file; empty = stdout")
	expect := flag.String("expect", "", "also write the decision skeletons as the committed expectation to this .lean file")
	flag.Parse()
	var dirs []string
	filepath.Walk(*repo, func(p string, fi os.FileInfo, err error) error {
		if err != nil || !fi.IsDir() {
			return nil
		}
		rel, _ := filepath.Rel(*repo, p)
		if rel == "app" || (strings.HasPrefix(rel, "x/") && !strings.Contains(rel, "/client") && !strings.Contains(rel, "/simulation") && !strings.Contains(rel, "/migrations")) {
			dirs = append(dirs, rel)
		}
		return nil
	})
	sort.Strings(dirs)
	var pkgVars, keeperFields, clockCalls, goStmts, mapRanges, genesisFields, storePrefixes, blockers, coinCalls, msgHandlers, appWiring []fact
	var skeleton []skel
	for _, rel := range dirs {
		fset := token.NewFileSet()
		pkgs, err := parser.ParseDir(fset, filepath.Join(*repo, rel), func(fi os.FileInfo) bool {
			n := fi.Name()
			if n == "genesis.pb.go" {
				return true // only its GenesisState struct is read
			}
			return !strings.HasSuffix(n, "_test.go") && !strings.HasSuffix(n, ".pb.go") && !strings.HasSuffix(n, ".pb.gw.go") && !strings.HasPrefix(n, "verif_")
		}, 0)
		if err != nil {
			fmt.Fprintln(os.Stderr, "parse", rel, err)
			os.Exit(2)
		}
		var pkgNames []string
		for n := range pkgs {
			pkgNames = append(pkgNames, n)
		}
		sort.Strings(pkgNames)
		for _, pn := range pkgNames {
			pkg := pkgs[pn]
			var files []*ast.File
			var names []string
			for n := range pkg.Files {
				names = append(names, n)
			}
			sort.Strings(names)
			for _, n := range names {
				files = append(files, pkg.Files[n])
			}
			// lenient type check: imports resolve to empty packages and errors are ignored; the types of
			// local declarations (maps built with make or literals) are still known
			info := &types.Info{Types: map[ast.Expr]types.TypeAndValue{}}
			conf := types.Config{Importer: fakeImporter{}, Error: func(error) {}, DisableUnusedImportCheck: true}
			conf.Check(rel, fset, files, info)
			// keepers, module roots (abci, genesis, module) and app: where consensus code lives
			inScope := strings.HasSuffix(rel, "/keeper") || !strings.Contains(strings.TrimPrefix(rel, "x/"), "/") || rel == "app"
			for i, f := range files {
				base := filepath.Base(names[i])
				for _, d := range f.Decls {
					if base == "genesis.pb.go" {
						if gd, ok := d.(*ast.GenDecl); !ok || gd.Tok != token.TYPE {
							continue
						}
					}
					switch d := d.(type) {
					case *ast.GenDecl:
						if d.Tok == token.VAR && !strings.Contains(rel, "/types") {
							for _, sp := range d.Specs {
								vs := sp.(*ast.ValueSpec)
								for k, nm := range vs.Names {
									if nm.Name == "_" {
										continue
									}
									init := ""
									if k < len(vs.Values) {
										init = exprStr(vs.Values[k])
										if len(init) > 60 {
											init = init[:60]
										}
									}
									pkgVars = append(pkgVars, fact{rel, nm.Name, exprStr(vs.Type) + "=" + init})
								}
							}
						}
						if d.Tok == token.TYPE {
							for _, sp := range d.Specs {
								ts := sp.(*ast.TypeSpec)
								st, ok := ts.Type.(*ast.StructType)
								if !ok {
									continue
								}
								if ts.Name.Name == "Keeper" || ts.Name.Name == "msgServer" || ts.Name.Name == "Hooks" || ts.Name.Name == "Migrator" || (rel == "app" && ts.Name.Name == "App") {
									for _, fl := range st.Fields.List {
										t := exprStr(fl.Type)
										if len(fl.Names) == 0 {
											keeperFields = append(keeperFields, fact{rel, ts.Name.Name + "." + t, t})
										}
										for _, nm := range fl.Names {
											keeperFields = append(keeperFields, fact{rel, ts.Name.Name + "." + nm.Name, t})
										}
									}
								}
								if ts.Name.Name == "GenesisState" {
									for _, fl := range st.Fields.List {
										for _, nm := range fl.Names {
											genesisFields = append(genesisFields, fact{rel, nm.Name, exprStr(fl.Type)})
										}
									}
								}
							}
						}
						if d.Tok == token.CONST && strings.HasSuffix(rel, "/types") {
							for _, sp := range d.Specs {
								vs := sp.(*ast.ValueSpec)
								for k, nm := range vs.Names {
									if (strings.HasSuffix(nm.Name, "KeyPrefix") || strings.HasSuffix(nm.Name, "Key") || strings.HasSuffix(nm.Name, "Prefix")) && k < len(vs.Values) {
										if bl, ok := vs.Values[k].(*ast.BasicLit); ok && bl.Kind == token.STRING && strings.Contains(bl.Value, "/") {
											storePrefixes = append(storePrefixes, fact{rel, nm.Name, strings.Trim(bl.Value, "\"")})
										}
									}
								}
							}
						}
					case *ast.FuncDecl:
						fn := d.Name.Name
						if d.Recv != nil && len(d.Recv.List) > 0 {
							fn = exprStr(d.Recv.List[0].Type) + "." + fn
						}
						if strings.HasPrefix(fn, "msgServer.") && ast.IsExported(d.Name.Name) && strings.HasSuffix(rel, "/keeper") {
							msgHandlers = append(msgHandlers, fact{rel, base, d.Name.Name})
						}
						if fn == "BeginBlocker" || fn == "EndBlocker" || fn == "EndBlock" || fn == "BeginBlock" {
							blockers = append(blockers, fact{rel, base, fn})
						}
						if d.Body != nil && base != "genesis.pb.go" {
							skeleton = append(skeleton, skel{rel + "/" + base, fn, skeletonOf(d.Body)})
						}
						if d.Body == nil || !inScope {
							continue
						}
						ast.Inspect(d.Body, func(n ast.Node) bool {
							switch n := n.(type) {
							case *ast.CallExpr:
								if se, ok := n.Fun.(*ast.SelectorExpr); ok && rel == "app" {
									m := se.Sel.Name
									if m == "SetOrderBeginBlockers" || m == "SetOrderEndBlockers" || m == "SetOrderInitGenesis" {
										k := 0
										for _, a := range n.Args {
											as := exprStr(a)
											if strings.Contains(as, "moduletypes.ModuleName") {
												appWiring = append(appWiring, fact{m, fmt.Sprintf("%02d", k), as})
												k++
											}
										}
									}
									if m == "SetHooks" {
										for _, a := range n.Args {
											appWiring = append(appWiring, fact{m, exprStr(se.X), exprStr(a)})
										}
									}
								}
								if se, ok := n.Fun.(*ast.SelectorExpr); ok {
									m := se.Sel.Name
									if strings.Contains(m, "MintCoins") || strings.Contains(m, "BurnCoins") || strings.Contains(m, "SendCoins") ||
										strings.Contains(m, "DelegateCoins") || m == "SetBalance" || m == "AddCoins" || m == "SubUnlockedCoins" || m == "SetSupply" {
										coinCalls = append(coinCalls, fact{rel + "/" + base, fn, exprStr(n.Fun)})
									}
								}
								if se, ok := n.Fun.(*ast.SelectorExpr); ok {
									if id, ok := se.X.(*ast.Ident); ok {
										q := id.Name + "." + se.Sel.Name
										if q == "time.Now" || q == "time.Since" || q == "time.Until" || q == "time.After" || q == "time.Sleep" || q == "time.Tick" ||
											id.Name == "rand" || q == "os.Getenv" || q == "os.Hostname" || q == "os.Getpid" || q == "os.ReadFile" || q == "runtime.NumGoroutine" ||
											// identifiers minted from the clock or a random source (the name-based V3/V5 ones are functions of their input)
											(id.Name == "uuid" && (se.Sel.Name == "NewV1" || se.Sel.Name == "NewV2" || se.Sel.Name == "NewV4" || se.Sel.Name == "New" ||
												se.Sel.Name == "NewRandom" || se.Sel.Name == "NewUUID" || se.Sel.Name == "NewString")) {
											clockCalls = append(clockCalls, fact{rel + "/" + base, fn, q})
										}
									}
								}
							case *ast.GoStmt:
								goStmts = append(goStmts, fact{rel + "/" + base, fn, "go"})
							case *ast.SelectStmt:
								goStmts = append(goStmts, fact{rel + "/" + base, fn, "select"})
							case *ast.RangeStmt:
								if tv, ok := info.Types[n.X]; ok && tv.Type != nil {
									if _, isMap := tv.Type.Underlying().(*types.Map); isMap {
										mapRanges = append(mapRanges, fact{rel + "/" + base, fn, exprStr(n.X)})
									}
								}
							}
							return true
						})
					}
				}
			}
		}
	}
	var b strings.Builder
	b.WriteString("/-! GENERATED by /verif/harness/cmd/extract from the Go source tree on every check run. Do not edit. -/\nnamespace SaoVerif.Generated\n\n")
	emit := func(name, doc string, fs []fact) {
		sort.Slice(fs, func(i, j int) bool {
			if fs[i].a != fs[j].a {
				return fs[i].a < fs[j].a
			}
			if fs[i].b != fs[j].b {
				return fs[i].b < fs[j].b
			}
			return fs[i].c < fs[j].c
		})
		fmt.Fprintf(&b, "/-- %s -/\ndef %s : List (String × String × String) := [\n", doc, name)
		for i, f := range fs {
			sep := ","
			if i == len(fs)-1 {
				sep = ""
			}
			fmt.Fprintf(&b, "  (%q, %q, %q)%s\n", f.a, f.b, f.c, sep)
		}
		b.WriteString("]\n\n")
	}
	emit("pkgVars", "package-level `var` declarations outside */types (directory, name, type=initialiser)", pkgVars)
	emit("keeperFields", "fields of the Keeper / msgServer / Hooks / Migrator structs and of app.App (directory, Struct.field, type)", keeperFields)
	emit("clockCalls", "calls that read the wall clock, a random source or the host environment in keepers, module roots and app (file, function, callee)", clockCalls)
	emit("goStmts", "goroutine launches and select statements in keepers, module roots and app (file, function, kind)", goStmts)
	emit("mapRanges", "range statements over values of map type in keepers, module roots and app (file, function, ranged expression)", mapRanges)
	emit("genesisFields", "fields of each module's GenesisState (directory, field, type)", genesisFields)
	emit("storePrefixes", "store key prefixes declared in */types (directory, constant, value)", storePrefixes)
	emit("coinCalls", "calls that create, destroy or move coins (file, function, callee) in keepers, module roots and app", coinCalls)
	emit("msgHandlers", "message handlers: exported methods of msgServer in */keeper (directory, file, handler)", msgHandlers)
	emit("appWiring", "app/app.go: relative order of the six storage modules in begin-blockers, end-blockers and InitGenesis; arguments of SetHooks", appWiring)
	emit("blockers", "begin/end blocker entry points (directory, file, function)", blockers)
	b.WriteString("end SaoVerif.Generated\n")
	// the decision skeletons go to a file of their own (and, with -expect, to the committed expectation)
	sort.SliceStable(skeleton, func(i, j int) bool {
		if skeleton[i].file != skeleton[j].file {
			return skeleton[i].file < skeleton[j].file
		}
		return skeleton[i].fn < skeleton[j].fn
	})
	mangle := func(f string) string {
		var sb strings.Builder
		for _, c := range f {
			if (c >= 'a' && c <= 'z') || (c >= 'A' && c <= 'Z') || (c >= '0' && c <= '9') {
				sb.WriteRune(c)
			} else {
				sb.WriteByte('_')
			}
		}
		return sb.String()
	}
	skelText := func(ns, doc string) string {
		var sb strings.Builder
		fmt.Fprintf(&sb, "/-! %s\n    One definition per source file: (function, branching constructs in source order — `if cond => how the branch ends`,\n    switch / case, loops). -/\nnamespace %s\n\n", doc, ns)
		for i := 0; i < len(skeleton); {
			j := i
			for j < len(skeleton) && skeleton[j].file == skeleton[i].file {
				j++
			}
			fmt.Fprintf(&sb, "def %s : List (String × List String) := [\n", mangle(skeleton[i].file))
			for k := i; k < j; k++ {
				sep := ","
				if k == j-1 {
					sep = ""
				}
				fmt.Fprintf(&sb, "  (%q, [", skeleton[k].fn)
				for m, c := range skeleton[k].conds {
					if m > 0 {
						sb.WriteString(", ")
					}
					fmt.Fprintf(&sb, "%q", c)
				}
				fmt.Fprintf(&sb, "])%s\n", sep)
			}
			sb.WriteString("]\n\n")
			i = j
		}
		fmt.Fprintf(&sb, "end %s\n", ns)
		return sb.String()
	}
	writeIfChanged := func(target, text string) {
		if old, err := os.ReadFile(target); err == nil && string(old) == text {
			return
		}
		if err := os.WriteFile(target, []byte(text), 0o644); err != nil {
			panic(err)
		}
	}
	if *expect != "" {
		writeIfChanged(*expect, skelText("SaoVerif.Expected.Skel", "The decision skeletons the model was written and validated against (written by `extract -expect`, committed; compared with the regenerated ones by the `Cxx_decision_skeleton_as_modelled` theorems)."))
	}
	if *out == "" {
		fmt.Print(b.String())
		return
	}
	target := *out
	if !strings.HasSuffix(target, ".lean") {
		os.MkdirAll(target, 0o755)
		// one generated module per source file (Generated/Skel/<file>.lean), so that a change of one file re-checks only the
		// theorems about that file; modules of files that no longer exist are removed
		skdir := filepath.Join(target, "Skel")
		os.MkdirAll(skdir, 0o755)
		keep := map[string]bool{}
		for i := 0; i < len(skeleton); {
			j := i
			for j < len(skeleton) && skeleton[j].file == skeleton[i].file {
				j++
			}
			name := mangle(skeleton[i].file)
			var sb strings.Builder
			fmt.Fprintf(&sb, "/-! GENERATED by /verif/harness/cmd/extract from %s on every check run. Do not edit. -/\nnamespace SaoVerif.Generated.Skel\n\ndef %s : List (String × List String) := [\n", skeleton[i].file, name)
			for k := i; k < j; k++ {
				sep := ","
				if k == j-1 {
					sep = ""
				}
				fmt.Fprintf(&sb, "  (%q, [", skeleton[k].fn)
				for m, c := range skeleton[k].conds {
					if m > 0 {
						sb.WriteString(", ")
					}
					fmt.Fprintf(&sb, "%q", c)
				}
				fmt.Fprintf(&sb, "])%s\n", sep)
			}
			sb.WriteString("]\n\nend SaoVerif.Generated.Skel\n")
			writeIfChanged(filepath.Join(skdir, name+".lean"), sb.String())
			keep[name+".lean"] = true
			i = j
		}
		if ents, err := os.ReadDir(skdir); err == nil {
			for _, e := range ents {
				if !keep[e.Name()] {
					os.Remove(filepath.Join(skdir, e.Name()))
				}
			}
		}
		os.Remove(filepath.Join(target, "Skeleton.lean"))
		target = filepath.Join(target, "Facts.lean")
	}
	// leave the file alone when nothing changed, so that lake does not rebuild its dependants
	if old, err := os.ReadFile(target); err == nil && string(old) == b.String() {
		return
	}
	if err := os.WriteFile(target, []byte(b.String()), 0o644); err != nil {
		panic(err)
	}
}
