package sim

import (
	"fmt"
	"runtime/debug"

	saoapp "github.com/SaoNetwork/sao/app"
	didmodule "github.com/SaoNetwork/sao/x/did"
	didtypes "github.com/SaoNetwork/sao/x/did/types"
	marketmodule "github.com/SaoNetwork/sao/x/market"
	markettypes "github.com/SaoNetwork/sao/x/market/types"
	modelmodule "github.com/SaoNetwork/sao/x/model"
	modeltypes "github.com/SaoNetwork/sao/x/model/types"
	nodemodule "github.com/SaoNetwork/sao/x/node"
	nodetypes "github.com/SaoNetwork/sao/x/node/types"
	ordermodule "github.com/SaoNetwork/sao/x/order"
	ordertypes "github.com/SaoNetwork/sao/x/order/types"
	saomodule "github.com/SaoNetwork/sao/x/sao"
	saotypes "github.com/SaoNetwork/sao/x/sao/types"
	authtypes "github.com/cosmos/cosmos-sdk/x/auth/types"
	banktypes "github.com/cosmos/cosmos-sdk/x/bank/types"
	distrtypes "github.com/cosmos/cosmos-sdk/x/distribution/types"
	stakingtypes "github.com/cosmos/cosmos-sdk/x/staking/types"
)

// genesisRoundTrip exports every module the scenarios touch with the modules' own ExportGenesis,
// runs the custom modules' Validate on the export, initialises a fresh application from it
// (InitChain) and switches the world to that application. Result "err" = the export does not
// validate or the new chain cannot be initialised.
func (w *World) genesisRoundTrip() (res Result) {
	defer func() {
		if r := recover(); r != nil {
			res = Result{Res: "err", Err: fmt.Sprintf("panic: %v", r), Data: M{"stack": firstLines(string(debug.Stack()), 16)}}
		}
	}()
	app := w.C.App
	ctx := w.C.Ctx()
	cdc := w.C.enc.Marshaler
	gs := saoapp.NewDefaultGenesisState(cdc)
	gs[authtypes.ModuleName] = cdc.MustMarshalJSON(app.AccountKeeper.ExportGenesis(ctx))
	gs[banktypes.ModuleName] = cdc.MustMarshalJSON(app.BankKeeper.ExportGenesis(ctx))
	gs[stakingtypes.ModuleName] = cdc.MustMarshalJSON(app.StakingKeeper.ExportGenesis(ctx))
	gs[distrtypes.ModuleName] = cdc.MustMarshalJSON(app.DistrKeeper.ExportGenesis(ctx))
	ng := nodemodule.ExportGenesis(ctx, app.NodeKeeper)
	og := ordermodule.ExportGenesis(ctx, app.OrderKeeper)
	mg := modelmodule.ExportGenesis(ctx, app.ModelKeeper)
	sg := saomodule.ExportGenesis(ctx, app.SaoKeeper)
	kg := marketmodule.ExportGenesis(ctx, app.MarketKeeper)
	dg := didmodule.ExportGenesis(ctx, app.DidKeeper)
	for name, v := range map[string]interface{ Validate() error }{"node": ng, "order": og, "model": mg, "sao": sg, "market": kg, "did": dg} {
		if err := v.Validate(); err != nil {
			return Result{Res: "err", Err: "exported genesis of " + name + " does not validate: " + err.Error(), Data: M{"validate": name}}
		}
	}
	gs[nodetypes.ModuleName] = cdc.MustMarshalJSON(ng)
	gs[ordertypes.ModuleName] = cdc.MustMarshalJSON(og)
	gs[modeltypes.ModuleName] = cdc.MustMarshalJSON(mg)
	gs[saotypes.ModuleName] = cdc.MustMarshalJSON(sg)
	gs[markettypes.ModuleName] = cdc.MustMarshalJSON(kg)
	gs[didtypes.ModuleName] = cdc.MustMarshalJSON(dg)
	cfg := w.C.Cfg
	cfg.DB = nil
	cfg.RawGenesis = gs
	cfg.InitialHeight = w.C.Height + 1 // a chain restarted from an export begins with the block after the exported one
	nc := NewChain(cfg)
	nc.Height, nc.AppHash = w.C.Height, w.C.AppHash
	w.C = nc
	return Result{Res: "ok"}
}
