package sim

import (
	"crypto/ecdsa"
	"crypto/sha256"
	"encoding/base64"
	"encoding/hex"
	"regexp"
	"fmt"
	"math/big"
	"runtime/debug"
	"strings"
	"time"

	didparser "github.com/SaoNetwork/sao-did/parser"
	saodidtypes "github.com/SaoNetwork/sao-did/types"
	"github.com/cosmos/cosmos-sdk/crypto/keys/secp256k1"
	"github.com/dvsekhvalnov/jose2go/base64url"
	"github.com/multiformats/go-multibase"
	gocid "github.com/ipfs/go-cid"
	"github.com/multiformats/go-multihash"
	"encoding/json"
	didkeeper "github.com/SaoNetwork/sao/x/did/keeper"
	didtypes "github.com/SaoNetwork/sao/x/did/types"
	modelmodule "github.com/SaoNetwork/sao/x/model"
	nodemodule "github.com/SaoNetwork/sao/x/node"
	nodekeeper "github.com/SaoNetwork/sao/x/node/keeper"
	nodetypes "github.com/SaoNetwork/sao/x/node/types"
	saomodule "github.com/SaoNetwork/sao/x/sao"
	saokeeper "github.com/SaoNetwork/sao/x/sao/keeper"
	saotypes "github.com/SaoNetwork/sao/x/sao/types"
	sdk "github.com/cosmos/cosmos-sdk/types"
	ethcrypto "github.com/ethereum/go-ethereum/crypto"
	uuid "github.com/satori/go.uuid"
	stakingkeeper "github.com/cosmos/cosmos-sdk/x/staking/keeper"
	stakingtypes "github.com/cosmos/cosmos-sdk/x/staking/types"
)

// Op is the wire form of one operation (one JSON line). Unused fields are omitted.
type Op struct {
	K        string `json:"k"`
	Creator  int    `json:"creator,omitempty"`  // account index (0-based) -> resolved to address id in output
	Provider int    `json:"provider,omitempty"` // account index + 1 (0 = empty)
	PropProvider int `json:"propProvider,omitempty"` // proposal.Provider when it differs from msg.Provider (account index + 1)
	Signer   int    `json:"signer,omitempty"`   // account index whose did:key signs the proposal (+1; 0 = unsigned)
	Tamper   string `json:"tamper,omitempty"`   // field altered after signing
	// generic numeric args
	Size     uint64 `json:"size,omitempty"`
	OrderId  uint64 `json:"orderId,omitempty"`
	Status   uint32 `json:"status,omitempty"`
	Val      int    `json:"val,omitempty"`  // validator index+1
	Val2     int    `json:"val2,omitempty"` // destination validator index+1
	Amount   int64  `json:"amount,omitempty"`
	To       int64  `json:"to,omitempty"`   // advance: target height
	Seed     string `json:"seed,omitempty"` // advance: decimal big int for the AppHash
	TxAddrs  []int  `json:"txAddrs,omitempty"`
	PeerOk   *bool  `json:"peerOk,omitempty"`
	RemoveForeign []int `json:"removeForeign,omitempty"` // didupdate: account numbers of another sid identity put on the remove list
	ForeignSid    int   `json:"foreignSid,omitempty"`
	CidOk    *bool  `json:"cidOk,omitempty"`
	Cid      string `json:"cid,omitempty"`
	// proposal fields
	Owner      int      `json:"owner,omitempty"` // account index+1 whose did:key is the owner; 0 = ""
	OwnerRaw   string   `json:"ownerRaw,omitempty"`
	Duration   uint64   `json:"duration,omitempty"`
	Replica    int32    `json:"replica,omitempty"`
	Timeout    int32    `json:"timeout,omitempty"`
	Alias      string   `json:"alias,omitempty"`
	GroupId    string   `json:"groupId,omitempty"`
	DataId     string   `json:"dataId,omitempty"`
	CommitId   string   `json:"commitId,omitempty"`
	Operation  uint32   `json:"operation,omitempty"`
	RoDids     []int    `json:"roDids,omitempty"` // account indices+1
	RwDids     []int    `json:"rwDids,omitempty"`
	PayDid     int      `json:"payDid,omitempty"` // account index+1
	PayDidRaw  string   `json:"payDidRaw,omitempty"`
	Data       []string `json:"data,omitempty"`
	Faults     []FaultIn `json:"faults,omitempty"`
	// did ops
	Did        int    `json:"did,omitempty"`
	AccountId  string `json:"accountId,omitempty"`
	Note       string `json:"note,omitempty"`
	Sid        int    `json:"sid,omitempty"`        // sid identity index+1 (keys derived from it)
	Acct       int    `json:"acct,omitempty"`       // account (index+1) being bound
	TsOffset   int64  `json:"tsOffset,omitempty"`   // proof/update timestamp = now - TsOffset seconds
	KeyVer     int    `json:"keyVer,omitempty"`     // key document version of the sid identity
	Remove     []int  `json:"remove,omitempty"`     // accounts (index+1) whose accountDid is removed
	Update     []int  `json:"update,omitempty"`     // accounts (index+1) whose auth is updated
	PastSeed   string `json:"pastSeed,omitempty"`
	SidTs      uint64 `json:"sidTs,omitempty"`      // creation timestamp of the sid identity (fixed by the generator so that replays agree)
	SleepMs    int    `json:"sleepMs,omitempty"`    // wall-clock delay before executing (replica offset)
	Eth        bool   `json:"eth,omitempty"`
	Fish       []int  `json:"fish,omitempty"`       // govfishmen: the new fishmen list (account index+1)
	AcctSuffix string `json:"acctSuffix,omitempty"` // binding: appended to the account id (an alias of the same chain account)
	EthMixed   bool   `json:"ethMixed,omitempty"`   // eip155 account id in EIP-55 checksum spelling instead of lower case
	DocSid     int    `json:"docSid,omitempty"`     // sid-signed request: sign with the key of *this* identity and name its document in the kid (0 = the owner identity itself)
	Inner      *Op    `json:"inner,omitempty"`      // sim: the transaction executed without being committed
}

type FaultIn struct {
	DataId   string `json:"dataId"`
	OrderId  uint64 `json:"orderId"`
	ShardId  uint64 `json:"shardId"`
	CommitId string `json:"commitId"`
	Provider int    `json:"provider"` // account index+1
}

const GoodCid = "bafkreib3yn6x5ka3ubqk2kbo7tb5dolrgkyrcmtoqdyikh5hgoqqhgm5ey"

// Cids: valid content ids for store requests (Cids[0] = GoodCid); the generators vary them so that a record carrying the
// content id of the wrong version shows up in the state comparison.
var Cids = func() []string {
	out := []string{GoodCid}
	for i := 1; i < 6; i++ {
		h, err := multihash.Sum([]byte(fmt.Sprintf("saoverif-content-%d", i)), multihash.SHA2_256, -1)
		if err != nil {
			panic(err)
		}
		out = append(out, gocid.NewCidV1(gocid.Raw, h).String())
	}
	return out
}()

func (w *World) acct(i int) string {
	if i < 0 || i >= len(w.C.Accounts) {
		return fmt.Sprintf("bad-address-%d", i)
	}
	return w.C.Accounts[i].Addr.String()
}
func (w *World) acct1(i int) string {
	if i == 0 {
		return ""
	}
	return w.acct(i - 1)
}
func (w *World) didOf1(i int) string {
	if i == 0 {
		return ""
	}
	if i-1 >= len(w.Dids) {
		return fmt.Sprintf("did:key:zUnknown%d", i)
	}
	return w.Dids[i-1].Did
}
func (w *World) didsOf(l []int) []string {
	r := []string{}
	for _, i := range l {
		r = append(r, w.didOf1(i))
	}
	return r
}
func (w *World) val1(i int) string {
	if i == 0 {
		return ""
	}
	if i-1 >= len(w.C.Vals) {
		return "saovaloper1bad"
	}
	return w.C.Vals[i-1].Addr.String()
}

type proposalApi interface {
	Marshal() ([]byte, error)
}

// sign produces a real JWS over the proposal bytes with the did:key of account `signer-1`.
func (w *World) sign(signer int, p proposalApi) saotypes.JwsSignature {
	if signer == 0 || signer-1 >= len(w.Dids) {
		return saotypes.JwsSignature{}
	}
	bz, err := p.Marshal()
	if err != nil {
		panic(err)
	}
	jws, err := w.Dids[signer-1].Provider.CreateJWS(bz)
	if err != nil {
		panic(err)
	}
	return saotypes.JwsSignature{Protected: jws.Signatures[0].Protected, Signature: jws.Signatures[0].Signature}
}

// Result of one executed op.
type Result struct {
	Res  string `json:"res"` // ok | err | panic | hang
	Err  string `json:"err,omitempty"`
	Data M      `json:"data,omitempty"`
	// what a DeliverTx response carries besides the code: gas consumed by the message (KV gas of every store
	// access the handler made) and a digest of the events it emitted — compared between replicas by the twin run
	Gas uint64 `json:"gas,omitempty"`
	Ev  string `json:"ev,omitempty"`
}

// runTx emulates baseapp.runMsgs atomicity: cache context, recover panics as errors, write on success.
// A watchdog reports a message that never returns as "hang" (gas is not modelled; a loop that
// consumes no gas would hang DeliverTx for good).
func (w *World) runTx(f func(ctx sdk.Context) (M, error)) Result {
	ctx := w.C.Ctx()
	cctx, write := ctx.CacheContext()
	cctx = cctx.WithGasMeter(sdk.NewInfiniteGasMeter()).WithEventManager(sdk.NewEventManager())
	done := make(chan Result, 1)
	go func() {
		defer func() {
			if r := recover(); r != nil {
				done <- Result{Res: "err", Err: fmt.Sprintf("panic: %v", r), Data: M{"panic": true, "stack": firstLines(string(debug.Stack()), 14)}, Gas: cctx.GasMeter().GasConsumed()}
			}
		}()
		data, err := f(cctx)
		if err != nil {
			done <- Result{Res: "err", Err: err.Error(), Gas: cctx.GasMeter().GasConsumed()}
			return
		}
		h := sha256.New()
		for _, ev := range cctx.EventManager().Events() {
			h.Write([]byte(ev.Type))
			for _, a := range ev.Attributes {
				h.Write(a.Key)
				h.Write([]byte{0})
				h.Write(a.Value)
				h.Write([]byte{1})
			}
		}
		done <- Result{Res: "ok", Data: data, Gas: cctx.GasMeter().GasConsumed(), Ev: hex.EncodeToString(h.Sum(nil)[:8])}
	}()
	select {
	case r := <-done:
		if r.Res == "ok" && !w.simulating {
			write()
		}
		return r
	case <-time.After(w.HangTimeout()):
		return Result{Res: "hang", Err: "watchdog"}
	}
}

// IsTxOp: operations that are transactions (candidates for a non-consensus execution).
func IsTxOp(k string) bool {
	switch k {
	case "advance", "begin", "end", "genesis", "restart", "sim", "govfishmen", "slash":
		return false
	}
	return true
}

func firstLines(s string, n int) string {
	l := strings.Split(s, "\n")
	if len(l) > n {
		l = l[:n]
	}
	return strings.Join(l, "\n")
}

// runTxPre evaluates `pre` (harness-side facts that depend on the moment of execution) right
// before running the transaction.
func (w *World) runTxPre(pre func(), f func(ctx sdk.Context) (M, error)) Result {
	pre()
	return w.runTx(f)
}

// Clock is the clock the did handlers are expected to read (block time after the fix; the
// harness sets the block time to the wall clock at genesis and advances it with the height).
func (w *World) Clock() time.Time {
	if UseWallClock {
		return time.Now()
	}
	return w.C.BlockTime()
}

// UseWallClock selects which clock the harness treats as the handlers' reference.
var UseWallClock = false

var accIdRe = regexp.MustCompile("^[-a-z0-9]{3,8}:[-_a-zA-Z0-9]{1,32}:[-.%a-zA-Z0-9]{1,64}$")

func (w *World) accJSON(accId string) M {
	ok := accIdRe.MatchString(accId)
	c := strings.Split(accId, ":")
	for len(c) < 3 {
		c = append(c, "")
	}
	return M{"raw": bs(accId), "ok": ok, "cosmos": c[0] == "cosmos", "chainOk": c[1] == ChainID, "eip155": c[0] == "eip155", "addr": w.Addr.ID(c[2])}
}

func keysStr(keys []*didtypes.PubKey) string {
	ks := []string{}
	for _, pk := range keys {
		ks = append(ks, pk.Name+"="+pk.Value)
	}
	return strings.Join(ks, ",")
}

// sidPriv is the signing key of sid identity `sid` at key-document version `ver`.
func (w *World) sidPriv(sid, ver int) *secp256k1.PrivKey {
	return secp256k1.GenPrivKeyFromSecret([]byte(fmt.Sprintf("saoverif-sid-%d-v%d", sid, ver)))
}

// SidKeys are the public keys of sid identity `sid` at key-document version `ver`: a real secp256k1
// authentication key (multicodec 0xe7) and an x25519-shaped key-agreement key (0xec), multibase base58btc
// as the sid resolver of sao-did expects them.
func (w *World) SidKeys(sid, ver int) []*didtypes.PubKey {
	auth, _ := multibase.Encode(multibase.Base58BTC, append([]byte{0xe7, 0x01}, w.sidPriv(sid, ver).PubKey().Bytes()...))
	h := sha256.Sum256([]byte(fmt.Sprintf("saoverif-agree-%d-v%d", sid, ver)))
	agree, _ := multibase.Encode(multibase.Base58BTC, append([]byte{0xec, 0x01}, h[:]...))
	return []*didtypes.PubKey{{Name: "Authentication", Value: auth}, {Name: "KeyAgreement", Value: agree}}
}

// sidDocOf is the document id under which version `ver` of identity `sid` was (or would be) registered:
// the root document for version 1, the id computed by the last didupdate that used that key version otherwise.
func (w *World) sidDocOf(sid, ver int) string {
	if ver <= 1 {
		return w.SidRoot(sid)
	}
	if d, ok := w.sidDoc[[2]int{sid, ver}]; ok {
		return d
	}
	return "0000000000000000000000000000000000000000000000000000000000000000"
}

// sidLatestVer is the key version of the newest document in the identity's committed version list.
func (w *World) sidLatestVer(sid int) int {
	vl, found := w.C.App.DidKeeper.GetSidDocumentVersion(w.C.Ctx(), w.SidRoot(sid))
	if !found || len(vl.VersionList) == 0 {
		return 1
	}
	last := vl.VersionList[len(vl.VersionList)-1]
	for k, d := range w.sidDoc {
		if k[0] == sid && d == last {
			return k[1]
		}
	}
	return 1
}

// signSid produces a real JWS over the proposal bytes whose kid names identity `sid` as the signer DID and
// document version `ver` of identity `docSid` as the place to find the key; the signature is made with the
// authentication key of that document (docSid = sid is the honest case). The second result says whether this
// is a valid signature *by a key of the DID it claims*: the named document is the current (latest) version
// of identity `sid` in the committed store and lists the signing key.
func (w *World) signSid(sid, docSid, ver int, p proposalApi) (saotypes.JwsSignature, bool) {
	bz, err := p.Marshal()
	if err != nil {
		panic(err)
	}
	doc := w.sidDocOf(docSid, ver)
	kid := w.SidDid(sid, 1) + "?versionId=" + doc + "#Authentication"
	hb, _ := json.Marshal(saodidtypes.JWTHeader{Kid: kid, Alg: "ES256K"})
	protected := base64url.Encode(hb)
	input := protected + "." + base64url.Encode(bz)
	sg, err := w.sidPriv(docSid, ver).Sign([]byte(input))
	if err != nil {
		panic(err)
	}
	ok := false
	k := w.C.App.DidKeeper
	if vl, found := k.GetSidDocumentVersion(w.C.Ctx(), w.SidRoot(sid)); found && len(vl.VersionList) > 0 && vl.VersionList[len(vl.VersionList)-1] == doc {
		if d, found := k.GetSidDocument(w.C.Ctx(), doc); found {
			ok = keysStr(d.Keys) == keysStr(w.SidKeys(docSid, ver))
		}
	}
	return saotypes.JwsSignature{Protected: protected, Signature: base64url.Encode(sg)}, ok
}

// signFor signs proposal p for op: with the did:key of account op.Signer, or — when op.Sid is set — with
// the sid identity's key of version op.KeyVer (0 = the latest committed one). Returns the signature, whether
// it is a valid signature by the proposal's owner, and the signer DID.
func (w *World) signFor(op *Op, owner string, p proposalApi) (saotypes.JwsSignature, bool, string) {
	if op.Sid != 0 {
		docSid := op.Sid
		if op.DocSid != 0 {
			docSid = op.DocSid
		}
		ver := op.KeyVer
		if ver == 0 {
			ver = w.sidLatestVer(docSid)
		}
		sig, usable := w.signSid(op.Sid, docSid, ver, p)
		did := w.SidDid(op.Sid, 1)
		return sig, usable && did == owner, did
	}
	sig := w.sign(op.Signer, p)
	did := w.didOf1(op.Signer)
	return sig, op.Signer != 0 && op.Signer-1 < len(w.Dids) && w.Dids[op.Signer-1].Did == owner, did
}

// SidTimestamp is the creation timestamp committed to by the root document id of identity `sid`.
func (w *World) SidTimestamp(sid int) uint64 {
	if w.sidTs == nil {
		w.sidTs = map[int]uint64{}
	}
	if t, ok := w.sidTs[sid]; ok {
		return t
	}
	t := uint64(w.Clock().Unix()) - 5
	w.sidTs[sid] = t
	return t
}

func (w *World) SidRoot(sid int) string {
	r, _ := didkeeper.CalculateDocId(w.SidKeys(sid, 1), w.SidTimestamp(sid))
	return r
}
func (w *World) SidDid(sid, _ int) string { return "did:sid:" + w.SidRoot(sid) }

// runBlocker runs a begin/end blocker with no recover in the application sense: a panic is the
// observation "halt-panic" (baseapp does not recover them), and a watchdog reports "halt-hang".
func (w *World) runBlocker(f func(ctx sdk.Context)) (res Result) {
	ctx := w.C.Ctx()
	cctx, write := ctx.CacheContext()
	done := make(chan Result, 1)
	go func() {
		defer func() {
			if r := recover(); r != nil {
				done <- Result{Res: "panic", Err: fmt.Sprintf("%v", r), Data: M{"stack": firstLines(string(debug.Stack()), 18)}}
			}
		}()
		f(cctx)
		done <- Result{Res: "ok"}
	}()
	select {
	case r := <-done:
		if r.Res == "ok" {
			write()
		}
		return r
	case <-time.After(w.HangTimeout()):
		return Result{Res: "hang", Err: "watchdog"}
	}
}

// Restart: crash + restart from the database (new application object over the same DB) and a fresh
// process image as far as the known package variable goes.
func (w *World) Restart() {
	w.C.Restart()
	resetGlobals()
}

func (w *World) HangTimeout() time.Duration { return 4 * time.Second }

func okb(p *bool) bool { return p == nil || *p }

// Exec runs one op against the real application and returns its result.
// The op is also normalised (ids resolved) into `out` for the model.
func (w *World) Exec(op *Op) (Result, M) {
	app := w.C.App
	if op.Sid != 0 && op.SidTs != 0 {
		if w.sidTs == nil {
			w.sidTs = map[int]uint64{}
		}
		if _, ok := w.sidTs[op.Sid]; !ok {
			w.sidTs[op.Sid] = op.SidTs
		}
	}
	out := M{"k": op.K}
	if op.Note != "" {
		out["note"] = op.Note
	}
	creator := w.acct(op.Creator)
	out["creator"] = w.Addr.ID(creator)
	nodeSrv := nodekeeper.NewMsgServerImpl(app.NodeKeeper)
	saoSrv := saokeeper.NewMsgServerImpl(app.SaoKeeper)
	didSrv := didkeeper.NewMsgServerImpl(app.DidKeeper)
	switch op.K {
	case "sim":
		// a non-consensus execution (CheckTx / gas simulation / a query-side dry run) of a transaction:
		// the real handler runs on a branch of the state that is never written back. Whatever it leaves
		// in process memory stays. Its result is not a consensus result and is reported as ok.
		delete(out, "creator")
		if op.Inner == nil || !IsTxOp(op.Inner.K) {
			return Result{Res: "err", Err: "sim needs a transaction"}, out
		}
		w.simulating = true
		ires, iout := w.Exec(op.Inner)
		w.simulating = false
		out["inner"] = iout
		out["simRes"] = ires.Res
		if ires.Res == "hang" {
			return ires, out
		}
		return Result{Res: "ok"}, out
	case "advance":
		// move to another height with a new selection seed; no state change. A history in which a height with scheduled
		// work (timeout, shard expiry, data expiry) is jumped over is not one a chain can have: generated histories never
		// do, a replay from which operations were dropped may — it says so, and the shrinker discards such candidates
		{
			ctx := w.C.Ctx()
			app := w.C.App
			skipped := int64(0)
			see := func(h int64) {
				if h > w.C.Height && h < op.To && (skipped == 0 || h < skipped) {
					skipped = h
				}
			}
			for _, e := range app.SaoKeeper.GetAllTimeoutOrder(ctx) {
				see(int64(e.Height))
			}
			for _, e := range app.SaoKeeper.GetAllExpiredShard(ctx) {
				see(int64(e.Height))
			}
			for _, e := range app.ModelKeeper.GetAllExpiredData(ctx) {
				see(int64(e.Height))
			}
			if skipped != 0 {
				out["skippedSchedule"] = skipped
			}
		}
		w.C.Height = op.To
		seed, _ := new(big.Int).SetString(op.Seed, 10)
		if seed == nil {
			seed = big.NewInt(0)
		}
		w.C.AppHash = seed.Bytes()
		out["to"] = op.To
		out["seed"] = jsonNum(seed.String())
		delete(out, "creator")
		return Result{Res: "ok"}, out
	case "genesis":
		// export the application state module by module, validate it, and continue the history on
		// a fresh application initialised from that export (C18)
		delete(out, "creator")
		res := w.genesisRoundTrip()
		return res, out
	case "restart":
		delete(out, "creator")
		w.Restart()
		return Result{Res: "ok"}, out
	case "begin":
		delete(out, "creator")
		return w.runBlocker(func(ctx sdk.Context) { nodemodule.BeginBlocker(ctx, app.NodeKeeper) }), out
	case "end":
		delete(out, "creator")
		return w.runBlocker(func(ctx sdk.Context) {
			saomodule.EndBlocker(ctx, app.SaoKeeper)
			nodemodule.EndBlock(ctx, app.NodeKeeper)
			modelmodule.EndBlocker(ctx, app.ModelKeeper)
		}), out
	case "create":
		return w.runTx(func(ctx sdk.Context) (M, error) {
			_, err := nodeSrv.Create(sdk.WrapSDKContext(ctx), &nodetypes.MsgCreate{Creator: creator})
			return nil, err
		}), out
	case "reset":
		peer := ""
		if op.PeerOk != nil {
			if *op.PeerOk {
				peer = fmt.Sprintf("/ip4/127.0.0.1/tcp/%d", 4000+op.Creator)
			} else {
				peer = "not-a-multiaddr"
			}
		}
		tx := []string{}
		for _, i := range op.TxAddrs {
			tx = append(tx, w.acct1(i))
		}
		out["status"] = op.Status
		out["validator"] = w.Val.ID(w.val1(op.Val))
		out["valKnown"] = op.Val != 0 && op.Val-1 < len(w.C.Vals)
		out["txAddrs"] = w.addrs(tx)
		out["peer"] = w.Str.ID(peer)
		out["peerOk"] = okb(op.PeerOk)
		return w.runTx(func(ctx sdk.Context) (M, error) {
			_, err := nodeSrv.Reset(sdk.WrapSDKContext(ctx), &nodetypes.MsgReset{Creator: creator, Peer: peer, Status: op.Status, TxAddresses: tx, Validator: w.val1(op.Val)})
			return nil, err
		}), out
	case "addv":
		out["size"] = op.Size
		return w.runTx(func(ctx sdk.Context) (M, error) {
			_, err := nodeSrv.AddVstorage(sdk.WrapSDKContext(ctx), &nodetypes.MsgAddVstorage{Creator: creator, Size_: op.Size})
			return nil, err
		}), out
	case "remv":
		out["size"] = op.Size
		return w.runTx(func(ctx sdk.Context) (M, error) {
			_, err := nodeSrv.RemoveVstorage(sdk.WrapSDKContext(ctx), &nodetypes.MsgRemoveVstorage{Creator: creator, Size_: op.Size})
			return nil, err
		}), out
	case "claim":
		return w.runTx(func(ctx sdk.Context) (M, error) {
			r, err := nodeSrv.ClaimReward(sdk.WrapSDKContext(ctx), &nodetypes.MsgClaimReward{Creator: creator})
			if err != nil {
				return nil, err
			}
			return M{"claimed": r.ClaimedReward}, nil
		}), out
	case "payaddr":
		did := w.didOf1(op.Did)
		if op.Sid != 0 {
			did = w.SidDid(op.Sid, 1)
		}
		if op.OwnerRaw != "" {
			did = op.OwnerRaw
		}
		accId := op.AccountId
		if accId == "" {
			a := creator
			if op.Acct != 0 {
				a = w.acct1(op.Acct)
			}
			accId = "cosmos:" + ChainID + ":" + a
		}
		_, perr := didparser.Parse(did)
		out["did"] = w.DidID(did)
		out["didOk"] = perr == nil
		out["acc"] = w.accJSON(accId)
		return w.runTx(func(ctx sdk.Context) (M, error) {
			_, err := didSrv.UpdatePaymentAddress(sdk.WrapSDKContext(ctx), &didtypes.MsgUpdatePaymentAddress{Creator: creator, AccountId: accId, Did: did})
			return nil, err
		}), out
	case "binding":
		// bind account `Acct` to the sid identity `Sid` (created on first binding)
		keys := w.SidKeys(op.Sid, 1)
		ts := w.SidTimestamp(op.Sid)
		rootDocId, _ := didkeeper.CalculateDocId(keys, ts)
		did := "did:sid:" + rootDocId
		if _, exists := app.DidKeeper.GetSidDocumentVersion(w.C.Ctx(), rootDocId); exists {
			// joining an existing identity: the proof carries its own (fresh) timestamp
			ts = uint64(w.Clock().Unix()) - 5
		}
		acct := w.C.Accounts[(op.Acct-1+len(w.C.Accounts))%len(w.C.Accounts)]
		accId := "cosmos:" + ChainID + ":" + acct.Addr.String()
		if op.AccountId != "" {
			accId = op.AccountId
		}
		var ethKey *ecdsa.PrivateKey
		if op.Eth {
			h := sha256.Sum256([]byte("saoverif-eth-" + acct.Name))
			ethKey, _ = ethcrypto.ToECDSA(h[:])
			accId = "eip155:1:" + strings.ToLower(ethcrypto.PubkeyToAddress(ethKey.PublicKey).Hex())
			if op.EthMixed {
				// the EIP-55 (mixed-case) spelling of the same Ethereum account
				accId = "eip155:1:" + ethcrypto.PubkeyToAddress(ethKey.PublicKey).Hex()
			}
		}
		accId += op.AcctSuffix
		now := uint64(w.Clock().Unix())
		proofTs := ts
		message := fmt.Sprintf("I accept binding my account to %s at %d", did, proofTs)
		signBytes := didkeeper.GetSignData(acct.Addr.String(), message)
		sigBz, _ := acct.Priv.Sign(signBytes)
		signature := "tendermint/PubKeySecp256k1." + base64.StdEncoding.EncodeToString(acct.Priv.PubKey().Bytes()) + "." + base64.StdEncoding.EncodeToString(sigBz)
		proofOk := op.AccountId == ""
		proofDid := did
		rootSent := rootDocId
		keysSent := keys
		switch op.Tamper {
		case "sig":
			other := w.C.Accounts[(op.Acct)%len(w.C.Accounts)]
			sigBz, _ = other.Priv.Sign(signBytes)
			signature = "tendermint/PubKeySecp256k1." + base64.StdEncoding.EncodeToString(acct.Priv.PubKey().Bytes()) + "." + base64.StdEncoding.EncodeToString(sigBz)
			proofOk = false
		case "otherdid":
			// a proof whose signed message names a *different* DID; the handler never inspects the message
			message = "I accept binding my account to did:sid:somebodyelse"
			signBytes = didkeeper.GetSignData(acct.Addr.String(), message)
			sigBz, _ = acct.Priv.Sign(signBytes)
			signature = "tendermint/PubKeySecp256k1." + base64.StdEncoding.EncodeToString(acct.Priv.PubKey().Bytes()) + "." + base64.StdEncoding.EncodeToString(sigBz)
		case "keys":
			keysSent = w.SidKeys(op.Sid, 7)
		case "root":
			rootSent = rootDocId[:len(rootDocId)-1] + "0"
		}
		if op.TsOffset != 0 {
			// the document id commits to the timestamp, so an old proof is an old identity: use the offset as identity age
			ts = uint64(int64(now) - op.TsOffset)
			rootDocId, _ = didkeeper.CalculateDocId(keys, ts)
			did = "did:sid:" + rootDocId
			proofDid, rootSent = did, rootDocId
			message = fmt.Sprintf("I accept binding my account to %s at %d", did, ts)
			signBytes = didkeeper.GetSignData(acct.Addr.String(), message)
			sigBz, _ = acct.Priv.Sign(signBytes)
			signature = "tendermint/PubKeySecp256k1." + base64.StdEncoding.EncodeToString(acct.Priv.PubKey().Bytes()) + "." + base64.StdEncoding.EncodeToString(sigBz)
		}
		if op.Eth && op.Tamper != "sig" {
			hash := ethcrypto.Keccak256([]byte("\u0019Ethereum Signed Message:\n" + fmt.Sprint(len(message)) + message))
			sg, _ := ethcrypto.Sign(hash, ethKey)
			sg[64] += 27
			signature = "0x" + hex.EncodeToString(sg)
			// verifyBindingProof compares the recovered address, lower-cased, with the id's address part literally
			proofOk = !op.EthMixed
		}
		accountDid := fmt.Sprintf("did:key:acct%d-of-%s", op.Acct, rootDocId[:8])
		if op.Eth {
			accountDid = fmt.Sprintf("did:key:acct%d-of-%s", op.Acct+100, rootDocId[:8])
		}
		auth := didtypes.AccountAuth{AccountDid: accountDid, AccountEncryptedSeed: "seed", SidEncryptedAccount: "enc"}
		calc, _ := didkeeper.CalculateDocId(keysSent, ts)
		msg := &didtypes.MsgBinding{Creator: creator, AccountId: accId, RootDocId: rootSent, Keys: keysSent, AccountAuth: &auth,
			Proof: &didtypes.BindingProof{Message: message, Signature: signature, Did: proofDid, Timestamp: ts}}
		out["acc"] = w.accJSON(accId)
		out["rootDocId"] = bs(rootSent)
		out["did"] = w.DidID(proofDid)
		out["didMatchesRoot"] = "did:sid:"+rootSent == proofDid
		out["accountDid"] = bs(accountDid)
		out["auth"] = w.Str.ID(auth.AccountEncryptedSeed + "|" + auth.SidEncryptedAccount)
		out["proofOk"] = proofOk
		out["proofNamesDid"] = strings.Contains(message, proofDid)
		out["docIdOk"] = calc == rootSent
		out["keys"] = w.Str.ID(keysStr(keysSent))
		if op.SleepMs > 0 {
			// the same signed message delivered to a replica that executes the block a little later
			time.Sleep(time.Duration(op.SleepMs) * time.Millisecond)
		}
		return w.runTxPre(func() { out["fresh"] = ts+didkeeper.EXPIRE_DURATION >= uint64(w.Clock().Unix()) }, func(ctx sdk.Context) (M, error) {
			_, err := didSrv.Binding(sdk.WrapSDKContext(ctx), msg)
			return nil, err
		}), out
	case "didupdate":
		did := w.SidDid(op.Sid, 1)
		parsed, perr := didparser.Parse(did)
		rootId := ""
		if perr == nil {
			rootId = parsed.ID
		}
		now := uint64(w.Clock().Unix())
		ts := uint64(int64(now) - op.TsOffset)
		keys := w.SidKeys(op.Sid, op.KeyVer)
		newDocId, _ := didkeeper.CalculateDocId(keys, ts)
		if w.sidDoc == nil {
			w.sidDoc = map[[2]int]string{}
		}
		w.sidDoc[[2]int{op.Sid, op.KeyVer}] = newDocId
		sent := newDocId
		if op.Tamper == "docid" {
			sent = newDocId[:len(newDocId)-1] + "0"
		}
		root := w.SidRoot(op.Sid)
		upd := []*didtypes.AccountAuth{}
		updOut := [][]interface{}{}
		for _, a := range op.Update {
			ad := fmt.Sprintf("did:key:acct%d-of-%s", a, root[:8])
			upd = append(upd, &didtypes.AccountAuth{AccountDid: ad, AccountEncryptedSeed: fmt.Sprintf("seed-v%d", op.KeyVer), SidEncryptedAccount: "enc"})
			updOut = append(updOut, []interface{}{bs(ad), w.Str.ID(fmt.Sprintf("seed-v%d", op.KeyVer) + "|enc")})
		}
		rem := []string{}
		remAcc := []M{}
		{
			ctx := w.C.Ctx()
			for _, a := range op.Remove {
				ad := fmt.Sprintf("did:key:acct%d-of-%s", a, root[:8])
				rem = append(rem, ad)
				if x, found := app.DidKeeper.GetAccountId(ctx, ad); found {
					remAcc = append(remAcc, w.accJSON(x.AccountId))
				}
			}
			if op.ForeignSid != 0 {
				froot := w.SidRoot(op.ForeignSid)
				for _, a := range op.RemoveForeign {
					ad := fmt.Sprintf("did:key:acct%d-of-%s", a, froot[:8])
					rem = append(rem, ad)
					if x, found := app.DidKeeper.GetAccountId(ctx, ad); found {
						remAcc = append(remAcc, w.accJSON(x.AccountId))
					}
				}
			}
		}
		msg := &didtypes.MsgUpdate{Creator: creator, Did: did, NewDocId: sent, Keys: keys, Timestamp: ts, UpdateAccountAuth: upd, RemoveAccountDid: rem, PastSeed: op.PastSeed}
		out["did"] = w.DidID(did)
		out["didOk"] = perr == nil
		out["rootDocId"] = bs(rootId)
		out["newDocId"] = bs(sent)
		out["docIdOk"] = sent == newDocId
		out["keys"] = w.Str.ID(keysStr(keys))
		out["update"] = updOut
		out["remove"] = bsl(rem)
		out["pastSeed"] = bs(op.PastSeed)
		out["removeAcc"] = remAcc
		return w.runTxPre(func() { out["fresh"] = ts+didkeeper.EXPIRE_DURATION >= uint64(w.Clock().Unix()) }, func(ctx sdk.Context) (M, error) {
			_, err := didSrv.Update(sdk.WrapSDKContext(ctx), msg)
			return nil, err
		}), out
	case "store":
		cidS := GoodCid
		if op.Cid != "" {
			cidS = op.Cid
		}
		if !okb(op.CidOk) {
			cidS = "not-a-cid"
		}
		owner := w.didOf1(op.Owner)
		if op.Sid != 0 {
			owner = w.SidDid(op.Sid, 1)
		}
		if op.OwnerRaw != "" {
			owner = op.OwnerRaw
		}
		pay := w.didOf1(op.PayDid)
		if op.PayDidRaw != "" {
			pay = op.PayDidRaw
		}
		pp := op.Provider
		if op.PropProvider != 0 {
			pp = op.PropProvider
		}
		p := saotypes.Proposal{
			Owner: owner, Provider: w.acct1(pp), GroupId: op.GroupId, Duration: op.Duration, Replica: op.Replica,
			Timeout: op.Timeout, Alias: op.Alias, DataId: op.DataId, CommitId: op.CommitId, Cid: cidS, Size_: op.Size,
			Operation: op.Operation, ReadonlyDids: w.didsOf(op.RoDids), ReadwriteDids: w.didsOf(op.RwDids), PaymentDid: pay,
		}
		sig, sigValid, sigDid := w.signFor(op, p.Owner, &p)
		switch op.Tamper {
		case "":
		case "duration":
			p.Duration += 1
			sigValid = false
		case "dataId":
			p.DataId = p.DataId + "x"
			sigValid = false
		case "commitId":
			p.CommitId = p.CommitId + "x"
			sigValid = false
		case "owner":
			// claim somebody else's DID as owner after signing
			p.Owner = w.didOf1((op.Owner % len(w.Dids)) + 1)
			sigValid = false
		case "sig":
			sig.Signature = base64.RawURLEncoding.EncodeToString([]byte("forged-signature-forged-signature-forged-signature-forged-signat"))
			sigValid = false
		}
		w.RegKey(p.Owner, p.Alias, p.GroupId)
		msg := &saotypes.MsgStore{Creator: creator, Proposal: p, JwsSignature: sig, Provider: w.acct1(op.Provider)}
		out["msgProvider"] = w.Addr.ID(msg.Provider)
		out["sigValid"] = sigValid
		out["sigDid"] = w.DidID(sigDid)
		out["cidOk"] = okb(op.CidOk)
		out["cid"] = w.Str.ID(cidS)
		out["p"] = M{
			"owner": w.DidID(p.Owner), "provider": w.Addr.ID(p.Provider), "groupId": w.Str.ID(p.GroupId), "duration": p.Duration,
			"replica": p.Replica, "timeout": p.Timeout, "alias": w.Str.ID(p.Alias), "dataId": bs(p.DataId), "commitId": bs(p.CommitId),
			"size": p.Size_, "operation": p.Operation, "readonlyDids": w.dids(p.ReadonlyDids), "readwriteDids": w.dids(p.ReadwriteDids),
			"paymentDid": w.DidID(p.PaymentDid),
		}
		return w.runTx(func(ctx sdk.Context) (M, error) {
			r, err := saoSrv.Store(sdk.WrapSDKContext(ctx), msg)
			if err != nil {
				return nil, err
			}
			sps := []int{}
			for _, s := range r.Shards {
				sps = append(sps, w.Addr.ID(s.Sp))
			}
			return M{"orderId": r.OrderId, "sps": sps}, nil
		}), out
	case "ready":
		out["orderId"] = op.OrderId
		out["msgProvider"] = w.Addr.ID(w.acct1(op.Provider))
		return w.runTx(func(ctx sdk.Context) (M, error) {
			r, err := saoSrv.Ready(sdk.WrapSDKContext(ctx), &saotypes.MsgReady{Creator: creator, OrderId: op.OrderId, Provider: w.acct1(op.Provider)})
			if err != nil {
				return nil, err
			}
			sps := []int{}
			for _, s := range r.Shards {
				sps = append(sps, w.Addr.ID(s.Sp))
			}
			return M{"orderId": r.OrderId, "sps": sps}, nil
		}), out
	case "complete":
		cidS := GoodCid
		if op.Cid != "" {
			cidS = op.Cid
		}
		if !okb(op.CidOk) {
			cidS = "not-a-cid"
		}
		out["orderId"] = op.OrderId
		out["msgProvider"] = w.Addr.ID(w.acct1(op.Provider))
		out["size"] = op.Size
		out["cidOk"] = okb(op.CidOk)
		out["cid"] = w.Str.ID(cidS)
		return w.runTx(func(ctx sdk.Context) (M, error) {
			_, err := saoSrv.Complete(sdk.WrapSDKContext(ctx), &saotypes.MsgComplete{Creator: creator, OrderId: op.OrderId, Cid: cidS, Size_: op.Size, Provider: w.acct1(op.Provider)})
			// Complete returns (&resp, err) with err set for soft failures; baseapp treats any err as failure
			return nil, err
		}), out
	case "cancel":
		out["orderId"] = op.OrderId
		out["msgProvider"] = w.Addr.ID(w.acct1(op.Provider))
		return w.runTx(func(ctx sdk.Context) (M, error) {
			_, err := saoSrv.Cancel(sdk.WrapSDKContext(ctx), &saotypes.MsgCancel{Creator: creator, OrderId: op.OrderId, Provider: w.acct1(op.Provider)})
			return nil, err
		}), out
	case "terminate":
		owner := w.didOf1(op.Owner)
		if op.Sid != 0 {
			owner = w.SidDid(op.Sid, 1)
		}
		p := saotypes.TerminateProposal{Owner: owner, DataId: op.DataId}
		sig, sigValid, sigDid := w.signFor(op, p.Owner, &p)
		switch op.Tamper {
		case "dataId":
			p.DataId = op.Alias // the generator puts the substituted data id in Alias
			sigValid = false
		case "owner":
			p.Owner = w.didOf1((op.Owner % len(w.Dids)) + 1)
			sigValid = false
		case "sig":
			sig.Signature = base64.RawURLEncoding.EncodeToString([]byte("forged-signature-forged-signature-forged-signature-forged-signat"))
			sigValid = false
		}
		out["msgProvider"] = w.Addr.ID(w.acct1(op.Provider))
		out["sigValid"] = sigValid
		out["sigDid"] = w.DidID(sigDid)
		out["p"] = M{"owner": w.DidID(p.Owner), "dataId": bs(p.DataId)}
		return w.runTx(func(ctx sdk.Context) (M, error) {
			_, err := saoSrv.Terminate(sdk.WrapSDKContext(ctx), &saotypes.MsgTerminate{Creator: creator, Proposal: p, JwsSignature: sig, Provider: w.acct1(op.Provider)})
			return nil, err
		}), out
	case "renew":
		owner := w.didOf1(op.Owner)
		if op.Sid != 0 {
			owner = w.SidDid(op.Sid, 1)
		}
		p := saotypes.RenewProposal{Owner: owner, Duration: op.Duration, Timeout: op.Timeout, Data: op.Data}
		sig, sigValid, sigDid := w.signFor(op, p.Owner, &p)
		switch op.Tamper {
		case "duration":
			p.Duration += 1
			sigValid = false
		case "data":
			p.Data = append(p.Data, op.Alias)
			sigValid = false
		case "sig":
			sig.Signature = base64.RawURLEncoding.EncodeToString([]byte("forged-signature-forged-signature-forged-signature-forged-signat"))
			sigValid = false
		}
		out["msgProvider"] = w.Addr.ID(w.acct1(op.Provider))
		out["sigValid"] = sigValid
		out["sigDid"] = w.DidID(sigDid)
		out["p"] = M{"owner": w.DidID(p.Owner), "duration": p.Duration, "timeout": p.Timeout, "data": bsl(p.Data)}
		return w.runTx(func(ctx sdk.Context) (M, error) {
			r, err := saoSrv.Renew(sdk.WrapSDKContext(ctx), &saotypes.MsgRenew{Creator: creator, Proposal: p, JwsSignature: sig, Provider: w.acct1(op.Provider)})
			if err != nil {
				return nil, err
			}
			oks := []bool{}
			for _, kv := range r.Result {
				oks = append(oks, strings.HasPrefix(kv.V, "SUCCESS"))
			}
			return M{"oks": oks}, nil
		}), out
	case "migrate":
		out["msgProvider"] = w.Addr.ID(w.acct1(op.Provider))
		out["data"] = bsl(op.Data)
		return w.runTx(func(ctx sdk.Context) (M, error) {
			_, err := saoSrv.Migrate(sdk.WrapSDKContext(ctx), &saotypes.MsgMigrate{Creator: creator, Data: op.Data, Provider: w.acct1(op.Provider)})
			return nil, err
		}), out
	case "perm":
		owner := w.didOf1(op.Owner)
		if op.Sid != 0 {
			owner = w.SidDid(op.Sid, 1)
		}
		p := saotypes.PermissionProposal{Owner: owner, DataId: op.DataId, ReadonlyDids: w.didsOf(op.RoDids), ReadwriteDids: w.didsOf(op.RwDids)}
		sig, sigValid, sigDid := w.signFor(op, p.Owner, &p)
		switch op.Tamper {
		case "rw":
			p.ReadwriteDids = append(p.ReadwriteDids, w.didOf1(op.Creator+1))
			sigValid = false
		case "owner":
			p.Owner = w.didOf1((op.Owner % len(w.Dids)) + 1)
			sigValid = false
		case "sig":
			sig.Signature = base64.RawURLEncoding.EncodeToString([]byte("forged-signature-forged-signature-forged-signature-forged-signat"))
			sigValid = false
		}
		out["msgProvider"] = w.Addr.ID(w.acct1(op.Provider))
		out["sigValid"] = sigValid
		out["sigDid"] = w.DidID(sigDid)
		out["p"] = M{"owner": w.DidID(p.Owner), "dataId": bs(p.DataId), "readonlyDids": w.dids(p.ReadonlyDids), "readwriteDids": w.dids(p.ReadwriteDids)}
		return w.runTx(func(ctx sdk.Context) (M, error) {
			_, err := saoSrv.UpdataPermission(sdk.WrapSDKContext(ctx), &saotypes.MsgUpdataPermission{Creator: creator, Proposal: p, JwsSignature: sig, Provider: w.acct1(op.Provider)})
			return nil, err
		}), out
	case "report", "recover":
		fs := []*saotypes.Fault{}
		fo := []M{}
		for _, f := range op.Faults {
			fs = append(fs, &saotypes.Fault{DataId: f.DataId, OrderId: f.OrderId, ShardId: f.ShardId, CommitId: f.CommitId, Provider: w.acct1(f.Provider)})
			fo = append(fo, M{"dataId": bs(f.DataId), "orderId": f.OrderId, "shardId": f.ShardId, "commitId": bs(f.CommitId), "provider": w.Addr.ID(w.acct1(f.Provider))})
		}
		out["msgProvider"] = w.Addr.ID(w.acct1(op.Provider))
		out["faults"] = fo
		ids := []int{}
		for _, f := range fs {
			seed := f.Provider + creator + f.CommitId + fmt.Sprint(f.ShardId)
			ids = append(ids, w.Str.ID(uuid.NewV5(uuid.FromStringOrNil(nodekeeper.NS_URL), seed).String()))
		}
		out["newIds"] = ids
		out["insuranceKey"] = w.Str.ID(nodetypes.InsuranceKey)
		return w.runTx(func(ctx sdk.Context) (M, error) {
			var err error
			if op.K == "report" {
				_, err = saoSrv.ReportFaults(sdk.WrapSDKContext(ctx), &saotypes.MsgReportFaults{Creator: creator, Provider: w.acct1(op.Provider), Faults: fs})
			} else {
				_, err = saoSrv.RecoverFaults(sdk.WrapSDKContext(ctx), &saotypes.MsgRecoverFaults{Creator: creator, Provider: w.acct1(op.Provider), Faults: fs})
			}
			return nil, err
		}), out
	case "govfishmen":
		// a governance parameter change of the fishmen list: written to the parameter store the way the proposal handler does
		// (Subspace.Update), not through the node keeper
		delete(out, "creator")
		addrs := []string{}
		for _, i := range op.Fish {
			addrs = append(addrs, w.acct1(i))
		}
		out["fishmen"] = w.addrs(addrs)
		return w.runTx(func(ctx sdk.Context) (M, error) {
			sub, found := app.ParamsKeeper.GetSubspace(nodetypes.ModuleName)
			if !found {
				return nil, fmt.Errorf("no parameter subspace for the node module")
			}
			v, _ := json.Marshal(strings.Join(addrs, ","))
			return nil, sub.Update(ctx, nodetypes.KeyFishmenInfo, v)
		}), out
	case "slash":
		// x/staking slashes a validator for an infraction at the current height: its tokens shrink, the shares of its
		// delegators do not (executed, not modelled: the model takes the resulting state from the implementation)
		delete(out, "creator")
		out["val"] = w.Val.ID(w.val1(op.Val))
		return w.runTx(func(ctx sdk.Context) (M, error) {
			if op.Val < 1 || op.Val > len(w.C.Vals) {
				return nil, fmt.Errorf("no such validator")
			}
			v, found := app.StakingKeeper.GetValidator(ctx, w.C.Vals[op.Val-1].Addr)
			if !found {
				return nil, fmt.Errorf("validator not found")
			}
			cons, err := v.GetConsAddr()
			if err != nil {
				return nil, err
			}
			power := v.ConsensusPower(app.StakingKeeper.PowerReduction(ctx))
			app.StakingKeeper.Slash(ctx, cons, ctx.BlockHeight(), power, sdk.NewDecWithPrec(op.Amount, 2))
			return nil, nil
		}), out
	case "delegate", "undelegate", "redelegate":
		ssrv := stakingkeeper.NewMsgServerImpl(app.StakingKeeper)
		amt := sdk.NewInt64Coin(w.C.Cfg.Denom, op.Amount)
		out["val"] = w.Val.ID(w.val1(op.Val))
		out["val2"] = w.Val.ID(w.val1(op.Val2))
		out["amount"] = op.Amount
		return w.runTx(func(ctx sdk.Context) (M, error) {
			var err error
			switch op.K {
			case "delegate":
				_, err = ssrv.Delegate(sdk.WrapSDKContext(ctx), &stakingtypes.MsgDelegate{DelegatorAddress: creator, ValidatorAddress: w.val1(op.Val), Amount: amt})
			case "undelegate":
				_, err = ssrv.Undelegate(sdk.WrapSDKContext(ctx), &stakingtypes.MsgUndelegate{DelegatorAddress: creator, ValidatorAddress: w.val1(op.Val), Amount: amt})
			case "redelegate":
				_, err = ssrv.BeginRedelegate(sdk.WrapSDKContext(ctx), &stakingtypes.MsgBeginRedelegate{DelegatorAddress: creator, ValidatorSrcAddress: w.val1(op.Val), ValidatorDstAddress: w.val1(op.Val2), Amount: amt})
			}
			return nil, err
		}), out
	}
	return Result{Res: "err", Err: "unknown op " + op.K}, out
}
