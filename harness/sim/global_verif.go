//go:build verif

package sim

import (
	nodekeeper "github.com/SaoNetwork/sao/x/node/keeper"
	sdk "github.com/cosmos/cosmos-sdk/types"
)

func nodeGlobal() sdk.Dec { return nodekeeper.VerifSharesBeforeModified() }

func resetGlobals() { nodekeeper.VerifResetGlobals() }
