package sim

import (
	"fmt"
	"math/big"
	"sort"
	"strings"

	modeltypes "github.com/SaoNetwork/sao/x/model/types"
	nodetypes "github.com/SaoNetwork/sao/x/node/types"
	ordertypes "github.com/SaoNetwork/sao/x/order/types"
)

// Rng is splitmix64: every random choice of a run derives from one seed.
type Rng struct{ s uint64 }

func NewRng(seed uint64) *Rng { return &Rng{s: seed*0x9E3779B97F4A7C15 + 0x1234567} }

// NewStreamRng seeds the generator of one history. The state of NewRng(k+1) is the state of NewRng(k) one step later
// (the seed is multiplied by the increment), so histories with neighbouring seeds drew from shifted copies of one stream
// and came out nearly alike; here the seed goes through the output function first. NewRng itself is kept for the genesis
// configurations, which committed replays name by history number.
func NewStreamRng(seed uint64) *Rng {
	z := seed + 0x9E3779B97F4A7C15
	z = (z ^ (z >> 30)) * 0xBF58476D1CE4E5B9
	z = (z ^ (z >> 27)) * 0x94D049BB133111EB
	return &Rng{s: z ^ (z >> 31)}
}
func (r *Rng) U64() uint64 {
	r.s += 0x9E3779B97F4A7C15
	z := r.s
	z = (z ^ (z >> 30)) * 0xBF58476D1CE4E5B9
	z = (z ^ (z >> 27)) * 0x94D049BB133111EB
	return z ^ (z >> 31)
}
func (r *Rng) Intn(n int) int {
	if n <= 0 {
		return 0
	}
	return int(r.U64() % uint64(n))
}
func (r *Rng) Chance(pct int) bool { return r.Intn(100) < pct }
func (r *Rng) Pick(l []int) int    { return l[r.Intn(len(l))] }

// Gen produces state-aware, mostly valid operations plus a malformed stream.
type Gen struct {
	W       *World
	R       *Rng
	Profile string
	Nodes   []int // account indices acting as nodes
	Owners  []int // account indices acting as data owners
	dataSeq int
	Datas   []string
	phase   int
	setup   []Op
	inBlock bool
	justGen bool
	started bool
	Malformed int // percent
	SimPct    int // percent of transactions that are only simulated
	pendingReal *Op
	seed0     uint64
	scale     uint64 // multiplier of pledged / withdrawn capacity (histories with a large capacity threshold)
}

func NewGen(w *World, seed uint64, profile string) *Gen {
	g := &Gen{W: w, R: NewStreamRng(seed), Profile: profile, Malformed: 20, seed0: seed}
	switch profile {
	case "main", "staking", "auth":
		g.SimPct = 8
	case "did":
		g.SimPct = 18
	}
	g.scale = 1
	if w.C.App.NodeKeeper.GetParams(w.C.Ctx()).VstorageThreshold >= 1<<30 {
		g.scale = 4096
	}
	n := 3 + g.R.Intn(4)
	for i := 1; i <= n; i++ {
		g.Nodes = append(g.Nodes, i)
	}
	g.Owners = []int{8, 9, 10}
	t := true
	// setup prefix
	for _, i := range g.Nodes {
		g.setup = append(g.setup, Op{K: "create", Creator: i})
	}
	for k, i := range g.Nodes {
		st := uint32(15)
		if g.R.Chance(15) {
			st = 13
		}
		op := Op{K: "reset", Creator: i, Status: st, PeerOk: &t}
		if k == 0 {
			op.TxAddrs = []int{7 + 1} // account 7 is a hot key of node 1
		}
		g.setup = append(g.setup, op)
	}
	for k, i := range g.Nodes {
		// now and then a provider goes online and accepts orders without ever pledging capacity: selection must pass it over
		// (seeded change C15-9 let such a node into the candidate list)
		if k > 1 && (profile == "main" || profile == "timeouts") && g.R.Chance(20) {
			continue
		}
		sz := uint64(1_000_000 * (1 + g.R.Intn(20)))
		if g.R.Chance(30) {
			sz += uint64(g.R.Intn(3)) - 1
		}
		if profile == "reward" {
			sz = 10_000_000 // the reward genesis places the APY relative to 10 coins per node
		}
		g.setup = append(g.setup, Op{K: "addv", Creator: i, Size: sz})
	}
	for _, o := range g.Owners {
		g.setup = append(g.setup, Op{K: "payaddr", Creator: o, Did: o + 1})
	}
	// account 11 is a sponsor: its did:key has a payment address, so it can pay for other owners' orders
	g.setup = append(g.setup, Op{K: "payaddr", Creator: 11, Did: 11 + 1})
	if profile == "genesis" {
		for k, i := range g.Nodes {
			if k < 2 {
				g.setup = append(g.setup, Op{K: "delegate", Creator: i, Val: 1 + k%2, Amount: int64(150000 + g.R.Intn(400000))})
				g.setup = append(g.setup, Op{K: "reset", Creator: i, Status: 15, PeerOk: &t, Val: 1 + k%2})
			} else {
				// the other providers lock nearly all their coins in a delegation: a renewal top-up they cannot fund becomes
				// a recorded collateral debt, so that exports carry pledge debts of several providers
				g.setup = append(g.setup, Op{K: "delegate", Creator: i, Val: 1, Amount: 999_999_999_000 - int64(500+g.R.Intn(4000))})
			}
		}
	}
	if profile == "faults" {
		// few providers, so that each holds shards of several orders
		g.Nodes = []int{1, 2, 3}
		g.setup = nil
		for _, i := range g.Nodes {
			g.setup = append(g.setup, Op{K: "create", Creator: i})
		}
		for _, i := range g.Nodes {
			g.setup = append(g.setup, Op{K: "reset", Creator: i, Status: 15, PeerOk: &t})
			g.setup = append(g.setup, Op{K: "addv", Creator: i, Size: 50_000_000})
		}
		for _, o := range g.Owners {
			g.setup = append(g.setup, Op{K: "payaddr", Creator: o, Did: o + 1})
		}
	}
	if profile == "auth" {
		// an adversary (account 6) runs its own node whose self-declared transaction addresses
		// include its hot key (account 11) and the addresses of the honest gateways
		g.Malformed = 10
		g.Nodes = []int{1, 2, 3}
		g.setup = nil
		for _, i := range []int{1, 2, 3, 6} {
			g.setup = append(g.setup, Op{K: "create", Creator: i})
		}
		for _, i := range []int{1, 2, 3} {
			g.setup = append(g.setup, Op{K: "reset", Creator: i, Status: 15, PeerOk: &t})
			g.setup = append(g.setup, Op{K: "addv", Creator: i, Size: 20_000_000})
		}
		g.setup = append(g.setup, Op{K: "reset", Creator: 6, Status: 15, PeerOk: &t, TxAddrs: []int{11 + 1, 1 + 1, 2 + 1, 3 + 1}})
		g.setup = append(g.setup, Op{K: "reset", Creator: 1, Status: 15, PeerOk: &t, TxAddrs: []int{7 + 1}})
		for _, o := range g.Owners {
			g.setup = append(g.setup, Op{K: "payaddr", Creator: o, Did: o + 1})
		}
		g.setup = append(g.setup, Op{K: "payaddr", Creator: 11, Did: 11 + 1}) // the adversary's own DID
	}
	if profile == "pending" {
		// owners that are sid identities with a bound account: they can submit their own signed proposal
		// (the order stays pending until the gateway it names declares itself ready)
		g.Malformed = 8
		g.SimPct = 5
		g.Nodes = []int{1, 2, 3, 4}
		g.setup = nil
		for _, i := range g.Nodes {
			g.setup = append(g.setup, Op{K: "create", Creator: i})
		}
		for k, i := range g.Nodes {
			op := Op{K: "reset", Creator: i, Status: 15, PeerOk: &t}
			if k == 0 {
				op.TxAddrs = []int{7 + 1}
			}
			g.setup = append(g.setup, op)
			g.setup = append(g.setup, Op{K: "addv", Creator: i, Size: uint64(5_000_000 * (1 + g.R.Intn(4)))})
		}
		g.setup = append(g.setup, Op{K: "binding", Creator: 8, Acct: 8 + 1, Sid: 1})
		g.setup = append(g.setup, Op{K: "binding", Creator: 9, Acct: 9 + 1, Sid: 2})
		g.setup = append(g.setup, Op{K: "payaddr", Creator: 10, Did: 10 + 1})
		g.setup = append(g.setup, Op{K: "payaddr", Creator: 11, Did: 11 + 1})
	}
	if profile == "lifecycle" {
		g.Malformed = 5
		// one provider that cannot afford collateral top-ups: it locks nearly all its coins in a delegation
		// providers that can afford a shard's first pledge but not every renewal top-up: they lock
		// nearly all their coins in a delegation
		for _, poor := range g.Nodes[len(g.Nodes)-2:] {
			g.setup = append(g.setup, Op{K: "delegate", Creator: poor, Val: 1, Amount: 999_999_999_000 - int64(500+g.R.Intn(4000))})
		}
	}
	if profile == "staking" {
		g.Malformed = 10
		for k, i := range g.Nodes {
			if k < 3 {
				g.setup = append(g.setup, Op{K: "delegate", Creator: i, Val: 1 + k%2, Amount: int64(150000 + g.R.Intn(400000))})
				g.setup = append(g.setup, Op{K: "reset", Creator: i, Status: 15, PeerOk: &t, Val: 1 + k%2})
			}
		}
	}
	return g
}

func (g *Gen) newDataId() string {
	g.dataSeq++
	return fmt.Sprintf("%08x-0000-4000-8000-%012x", g.R.U64()&0xffffffff, g.dataSeq)
}

func (g *Gen) seedStr() string {
	k := 99
	if g.Profile == "seedpoor" {
		k = g.R.Intn(6)
	}
	switch k {
	case 0:
		return "0"
	case 1:
		return fmt.Sprintf("%d", g.R.Intn(1000))
	default:
		b := new(big.Int).SetUint64(g.R.U64())
		b.Mul(b, new(big.Int).SetUint64(g.R.U64()))
		b.Mul(b, new(big.Int).SetUint64(g.R.U64()))
		b.Mul(b, new(big.Int).SetUint64(g.R.U64()))
		return b.String()
	}
}

// nextScheduled returns the smallest scheduled height > h over the three queues (0 if none).
func (g *Gen) nextScheduled() int64 {
	ctx := g.W.C.Ctx()
	app := g.W.C.App
	hs := []int64{}
	for _, e := range app.SaoKeeper.GetAllTimeoutOrder(ctx) {
		hs = append(hs, int64(e.Height))
	}
	for _, e := range app.SaoKeeper.GetAllExpiredShard(ctx) {
		hs = append(hs, int64(e.Height))
	}
	for _, e := range app.ModelKeeper.GetAllExpiredData(ctx) {
		hs = append(hs, int64(e.Height))
	}
	sort.Slice(hs, func(i, j int) bool { return hs[i] < hs[j] })
	for _, h := range hs {
		if h > g.W.C.Height {
			return h
		}
	}
	return 0
}

func (g *Gen) advance() Op {
	h := g.W.C.Height
	var to int64
	if g.Profile == "reward" {
		// rewards are minted every block: consecutive heights only
		return Op{K: "advance", To: h + 1, Seed: g.seedStr()}
	}
	ns := g.nextScheduled()
	jump := 45
	if g.Profile == "lifecycle" {
		jump = 85
	}
	if g.Profile == "timeouts" {
		jump = 92
	}
	if g.Profile == "pending" {
		jump = 70
	}
	switch {
	case ns != 0 && ns < 1<<40 && g.R.Chance(jump):
		to = ns - int64(g.R.Intn(2))
		if to <= h {
			to = ns
		}
	case g.R.Chance(10) && g.Profile != "lifecycle" && g.Profile != "timeouts" && g.Profile != "pending":
		to = h + 1000 + int64(g.R.Intn(3000))
	default:
		to = h + 1 + int64(g.R.Intn(40))
	}
	if g.Profile == "faults" && g.R.Chance(20) {
		to = (h/600 + 1) * 600 // the penalty tick of node.EndBlock
	}
	if to <= h {
		to = h + 1
	}
	// never jump over a scheduled height: every height of a real chain runs its end-blocker, and
	// only blocks with nothing scheduled are no-ops for the modelled state (lemma idleBlock_noop)
	if ns != 0 && to > ns {
		to = ns
	}
	return Op{K: "advance", To: to, Seed: g.seedStr()}
}

// Next returns the next op; ok=false when the generator wants the block to end first is handled internally.
func (g *Gen) Next() Op {
	op := g.next()
	// the creation timestamp of a sid identity is fixed in the op, so that a replay rebuilds the same identity
	if op.Sid != 0 && op.SidTs == 0 {
		op.SidTs = g.W.SidTimestamp(op.Sid)
	}
	if op.Inner != nil && op.Inner.Sid != 0 && op.Inner.SidTs == 0 {
		op.Inner.SidTs = g.W.SidTimestamp(op.Inner.Sid)
	}
	// the content id of a store request follows from its commit id (no random draw: the streams of the profiles stay
	// as they were), so that successive versions of a model carry different content ids
	pickCid := func(o *Op) {
		if o.K == "store" && o.Cid == "" {
			h := 0
			for _, c := range []byte(o.CommitId) {
				h = (h*31 + int(c)) % 1000003
			}
			o.Cid = Cids[h%len(Cids)]
		}
	}
	pickCid(&op)
	if op.Inner != nil {
		pickCid(op.Inner)
	}
	scaleCap := func(o *Op) {
		if g.scale > 1 && (o.K == "addv" || o.K == "remv") && o.Size < 200_000_000 {
			o.Size *= g.scale
		}
	}
	scaleCap(&op)
	if op.Inner != nil {
		scaleCap(op.Inner)
	}
	return op
}

func (g *Gen) next() Op {
	if len(g.setup) > 0 {
		op := g.setup[0]
		g.setup = g.setup[1:]
		return op
	}
	if !g.inBlock {
		// an export / import round trip happens between blocks, as on a real chain
		if g.Profile == "genesis" && !g.justGen && g.started && g.R.Chance(22) {
			g.justGen = true
			return Op{K: "genesis"}
		}
		g.justGen = false
		g.started = true
		g.inBlock = true
		g.phase = 0
		return g.advance()
	}
	if g.phase == 0 {
		g.phase = 1
		return Op{K: "begin"}
	}
	if g.phase >= 1+g.R.Intn(4) || g.phase > 4 {
		g.inBlock = false
		return Op{K: "end"}
	}
	g.phase++
	if g.pendingReal != nil {
		op := *g.pendingReal
		g.pendingReal = nil
		return op
	}
	op := g.tx()
	// non-consensus calls between consensus calls: the same kind of transaction is sometimes only
	// simulated (mempool check / gas estimation) — a replica that did not serve the call, and a
	// restarted one, must not be able to tell
	if g.SimPct > 0 && IsTxOp(op.K) && g.R.Chance(g.SimPct) {
		inner := op
		if g.R.Chance(60) {
			// the usual client flow: estimate gas by simulation, then broadcast the same transaction
			real := op
			g.pendingReal = &real
		}
		return Op{K: "sim", Inner: &inner}
	}
	return op
}

type liveInfo struct {
	orders []ordertypes.Order
	shards []ordertypes.Shard
	metas  []modeltypes.Metadata
}

func (g *Gen) live() liveInfo {
	ctx := g.W.C.Ctx()
	app := g.W.C.App
	return liveInfo{orders: app.OrderKeeper.GetAllOrder(ctx), shards: app.OrderKeeper.GetAllShard(ctx), metas: app.ModelKeeper.GetAllMetadata(ctx)}
}

// fishmen: the accounts (indices) the parameter store currently lists as fishmen
func (g *Gen) fishmen() []int {
	out := []int{}
	sub, found := g.W.C.App.ParamsKeeper.GetSubspace(nodetypes.ModuleName)
	if !found {
		return out
	}
	var info string
	sub.Get(g.W.C.Ctx(), nodetypes.KeyFishmenInfo, &info)
	for _, f := range strings.Split(info, ",") {
		for i, a := range g.W.C.Accounts {
			if a.Addr.String() == f {
				out = append(out, i)
			}
		}
	}
	return out
}

// alias: the name a new model is stored under; now and then none at all (the model is then only reachable by its data id)
func (g *Gen) alias() string {
	if g.R.Chance(6) {
		return ""
	}
	return fmt.Sprintf("alias%d", g.dataSeq)
}

func containsStr(l []string, x string) bool {
	for _, y := range l {
		if y == x {
			return true
		}
	}
	return false
}

func (g *Gen) acctIndex(addr string) int {
	for i, a := range g.W.C.Accounts {
		if a.Addr.String() == addr {
			return i
		}
	}
	return 0
}
func (g *Gen) ownerIndexOfDid(did string) int {
	for i, d := range g.W.Dids {
		if d.Did == did {
			return i
		}
	}
	return 0
}

// writerOf picks who signs a request on model m: its owner, or sometimes a DID with read-write access
func (g *Gen) writerOf(m modeltypes.Metadata) int {
	o := g.ownerIndexOfDid(m.Owner)
	if len(m.ReadwriteDids) > 0 && g.R.Chance(45) {
		d := m.ReadwriteDids[g.R.Intn(len(m.ReadwriteDids))]
		for i, x := range g.W.Dids {
			if x.Did == d {
				return i
			}
		}
	}
	return o
}

func (g *Gen) durations() uint64 {
	switch g.R.Intn(6) {
	case 0:
		return 3600
	case 1:
		return 3599
	case 2:
		return 3600 + uint64(g.R.Intn(5000))
	default:
		return 3600 * uint64(1+g.R.Intn(4))
	}
}

func (g *Gen) stakingTx() Op {
	r := g.R
	n := g.Nodes[r.Intn(len(g.Nodes))]
	who := n
	if r.Chance(35) {
		who = []int{0, 10, 11}[r.Intn(3)] // third-party delegators (account 0 is the genesis delegator)
	}
	v := 1 + r.Intn(len(g.W.C.Vals))
	t := true
	switch r.Intn(12) {
	case 0, 1, 2:
		amt := int64(1 + r.Intn(600000))
		if r.Chance(15) {
			amt = 2_000_000_000_000 // more than any balance: fails after the Before hook when a delegation exists
		}
		return Op{K: "delegate", Creator: who, Val: v, Amount: amt}
	case 3, 4, 5:
		amt := int64(1 + r.Intn(400000))
		// prefer an existing delegation of `who`
		ctx := g.W.C.Ctx()
		dels := g.W.C.App.StakingKeeper.GetDelegatorDelegations(ctx, g.W.C.Accounts[who].Addr, 10)
		if len(dels) > 0 {
			d := dels[r.Intn(len(dels))]
			for i, val := range g.W.C.Vals {
				if val.Addr.String() == d.ValidatorAddress {
					v = i + 1
				}
			}
			if r.Chance(30) {
				amt = d.Shares.TruncateInt64()
			} else if d.Shares.TruncateInt64() > 1 {
				amt = 1 + r.Int63n(d.Shares.TruncateInt64())
			}
		}
		if len(g.W.C.Vals) > 1 && r.Chance(30) {
			// move the stake to another validator instead of unbonding it
			v2 := 1 + (v+r.Intn(len(g.W.C.Vals)-1))%len(g.W.C.Vals)
			return Op{K: "redelegate", Creator: who, Val: v, Val2: v2, Amount: amt}
		}
		return Op{K: "undelegate", Creator: who, Val: v, Amount: amt}
	case 6:
		rop := Op{K: "reset", Creator: n, Status: []uint32{15, 15, 15, 13, 7}[r.Intn(5)], PeerOk: &t, Val: r.Intn(len(g.W.C.Vals) + 1)}
		if r.Chance(50) {
			// a node that holds the super role re-declares itself, usually with another validator (or none)
			for _, nd := range g.W.C.App.NodeKeeper.GetAllNode(g.W.C.Ctx()) {
				if nd.Role == 1 && r.Chance(60) {
					rop.Creator = g.acctIndex(nd.Creator)
					rop.Status = []uint32{15, 15, 15, 13}[r.Intn(4)]
					cur := 0
					for i, v := range g.W.C.Vals {
						if v.Addr.String() == nd.Validator {
							cur = i + 1
						}
					}
					rop.Val = []int{0, 1, 2, cur}[r.Intn(4)]
					break
				}
			}
		}
		return rop
	case 7:
		return Op{K: "addv", Creator: n, Size: uint64(r.Intn(8_000_000))}
	case 8:
		return Op{K: "remv", Creator: n, Size: uint64(1_000_000 * (1 + r.Intn(12)))}
	case 9:
		if r.Chance(35) {
			// an infraction: from here on the validator's tokens and delegator shares differ
			return Op{K: "slash", Val: v, Amount: int64([]int{1, 5, 50}[r.Intn(3)])}
		}
		return Op{K: "restart"}
	case 10:
		// a new order whose replica count sits at the boundary of the normal-node population
		owner := g.Owners[r.Intn(len(g.Owners))]
		d := g.newDataId()
		return Op{K: "store", Creator: n, Provider: n + 1, Signer: owner + 1, Owner: owner + 1, Duration: 3600, Replica: int32(len(g.Nodes) - 2 + r.Intn(3)),
			Timeout: 100, Alias: g.alias(), DataId: d, CommitId: d, Size: uint64(1 + r.Intn(1000)), Operation: 1}
	default:
		return Op{K: "claim", Creator: n}
	}
}

func (r *Rng) Int63n(n int64) int64 {
	if n <= 0 {
		return 0
	}
	return int64(r.U64() % uint64(n))
}

func (g *Gen) didTx() Op {
	r := g.R
	sid := 1 + r.Intn(3)
	// accounts already bound to this sid (by the accountDid naming convention of the harness)
	ctx := g.W.C.Ctx()
	k := g.W.C.App.DidKeeper
	did := g.W.SidDid(sid, 1)
	bound := []int{}
	if al, found := k.GetAccountList(ctx, did); found {
		for _, ad := range al.AccountDids {
			var a int
			if _, err := fmt.Sscanf(ad, "did:key:acct%d-of-", &a); err == nil {
				bound = append(bound, a)
			}
		}
	}
	local := []int{}
	for _, a := range bound {
		if a <= len(g.W.C.Accounts) {
			local = append(local, a)
		}
	}
	creator := r.Intn(len(g.W.C.Accounts))
	if len(local) > 0 && r.Chance(75) {
		creator = local[r.Intn(len(local))] - 1
	}
	switch r.Intn(10) {
	case 0, 1, 2, 3:
		op := Op{K: "binding", Creator: creator, Acct: 1 + r.Intn(len(g.W.C.Accounts)), Sid: sid}
		if len(bound) == 0 {
			op.Creator = op.Acct - 1
		}
		if r.Chance(25) {
			switch r.Intn(6) {
			case 0:
				op.Tamper = "sig"
			case 1:
				op.Tamper = "otherdid"
			case 2:
				op.Tamper = "keys"
			case 3:
				op.Tamper = "root"
			case 4:
				op.TsOffset = 895 + int64(r.Intn(12))
			case 5:
				op.AccountId = "eip155:1:0x" + fmt.Sprintf("%040x", r.U64())
			}
		} else if r.Chance(30) {
			op.Eth = true
			op.EthMixed = r.Chance(50) // the EIP-55 spelling of the account id
		}
		if op.Tamper == "" && op.AccountId == "" && r.Chance(12) {
			// the same account under an id with a trailing segment: the signature check reads the first three segments
			// only, so only the CAIP-10 pattern stands between this and a second binding of the account
			op.AcctSuffix = []string{":1", ":" + ChainID, "/x"}[r.Intn(3)]
		}
		return op
	case 4, 5:
		op := Op{K: "payaddr", Creator: creator, Sid: sid, Acct: 1 + r.Intn(len(g.W.C.Accounts))}
		if len(local) > 0 && r.Chance(60) {
			op.Acct = local[r.Intn(len(local))]
		} else if r.Chance(60) {
			// an account that is bound, but to another sid identity
			others := []int{}
			for o := 1; o <= 3; o++ {
				if o == sid {
					continue
				}
				if al, found := k.GetAccountList(ctx, g.W.SidDid(o, 1)); found {
					for _, ad := range al.AccountDids {
						var a int
						if _, err := fmt.Sscanf(ad, "did:key:acct%d-of-", &a); err == nil && a <= len(g.W.C.Accounts) {
							others = append(others, a)
						}
					}
				}
			}
			if len(others) > 0 {
				op.Acct = others[r.Intn(len(others))]
			}
		}
		return op
	case 6, 7:
		if len(bound) < 2 {
			return Op{K: "binding", Creator: creator, Acct: 1 + r.Intn(len(g.W.C.Accounts)), Sid: sid}
		}
		// split the bound accounts into remove / update
		rem, upd := []int{}, []int{}
		for _, a := range bound {
			if r.Chance(40) {
				rem = append(rem, a)
			} else {
				upd = append(upd, a)
			}
		}
		op := Op{K: "didupdate", Creator: creator, Sid: sid, KeyVer: 2 + r.Intn(50), Remove: rem, Update: upd, PastSeed: fmt.Sprintf("seed%d", r.Intn(4))}
		if r.Chance(25) {
			switch r.Intn(4) {
			case 0:
				op.Tamper = "docid"
			case 1:
				op.TsOffset = 895 + int64(r.Intn(12))
			case 2:
				if len(op.Update) > 0 {
					op.Update = op.Update[1:]
				}
			case 3:
				// keep every own account and put an account of another identity on the remove list
				for o := 1; o <= 3; o++ {
					if o == sid {
						continue
					}
					if al, found := k.GetAccountList(ctx, g.W.SidDid(o, 1)); found && len(al.AccountDids) > 0 {
						var a int
						if _, err := fmt.Sscanf(al.AccountDids[r.Intn(len(al.AccountDids))], "did:key:acct%d-of-", &a); err == nil {
							op.Update, op.Remove = bound, nil
							op.RemoveForeign, op.ForeignSid = []int{a}, o
							break
						}
					}
				}
			}
		}
		return op
	case 8:
		// key-did payment address games
		a := r.Intn(len(g.W.C.Accounts))
		op := Op{K: "payaddr", Creator: a, Did: 1 + r.Intn(len(g.W.C.Accounts))}
		if r.Chance(50) {
			op.Did = a + 1
		}
		if r.Chance(25) {
			// the same key DID written as a DID URL (fragment, query, path): another string, the same identifier once parsed
			op.OwnerRaw = g.W.didOf1(op.Did) + []string{"#k1", "?versionId=1", "/p"}[r.Intn(3)]
		}
		return op
	default:
		return Op{K: "payaddr", Creator: creator, OwnerRaw: []string{"garbage", "did:web:example.com", ""}[r.Intn(3)]}
	}
}

func (g *Gen) tx() Op {
	if g.Profile == "staking" && g.R.Chance(65) {
		return g.stakingTx()
	}
	if g.Profile == "did" && g.R.Chance(80) {
		op := g.didTx()
		if op.Sid != 0 {
			op.SidTs = g.W.SidTimestamp(op.Sid)
		}
		return op
	}
	if g.Profile == "lifecycle" {
		return g.lifecycleTx()
	}
	if g.Profile == "timeouts" {
		return g.timeoutTx()
	}
	if g.Profile == "pending" {
		return g.pendingTx()
	}
	if g.Profile == "genesis" {
		// a mix that populates every store: lifecycle, staking/super nodes (cursor), faults, dids
		switch c := g.R.Intn(100); {
		case c < 50:
			return g.lifecycleTx()
		case c < 65:
			return g.stakingTx()
		case c < 80:
			return g.faultTx()
		case c < 90:
			op := g.didTx()
			if op.Sid != 0 {
				op.SidTs = g.W.SidTimestamp(op.Sid)
			}
			return op
		}
	}
	if g.Profile == "auth" && g.R.Chance(55) {
		return g.authTx()
	}
	if g.Profile == "faults" && g.R.Chance(55) {
		return g.faultTx()
	}
	if g.Profile == "reward" && g.R.Chance(70) {
		r := g.R
		n := g.Nodes[r.Intn(len(g.Nodes))]
		switch r.Intn(6) {
		case 0, 1:
			return Op{K: "claim", Creator: n}
		case 2:
			return Op{K: "addv", Creator: n, Size: uint64(r.Intn(30_000_000))}
		case 3:
			return Op{K: "remv", Creator: n, Size: uint64(1_000_000 * (1 + r.Intn(20)))}
		case 4:
			return g.remvAll()
		default:
			return Op{K: "claim", Creator: 1 + r.Intn(11)}
		}
	}
	li := g.live()
	r := g.R
	bad := r.Chance(g.Malformed)
	choice := r.Intn(100)
	gw := g.Nodes[r.Intn(len(g.Nodes))]
	switch {
	case choice < 22: // store new
		owner := g.Owners[r.Intn(len(g.Owners))]
		d := g.newDataId()
		g.Datas = append(g.Datas, d)
		op := Op{K: "store", Creator: gw, Provider: gw + 1, Signer: owner + 1, Owner: owner + 1, Duration: g.durations(),
			Replica: int32(1 + r.Intn(3)), Timeout: int32(10 + r.Intn(400)), Alias: g.alias(), DataId: d, CommitId: d,
			Size: uint64(1 + r.Intn(2_000_000)), Operation: 1}
		if r.Chance(10) {
			op.Size = uint64(r.Intn(3))
		}
		if r.Chance(8) {
			// sponsored payment: the sponsor itself submits the owner-signed proposal
			op.PayDid, op.Creator = 11+1, 11
		}
		if bad {
			switch r.Intn(9) {
			case 0:
				op.Signer = g.Owners[(r.Intn(len(g.Owners)))] + 1 // maybe wrong signer
			case 1:
				op.Tamper = []string{"duration", "dataId", "commitId", "owner", "sig"}[r.Intn(5)]
			case 2:
				op.Replica = int32(r.Intn(8)) - 2
			case 3:
				op.Timeout = int32(r.Intn(3)) - 1
			case 4:
				op.Creator = 11 // stranger, not a node, not bound
			case 5:
				op.Provider = g.Nodes[r.Intn(len(g.Nodes))] + 1
			case 6:
				f := false
				op.CidOk = &f
			case 7:
				op.Creator = 7 // hot key of node 1, claiming node 1 as its provider
				op.Provider = 2
				if r.Chance(60) {
					// ... for a proposal whose owner named a different gateway
					op.PropProvider = g.Nodes[1+r.Intn(len(g.Nodes)-1)] + 1
				}
			case 8:
				op.PayDid = 12 + 1
				op.Creator = 12
			}
		}
		return op
	case choice < 45: // complete
		cands := []ordertypes.Shard{}
		for _, s := range li.shards {
			if s.Status == ordertypes.ShardWaiting || s.Status == ordertypes.ShardMigrating {
				cands = append(cands, s)
			}
		}
		if len(cands) == 0 {
			return g.smallTx(li)
		}
		s := cands[r.Intn(len(cands))]
		sp := g.acctIndex(s.Sp)
		// the order that lists the shard (for migrating shards it is the order it was appended to)
		oid := s.OrderId
		op := Op{K: "complete", Creator: sp, Provider: sp + 1, OrderId: oid, Size: s.Size_}
		if bad {
			switch r.Intn(5) {
			case 0:
				op.Size = s.Size_ + 1
			case 1:
				op.Creator = 11
			case 2:
				op.Provider = g.Nodes[r.Intn(len(g.Nodes))] + 1
			case 3:
				f := false
				op.CidOk = &f
			case 4:
				op.OrderId = oid + 1
			}
		}
		return op
	case choice < 53: // renew
		if len(li.metas) == 0 {
			return g.smallTx(li)
		}
		m := li.metas[r.Intn(len(li.metas))]
		o := g.ownerIndexOfDid(m.Owner)
		op := Op{K: "renew", Creator: gw, Provider: gw + 1, Signer: o + 1, Owner: o + 1, Duration: g.durations(), Timeout: int32(10 + r.Intn(100)), Data: []string{m.DataId}}
		if r.Chance(30) && len(li.metas) > 1 {
			op.Data = append(op.Data, li.metas[r.Intn(len(li.metas))].DataId)
		}
		if bad {
			switch r.Intn(5) {
			case 0:
				op.Signer = g.Owners[r.Intn(len(g.Owners))] + 1
				op.Owner = op.Signer
			case 1:
				op.Tamper = []string{"duration", "sig"}[r.Intn(2)]
			case 2:
				op.Duration = 60*60*24*365*2 + uint64(r.Intn(2))
			case 3:
				op.Creator = 11
			case 4:
				// a data id nobody stored, in front of the real one: that entry fails, the rest of the batch goes on
				op.Data = append([]string{g.newDataId()}, op.Data...)
			}
		}
		return op
	case choice < 60: // terminate
		if len(li.metas) == 0 {
			return g.smallTx(li)
		}
		m := li.metas[r.Intn(len(li.metas))]
		o := g.writerOf(m)
		op := Op{K: "terminate", Creator: gw, Provider: gw + 1, Signer: o + 1, Owner: o + 1, DataId: m.DataId}
		if bad || r.Chance(40) {
			switch r.Intn(3) {
			case 0:
				op.Signer = g.Owners[r.Intn(len(g.Owners))] + 1
				op.Owner = op.Signer
			case 1:
				op.Tamper = "sig"
			case 2:
				op.Creator = 11
			}
		}
		return op
	case choice < 66: // cancel
		cands := []ordertypes.Order{}
		for _, o := range li.orders {
			if o.Status != ordertypes.OrderCompleted {
				cands = append(cands, o)
			}
		}
		if len(cands) == 0 || r.Chance(10) {
			cands = li.orders
		}
		if len(cands) == 0 {
			return g.smallTx(li)
		}
		o := cands[r.Intn(len(cands))]
		c := g.acctIndex(o.Creator)
		op := Op{K: "cancel", Creator: c, Provider: c + 1, OrderId: o.Id}
		if bad {
			switch r.Intn(3) {
			case 0:
				op.Creator = 11
				op.Provider = 12
			case 1:
				op.Creator = g.Nodes[r.Intn(len(g.Nodes))]
				op.Provider = op.Creator + 1
			case 2:
				op.Provider = 2 // node 1 lists account 7 as tx address
				op.Creator = 7
			}
		}
		return op
	case choice < 72: // migrate
		if len(li.metas) == 0 {
			return g.smallTx(li)
		}
		m := li.metas[r.Intn(len(li.metas))]
		sp := g.Nodes[r.Intn(len(g.Nodes))]
		for _, s := range li.shards {
			if s.Status == ordertypes.ShardCompleted && r.Chance(50) {
				sp = g.acctIndex(s.Sp)
				break
			}
		}
		op := Op{K: "migrate", Creator: sp, Provider: sp + 1, Data: []string{m.DataId}}
		if bad {
			op.Creator = 11
		}
		return op
	case choice < 78: // update (store on existing)
		if len(li.metas) == 0 {
			return g.smallTx(li)
		}
		m := li.metas[r.Intn(len(li.metas))]
		o := g.writerOf(m)
		nc := g.newDataId()
		// replica counts up to and beyond the provider population: an update re-uses the holders and asks the selection for the rest
		op := Op{K: "store", Creator: gw, Provider: gw + 1, Signer: o + 1, Owner: o + 1, Duration: g.durations(), Replica: int32([]int{1, 2, 1, 2, 3, 4, 5, 6}[r.Intn(8)]),
			Timeout: int32(10 + r.Intn(200)), Alias: m.Alias, DataId: m.DataId, CommitId: m.Commit + "|" + nc, Size: uint64(1 + r.Intn(100000)), Operation: uint32(1 + r.Intn(2))}
		if bad {
			switch r.Intn(5) {
			case 0: // stranger with crafted commit id embedding the data id
				st := g.Owners[r.Intn(len(g.Owners))]
				op.Signer, op.Owner = st+1, st+1
				op.CommitId = m.Commit + "|" + m.DataId
			case 1:
				op.CommitId = "|" + nc
			case 2:
				op.CommitId = m.Commit[:len(m.Commit)/2] + "|" + nc
			case 3:
				st := g.Owners[r.Intn(len(g.Owners))]
				op.Signer, op.Owner = st+1, st+1
			case 4:
				op.CommitId = nc + "|" + nc
			}
		} else if len(m.Commits) >= 2 && r.Chance(35) {
			// a writer that still holds an older version: stale (but complete) base, regular update or force-push
			old := strings.Split(m.Commits[r.Intn(len(m.Commits)-1)], "\032")[0]
			op.CommitId = old + "|" + nc
		}
		return op
	case choice < 84: // permission
		if len(li.metas) == 0 {
			return g.smallTx(li)
		}
		m := li.metas[r.Intn(len(li.metas))]
		o := g.ownerIndexOfDid(m.Owner)
		op := Op{K: "perm", Creator: gw, Provider: gw + 1, Signer: o + 1, Owner: o + 1, DataId: m.DataId}
		if r.Chance(60) {
			op.RwDids = []int{g.Owners[r.Intn(len(g.Owners))] + 1}
		}
		if r.Chance(40) {
			op.RoDids = []int{g.Owners[r.Intn(len(g.Owners))] + 1}
		}
		if bad {
			switch r.Intn(3) {
			case 0:
				st := g.Owners[r.Intn(len(g.Owners))]
				op.Signer, op.Owner = st+1, st+1
			case 1:
				op.Tamper = []string{"rw", "owner", "sig"}[r.Intn(3)]
			case 2:
				op.RwDids = []int{11 + 1} // a did:key with no payment address
			}
		}
		return op
	default:
		return g.smallTx(li)
	}
}

// lifecycleTx drives few orders through their whole life: store, complete every shard, renew
// (shorter / equal / longer), migrate + complete, update, claim, terminate, and lets the chain
// walk through every scheduled height.
func (g *Gen) lifecycleTx() Op {
	li := g.live()
	r := g.R
	gw := g.Nodes[r.Intn(len(g.Nodes)-2)]
	// 1. pending work first
	for _, s := range li.shards {
		if (s.Status == ordertypes.ShardWaiting || s.Status == ordertypes.ShardMigrating) && r.Chance(65) {
			sp := g.acctIndex(s.Sp)
			oid := s.OrderId
			// a migrating shard is listed by the order it was appended to
			for _, o := range li.orders {
				for _, id := range o.Shards {
					if id == s.Id {
						oid = o.Id
					}
				}
			}
			return Op{K: "complete", Creator: sp, Provider: sp + 1, OrderId: oid, Size: s.Size_}
		}
	}
	// an update still in flight on a model that already has committed versions: sometimes cancel it
	for _, ord := range li.orders {
		if ord.Status != ordertypes.OrderCompleted && ord.Operation != 3 {
			for _, m := range li.metas {
				if m.DataId == ord.DataId && len(m.Commits) > 0 && r.Chance(35) {
					cr := g.acctIndex(ord.Creator)
					return Op{K: "cancel", Creator: cr, Provider: cr + 1, OrderId: ord.Id}
				}
			}
		}
	}
	if len(li.metas) == 0 || (len(li.metas) < 3 && r.Chance(25)) {
		owner := g.Owners[r.Intn(len(g.Owners))]
		d := g.newDataId()
		alias := fmt.Sprintf("alias%d", g.dataSeq)
		// sometimes re-create a data id that existed before (terminated, cancelled or expired)
		if len(g.Datas) > 0 && r.Chance(35) {
			old := g.Datas[r.Intn(len(g.Datas))]
			alive := false
			for _, m := range li.metas {
				if m.DataId == old {
					alive = true
				}
			}
			if !alive {
				d = old
			}
		}
		g.Datas = append(g.Datas, d)
		to := int32(20 + r.Intn(300))
		if r.Chance(12) {
			to = int32([]int{3600, 3599, 7200, 20000}[r.Intn(4)]) // timeouts of the order of the duration
		}
		sop := Op{K: "store", Creator: gw, Provider: gw + 1, Signer: owner + 1, Owner: owner + 1, Duration: []uint64{3600, 7200, 10800, 5000}[r.Intn(4)],
			Replica: int32(1 + r.Intn(3)), Timeout: to, Alias: alias, DataId: d, CommitId: d,
			Size: uint64(1 + r.Intn(3_000_000)), Operation: 1}
		if r.Chance(15) {
			sop.PayDid, sop.Creator = 11+1, 11
		}
		return sop
	}
	m := li.metas[r.Intn(len(li.metas))]
	o := g.ownerIndexOfDid(m.Owner)
	if r.Chance(8) {
		// grant or revoke read-write access (an update by the grantee may be in flight)
		pop := Op{K: "perm", Creator: gw, Provider: gw + 1, Signer: o + 1, Owner: o + 1, DataId: m.DataId}
		if len(m.ReadwriteDids) == 0 || r.Chance(40) {
			pop.RwDids = []int{g.Owners[r.Intn(len(g.Owners))] + 1}
		}
		return pop
	}
	switch c := r.Intn(100); {
	case c < 30:
		rop := Op{K: "renew", Creator: gw, Provider: gw + 1, Signer: o + 1, Owner: o + 1, Duration: []uint64{3600, 3600, 7200, 14400, 4000}[r.Intn(5)], Timeout: 100, Data: []string{m.DataId}}
		for k := 0; k < r.Intn(3); k++ {
			// more ids in the same signed request: mostly other models of the same owner (several top-ups of one provider
			// in one message), possibly models of other owners
			x := li.metas[r.Intn(len(li.metas))]
			if r.Chance(70) {
				for _, y := range li.metas {
					if y.Owner == m.Owner && y.DataId != m.DataId && !containsStr(rop.Data, y.DataId) {
						x = y
						break
					}
				}
			}
			rop.Data = append(rop.Data, x.DataId)
		}
		return rop
	case c < 42:
		sp := g.Nodes[r.Intn(len(g.Nodes))]
		for _, s := range li.shards {
			if s.Status == ordertypes.ShardCompleted && r.Chance(40) {
				sp = g.acctIndex(s.Sp)
				break
			}
		}
		return Op{K: "migrate", Creator: sp, Provider: sp + 1, Data: []string{m.DataId}}
	case c < 50:
		return Op{K: "terminate", Creator: gw, Provider: gw + 1, Signer: o + 1, Owner: o + 1, DataId: m.DataId}
	case c < 60:
		nc := g.newDataId()
		wr := g.writerOf(m)
		uop := Op{K: "store", Creator: gw, Provider: gw + 1, Signer: wr + 1, Owner: wr + 1, Duration: []uint64{3600, 7200}[r.Intn(2)], Replica: int32(1 + r.Intn(2)),
			Timeout: int32(20 + r.Intn(200)), Alias: m.Alias, DataId: m.DataId, CommitId: m.Commit + "|" + nc, Size: uint64(1 + r.Intn(100000)), Operation: uint32(1 + r.Intn(2))}
		if r.Chance(12) {
			uop.PayDid, uop.Creator = 11+1, 11
		}
		if len(m.Commits) >= 2 && r.Chance(25) {
			old := strings.Split(m.Commits[r.Intn(len(m.Commits)-1)], "\032")[0]
			uop.CommitId = old + "|" + nc
		}
		return uop
	case c < 80:
		return Op{K: "claim", Creator: g.Nodes[r.Intn(len(g.Nodes))]}
	case c < 88:
		return g.remvAll()
	case c < 92:
		for _, ord := range li.orders {
			if ord.Status != ordertypes.OrderCompleted {
				cr := g.acctIndex(ord.Creator)
				return Op{K: "cancel", Creator: cr, Provider: cr + 1, OrderId: ord.Id}
			}
		}
		return Op{K: "claim", Creator: gw}
	default:
		return Op{K: "addv", Creator: g.Nodes[r.Intn(len(g.Nodes))], Size: uint64(r.Intn(5_000_000))}
	}
}

// authTx: the adversary (node account 6, hot key 11, DID of account 11) replays every message
// type against orders, shards and models of other parties.
// timeoutTx: orders with short timeouts whose providers mostly stay silent, so that the timeout
// handler re-assigns shards, retries, and gives up (cancel of a never-completed order, cut-down
// and partial refund of a partly stored one).
func (g *Gen) timeoutTx() Op {
	li := g.live()
	r := g.R
	gw := g.Nodes[r.Intn(len(g.Nodes))]
	// provider k of this history answers with probability silent[k] percent
	answers := func(sp int) int {
		if g.seed0%3 == 0 {
			return 0 // everybody is silent: every order is eventually given up
		}
		return []int{0, 70, 0, 25, 100, 0, 40}[(sp+int(g.seed0%7))%7]
	}
	for _, s := range li.shards {
		if s.Status == ordertypes.ShardWaiting {
			sp := g.acctIndex(s.Sp)
			if r.Chance(answers(sp)) && r.Chance(50) {
				return Op{K: "complete", Creator: sp, Provider: sp + 1, OrderId: s.OrderId, Size: s.Size_}
			}
		}
	}
	open := 0
	waitingOf := map[uint64]bool{}
	for _, s := range li.shards {
		if s.Status == ordertypes.ShardWaiting {
			waitingOf[s.OrderId] = true
		}
	}
	for _, o := range li.orders {
		if o.Status != ordertypes.OrderCompleted || waitingOf[o.Id] {
			open++
		}
	}
	if open < 2 || (open < 4 && r.Chance(6)) {
		owner := g.Owners[r.Intn(len(g.Owners))]
		d := g.newDataId()
		g.Datas = append(g.Datas, d)
		to := int32(4 + r.Intn(12))
		dur := []uint64{3600, 100000, 7200, 3700}[r.Intn(4)]
		top := Op{K: "store", Creator: gw, Provider: gw + 1, Signer: owner + 1, Owner: owner + 1, Duration: dur,
			Replica: int32(1 + r.Intn(3)), Timeout: to, Alias: g.alias(), DataId: d, CommitId: d,
			Size: uint64(1 + r.Intn(2_000_000)), Operation: 1}
		if r.Chance(20) {
			top.PayDid, top.Creator = 11+1, 11
		}
		return top
	}
	switch c := r.Intn(100); {
	case c < 25 && len(li.metas) > 0:
		// an update of a stored model whose new order may time out as well
		m := li.metas[r.Intn(len(li.metas))]
		o := g.ownerIndexOfDid(m.Owner)
		if m.Commit != "" && o >= 0 {
			nc := g.newDataId()
			return Op{K: "store", Creator: gw, Provider: gw + 1, Signer: o + 1, Owner: o + 1, Duration: 3600, Replica: int32(1 + r.Intn(2)),
				Timeout: int32(8 + r.Intn(30)), Alias: m.Alias, DataId: m.DataId, CommitId: m.Commit + "|" + nc, Size: uint64(1 + r.Intn(100000)), Operation: uint32(1 + r.Intn(2))}
		}
		return g.smallTx(li)
	case c < 35 && len(li.orders) > 0:
		ord := li.orders[r.Intn(len(li.orders))]
		cr := g.acctIndex(ord.Creator)
		return Op{K: "cancel", Creator: cr, Provider: cr + 1, OrderId: ord.Id}
	case c < 45:
		n := g.Nodes[r.Intn(len(g.Nodes))]
		return Op{K: "claim", Creator: n}
	default:
		return g.smallTx(li)
	}
}

// sidOf returns the sid identity index (1-based) whose DID is `did`, or 0.
func (g *Gen) sidOf(did string) int {
	for k := 1; k <= 3; k++ {
		if g.W.SidDid(k, 1) == did {
			return k
		}
	}
	return 0
}

// pendingTx: owners are sid identities that submit their own signed proposals (pending orders), gateways
// (or their hot keys, or strangers) declare them ready — sometimes only after the timeout has passed —,
// providers answer or stay silent, creators / gateways / strangers cancel, identities rotate their keys and
// keep signing with the new, the rotated-out or a never-registered key.
func (g *Gen) pendingTx() Op {
	li := g.live()
	r := g.R
	gw := g.Nodes[r.Intn(len(g.Nodes))]
	sid := 1 + r.Intn(2)
	bound := 7 + sid // account index 8 is bound to identity 1, 9 to identity 2
	var pend, open []ordertypes.Order
	for _, o := range li.orders {
		if o.Status == ordertypes.OrderPending {
			pend = append(pend, o)
		}
		if o.Status != ordertypes.OrderCompleted {
			open = append(open, o)
		}
	}
	keyVer := func() int {
		switch r.Intn(10) {
		case 0:
			return 1 // the first key (rotated out once the identity has been updated)
		case 1:
			return 2 + r.Intn(5) // some other version: rotated out, current or never registered
		}
		return 0 // the latest committed version
	}
	c := r.Intn(100)
	switch {
	case c < 20 || (len(li.orders) == 0 && c < 60):
		d := g.newDataId()
		g.Datas = append(g.Datas, d)
		op := Op{K: "store", Creator: bound, Provider: gw + 1, Sid: sid, KeyVer: keyVer(), Duration: g.durations(), Replica: int32(1 + r.Intn(2)),
			Timeout: int32(5 + r.Intn(40)), Alias: g.alias(), DataId: d, CommitId: d, Size: uint64(1 + r.Intn(500_000)), Operation: 1}
		if r.Chance(10) {
			op.Creator = []int{9, 8}[sid-1] // an account bound to the *other* identity
		}
		return op
	case c < 42 && len(pend) > 0:
		o := pend[r.Intn(len(pend))]
		if r.Chance(15) {
			// Ready again for an order that has already been handed to providers (a retry after a lost response)
			for _, x := range open {
				if x.Status == ordertypes.OrderDataReady {
					o = x
					break
				}
			}
		}
		p := g.acctIndex(o.Provider)
		op := Op{K: "ready", Creator: p, Provider: p + 1, OrderId: o.Id}
		switch r.Intn(9) {
		case 0:
			op.Creator = 11
		case 1:
			other := g.Nodes[r.Intn(len(g.Nodes))]
			op.Creator, op.Provider = other, other+1
		case 2, 3:
			op.Creator = 7 // hot key of node 1: entitled only when node 1 is the order's gateway
		case 4:
			op.Creator = g.acctIndex(o.Creator) // the owner's own account
		}
		return op
	case c < 52:
		d := g.newDataId()
		g.Datas = append(g.Datas, d)
		return Op{K: "store", Creator: gw, Provider: gw + 1, Sid: sid, KeyVer: keyVer(), Duration: g.durations(), Replica: int32(1 + r.Intn(2)),
			Timeout: int32(5 + r.Intn(40)), Alias: g.alias(), DataId: d, CommitId: d, Size: uint64(1 + r.Intn(500_000)), Operation: 1}
	case c < 70:
		for _, s := range li.shards {
			if s.Status == ordertypes.ShardWaiting && r.Chance(60) {
				sp := g.acctIndex(s.Sp)
				if (sp+int(g.seed0))%3 == 0 {
					continue // this provider stays silent in this history
				}
				return Op{K: "complete", Creator: sp, Provider: sp + 1, OrderId: s.OrderId, Size: s.Size_}
			}
		}
		return Op{K: "claim", Creator: gw}
	case c < 80 && len(open) > 0:
		o := open[r.Intn(len(open))]
		cr := g.acctIndex(o.Creator)
		op := Op{K: "cancel", Creator: cr, Provider: cr + 1, OrderId: o.Id}
		switch r.Intn(6) {
		case 0:
			p := g.acctIndex(o.Provider)
			op.Creator, op.Provider = p, p+1
		case 1:
			op.Creator, op.Provider = 11, g.acctIndex(o.Provider)+1
		case 2:
			op.Creator, op.Provider = 7, g.acctIndex(o.Provider)+1
		}
		return op
	case c < 86:
		// key rotation needs a binding to drop: account 5 (identity 1) / 6 (identity 2) is bound and dropped in turn
		extra := 4 + sid
		isBound := false
		if al, found := g.W.C.App.DidKeeper.GetAccountList(g.W.C.Ctx(), g.W.SidDid(sid, 1)); found {
			for _, ad := range al.AccountDids {
				var a int
				if _, err := fmt.Sscanf(ad, "did:key:acct%d-of-", &a); err == nil && a == extra+1 {
					isBound = true
				}
			}
		}
		if !isBound {
			return Op{K: "binding", Creator: bound, Acct: extra + 1, Sid: sid}
		}
		return Op{K: "didupdate", Creator: bound, Sid: sid, KeyVer: 2 + r.Intn(5), Remove: []int{extra + 1}, Update: []int{bound + 1}, PastSeed: fmt.Sprintf("seed%d-%d", r.Intn(1000), g.dataSeq)}
	case c < 94 && len(li.metas) > 0:
		m := li.metas[r.Intn(len(li.metas))]
		ms := g.sidOf(m.Owner)
		if ms == 0 {
			break
		}
		forge := 0
		if r.Chance(25) {
			// the other identity signs with its own key and names its own document, but claims this owner's DID
			forge = 3 - ms
		}
		if forge != 0 {
			switch r.Intn(3) {
			case 0:
				return Op{K: "terminate", Creator: gw, Provider: gw + 1, Sid: ms, DocSid: forge, DataId: m.DataId}
			case 1:
				return Op{K: "perm", Creator: gw, Provider: gw + 1, Sid: ms, DocSid: forge, DataId: m.DataId, RwDids: []int{10 + 1}}
			default:
				nc := g.newDataId()
				return Op{K: "store", Creator: gw, Provider: gw + 1, Sid: ms, DocSid: forge, Duration: 3600, Replica: 1, Timeout: 30,
					Alias: m.Alias, DataId: m.DataId, CommitId: m.Commit + "|" + nc, Size: 1000, Operation: uint32(1 + r.Intn(2))}
			}
		}
		switch r.Intn(4) {
		case 0:
			return Op{K: "terminate", Creator: gw, Provider: gw + 1, Sid: ms, KeyVer: keyVer(), DataId: m.DataId}
		case 1:
			return Op{K: "renew", Creator: gw, Provider: gw + 1, Sid: ms, KeyVer: keyVer(), Duration: g.durations(), Timeout: 50, Data: []string{m.DataId}}
		case 2:
			return Op{K: "perm", Creator: gw, Provider: gw + 1, Sid: ms, KeyVer: keyVer(), DataId: m.DataId, RwDids: []int{10 + 1}}
		default:
			nc := g.newDataId()
			return Op{K: "store", Creator: []int{gw, 7 + ms}[r.Intn(2)], Provider: gw + 1, Sid: ms, KeyVer: keyVer(), Duration: g.durations(), Replica: 1, Timeout: int32(5 + r.Intn(40)),
				Alias: m.Alias, DataId: m.DataId, CommitId: m.Commit + "|" + nc, Size: uint64(1 + r.Intn(100000)), Operation: uint32(1 + r.Intn(2))}
		}
	}
	return g.smallTx(li)
}

func (g *Gen) authTx() Op {
	li := g.live()
	r := g.R
	adv := []int{6, 11}[r.Intn(2)]
	advDid := 11 + 1
	honest := g.Nodes[r.Intn(len(g.Nodes))]
	var m *modeltypes.Metadata
	if len(li.metas) > 0 {
		m = &li.metas[r.Intn(len(li.metas))]
	}
	var o *ordertypes.Order
	if len(li.orders) > 0 {
		o = &li.orders[r.Intn(len(li.orders))]
	}
	switch r.Intn(15) {
	case 12: // cancel somebody's order naming the order's own gateway (the adversary is not one of its addresses)
		if o == nil {
			break
		}
		return Op{K: "cancel", Creator: adv, Provider: g.acctIndex(o.Provider) + 1, OrderId: o.Id}
	case 13: // legitimate: the hot key of honest node 1 submits an order through node 1
		if r.Chance(20) {
			// node 1 re-registers its transaction addresses: the hot key moves between accounts 7 and 9, the other one is revoked
			t := true
			return Op{K: "reset", Creator: 1, Status: 15, PeerOk: &t, TxAddrs: [][]int{{9 + 1}, {7 + 1}}[r.Intn(2)]}
		}
		owner := g.Owners[r.Intn(len(g.Owners))]
		d := g.newDataId()
		return Op{K: "store", Creator: 7, Provider: 1 + 1, Signer: owner + 1, Owner: owner + 1, Duration: 3600, Replica: 1,
			Timeout: 50, Alias: g.alias(), DataId: d, CommitId: d, Size: 1000, Operation: 1}
	case 14: // ready / complete / migrate naming the right gateway or provider, sent by the adversary
		if o == nil {
			break
		}
		for _, s := range li.shards {
			if s.Status == ordertypes.ShardWaiting && r.Chance(50) {
				return Op{K: "complete", Creator: adv, Provider: g.acctIndex(s.Sp) + 1, OrderId: s.OrderId, Size: s.Size_}
			}
		}
		return Op{K: "cancel", Creator: []int{8, 9, 10}[r.Intn(3)], Provider: g.acctIndex(o.Provider) + 1, OrderId: o.Id}
	case 0: // owner-signed proposal naming an honest gateway, submitted by the adversary through its own node
		owner := g.Owners[r.Intn(len(g.Owners))]
		d := g.newDataId()
		return Op{K: "store", Creator: adv, Provider: 6 + 1, PropProvider: honest + 1, Signer: owner + 1, Owner: owner + 1, Duration: 3600, Replica: 1,
			Timeout: 50, Alias: g.alias(), DataId: d, CommitId: d, Size: 1000, Operation: 1}
	case 1: // hot key of honest node 1 claiming node 1 for a proposal naming another gateway
		owner := g.Owners[r.Intn(len(g.Owners))]
		d := g.newDataId()
		return Op{K: "store", Creator: 7, Provider: 1 + 1, PropProvider: 2 + 1, Signer: owner + 1, Owner: owner + 1, Duration: 3600, Replica: 1,
			Timeout: 50, Alias: g.alias(), DataId: d, CommitId: d, Size: 1000, Operation: 1}
	case 2: // sponsor: somebody else's payment DID
		owner := g.Owners[r.Intn(len(g.Owners))]
		d := g.newDataId()
		payer := g.Owners[r.Intn(len(g.Owners))]
		if r.Chance(70) {
			payer = []int{10, 11}[r.Intn(2)] // the accounts whose did:key has a payment address registered
		}
		// … declaring an honest gateway, the payer's own account, or nothing as the provider it acts for
		prov := []int{honest + 1, payer + 1, honest + 1, 0}[r.Intn(4)]
		return Op{K: "store", Creator: adv, Provider: prov, Signer: owner + 1, Owner: owner + 1, PayDid: payer + 1, Duration: 3600, Replica: 1,
			Timeout: 50, Alias: g.alias(), DataId: d, CommitId: d, Size: 1000, Operation: 1}
	case 3: // update of a victim's model signed by the adversary's DID with a commit id embedding the data id
		if m == nil {
			break
		}
		// … or naming the model's current commit id bare (no base|new separator), or a proper base|new pair
		cm := []string{m.Commit + "|" + m.DataId, m.Commit, m.Commit + "|" + g.newDataId()}[r.Intn(3)]
		return Op{K: "store", Creator: 6, Provider: 6 + 1, Signer: advDid, Owner: advDid, Duration: 3600, Replica: 1, Timeout: 50, Alias: m.Alias, DataId: m.DataId,
			CommitId: cm, Size: 1000, Operation: uint32(1 + r.Intn(2))}
	case 4: // cancel a victim's order through the adversary's node (which lists the gateways as its tx addresses)
		if o == nil {
			break
		}
		return Op{K: "cancel", Creator: adv, Provider: 6 + 1, OrderId: o.Id}
	case 5: // complete somebody's shard
		for _, s := range li.shards {
			if s.Status == ordertypes.ShardWaiting {
				return Op{K: "complete", Creator: adv, Provider: []int{6 + 1, g.acctIndex(s.Sp) + 1}[r.Intn(2)], OrderId: s.OrderId, Size: s.Size_}
			}
		}
	case 6:
		if o == nil {
			break
		}
		return Op{K: "ready", Creator: adv, Provider: []int{6 + 1, g.acctIndex(o.Provider) + 1}[r.Intn(2)], OrderId: o.Id}
	case 7:
		if m == nil {
			break
		}
		own := g.ownerIndexOfDid(m.Owner)
		op := Op{K: "terminate", Creator: adv, Provider: 6 + 1, Signer: advDid, Owner: advDid, DataId: m.DataId}
		if r.Chance(40) {
			op.Signer, op.Owner, op.Tamper = own+1, own+1, []string{"sig", "owner"}[r.Intn(2)]
		}
		return op
	case 8:
		if m == nil {
			break
		}
		op := Op{K: "renew", Creator: adv, Provider: 6 + 1, Signer: advDid, Owner: advDid, Duration: 3600, Timeout: 50, Data: []string{m.DataId}}
		return op
	case 9:
		if m == nil {
			break
		}
		return Op{K: "perm", Creator: adv, Provider: 6 + 1, Signer: advDid, Owner: advDid, DataId: m.DataId, RwDids: []int{advDid}}
	case 10:
		if m == nil {
			break
		}
		return Op{K: "migrate", Creator: adv, Provider: []int{6 + 1, honest + 1}[r.Intn(2)], Data: []string{m.DataId}}
	case 11:
		// the adversary's own legitimate activity: its own model
		d := g.newDataId()
		return Op{K: "store", Creator: 6, Provider: 6 + 1, Signer: advDid, Owner: advDid, Duration: 3600, Replica: 1, Timeout: 50,
			Alias: fmt.Sprintf("adv%d", g.dataSeq), DataId: d, CommitId: d, Size: 1000, Operation: 1}
	}
	return Op{K: "claim", Creator: adv}
}

// faultTx files, confirms and clears fault reports: fishmen (accounts 1, 2), ordinary nodes and
// non-nodes; matching and mismatching order / data / shard / commit ids; expired shards; duplicates.
func (g *Gen) faultTx() Op {
	li := g.live()
	r := g.R
	reporter := []int{1, 2, 1, 2, 3, 11}[r.Intn(6)]
	var fs []FaultIn
	var prov int
	if r.Chance(5) {
		// governance changes who the fishmen are: accounts 1,2 (the genesis list), 2,3 or 1 alone
		return Op{K: "govfishmen", Fish: [][]int{{2, 3}, {3, 4}, {2}}[r.Intn(3)]}
	}
	// who the fishmen are now (the list may have been changed): most reports come from one of them
	fishNow := g.fishmen()
	if len(fishNow) > 0 && reporter != 11 && r.Chance(70) {
		reporter = fishNow[int(reporter)%len(fishNow)]
	}
	if len(fishNow) == 0 {
		fishNow = []int{1, 2}
	}
	if r.Chance(10) {
		// a fishman reports the destination of a migration that has not taken the shard over yet
		for _, x := range li.shards {
			if x.Status == ordertypes.ShardMigrating {
				for _, o := range li.orders {
					for _, id := range o.Shards {
						if id == x.Id {
							return Op{K: "report", Creator: fishNow[r.Intn(2)%len(fishNow)], Provider: g.acctIndex(x.Sp) + 1,
								Faults: []FaultIn{{DataId: o.DataId, OrderId: o.Id, ShardId: x.Id, CommitId: "no-such-commit", Provider: g.acctIndex(x.Sp) + 1}}}
						}
					}
				}
			}
		}
	}
	if r.Chance(15) {
		// a fishman names an order and a live shard the accused holds — but for a *different* order
		bySp := map[string][]ordertypes.Shard{}
		for _, x := range li.shards {
			if x.Status == ordertypes.ShardCompleted && int64(x.CreatedAt+x.Duration) > g.W.C.Height {
				bySp[x.Sp] = append(bySp[x.Sp], x)
			}
		}
		for _, nd := range g.Nodes {
			l := bySp[g.W.acct(nd)]
			if len(l) >= 2 {
				a, b := l[r.Intn(len(l))], l[r.Intn(len(l))]
				if a.Id == b.Id || a.OrderId == b.OrderId {
					continue
				}
				for _, o := range li.orders {
					if o.Id == a.OrderId {
						return Op{K: "report", Creator: fishNow[r.Intn(2)%len(fishNow)], Provider: nd + 1,
							Faults: []FaultIn{{DataId: o.DataId, OrderId: o.Id, ShardId: b.Id, CommitId: "no-such-commit", Provider: nd + 1}}}
					}
				}
			}
		}
	}
	for k := 0; k < 1+r.Intn(2); k++ {
		if len(li.shards) == 0 {
			break
		}
		s := li.shards[r.Intn(len(li.shards))]
		// mostly a shard that is stored and still within its paid period (the only kind a report may name)
		if r.Chance(75) {
			live := []ordertypes.Shard{}
			for _, x := range li.shards {
				if x.Status == ordertypes.ShardCompleted && int64(x.CreatedAt+x.Duration) > g.W.C.Height {
					live = append(live, x)
				}
			}
			if len(live) > 0 {
				s = live[r.Intn(len(live))]
			}
		}
		var ord *ordertypes.Order
		for i := range li.orders {
			for _, id := range li.orders[i].Shards {
				if id == s.Id {
					ord = &li.orders[i]
				}
			}
		}
		if ord == nil {
			continue
		}
		prov = g.acctIndex(s.Sp) + 1
		f := FaultIn{DataId: ord.DataId, OrderId: ord.Id, ShardId: s.Id, CommitId: "no-such-commit", Provider: prov}
		switch r.Intn(24) {
		case 0:
			f.CommitId = ord.Commit // report: skipped (contains); recover: required
		case 1:
			f.ShardId = s.Id + 1
		case 2:
			f.DataId = "ffffffff-0000-4000-8000-000000000000"
		case 7, 8:
			// the data id of another existing model with this model's order and shard
			for _, m2 := range li.metas {
				if m2.DataId != ord.DataId {
					f.DataId = m2.DataId
					break
				}
			}
		case 3:
			f.OrderId = ord.Id + 1
		case 4:
			f.Provider = 1 + r.Intn(6)
		case 5:
			f.CommitId = ""
		case 6, 10, 11, 12, 13, 14:
			// a live shard the same provider holds for a *different* order
			for _, s2 := range li.shards {
				if s2.Sp == s.Sp && s2.Id != s.Id && s2.Status == ordertypes.ShardCompleted && int64(s2.CreatedAt+s2.Duration) > g.W.C.Height {
					f.ShardId = s2.Id
				}
			}
		}
		fs = append(fs, f)
	}
	if len(fs) == 0 {
		return Op{K: "claim", Creator: reporter}
	}
	if r.Chance(45) {
		// recovery: by the accused provider itself or by a fishman, usually with the matching commit id
		who := reporter
		if r.Chance(50) {
			who = prov - 1
		}
		// prefer a shard that really has an open fault
		ctx := g.W.C.Ctx()
		for _, s := range li.shards {
			if f, found := g.W.C.App.NodeKeeper.GetFaultBySpAndShardId(ctx, s.Sp, s.Id); found && r.Chance(70) {
				prov = g.acctIndex(s.Sp) + 1
				fs = []FaultIn{{DataId: f.DataId, OrderId: f.OrderId, ShardId: f.ShardId, CommitId: "x", Provider: prov}}
				if f.Status == 3 {
					who = []int{1, 2}[r.Intn(2)]
				} else if r.Chance(70) {
					who = prov - 1
				}
				break
			}
		}
		for i := range fs {
			if r.Chance(80) {
				for _, o := range li.orders {
					if o.Id == fs[i].OrderId {
						fs[i].CommitId = o.Commit
					}
				}
			}
		}
		rop := Op{K: "recover", Creator: who, Provider: prov, Faults: fs}
		if r.Chance(20) {
			// header and entries disagree: the sender names itself as the provider while the entries accuse another
			rop.Creator = []int{1, 2, 3, 3, 3}[r.Intn(5)]
			rop.Provider = rop.Creator + 1
		}
		return rop
	}
	op := Op{K: "report", Creator: reporter, Provider: prov, Faults: fs}
	if r.Chance(10) {
		op.Provider = 1 + r.Intn(6)
	}
	return op
}

// remvAll withdraws exactly the free capacity of a provider (boundary of the rounding rules).
func (g *Gen) remvAll() Op {
	n := g.Nodes[g.R.Intn(len(g.Nodes))]
	ctx := g.W.C.Ctx()
	if p, found := g.W.C.App.NodeKeeper.GetPledge(ctx, g.W.C.Accounts[n].Addr.String()); found && p.TotalStorage > p.UsedStorage {
		free := uint64(p.TotalStorage - p.UsedStorage)
		switch g.R.Intn(3) {
		case 0:
			return Op{K: "remv", Creator: n, Size: free}
		case 1:
			return Op{K: "remv", Creator: n, Size: free + 1}
		default:
			return Op{K: "remv", Creator: n, Size: free/2 + 1}
		}
	}
	return Op{K: "remv", Creator: n, Size: 1_000_000}
}

func (g *Gen) smallTx(li liveInfo) Op {
	r := g.R
	n := g.Nodes[r.Intn(len(g.Nodes))]
	switch r.Intn(8) {
	case 0:
		return Op{K: "claim", Creator: n}
	case 1:
		return Op{K: "addv", Creator: n, Size: uint64(r.Intn(3_000_000))}
	case 2:
		return Op{K: "remv", Creator: n, Size: uint64(r.Intn(3_000_000))}
	case 3:
		t := true
		return Op{K: "reset", Creator: n, Status: []uint32{15, 13, 0, 7, 15, 15}[r.Intn(6)], PeerOk: &t}
	case 4:
		// ready on a pending order
		for _, o := range li.orders {
			if o.Status == ordertypes.OrderPending {
				p := g.acctIndex(o.Provider)
				return Op{K: "ready", Creator: p, Provider: p + 1, OrderId: o.Id}
			}
		}
		return Op{K: "claim", Creator: n}
	case 5:
		// store by a bound/unbound non-gateway creator -> pending order (owner account itself submits)
		owner := g.Owners[r.Intn(len(g.Owners))]
		d := g.newDataId()
		return Op{K: "store", Creator: owner, Provider: n + 1, Signer: owner + 1, Owner: owner + 1, Duration: g.durations(), Replica: 1,
			Timeout: int32(10 + r.Intn(100)), Alias: g.alias(), DataId: d, CommitId: d, Size: uint64(1 + r.Intn(1000)), Operation: 1}
	case 6:
		return Op{K: "create", Creator: 1 + r.Intn(11)}
	default:
		return Op{K: "claim", Creator: 1 + r.Intn(11)}
	}
}
