// Package sim drives the real SAO application in-process (Mode K of DESIGN §5.1).
package sim

import (
	"encoding/json"
	"fmt"
	"strings"
	"time"

	saoapp "github.com/SaoNetwork/sao/app"
	didtypes "github.com/SaoNetwork/sao/x/did/types"
	nodetypes "github.com/SaoNetwork/sao/x/node/types"
	codectypes "github.com/cosmos/cosmos-sdk/codec/types"
	cryptocodec "github.com/cosmos/cosmos-sdk/crypto/codec"
	"github.com/cosmos/cosmos-sdk/crypto/keys/ed25519"
	"github.com/cosmos/cosmos-sdk/crypto/keys/secp256k1"
	"github.com/cosmos/cosmos-sdk/simapp"
	sdk "github.com/cosmos/cosmos-sdk/types"
	authtypes "github.com/cosmos/cosmos-sdk/x/auth/types"
	banktypes "github.com/cosmos/cosmos-sdk/x/bank/types"
	stakingtypes "github.com/cosmos/cosmos-sdk/x/staking/types"
	"github.com/ignite/cli/ignite/pkg/cosmoscmd"
	abci "github.com/tendermint/tendermint/abci/types"
	"github.com/tendermint/tendermint/libs/log"
	tmproto "github.com/tendermint/tendermint/proto/tendermint/types"
	dbm "github.com/tendermint/tm-db"
)

const ChainID = "sao-verif"

// Denom is the single coherent denomination used in every scenario.
var Denom = "sao"

type Account struct {
	Name string
	Priv *secp256k1.PrivKey
	Addr sdk.AccAddress
}

type Validator struct {
	Priv *ed25519.PrivKey
	Addr sdk.ValAddress
}

type GenesisCfg struct {
	NumAccounts   int
	NumValidators int
	Funds         int64 // per account
	Denom         string
	NodeParams    *nodetypes.Params
	Pool          *nodetypes.Pool
	// Extra module genesis overrides (module name -> json)
	Override map[string]json.RawMessage
	DB       dbm.DB
	BuiltinDids string
	// RawGenesis, when set, is used as the complete application genesis (export/import round trip)
	RawGenesis saoapp.GenesisState
	// InitialHeight of the chain started from RawGenesis: the first block still to be executed (export height + 1)
	InitialHeight int64
}

type Chain struct {
	App      *saoapp.App
	Cfg      GenesisCfg
	Accounts []*Account
	Vals     []*Validator
	Height   int64
	AppHash  []byte
	Time     time.Time
	enc      cosmoscmd.EncodingConfig
	DB       dbm.DB
	// useCheck: after a restart from the database the working branch is the check state of the
	// re-opened application (the deliver state only exists between BeginBlock and Commit)
	useCheck bool
	Restarts int
}

var prefixesSet = false

func SetPrefixes() {
	if prefixesSet {
		return
	}
	prefixesSet = true
	cosmoscmd.SetPrefixes(saoapp.AccountAddressPrefix)
}

func MakeAccount(name string) *Account {
	priv := secp256k1.GenPrivKeyFromSecret([]byte("saoverif-account-" + name))
	return &Account{Name: name, Priv: priv, Addr: sdk.AccAddress(priv.PubKey().Address())}
}

func MakeValidator(i int) *Validator {
	priv := ed25519.GenPrivKeyFromSecret([]byte(fmt.Sprintf("saoverif-validator-%d", i)))
	return &Validator{Priv: priv, Addr: sdk.ValAddress(priv.PubKey().Address())}
}

func DefaultNodeParams(denom string) nodetypes.Params {
	p := nodetypes.DefaultParams()
	p.BlockReward = sdk.NewInt64Coin(denom, 0)
	p.Baseline = sdk.NewInt64Coin(denom, 1000000)
	p.VstorageThreshold = 5000000
	p.OfflineTriggerHeight = 1000000000
	return p
}

func DefaultPool(denom string) nodetypes.Pool {
	return nodetypes.Pool{
		TotalPledged:       sdk.NewInt64Coin(denom, 0),
		TotalReward:        sdk.NewInt64Coin(denom, 0),
		AccRewardPerByte:   sdk.NewInt64DecCoin(denom, 0),
		AccPledgePerByte:   sdk.NewInt64DecCoin(denom, 0),
		RewardPerBlock:     sdk.NewInt64DecCoin(denom, 0),
		NextRewardPerBlock: sdk.NewInt64DecCoin(denom, 0),
	}
}

type emptyOpts struct{}

func (emptyOpts) Get(string) interface{} { return nil }

// NewApp builds the application over db without initialising the chain.
func NewApp(db dbm.DB, loadLatest bool) (*saoapp.App, cosmoscmd.EncodingConfig) {
	SetPrefixes()
	enc := cosmoscmd.MakeEncodingConfig(saoapp.ModuleBasics)
	a := saoapp.New(log.NewNopLogger(), db, nil, loadLatest, map[int64]bool{}, "", 0, enc, emptyOpts{})
	return a.(*saoapp.App), enc
}

func BuildGenesis(app *saoapp.App, enc cosmoscmd.EncodingConfig, cfg GenesisCfg, accounts []*Account, vals []*Validator) saoapp.GenesisState {
	cdc := enc.Marshaler
	gs := saoapp.NewDefaultGenesisState(cdc)
	denom := cfg.Denom

	genAccs := make([]authtypes.GenesisAccount, 0)
	balances := make([]banktypes.Balance, 0)
	for i, a := range accounts {
		genAccs = append(genAccs, authtypes.NewBaseAccount(a.Addr, a.Priv.PubKey(), uint64(i), 0))
		balances = append(balances, banktypes.Balance{Address: a.Addr.String(), Coins: sdk.NewCoins(sdk.NewInt64Coin(denom, cfg.Funds))})
	}
	gs[authtypes.ModuleName] = cdc.MustMarshalJSON(authtypes.NewGenesisState(authtypes.DefaultParams(), genAccs))

	bondAmt := sdk.DefaultPowerReduction
	validators := make([]stakingtypes.Validator, 0)
	delegations := make([]stakingtypes.Delegation, 0)
	for _, v := range vals {
		pkAny, err := codectypes.NewAnyWithValue(v.Priv.PubKey())
		if err != nil {
			panic(err)
		}
		validators = append(validators, stakingtypes.Validator{
			OperatorAddress:   v.Addr.String(),
			ConsensusPubkey:   pkAny,
			Status:            stakingtypes.Bonded,
			Tokens:            bondAmt,
			DelegatorShares:   sdk.OneDec().MulInt(bondAmt),
			UnbondingTime:     time.Unix(0, 0).UTC(),
			Commission:        stakingtypes.NewCommission(sdk.ZeroDec(), sdk.ZeroDec(), sdk.ZeroDec()),
			MinSelfDelegation: sdk.ZeroInt(),
		})
		delegations = append(delegations, stakingtypes.NewDelegation(accounts[0].Addr, v.Addr, sdk.OneDec().MulInt(bondAmt)))
	}
	sp := stakingtypes.DefaultParams()
	sp.BondDenom = denom
	gs[stakingtypes.ModuleName] = cdc.MustMarshalJSON(stakingtypes.NewGenesisState(sp, validators, delegations))

	total := sdk.NewCoins()
	for _, b := range balances {
		total = total.Add(b.Coins...)
	}
	bonded := sdk.NewCoin(denom, bondAmt.MulRaw(int64(len(vals))))
	total = total.Add(bonded)
	balances = append(balances, banktypes.Balance{
		Address: authtypes.NewModuleAddress(stakingtypes.BondedPoolName).String(),
		Coins:   sdk.Coins{bonded},
	})
	gs[banktypes.ModuleName] = cdc.MustMarshalJSON(banktypes.NewGenesisState(banktypes.DefaultGenesisState().Params, balances, total, []banktypes.Metadata{}))

	ng := nodetypes.DefaultGenesis()
	if cfg.NodeParams != nil {
		ng.Params = *cfg.NodeParams
	} else {
		ng.Params = DefaultNodeParams(denom)
	}
	if cfg.Pool != nil {
		ng.Pool = cfg.Pool
	} else {
		p := DefaultPool(denom)
		ng.Pool = &p
	}
	gs[nodetypes.ModuleName] = cdc.MustMarshalJSON(ng)

	dg := didtypes.DefaultGenesis()
	if cfg.BuiltinDids != "" {
		dg.Params.BuiltinDid = cfg.BuiltinDids
	}
	gs[didtypes.ModuleName] = cdc.MustMarshalJSON(dg)

	for k, v := range cfg.Override {
		gs[k] = v
	}
	_ = cryptocodec.FromTmPubKeyInterface
	return gs
}

// TryNewChain builds the chain unless the application refuses the genesis parameters (the parameter store validates every
// value it is given and panics on an invalid one: a chain with such a genesis never starts). Any other panic is passed on.
func TryNewChain(cfg GenesisCfg) (c *Chain, rejected string) {
	defer func() {
		if r := recover(); r != nil {
			msg := fmt.Sprint(r)
			if strings.Contains(msg, "ParamSetPair is invalid") {
				c, rejected = nil, msg
				return
			}
			panic(r)
		}
	}()
	return NewChain(cfg), ""
}

func NewChain(cfg GenesisCfg) *Chain {
	if cfg.Denom == "" {
		cfg.Denom = Denom
	}
	if cfg.NumAccounts == 0 {
		cfg.NumAccounts = 12
	}
	if cfg.NumValidators == 0 {
		cfg.NumValidators = 2
	}
	if cfg.Funds == 0 {
		cfg.Funds = 1_000_000_000_000
	}
	db := cfg.DB
	if db == nil {
		db = dbm.NewMemDB()
	}
	app, enc := NewApp(db, true)
	c := &Chain{App: app, Cfg: cfg, enc: enc, DB: db}
	for i := 0; i < cfg.NumAccounts; i++ {
		c.Accounts = append(c.Accounts, MakeAccount(fmt.Sprintf("a%d", i)))
	}
	for i := 0; i < cfg.NumValidators; i++ {
		c.Vals = append(c.Vals, MakeValidator(i))
	}
	gs := BuildGenesis(app, enc, cfg, c.Accounts, c.Vals)
	if cfg.RawGenesis != nil {
		gs = cfg.RawGenesis
	}
	stateBytes, err := json.Marshal(gs)
	if err != nil {
		panic(err)
	}
	c.Time = time.Unix(1700000000, 0).UTC()
	app.InitChain(abci.RequestInitChain{
		ChainId:         ChainID,
		Time:            c.Time,
		Validators:      []abci.ValidatorUpdate{},
		ConsensusParams: simapp.DefaultConsensusParams,
		AppStateBytes:   stateBytes,
		InitialHeight:   cfg.InitialHeight,
	})
	c.Height = 1
	c.AppHash = []byte{}
	return c
}

// BlockTime of the current height: genesis time (= wall clock at start) plus 5 s per block.
func (c *Chain) BlockTime() time.Time { return c.Time.Add(time.Duration(c.Height) * 5 * time.Second) }

// Ctx returns a deliver-state context for the current height/seed (Mode K).
func (c *Chain) Ctx() sdk.Context {
	hdr := tmproto.Header{ChainID: ChainID, Height: c.Height, AppHash: c.AppHash, Time: c.BlockTime()}
	return c.App.BaseApp.NewContext(c.useCheck, hdr).WithBlockHeight(c.Height).WithIsCheckTx(false)
}

// Restart is a real crash-restart from the database: the working branch is flushed into the root
// multistore and committed, the application object (keepers, and whatever they cache in memory) is
// dropped, and a new application is opened over the same database with LoadLatestVersion. Package-level
// variables survive inside one process; the caller resets the known one through the verif hook, and the
// twin run executes in another process.
func (c *Chain) Restart() {
	ctx := c.Ctx()
	if cms, ok := ctx.MultiStore().(sdk.CacheMultiStore); ok {
		cms.Write()
	}
	c.App.CommitMultiStore().Commit()
	app, enc := NewApp(c.DB, true)
	c.App, c.enc = app, enc
	c.useCheck = true
	c.Restarts++
}
