package sim

import (
	"encoding/base64"
	"encoding/hex"
	"fmt"
	"math/big"
	"sort"
	"strings"

	didkey "github.com/SaoNetwork/sao-did/key"
	didkeeper "github.com/SaoNetwork/sao/x/did/keeper"
	didtypes "github.com/SaoNetwork/sao/x/did/types"
	markettypes "github.com/SaoNetwork/sao/x/market/types"
	modeltypes "github.com/SaoNetwork/sao/x/model/types"
	nodetypes "github.com/SaoNetwork/sao/x/node/types"
	ordertypes "github.com/SaoNetwork/sao/x/order/types"
	saotypes "github.com/SaoNetwork/sao/x/sao/types"
	"github.com/cosmos/cosmos-sdk/store/prefix"
	sdk "github.com/cosmos/cosmos-sdk/types"
	authtypes "github.com/cosmos/cosmos-sdk/x/auth/types"
	stakingtypes "github.com/cosmos/cosmos-sdk/x/staking/types"
)

// Interner maps strings to small stable integers (first-seen order). 0 is the empty string.
type Interner struct {
	ids   map[string]int
	names []string
}

func NewInterner() *Interner { return &Interner{ids: map[string]int{"": 0}, names: []string{""}} }

func (t *Interner) ID(s string) int {
	if id, ok := t.ids[s]; ok {
		return id
	}
	id := len(t.names)
	t.ids[s] = id
	t.names = append(t.names, s)
	return id
}
func (t *Interner) Name(id int) string {
	if id < 0 || id >= len(t.names) {
		return fmt.Sprintf("?%d", id)
	}
	return t.names[id]
}

type DidActor struct {
	Did      string
	Provider *didkey.Secp256k1Provider
	Secret   []byte
}

type World struct {
	C     *Chain
	Addr  *Interner // account addresses (bech32) incl. module accounts
	Val   *Interner // validator operator addresses
	Str   *Interner // opaque strings (cids, alias, group, tags, peers...)
	didID map[string]int
	didNm []string
	Dids  []*DidActor // did:key actor of account i
	Mods  map[string]string
	keyReg map[string][3]int
	sidTs  map[int]uint64
	simulating bool
	sidDoc     map[[2]int]string // (sid identity, key version) -> document id computed by the didupdate that introduced it
}

// RegKey registers the model alias key string of (owner, alias, group) so that the dump can
// decode `Model.Key` back into its components.
func (w *World) RegKey(owner, alias, group string) {
	w.keyReg[fmt.Sprintf("%s-%s-%s", owner, alias, group)] = [3]int{w.DidID(owner), w.Str.ID(alias), w.Str.ID(group)}
}

// EnvJSON is the static scenario description handed to the model.
func (w *World) EnvJSON() M {
	names := append([]string{}, w.Addr.names[1:]...)
	sort.Strings(names)
	rank := [][]int{}
	for i, n := range names {
		rank = append(rank, []int{w.Addr.ID(n), i})
	}
	type ab struct {
		id int
		b  []byte
	}
	var abs []ab
	for id := 1; id < len(w.Addr.names); id++ {
		if a, err := sdk.AccAddressFromBech32(w.Addr.names[id]); err == nil {
			abs = append(abs, ab{id, a})
		}
	}
	sort.Slice(abs, func(i, j int) bool { return string(abs[i].b) < string(abs[j].b) })
	rankB := [][]int{}
	for i, x := range abs {
		rankB = append(rankB, []int{x.id, i})
	}
	var vbs []ab
	for id := 1; id < len(w.Val.names); id++ {
		if a, err := sdk.ValAddressFromBech32(w.Val.names[id]); err == nil {
			vbs = append(vbs, ab{id, a})
		}
	}
	sort.Slice(vbs, func(i, j int) bool { return string(vbs[i].b) < string(vbs[j].b) })
	valRankB := [][]int{}
	for i, x := range vbs {
		valRankB = append(valRankB, []int{x.id, i})
	}
	return M{"modBonded": w.Addr.ID(w.Mods[stakingtypes.BondedPoolName]), "modNotBonded": w.Addr.ID(w.Mods[stakingtypes.NotBondedPoolName]),
		"rankB": rankB, "valRankB": valRankB,
		"modOrder": w.Addr.ID(w.Mods[ordertypes.ModuleName]), "modMarket": w.Addr.ID(w.Mods[markettypes.ModuleName]),
		"modNode": w.Addr.ID(w.Mods[nodetypes.ModuleName]), "modDid": w.Addr.ID(w.Mods[didtypes.ModuleName]), "rank": rank, "chainOk": true}
}

var ModuleNames = []string{ordertypes.ModuleName, markettypes.ModuleName, nodetypes.ModuleName, didtypes.ModuleName,
	stakingtypes.BondedPoolName, stakingtypes.NotBondedPoolName}

func NewWorld(c *Chain) *World {
	w := &World{C: c, Addr: NewInterner(), Val: NewInterner(), Str: NewInterner(), didID: map[string]int{"": 0}, didNm: []string{""}, Mods: map[string]string{}, keyReg: map[string][3]int{}}
	for _, a := range c.Accounts {
		w.Addr.ID(a.Addr.String())
	}
	for _, m := range ModuleNames {
		ad := authtypes.NewModuleAddress(m).String()
		w.Mods[m] = ad
		w.Addr.ID(ad)
	}
	for _, v := range c.Vals {
		w.Val.ID(v.Addr.String())
	}
	for _, a := range c.Accounts {
		secret := []byte("saoverif-did-" + a.Name)
		p, err := didkey.NewSecp256k1Provider(secret)
		if err != nil {
			panic(err)
		}
		// recover did string by signing an empty payload and reading the kid
		jws, err := p.CreateJWS([]byte("x"))
		if err != nil {
			panic(err)
		}
		kid, _ := jws.Signatures[0].GetKid()
		did := strings.Split(kid, "#")[0]
		w.Dids = append(w.Dids, &DidActor{Did: did, Provider: p, Secret: secret})
		w.DidID(did)
	}
	return w
}

// DidID encodes a DID as 3*k+method (method 1=key, 2=sid, 0=other), 0 for "".
func (w *World) DidID(s string) int {
	if id, ok := w.didID[s]; ok {
		return id
	}
	m := 0
	if strings.HasPrefix(s, "did:key:") {
		m = 1
	} else if strings.HasPrefix(s, "did:sid:") {
		m = 2
	}
	k := len(w.didNm)
	id := 3*k + m
	w.didID[s] = id
	w.didNm = append(w.didNm, s)
	return id
}

func (w *World) DidName(id int) string {
	k := id / 3
	if id == 0 {
		return ""
	}
	if k < len(w.didNm) {
		return w.didNm[k]
	}
	return fmt.Sprintf("did:other:%d", id)
}

type num = jsonNum

type jsonNum string

func (n jsonNum) MarshalJSON() ([]byte, error) { return []byte(n), nil }

func bigN(i *big.Int) jsonNum { return jsonNum(i.String()) }
func intN(i sdk.Int) jsonNum {
	if i.IsNil() {
		return "0"
	}
	return jsonNum(i.String())
}
func decN(d sdk.Dec) jsonNum {
	if d.IsNil() {
		return "0"
	}
	return jsonNum(d.BigInt().String())
}
func coinN(c sdk.Coin) jsonNum     { return intN(c.Amount) }
func dcoinN(c sdk.DecCoin) jsonNum { return decN(c.Amount) }

type M = map[string]interface{}

func (w *World) addrs(l []string) []int {
	r := make([]int, 0, len(l))
	for _, s := range l {
		r = append(r, w.Addr.ID(s))
	}
	return r
}
func (w *World) dids(l []string) []int {
	r := make([]int, 0, len(l))
	for _, s := range l {
		r = append(r, w.DidID(s))
	}
	return r
}
func (w *World) strs(l []string) []int {
	r := make([]int, 0, len(l))
	for _, s := range l {
		r = append(r, w.Str.ID(s))
	}
	return r
}

// bs renders a string as its byte values (the model works on byte lists).
func bs(s string) []int {
	r := make([]int, 0, len(s))
	for i := 0; i < len(s); i++ {
		r = append(r, int(s[i]))
	}
	return r
}
func bsl(l []string) [][]int {
	r := make([][]int, 0, len(l))
	for _, s := range l {
		r = append(r, bs(s))
	}
	return r
}

func u64s(l []uint64) []uint64 {
	if l == nil {
		return []uint64{}
	}
	return l
}

func strsOrEmpty(l []string) []string {
	if l == nil {
		return []string{}
	}
	return l
}

// checkDenom records any coin whose denomination is not the scenario denomination.
func (w *World) denomOK(d string, where string, bad *[]string) {
	if d != w.C.Cfg.Denom {
		*bad = append(*bad, where+":"+d)
	}
}

// Dump produces the canonical abstract state (DESIGN §5.3).
func (w *World) Dump(ctx sdk.Context) M {
	app := w.C.App
	st := M{}
	bad := []string{}
	st["h"] = ctx.BlockHeight()
	st["seed"] = bigN(new(big.Int).SetBytes(ctx.BlockHeader().AppHash))

	// bank
	bank := [][]interface{}{}
	for id := 1; id < len(w.Addr.names); id++ {
		ad, err := sdk.AccAddressFromBech32(w.Addr.names[id])
		if err != nil {
			continue
		}
		bal := app.BankKeeper.GetAllBalances(ctx, ad)
		amt := sdk.ZeroInt()
		for _, c := range bal {
			if c.Denom == w.C.Cfg.Denom {
				amt = c.Amount
			} else if !c.IsZero() {
				bad = append(bad, "bank:"+c.Denom)
			}
		}
		if !amt.IsZero() {
			bank = append(bank, []interface{}{id, intN(amt)})
		}
	}
	st["bank"] = bank
	st["supply"] = intN(app.BankKeeper.GetSupply(ctx, w.C.Cfg.Denom).Amount)

	// orders
	orders := []M{}
	for _, o := range app.OrderKeeper.GetAllOrder(ctx) {
		w.denomOK(o.Amount.Denom, "order.amount", &bad)
		orders = append(orders, M{
			"id": o.Id, "creator": w.Addr.ID(o.Creator), "owner": w.DidID(o.Owner), "provider": w.Addr.ID(o.Provider),
			"cid": w.Str.ID(o.Cid), "duration": o.Duration, "status": o.Status, "replica": o.Replica, "shards": u64s(o.Shards),
			"amount": coinN(o.Amount), "size": o.Size_, "operation": o.Operation, "createdAt": o.CreatedAt, "timeout": o.Timeout,
			"dataId": bs(o.DataId), "commit": bs(o.Commit), "unitPrice": dcoinN(o.UnitPrice), "paymentDid": w.DidID(o.PaymentDid),
		})
	}
	st["orders"] = orders
	{
		// raw order count (None ⇒ GetOrderCount returns 1)
		store := ctx.KVStore(app.GetKey(ordertypes.StoreKey))
		bz := store.Get([]byte(ordertypes.OrderCountKey))
		if bz == nil {
			st["orderCount"] = nil
		} else {
			st["orderCount"] = sdk.BigEndianToUint64(bz)
		}
	}
	shards := []M{}
	for _, s := range app.OrderKeeper.GetAllShard(ctx) {
		ri := []M{}
		for _, r := range s.RenewInfos {
			ri = append(ri, M{"orderId": r.OrderId, "pledge": coinN(r.Pledge), "duration": r.Duration})
		}
		shards = append(shards, M{
			"id": s.Id, "orderId": s.OrderId, "status": s.Status, "size": s.Size_, "cid": w.Str.ID(s.Cid), "pledge": coinN(s.Pledge),
			"from": w.Addr.ID(s.From), "sp": w.Addr.ID(s.Sp), "duration": s.Duration, "createdAt": s.CreatedAt, "renewInfos": ri,
		})
	}
	st["shards"] = shards
	st["shardCount"] = app.OrderKeeper.GetShardCount(ctx)

	// model
	metas := []M{}
	for _, m := range app.ModelKeeper.GetAllMetadata(ctx) {
		w.RegKey(m.Owner, m.Alias, m.GroupId)
		metas = append(metas, M{
			"dataId": bs(m.DataId), "owner": w.DidID(m.Owner), "alias": w.Str.ID(m.Alias), "groupId": w.Str.ID(m.GroupId), "orderId": m.OrderId,
			"tags": w.strs(m.Tags), "cid": w.Str.ID(m.Cid), "commits": bsl(m.Commits), "extendInfo": w.Str.ID(m.ExtendInfo),
			"update": m.Update, "commit": bs(m.Commit), "rule": w.Str.ID(m.Rule), "duration": m.Duration, "createdAt": m.CreatedAt,
			"readonlyDids": w.dids(m.ReadonlyDids), "readwriteDids": w.dids(m.ReadwriteDids), "status": m.Status, "orders": u64s(m.Orders),
		})
	}
	st["metas"] = metas
	models := []M{}
	for _, m := range app.ModelKeeper.GetAllModel(ctx) {
		k, ok := w.keyReg[m.Key]
		if !ok {
			bad = append(bad, "unknown-model-key:"+m.Key)
			continue
		}
		models = append(models, M{"key": M{"owner": k[0], "alias": k[1], "groupId": k[2]}, "data": bs(m.Data)})
	}
	st["models"] = models
	ed := [][]interface{}{}
	for _, e := range app.ModelKeeper.GetAllExpiredData(ctx) {
		ed = append(ed, []interface{}{e.Height, bsl(e.Data)})
	}
	st["expiredData"] = ed

	// sao schedules
	tq := [][]interface{}{}
	for _, e := range app.SaoKeeper.GetAllTimeoutOrder(ctx) {
		tq = append(tq, []interface{}{e.Height, u64s(e.OrderList)})
	}
	st["timeoutQ"] = tq
	eq := [][]interface{}{}
	for _, e := range app.SaoKeeper.GetAllExpiredShard(ctx) {
		eq = append(eq, []interface{}{e.Height, u64s(e.ShardList)})
	}
	st["expiredShardQ"] = eq

	// node
	nodes := []M{}
	for _, n := range app.NodeKeeper.GetAllNode(ctx) {
		rep := float64(n.Reputation)
		repI := int64(rep)
		if float64(repI) != rep {
			bad = append(bad, fmt.Sprintf("reputation-not-integer:%v", rep))
		}
		desc := 0
		if n.Description != nil {
			desc = w.Str.ID(n.Description.String())
		}
		nodes = append(nodes, M{
			"creator": w.Addr.ID(n.Creator), "peer": w.Str.ID(n.Peer), "reputation": repI, "status": n.Status, "lastAlive": n.LastAliveHeight,
			"txAddresses": w.addrs(n.TxAddresses), "role": n.Role, "validator": w.Val.ID(n.Validator), "desc": desc,
		})
	}
	st["nodes"] = nodes
	if r, found := app.NodeKeeper.GetNodeRound(ctx); found {
		st["nodeRound"] = r
	} else {
		st["nodeRound"] = nil
	}
	pledges := []M{}
	for _, p := range app.NodeKeeper.GetAllPledge(ctx) {
		w.denomOK(p.TotalStoragePledged.Denom, "pledge.tsp", &bad)
		pledges = append(pledges, M{
			"creator": w.Addr.ID(p.Creator), "totalStoragePledged": coinN(p.TotalStoragePledged), "totalShardPledged": coinN(p.TotalShardPledged),
			"reward": dcoinN(p.Reward), "rewardDebt": dcoinN(p.RewardDebt), "totalStorage": p.TotalStorage, "usedStorage": p.UsedStorage,
		})
	}
	st["pledges"] = pledges
	debts := [][]interface{}{}
	for _, d := range app.NodeKeeper.GetAllPledgeDebt(ctx) {
		debts = append(debts, []interface{}{w.Addr.ID(d.Sp), coinN(d.Debt)})
	}
	st["debts"] = debts
	if p, found := app.NodeKeeper.GetPool(ctx); found {
		st["pool"] = M{
			"totalPledged": coinN(p.TotalPledged), "totalReward": coinN(p.TotalReward), "accPledgePerByte": dcoinN(p.AccPledgePerByte),
			"accRewardPerByte": dcoinN(p.AccRewardPerByte), "rewardPerBlock": dcoinN(p.RewardPerBlock), "nextRewardPerBlock": dcoinN(p.NextRewardPerBlock),
			"totalStorage": p.TotalStorage, "rewardedBlockCount": p.RewardedBlockCount,
			"totalRewardIsSao": p.TotalReward.Denom == "sao",
		}
	} else {
		st["pool"] = nil
	}
	{
		p := app.NodeKeeper.GetParams(ctx)
		// the fishmen list is read from the parameter store itself (chain state), not through the keeper's getter: the
		// getter is code under test, and the list is the one parameter a modelled operation (govfishmen) changes
		fishInfo := p.FishmenInfo
		if sub, found := app.ParamsKeeper.GetSubspace(nodetypes.ModuleName); found && sub.Has(ctx, nodetypes.KeyFishmenInfo) {
			sub.Get(ctx, nodetypes.KeyFishmenInfo, &fishInfo)
		}
		fish := []int{}
		for _, f := range strings.Split(fishInfo, ",") {
			if f != "" {
				fish = append(fish, w.Addr.ID(f))
			}
		}
		st["params"] = ParamsJSON(p, app.NodeKeeper.ShareThreshold(ctx), fish)
	}
	// faults: raw iteration of the three getter-less prefixes
	{
		ns := ctx.KVStore(app.GetKey(nodetypes.StoreKey))
		byId := []M{}
		it := sdk.KVStorePrefixIterator(prefix.NewStore(ns, []byte(nodetypes.FaultIdKeyPrefix)), []byte{})
		for ; it.Valid(); it.Next() {
			var f nodetypes.Fault
			if err := app.AppCodec().Unmarshal(it.Value(), &f); err != nil {
				byId = append(byId, M{"rawKey": hex.EncodeToString(it.Key()), "undecodable": true})
				continue
			}
			byId = append(byId, w.faultM(&f, string(it.Key())))
		}
		it.Close()
		st["faults"] = byId
		idx := []M{}
		it = sdk.KVStorePrefixIterator(prefix.NewStore(ns, []byte(nodetypes.FaultKeyPrefix)), []byte{})
		for ; it.Valid(); it.Next() {
			k := it.Key()
			// key = provider bytes ++ 8 byte shard id ++ "/"   (or, after DoPenalty's store mix-up, a node key)
			if len(k) >= 10 && k[len(k)-1] == '/' {
				prov := string(k[:len(k)-9])
				if _, err := sdk.AccAddressFromBech32(prov); err == nil {
					idx = append(idx, M{"provider": w.Addr.ID(prov), "shardId": sdk.BigEndianToUint64(k[len(k)-9 : len(k)-1]), "faultId": w.Str.ID(string(it.Value()))})
					continue
				}
			}
			idx = append(idx, M{"rawKey": hex.EncodeToString(k), "rawVal": hex.EncodeToString(it.Value())})
		}
		it.Close()
		st["faultIdx"] = idx
		fr := [][]interface{}{}
		it = sdk.KVStorePrefixIterator(prefix.NewStore(ns, []byte(nodetypes.FishingRewardKey)), []byte{})
		for ; it.Valid(); it.Next() {
			d, err := sdk.NewDecFromStr(string(it.Value()))
			if err != nil {
				fr = append(fr, []interface{}{[]int{2, w.Str.ID(hex.EncodeToString(it.Key()))}, "0"})
				bad = append(bad, "fishing-undecodable")
				continue
			}
			k := string(it.Key())
			if _, err := sdk.AccAddressFromBech32(k); err == nil {
				fr = append(fr, []interface{}{[]int{0, w.Addr.ID(k)}, decN(d)})
			} else {
				fr = append(fr, []interface{}{[]int{1, w.Str.ID(k)}, decN(d)})
			}
		}
		it.Close()
		st["fishing"] = fr
	}

	// market
	workers := []M{}
	for _, wk := range app.MarketKeeper.GetAllWorker(ctx) {
		name := wk.Workername
		sp := strings.TrimPrefix(name, w.C.Cfg.Denom+"-")
		if sp == name {
			bad = append(bad, "worker-denom:"+name)
		}
		workers = append(workers, M{"sp": w.Addr.ID(sp), "storage": wk.Storage, "reward": dcoinN(wk.Reward), "incomePerSecond": dcoinN(wk.IncomePerSecond), "lastRewardAt": wk.LastRewardAt})
	}
	st["workers"] = workers

	// did
	did := M{}
	{
		k := app.DidKeeper
		dl := []M{}
		l := [][]interface{}{}
		for _, e := range k.GetAllDid(ctx) {
			addr := 0
			if c := strings.Split(e.AccountId, ":"); len(c) == 3 && c[0] == "cosmos" && c[1] == ChainID {
				addr = w.Addr.ID(c[2])
			}
			dl = append(dl, M{"accountId": bs(e.AccountId), "did": w.DidID(e.Did), "addr": addr})
		}
		did["did"] = dl
		l = [][]interface{}{}
		for _, e := range k.GetAllAccountList(ctx) {
			l = append(l, []interface{}{w.DidID(e.Did), bsl(e.AccountDids)})
		}
		did["accountList"] = l
		l = [][]interface{}{}
		for _, e := range k.GetAllAccountAuth(ctx) {
			l = append(l, []interface{}{bs(e.AccountDid), w.Str.ID(e.AccountEncryptedSeed + "|" + e.SidEncryptedAccount)})
		}
		did["accountAuth"] = l
		l = [][]interface{}{}
		for _, e := range k.GetAllAccountId(ctx) {
			l = append(l, []interface{}{bs(e.AccountDid), bs(e.AccountId)})
		}
		did["accountId"] = l
		l = [][]interface{}{}
		for _, e := range k.GetAllPaymentAddress(ctx) {
			l = append(l, []interface{}{w.DidID(e.Did), w.Addr.ID(e.Address)})
		}
		did["paymentAddress"] = l
		l = [][]interface{}{}
		for _, e := range k.GetAllKid(ctx) {
			l = append(l, []interface{}{w.Addr.ID(e.Address), w.DidID(e.Kid)})
		}
		did["kid"] = l
		l = [][]interface{}{}
		for _, e := range k.GetAllSidDocument(ctx) {
			ks := []string{}
			for _, pk := range e.Keys {
				ks = append(ks, pk.Name+"="+pk.Value)
			}
			l = append(l, []interface{}{bs(e.VersionId), w.Str.ID(strings.Join(ks, ","))})
		}
		did["sidDocument"] = l
		l = [][]interface{}{}
		for _, e := range k.GetAllSidDocumentVersion(ctx) {
			l = append(l, []interface{}{bs(e.DocId), bsl(e.VersionList)})
		}
		did["sidDocumentVersion"] = l
		l = [][]interface{}{}
		for _, e := range k.GetAllPastSeeds(ctx) {
			l = append(l, []interface{}{w.DidID(e.Did), bsl(e.Seeds)})
		}
		did["pastSeeds"] = l
		l = [][]interface{}{}
		for _, e := range k.GetAllDidBalances(ctx) {
			l = append(l, []interface{}{w.DidID(e.Did), coinN(e.Balance)})
		}
		did["didBalances"] = l
	}
	st["did"] = did

	// staking view
	{
		vals := []M{}
		for _, v := range app.StakingKeeper.GetAllValidators(ctx) {
			vals = append(vals, M{"addr": w.Val.ID(v.OperatorAddress), "tokens": intN(v.Tokens), "shares": decN(v.DelegatorShares), "status": int(v.Status)})
		}
		sort.Slice(vals, func(i, j int) bool { return vals[i]["addr"].(int) < vals[j]["addr"].(int) })
		dels := []M{}
		for _, d := range app.StakingKeeper.GetAllDelegations(ctx) {
			dels = append(dels, M{"del": w.Addr.ID(d.DelegatorAddress), "val": w.Val.ID(d.ValidatorAddress), "shares": decN(d.Shares)})
		}
		// pending unbonding entries per (delegator, validator): x/staking rejects an Undelegate beyond MaxEntries
		ubds := []M{}
		app.StakingKeeper.IterateUnbondingDelegations(ctx, func(_ int64, u stakingtypes.UnbondingDelegation) bool {
			ubds = append(ubds, M{"del": w.Addr.ID(u.DelegatorAddress), "val": w.Val.ID(u.ValidatorAddress), "entries": len(u.Entries)})
			return false
		})
		sort.Slice(ubds, func(i, j int) bool {
			if ubds[i]["del"].(int) != ubds[j]["del"].(int) {
				return ubds[i]["del"].(int) < ubds[j]["del"].(int)
			}
			return ubds[i]["val"].(int) < ubds[j]["val"].(int)
		})
		// pending redelegation entries per (delegator, source, destination): x/staking refuses transitive redelegations and
		// more than MaxEntries per triple
		reds := []M{}
		app.StakingKeeper.IterateRedelegations(ctx, func(_ int64, r stakingtypes.Redelegation) bool {
			reds = append(reds, M{"del": w.Addr.ID(r.DelegatorAddress), "src": w.Val.ID(r.ValidatorSrcAddress), "dst": w.Val.ID(r.ValidatorDstAddress), "entries": len(r.Entries)})
			return false
		})
		sort.Slice(reds, func(i, j int) bool {
			for _, k := range []string{"del", "src", "dst"} {
				if reds[i][k].(int) != reds[j][k].(int) {
					return reds[i][k].(int) < reds[j][k].(int)
				}
			}
			return false
		})
		st["staking"] = M{"validators": vals, "delegations": dels, "unbonding": ubds, "redelegations": reds}
	}
	st["global"] = decN(nodeGlobal())
	if len(bad) > 0 {
		st["bad"] = bad
	}
	return st
}

func (w *World) faultM(f *nodetypes.Fault, key string) M {
	return M{"key": w.Str.ID(key), "dataId": bs(f.DataId), "orderId": f.OrderId, "shardId": f.ShardId, "commitId": bs(f.CommitId),
		"provider": w.Addr.ID(f.Provider), "reporter": w.Addr.ID(f.Reporter), "faultId": w.Str.ID(f.FaultId), "status": f.Status,
		"penalty": f.Penalty, "confirms": w.confirms(f.Confirms)}
}

var _ = base64.StdEncoding
var _ = didkeeper.CalculateDocId
var _ = modeltypes.MetaNew
var _ = saotypes.ModuleName

// confirms parses "+addr|+addr|-addr" into [[sign, addrId]...]; an unparsable item becomes [0, strId].
func (w *World) confirms(s string) [][]int {
	r := [][]int{}
	if s == "" {
		return r
	}
	for _, it := range strings.Split(s, "|") {
		if strings.HasPrefix(it, "+") {
			r = append(r, []int{1, w.Addr.ID(it[1:])})
		} else if strings.HasPrefix(it, "-") {
			r = append(r, []int{-1, w.Addr.ID(it[1:])})
		} else {
			r = append(r, []int{0, w.Addr.ID(it)})
		}
	}
	return r
}

// ParamsJSON is the model's view of the node parameters (also used for a genesis the application refused: the driver
// compares the model's validation with that refusal).
func ParamsJSON(p nodetypes.Params, shareThreshold sdk.Dec, fish []int) M {
	apy, err := sdk.NewDecFromStr(p.AnnualPercentageYield)
	apyN := jsonNum("0")
	if err == nil {
		apyN = decN(apy)
	}
	if fish == nil {
		fish = []int{}
	}
	br, bl := jsonNum("0"), jsonNum("0")
	if !p.BlockReward.Amount.IsNil() {
		br = coinN(p.BlockReward)
	}
	if !p.Baseline.Amount.IsNil() {
		bl = coinN(p.Baseline)
	}
	st := jsonNum("0")
	if !shareThreshold.IsNil() {
		st = decN(shareThreshold)
	}
	return M{
		"blockReward": br, "baseline": bl, "apy": apyN, "apyOk": err == nil,
		"halvingPeriod": p.HalvingPeriod, "adjustmentPeriod": p.AdjustmentPeriod, "fishmen": fish,
		"penaltyBase": p.PenaltyBase, "maxPenalty": p.MaxPenalty, "shareThreshold": st,
		"vstorageThreshold": p.VstorageThreshold, "offlineTriggerHeight": p.OfflineTriggerHeight,
		"denomIsSao": p.BlockReward.Denom == "sao",
	}
}
