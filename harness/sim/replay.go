package sim

import (
	sdk "github.com/cosmos/cosmos-sdk/types"
	"bufio"
	"bytes"
	"encoding/json"
	"fmt"
	"io"
	"os"
	"os/exec"
	"sync"
)

// GenesisForProfile selects the genesis configuration of a generator profile.
func GenesisForProfile(profile string, hs uint64) GenesisCfg {
	SetPrefixes()
	cfg := GenesisCfg{}
	if profile == "reward" {
		// parameter sets over reward / baseline / APY / halving / adjustment periods and the amount
		// already minted (halving age), all accepted by Params.Validate. The APY is placed so that
		// the baseline formula pledged*apy/(halving/2) lands around the block reward of the current
		// halving age for the pledge total the scenario starts with (10 coins per node).
		r := NewRng(hs ^ 0x5eed)
		n := int64(3 + NewRng(hs).Intn(4)) // number of nodes the generator will create
		p := DefaultNodeParams(Denom)
		br := []int64{1000, 6250000, 100, 1 << 40, 97, 64}[r.Intn(6)]
		p.BlockReward = sdk.NewInt64Coin(Denom, br)
		p.Baseline = sdk.NewInt64Coin(Denom, []int64{1000000, 1000000, 1000, 25, 0}[r.Intn(5)])
		p.HalvingPeriod = []int64{11, 12, 1000, 32000000}[r.Intn(4)]
		p.AdjustmentPeriod = []int64{11, 13, 2000}[r.Intn(3)]
		age := uint(r.Intn(4))
		minted := []int64{0, 200000000000000, 300000000000000, 350000000000000}[age]
		if r.Chance(30) {
			minted += []int64{-1000, 1000, 99999999999000}[r.Intn(3)]
			if minted < 0 {
				minted = 0
			}
		}
		halved := br >> age
		if halved == 0 {
			halved = 1
		}
		rho := []int64{5, 9, 10, 13, 19, 25, 50, 0}[r.Intn(8)] // tenths of the halved reward
		apy := sdk.NewDec(halved).MulInt64(p.HalvingPeriod / 2).MulInt64(rho).QuoInt64(10 * 10 * n)
		// (drawn last, so that the configurations of earlier histories stay what they were) values that used to pass
		// Params.Validate although the begin-blocker cannot mint them: a negative yield is a decimal string too, and a coin
		// with a negative amount decodes from a genesis file. Since the fix of F23 the parameter store refuses both.
		if r.Chance(12) {
			apy = apy.Neg()
		}
		if r.Chance(6) {
			p.BlockReward = sdk.Coin{Denom: Denom, Amount: sdk.NewInt(-br)}
		}
		p.AnnualPercentageYield = apy.String()
		// (drawn after everything else, for the same reason) periods at and below the floor of Params.Validate: a halving
		// period of 1 makes the baseline formula divide by zero, so the floor (> 10) is what keeps the begin-blocker total;
		// these genesis files are refused (no chain) as long as the floor stands
		// (their own stream: the configurations that committed replays name by history number stay what they were)
		// one history in eight is given over to this
		if r2 := NewStreamRng(hs ^ 0x9e710d); hs%8 == 5 {
			if r2.Chance(65) {
				p.HalvingPeriod = []int64{1, 2, 10}[r2.Intn(3)]
			} else {
				p.AdjustmentPeriod = []int64{1, 10}[r2.Intn(2)]
			}
		}
		cfg.NodeParams = &p
		pool := DefaultPool(Denom)
		pool.TotalReward = sdk.NewInt64Coin(Denom, minted)
		cfg.Pool = &pool
	}
	if profile == "lifecycle" && hs%2 == 1 {
		// half of the lifecycle histories run with block rewards on: providers that owe collateral
		// (debts from renewal top-ups they could not fund) then have rewards to claim
		p := DefaultNodeParams(Denom)
		p.BlockReward = sdk.NewInt64Coin(Denom, []int64{40, 700, 9000}[NewRng(hs^0xa11).Intn(3)])
		p.Baseline = sdk.NewInt64Coin(Denom, 0)
		cfg.NodeParams = &p
	}
	if profile == "staking" && hs%4 == 3 {
		// a quarter of the staking histories run with the capacity threshold of the super role configured above its
		// 10 GiB default (the generator scales pledges and withdrawals accordingly)
		p := DefaultNodeParams(Denom)
		p.VstorageThreshold = 20 << 30
		cfg.NodeParams = &p
	}
	if profile == "faults" || profile == "genesis" {
		p := DefaultNodeParams(Denom)
		p.FishmenInfo = MakeAccount("a1").Addr.String() + "," + MakeAccount("a2").Addr.String()
		cfg.NodeParams = &p
	}
	return cfg
}

// Replay re-executes the raw ops recorded in a trace (or a replay file holding
// {"profile":..,"hist":..,"ops":[raw ops]}) on the current tree and prints the fresh trace.
func Replay(path string, out io.Writer) int { return ReplayOpt(path, out, false) }

// ReplayOpt replays every history of a trace; with restarts the application is committed, dropped and
// re-opened from its database after every operation and the package-level state is reset (crash + restart).
func ReplayOpt(path string, out io.Writer, restarts bool) int {
	f, err := os.Open(path)
	if err != nil {
		panic(err)
	}
	defer f.Close()
	type line struct {
		Genesis json.RawMessage `json:"genesis"`
		Hist    uint64          `json:"hist"`
		Profile string          `json:"profile"`
		Raw     *Op             `json:"raw"`
		Ops     []Op            `json:"ops"`
	}
	type hist struct {
		profile string
		id      uint64
		ops     []Op
	}
	var hs []*hist
	if whole, err := os.ReadFile(path); err == nil {
		var l line
		if json.Unmarshal(whole, &l) == nil && len(l.Ops) > 0 {
			p := l.Profile
			if p == "" {
				p = "main"
			}
			hs = append(hs, &hist{profile: p, id: l.Hist, ops: l.Ops})
		}
	}
	if len(hs) == 0 {
		sc := bufio.NewScanner(f)
		sc.Buffer(make([]byte, 1<<20), 1<<28)
		for sc.Scan() {
			var l line
			if err := json.Unmarshal(sc.Bytes(), &l); err != nil {
				continue
			}
			if l.Genesis != nil {
				p := l.Profile
				if p == "" {
					p = "main"
				}
				hs = append(hs, &hist{profile: p, id: l.Hist})
				continue
			}
			if l.Raw != nil && len(hs) > 0 {
				hs[len(hs)-1].ops = append(hs[len(hs)-1].ops, *l.Raw)
			}
		}
	}
	wr := bufio.NewWriterSize(out, 1<<20)
	defer wr.Flush()
	enc := json.NewEncoder(wr)
	for _, h := range hs {
		resetGlobals()
		c, rejected := TryNewChain(GenesisForProfile(h.profile, h.id))
		if rejected != "" {
			continue // the application refuses this genesis: no chain, no history
		}
		w := NewWorld(c)
		enc.Encode(M{"genesis": M{"env": w.EnvJSON(), "state": w.Dump(w.C.Ctx())}, "hist": h.id, "profile": h.profile})
		for i := range h.ops {
			// (the twin executes `sim` ops too, so that both runs intern strings in the same order; the
			// restart that follows drops whatever the non-consensus call left in process memory, which
			// makes the twin a replica that never served it)
			res, o := w.Exec(&h.ops[i])
			if restarts && res.Res != "panic" && res.Res != "hang" {
				w.Restart()
			}
			enc.Encode(M{"i": i, "op": o, "res": res, "state": w.Dump(w.C.Ctx()), "raw": h.ops[i]})
			if res.Res == "hang" {
				wr.Flush()
				os.Exit(0)
			}
			if res.Res == "panic" {
				break
			}
		}
	}
	return 0
}

// Twin replays `trace` with a restart after every operation (child process) and compares the
// state after every step with the original run, ignoring the package variable itself.
func Twin(self string, trace string, out io.Writer) int {
	// one child process per history, in parallel: the trace is split at its genesis lines
	var parts [][]byte
	{
		f, err := os.Open(trace)
		if err != nil {
			panic(err)
		}
		sc := bufio.NewScanner(f)
		sc.Buffer(make([]byte, 1<<20), 1<<28)
		for sc.Scan() {
			line := sc.Bytes()
			if bytes.HasPrefix(line, []byte(`{"genesis"`)) || len(parts) == 0 {
				parts = append(parts, nil)
			}
			parts[len(parts)-1] = append(append(parts[len(parts)-1], line...), '\n')
		}
		f.Close()
	}
	outs := make([][]byte, len(parts))
	errs := make([]error, len(parts))
	var wg sync.WaitGroup
	sem := make(chan struct{}, 16)
	for i := range parts {
		wg.Add(1)
		go func(i int) {
			defer wg.Done()
			sem <- struct{}{}
			defer func() { <-sem }()
			tmp, err := os.CreateTemp("", "twin-part-*.jsonl")
			if err != nil {
				errs[i] = err
				return
			}
			tmp.Write(parts[i])
			tmp.Close()
			defer os.Remove(tmp.Name())
			cmd := exec.Command(self, "-replay", tmp.Name(), "-restarts")
			cmd.Stderr = os.Stderr
			outs[i], errs[i] = cmd.Output()
		}(i)
	}
	wg.Wait()
	var b []byte
	var err error
	for i := range parts {
		if errs[i] != nil {
			err = errs[i]
		}
		b = append(b, outs[i]...)
	}
	read := func(r io.Reader) [][]byte {
		var ls [][]byte
		sc := bufio.NewScanner(r)
		sc.Buffer(make([]byte, 1<<20), 1<<28)
		for sc.Scan() {
			ls = append(ls, append([]byte{}, sc.Bytes()...))
		}
		return ls
	}
	f, err := os.Open(trace)
	if err != nil {
		panic(err)
	}
	defer f.Close()
	a := read(f)
	bb := read(bytes.NewReader(b))
	type line struct {
		Genesis json.RawMessage        `json:"genesis"`
		Hist    uint64                 `json:"hist"`
		I       int                    `json:"i"`
		Op      map[string]interface{} `json:"op"`
		Res     map[string]interface{} `json:"res"`
		State   map[string]interface{} `json:"state"`
	}
	n, div, steps := len(a), 0, 0
	if len(bb) < n {
		n = len(bb)
	}
	var hist uint64
	skip := false
	prevGlobal := "0"
	for i := 0; i < n; i++ {
		var x, y line
		json.Unmarshal(a[i], &x)
		json.Unmarshal(bb[i], &y)
		if x.Genesis != nil {
			hist = x.Hist
			skip = false
			prevGlobal = "0"
			continue
		}
		if skip {
			continue
		}
		steps++
		pg := prevGlobal
		prevGlobal = fmt.Sprint(x.State["global"])
		delete(x.State, "global")
		delete(y.State, "global")
		xs, _ := json.Marshal(x.State)
		ys, _ := json.Marshal(y.State)
		sameResp := fmt.Sprint(x.Res["res"]) == fmt.Sprint(y.Res["res"]) && fmt.Sprint(x.Res["gas"]) == fmt.Sprint(y.Res["gas"]) && fmt.Sprint(x.Res["ev"]) == fmt.Sprint(y.Res["ev"])
		if fmt.Sprint(x.Op["k"]) == "sim" {
			sameResp = true // not a consensus result
		}
		if string(xs) != string(ys) || !sameResp {
			fields := []string{}
			if fmt.Sprint(x.Res["gas"]) != fmt.Sprint(y.Res["gas"]) {
				fields = append(fields, "gas")
			}
			if fmt.Sprint(x.Res["ev"]) != fmt.Sprint(y.Res["ev"]) {
				fields = append(fields, "events")
			}
			for k, v := range x.State {
				vb, _ := json.Marshal(v)
				wb, _ := json.Marshal(y.State[k])
				if string(vb) != string(wb) {
					fields = append(fields, k)
				}
			}
			cls := "none"
			if pg != "0" && (fmt.Sprint(x.Op["k"]) == "delegate" || fmt.Sprint(x.Op["k"]) == "undelegate" || fmt.Sprint(x.Op["k"]) == "redelegate") {
				// the known class: the residue is consumed by the next staking hook
				cls = "stale-global"
			}
			fmt.Fprintf(out, "MONITOR hist=%d i=%d op=%v prop=C03 clause=twinDivergence cls=%s fields=%v res=%v/%v\n", hist, x.I, x.Op["k"], cls, fields, x.Res["res"], y.Res["res"])
			div++
			skip = true // later steps of this history follow from the first divergence
		}
	}
	fmt.Fprintf(out, "TWIN-SUMMARY steps=%d divergences=%d\n", steps, div)
	return 0
}
