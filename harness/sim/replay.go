package sim

import (
	"bufio"
	"encoding/json"
	"io"
	"os"
)

// GenesisForProfile selects the genesis configuration of a generator profile.
func GenesisForProfile(profile string, hs uint64) GenesisCfg {
	return GenesisCfg{}
}

// Replay re-executes the raw ops recorded in a trace (or a replay file holding
// {"profile":..,"hist":..,"ops":[raw ops]}) on the current tree and prints the fresh trace.
func Replay(path string, out io.Writer) int {
	f, err := os.Open(path)
	if err != nil {
		panic(err)
	}
	defer f.Close()
	type line struct {
		Genesis json.RawMessage `json:"genesis"`
		Hist    uint64          `json:"hist"`
		Profile string          `json:"profile"`
		Raw     *Op             `json:"raw"`
		Ops     []Op            `json:"ops"`
	}
	var ops []Op
	profile := "main"
	var hist uint64
	if whole, err := os.ReadFile(path); err == nil {
		var l line
		if json.Unmarshal(whole, &l) == nil && len(l.Ops) > 0 {
			if l.Profile != "" {
				profile = l.Profile
			}
			hist = l.Hist
			ops = l.Ops
		}
	}
	sc := bufio.NewScanner(f)
	sc.Buffer(make([]byte, 1<<20), 1<<28)
	for len(ops) == 0 && sc.Scan() {
		var l line
		if err := json.Unmarshal(sc.Bytes(), &l); err != nil {
			continue
		}
		if l.Profile != "" {
			profile = l.Profile
			hist = l.Hist
		}
		if l.Raw != nil {
			ops = append(ops, *l.Raw)
		}
		ops = append(ops, l.Ops...)
	}
	c := NewChain(GenesisForProfile(profile, hist))
	w := NewWorld(c)
	wr := bufio.NewWriterSize(out, 1<<20)
	defer wr.Flush()
	enc := json.NewEncoder(wr)
	enc.Encode(M{"genesis": M{"env": w.EnvJSON(), "state": w.Dump(c.Ctx())}, "hist": hist, "profile": profile})
	for i := range ops {
		res, o := w.Exec(&ops[i])
		enc.Encode(M{"i": i, "op": o, "res": res, "state": w.Dump(c.Ctx()), "raw": ops[i]})
		if res.Res == "hang" {
			wr.Flush()
			os.Exit(0)
		}
		if res.Res == "panic" {
			break
		}
	}
	return 0
}
