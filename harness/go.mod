module saoverif

go 1.18

require (
	github.com/SaoNetwork/sao v0.0.0
	github.com/SaoNetwork/sao-did v0.0.12
	github.com/cosmos/cosmos-sdk v0.46.6
	github.com/dvsekhvalnov/jose2go v1.5.0
	github.com/ethereum/go-ethereum v1.10.26
	github.com/ignite/cli v0.25.2
	github.com/ipfs/go-cid v0.3.2
	github.com/multiformats/go-multibase v0.1.1
	github.com/multiformats/go-multihash v0.2.1
	github.com/satori/go.uuid v1.2.0
	github.com/tendermint/tendermint v0.34.23
	github.com/tendermint/tm-db v0.6.7
)

require (
	cloud.google.com/go v0.110.6 // indirect
	cloud.google.com/go/compute/metadata v0.2.3 // indirect
	cloud.google.com/go/iam v1.1.1 // indirect
	cloud.google.com/go/storage v1.30.1 // indirect
	cosmossdk.io/errors v1.0.0-beta.7 // indirect
	cosmossdk.io/math v1.0.0-beta.3 // indirect
	filippo.io/edwards25519 v1.0.0-rc.1 // indirect
	github.com/99designs/keyring v1.2.1 // indirect
	github.com/ChainSafe/go-schnorrkel v0.0.0-20200405005733-88cbf1b4c40d // indirect
	github.com/ProtonMail/go-crypto v0.0.0-20210428141323-04723f9f07d7 // indirect
	github.com/Workiva/go-datastructures v1.0.53 // indirect
	github.com/andrew-d/go-termutil v0.0.0-20150726205930-009166a695a2 // indirect
	github.com/armon/go-metrics v0.4.0 // indirect
	github.com/armon/go-socks5 v0.0.0-20160902184237-e75332964ef5 // indirect
	github.com/aws/aws-sdk-go v1.40.45 // indirect
	github.com/beorn7/perks v1.0.1 // indirect
	github.com/bgentry/go-netrc v0.0.0-20140422174119-9fd32a8b3d3d // indirect
	github.com/bgentry/speakeasy v0.1.0 // indirect
	github.com/blang/semver v3.5.1+incompatible // indirect
	github.com/btcsuite/btcd v0.22.1 // indirect
	github.com/buger/jsonparser v1.1.1 // indirect
	github.com/cenkalti/backoff v2.2.1+incompatible // indirect
	github.com/cenkalti/backoff/v4 v4.1.3 // indirect
	github.com/cespare/xxhash/v2 v2.2.0 // indirect
	github.com/chzyer/readline v0.0.0-20180603132655-2972be24d48e // indirect
	github.com/cockroachdb/apd/v2 v2.0.2 // indirect
	github.com/coinbase/rosetta-sdk-go v0.7.9 // indirect
	github.com/confio/ics23/go v0.7.0 // indirect
	github.com/containerd/containerd v1.6.8 // indirect
	github.com/cosmos/btcutil v1.0.4 // indirect
	github.com/cosmos/cosmos-proto v1.0.0-alpha7 // indirect
	github.com/cosmos/go-bip39 v1.0.0 // indirect
	github.com/cosmos/iavl v0.19.4 // indirect
	github.com/cosmos/ibc-go/v5 v5.1.0 // indirect
	github.com/creachadair/taskgroup v0.3.2 // indirect
	github.com/davecgh/go-spew v1.1.1 // indirect
	github.com/desertbit/timer v0.0.0-20180107155436-c41aec40b27f // indirect
	github.com/docker/docker v20.10.19+incompatible // indirect
	github.com/docker/go-units v0.5.0 // indirect
	github.com/emicklei/proto v1.11.0 // indirect
	github.com/emirpasic/gods v1.18.1 // indirect
	github.com/fatih/color v1.13.0 // indirect
	github.com/felixge/httpsnoop v1.0.1 // indirect
	github.com/fsnotify/fsnotify v1.5.4 // indirect
	github.com/ghodss/yaml v1.0.0 // indirect
	github.com/go-git/gcfg v1.5.0 // indirect
	github.com/go-git/go-billy/v5 v5.3.1 // indirect
	github.com/go-git/go-git/v5 v5.4.2 // indirect
	github.com/go-kit/kit v0.12.0 // indirect
	github.com/go-kit/log v0.2.1 // indirect
	github.com/go-logfmt/logfmt v0.5.1 // indirect
	github.com/goccy/go-yaml v1.9.4 // indirect
	github.com/godbus/dbus v0.0.0-20190726142602-4481cbc300e2 // indirect
	github.com/gogo/gateway v1.1.0 // indirect
	github.com/gogo/protobuf v1.3.3 // indirect
	github.com/golang/groupcache v0.0.0-20210331224755-41bb18bfe9da // indirect
	github.com/golang/protobuf v1.5.3 // indirect
	github.com/golang/snappy v0.0.4 // indirect
	github.com/google/btree v1.0.1 // indirect
	github.com/google/go-cmp v0.5.9 // indirect
	github.com/google/orderedcode v0.0.1 // indirect
	github.com/google/s2a-go v0.1.4 // indirect
	github.com/google/uuid v1.3.0 // indirect
	github.com/googleapis/enterprise-certificate-proxy v0.2.3 // indirect
	github.com/googleapis/gax-go/v2 v2.11.0 // indirect
	github.com/gorilla/handlers v1.5.1 // indirect
	github.com/gorilla/mux v1.8.0 // indirect
	github.com/gorilla/websocket v1.5.0 // indirect
	github.com/grpc-ecosystem/go-grpc-middleware v1.3.0 // indirect
	github.com/grpc-ecosystem/grpc-gateway v1.16.0 // indirect
	github.com/gsterjov/go-libsecret v0.0.0-20161001094733-a6f4afe4910c // indirect
	github.com/gtank/merlin v0.1.1 // indirect
	github.com/gtank/ristretto255 v0.1.2 // indirect
	github.com/hashicorp/go-cleanhttp v0.5.2 // indirect
	github.com/hashicorp/go-getter v1.6.1 // indirect
	github.com/hashicorp/go-immutable-radix v1.3.1 // indirect
	github.com/hashicorp/go-safetemp v1.0.0 // indirect
	github.com/hashicorp/go-version v1.6.0 // indirect
	github.com/hashicorp/golang-lru v0.5.5-0.20210104140557-80c98217689d // indirect
	github.com/hashicorp/hcl v1.0.0 // indirect
	github.com/hdevalence/ed25519consensus v0.0.0-20220222234857-c00d1f31bab3 // indirect
	github.com/iancoleman/strcase v0.2.0 // indirect
	github.com/imdario/mergo v0.3.13 // indirect
	github.com/improbable-eng/grpc-web v0.15.0 // indirect
	github.com/ipfs/go-block-format v0.0.2 // indirect
	github.com/ipfs/go-ipfs-util v0.0.1 // indirect
	github.com/ipfs/go-ipld-cbor v0.0.6 // indirect
	github.com/ipfs/go-ipld-format v0.0.1 // indirect
	github.com/jbenet/go-context v0.0.0-20150711004518-d14ea06fba99 // indirect
	github.com/jmespath/go-jmespath v0.4.0 // indirect
	github.com/jpillora/ansi v1.0.2 // indirect
	github.com/jpillora/backoff v1.0.0 // indirect
	github.com/jpillora/chisel v1.7.7 // indirect
	github.com/jpillora/requestlog v1.0.0 // indirect
	github.com/jpillora/sizestr v1.0.0 // indirect
	github.com/kevinburke/ssh_config v1.2.0 // indirect
	github.com/klauspost/compress v1.15.11 // indirect
	github.com/klauspost/cpuid/v2 v2.1.0 // indirect
	github.com/lib/pq v1.10.6 // indirect
	github.com/libp2p/go-buffer-pool v0.1.0 // indirect
	github.com/magiconair/properties v1.8.6 // indirect
	github.com/manifoldco/promptui v0.9.0 // indirect
	github.com/mattn/go-colorable v0.1.13 // indirect
	github.com/mattn/go-isatty v0.0.16 // indirect
	github.com/mattn/go-zglob v0.0.3 // indirect
	github.com/matttproud/golang_protobuf_extensions v1.0.2-0.20181231171920-c182affec369 // indirect
	github.com/mimoo/StrobeGo v0.0.0-20210601165009-122bf33a46e0 // indirect
	github.com/minio/highwayhash v1.0.2 // indirect
	github.com/minio/sha256-simd v1.0.0 // indirect
	github.com/mitchellh/go-homedir v1.1.0 // indirect
	github.com/mitchellh/go-testing-interface v1.0.0 // indirect
	github.com/mitchellh/mapstructure v1.5.0 // indirect
	github.com/moby/sys/mount v0.3.1 // indirect
	github.com/moby/sys/mountinfo v0.6.0 // indirect
	github.com/mr-tron/base58 v1.2.0 // indirect
	github.com/mtibben/percent v0.2.1 // indirect
	github.com/multiformats/go-base32 v0.0.4 // indirect
	github.com/multiformats/go-base36 v0.1.0 // indirect
	github.com/multiformats/go-multiaddr v0.6.0 // indirect
	github.com/multiformats/go-multicodec v0.7.0 // indirect
	github.com/multiformats/go-varint v0.0.6 // indirect
	github.com/opencontainers/go-digest v1.0.0 // indirect
	github.com/opencontainers/image-spec v1.1.0-rc2 // indirect
	github.com/opencontainers/runc v1.1.3 // indirect
	github.com/otiai10/copy v1.6.0 // indirect
	github.com/pelletier/go-toml v1.9.5 // indirect
	github.com/pelletier/go-toml/v2 v2.0.5 // indirect
	github.com/pkg/errors v0.9.1 // indirect
	github.com/pmezard/go-difflib v1.0.0 // indirect
	github.com/polydawn/refmt v0.0.0-20201211092308-30ac6d18308e // indirect
	github.com/prometheus/client_golang v1.12.2 // indirect
	github.com/prometheus/client_model v0.2.0 // indirect
	github.com/prometheus/common v0.37.0 // indirect
	github.com/prometheus/procfs v0.8.0 // indirect
	github.com/radovskyb/watcher v1.0.7 // indirect
	github.com/rakyll/statik v0.1.7 // indirect
	github.com/rcrowley/go-metrics v0.0.0-20201227073835-cf1acfcdf475 // indirect
	github.com/regen-network/cosmos-proto v0.3.1 // indirect
	github.com/rs/cors v1.8.2 // indirect
	github.com/rs/zerolog v1.27.0 // indirect
	github.com/sergi/go-diff v1.2.0 // indirect
	github.com/sirupsen/logrus v1.9.0 // indirect
	github.com/spaolacci/murmur3 v1.1.0 // indirect
	github.com/spf13/afero v1.8.2 // indirect
	github.com/spf13/cast v1.5.0 // indirect
	github.com/spf13/cobra v1.6.0 // indirect
	github.com/spf13/jwalterweatherman v1.1.0 // indirect
	github.com/spf13/pflag v1.0.5 // indirect
	github.com/spf13/viper v1.13.0 // indirect
	github.com/stretchr/testify v1.8.1 // indirect
	github.com/subosito/gotenv v1.4.1 // indirect
	github.com/syndtr/goleveldb v1.0.1-0.20210819022825-2ae1ddf74ef7 // indirect
	github.com/takuoki/gocase v1.0.0 // indirect
	github.com/tendermint/btcd v0.1.1 // indirect
	github.com/tendermint/crypto v0.0.0-20191022145703-50d29ede1e15 // indirect
	github.com/tendermint/go-amino v0.16.0 // indirect
	github.com/tendermint/spn v0.2.1-0.20220921200247-8bafad876bdd // indirect
	github.com/thanhpk/randstr v1.0.4 // indirect
	github.com/tomasen/realip v0.0.0-20180522021738-f0c99a92ddce // indirect
	github.com/ulikunitz/xz v0.5.8 // indirect
	github.com/whyrusleeping/cbor-gen v0.0.0-20200123233031-1cdf64d27158 // indirect
	github.com/xanzy/ssh-agent v0.3.2 // indirect
	go.etcd.io/bbolt v1.3.6 // indirect
	go.opencensus.io v0.24.0 // indirect
	golang.org/x/crypto v0.13.0 // indirect
	golang.org/x/exp v0.0.0-20220722155223-a9213eeb770e // indirect
	golang.org/x/mod v0.8.0 // indirect
	golang.org/x/net v0.15.0 // indirect
	golang.org/x/oauth2 v0.12.0 // indirect
	golang.org/x/sync v0.3.0 // indirect
	golang.org/x/sys v0.12.0 // indirect
	golang.org/x/term v0.12.0 // indirect
	golang.org/x/text v0.13.0 // indirect
	golang.org/x/xerrors v0.0.0-20220907171357-04be3eba64a2 // indirect
	google.golang.org/api v0.126.0 // indirect
	google.golang.org/appengine v1.6.7 // indirect
	google.golang.org/genproto v0.0.0-20230803162519-f966b187b2e5 // indirect
	google.golang.org/genproto/googleapis/api v0.0.0-20230822172742-b8732ec3820d // indirect
	google.golang.org/genproto/googleapis/rpc v0.0.0-20230822172742-b8732ec3820d // indirect
	google.golang.org/grpc v1.58.0 // indirect
	google.golang.org/protobuf v1.31.0 // indirect
	gopkg.in/ini.v1 v1.67.0 // indirect
	gopkg.in/warnings.v0 v0.1.2 // indirect
	gopkg.in/yaml.v2 v2.4.0 // indirect
	gopkg.in/yaml.v3 v3.0.1 // indirect
	lukechampine.com/blake3 v1.1.7 // indirect
	nhooyr.io/websocket v1.8.6 // indirect
	sigs.k8s.io/yaml v1.3.0 // indirect
)

replace github.com/SaoNetwork/sao => /repo

replace github.com/gogo/protobuf => github.com/regen-network/protobuf v1.3.3-alpha.regen.1

replace github.com/cosmos/cosmos-sdk => github.com/cosmos/cosmos-sdk v0.46.2

replace github.com/cosmos/ibc-go/v5 => github.com/cosmos/ibc-go/v5 v5.0.0-rc1

replace github.com/ignite/cli => github.com/ignite/cli v0.25.1
