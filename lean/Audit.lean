import SaoVerif
/-! `#print axioms` of every property theorem (parsed by scripts/check.py). -/
open SaoVerif
#print axioms C02_randomIndex_exact
#print axioms C02_cursor_in_range
#print axioms C15_full
#print axioms C15_getSps_rejects
#print axioms randomIndex_spec
#print axioms C03_nonstaking_independent
#print axioms C03_partial
#print axioms C03_refuted
#print axioms C03_statement_refuted
#print axioms C20_share_check_sound
#print axioms C20_refuted
