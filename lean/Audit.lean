import SaoVerif
/-! `#print axioms` of every property theorem (parsed by scripts/check.py). -/
open SaoVerif
#print axioms C02_randomIndex_exact
#print axioms C02_cursor_in_range
#print axioms C15_full
#print axioms C15_getSps_rejects
#print axioms randomIndex_spec
#print axioms C03_nonstaking_independent
#print axioms C03_partial
#print axioms C03_refuted
#print axioms C03_statement_refuted
#print axioms C20_share_check_sound
#print axioms C20_refuted
#print axioms C07_add_price
#print axioms C07_remove_price
#print axioms C07_price_symmetric
#print axioms C07_remove_guard
#print axioms C07_remove_keeps_bounds
#print axioms C07_repay_conserves
#print axioms C08_mint_bound
#print axioms C08_settle_exact
#print axioms C08_remove_settles_first
#print axioms C08_claim_pays_floor
#print axioms C09_store_unauthorised
#print axioms C09_terminate_unauthorised
#print axioms C09_perm_unauthorised
#print axioms C09_unauthorised_unchanged
#print axioms C10_complete_requires_actor
#print axioms C10_migrate_requires_actor
#print axioms C10_terminate_requires_actor
#print axioms C10_perm_requires_actor
#print axioms C10_cancel_requires_creator
#print axioms C10_ready_requires_gateway
#print axioms C10_third_party_cannot_cancel
