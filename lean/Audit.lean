import SaoVerif
/-! `#print axioms` of every property theorem (parsed by scripts/check.py). -/
open SaoVerif
#print axioms C02_randomIndex_exact
#print axioms C02_cursor_in_range
#print axioms C15_full
#print axioms C15_getSps_rejects
#print axioms randomIndex_spec
