import SaoVerif.Properties.C19
/-!
# C19 — only the accused provider declares recovery

"… a provider can only declare recovery for faults recorded against itself."

`recoverDecision creator msgProvider org fm` is what a `RecoverFaults` entry does to a recorded report. A report passes into the
*recovering* state (status 3) only when the sender is the provider named in the message *and* the provider the report was
recorded against (`C19_declare_requires_accused_provider`); any other authorised sender can only add a confirmation to a
recovery that has been declared (`C19_others_only_confirm`), and a report nobody has declared recovered is left alone by
them (`C19_undeclared_untouched_by_others`) — the seeded change C19-7 let every authorised sender take the provider's branch.
-/
namespace SaoVerif

theorem C19_declare_requires_accused_provider (c p : Addr) (org fm fm' : Fault) (h : recoverDecision c p org fm = some fm')
    (hst : fm.status ≠ 3) (h3 : fm'.status = 3) : p = c ∧ org.provider = c := by
  unfold recoverDecision at h
  split at h
  · rename_i hc; exact hc
  · split at h
    · simp only [Option.some.injEq] at h; rw [← h] at h3; exact absurd h3 hst
    · simp [hst] at h

theorem C19_others_only_confirm (c p : Addr) (org fm fm' : Fault) (h : recoverDecision c p org fm = some fm')
    (hother : ¬ (p = c ∧ org.provider = c)) :
    fm' = { fm with confirms := fm.confirms ++ [[-1, (c : Int)]] } := by
  unfold recoverDecision at h
  split at h
  · rename_i hc; exact absurd hc hother
  · split at h
    · simp only [Option.some.injEq] at h; exact h.symm
    · split at h
      · simp only [Option.some.injEq] at h; exact h.symm
      · cases h

theorem C19_undeclared_untouched_by_others (c p : Addr) (org fm : Fault) (hother : ¬ (p = c ∧ org.provider = c))
    (hnc : org.confirms.contains [-1, (c : Int)] = false) (hst : fm.status ≠ 3) : recoverDecision c p org fm = none := by
  unfold recoverDecision
  rw [if_neg hother, hnc]
  simp only [Bool.false_eq_true, ↓reduceIte, hst]

example : recoverDecision 5 5 { (default : Fault) with provider := 5, status := 1 } { (default : Fault) with provider := 5, status := 1 } =
    some { (default : Fault) with provider := 5, status := 3 } := by decide

end SaoVerif
