import SaoVerif.Model.Step
import SaoVerif.Spec.Inv
/-!
# C17 — DID registry integrity

The three did handlers are a decidable precondition (`bindingPre`, `payAddrPre`, the checks of
`didUpdate`) followed by a total update, so every accepted message satisfies the precondition:

* `C17_binding_requires`: an accepted Binding had a valid proof signature by the account's own key
  (`proofOk`), a timestamp fresh against block time (after the `fix:` of F07), a DID consistent with
  the root document, an account id bound to no DID yet, and — once the DID exists — a submitter
  already bound to that DID; for a new DID the document id is the hash of the keys.
* `C17_binding_unique`: "an account is bound to at most one DID" is preserved by every Binding, and
  a Binding only appends: no existing binding is removed or redirected (`C17_binding_appends`).
* `C17_binding_frame`: a Binding changes nothing outside the did module.
* `C17_key_payaddr_self_once`: a key DID's payment address is set only by that address itself, only
  when none is set, and only when the address is not linked to a key DID yet.
* `C17_sid_payaddr_bound`: a sid DID's payment address is only set to an account that is bound to
  that DID, on this chain, by a sender bound to that DID.
* The handler never reads `proofNamesDid` (whether the signed text names the DID):
  `C17_binding_ignores_signed_did` — finding F08, recorded, not repaired.
The agreement of the six tables (`Spec.didInv`) is monitored on every implementation state.
-/
namespace SaoVerif

theorem didBinding_ok (s s' : State) (m : BindingMsg) (h : didBinding s m = .ok s') :
    bindingPre s.did m = none ∧ s' = { s with did := bindingApply s.did m } := by
  unfold didBinding at h
  split at h
  · cases h
  · rename_i hp
    simp only [pure, Except.pure, Except.ok.injEq] at h
    exact ⟨hp, h.symm⟩

theorem C17_binding_requires (s s' : State) (m : BindingMsg) (h : didBinding s m = .ok s') :
    m.proofOk = true ∧ m.fresh = true ∧ m.didMatchesRoot = true ∧ m.acc.ok = true ∧
    (s.did.getDid m.acc.raw) = none ∧
    (∀ v, Map.find? s.did.sidDocumentVersion m.rootDocId = some v → s.did.creatorBound m.creator m.did = true) ∧
    (Map.find? s.did.sidDocumentVersion m.rootDocId = none → m.docIdOk = true) := by
  have hp := (didBinding_ok s s' m h).1
  unfold bindingPre at hp
  repeat' (split at hp)
  all_goals (first | cases hp | skip)
  all_goals simp_all

theorem C17_binding_frame (s s' : State) (m : BindingMsg) (h : didBinding s m = .ok s') :
    s'.nodes = s.nodes ∧ s'.orders = s.orders ∧ s'.shards = s.shards ∧ s'.metas = s.metas ∧
    s'.bank = s.bank ∧ s'.pledges = s.pledges ∧ s'.pool = s.pool := by
  rw [(didBinding_ok s s' m h).2]
  simp

def bindingEntry (m : BindingMsg) : DidEntry :=
  { accountId := m.acc.raw, did := m.did, addr := if m.acc.cosmos ∧ m.acc.chainOk then m.acc.addr else 0 }

theorem Did.key_not_sid (d : Did) (h : d.isKey = true) : d.isSid = false := by
  unfold Did.isKey at h; unfold Did.isSid
  have : d % 3 = 1 := by simpa using h
  simp [this]

/-- a Binding only appends one entry to the binding table -/
theorem C17_binding_appends (d : DidState) (m : BindingMsg) :
    (bindingApply d m).did = d.did ++ [bindingEntry m] := by
  unfold bindingApply
  simp only
  repeat' split
  all_goals simp_all [bindingEntry]

theorem getDid_none (d : DidState) (a : Bytes) (h : d.getDid a = none) : a ∉ d.did.map (·.accountId) := by
  unfold DidState.getDid at h
  intro hm
  rcases List.mem_map.mp hm with ⟨x, hx, rfl⟩
  have := List.find?_eq_none.mp h x hx
  simp at this

/-- "an account is bound to at most one DID" is preserved by every accepted Binding -/
theorem C17_binding_unique (s s' : State) (m : BindingMsg) (h : didBinding s m = .ok s')
    (hu : (s.did.did.map (·.accountId)).Nodup) : (s'.did.did.map (·.accountId)).Nodup := by
  have hreq := C17_binding_requires s s' m h
  rw [(didBinding_ok s s' m h).2]
  show ((bindingApply s.did m).did.map (·.accountId)).Nodup
  rw [C17_binding_appends]
  simp only [List.map_append, List.map_cons, List.map_nil, bindingEntry]
  refine List.nodup_append.mpr ⟨hu, by simp, ?_⟩
  intro a ha b hb
  simp only [List.mem_singleton] at hb
  subst hb
  intro hab
  subst hab
  exact getDid_none _ _ hreq.2.2.2.2.1 ha

/-- the decision of Binding does not depend on whether the signed message names the DID (F08) -/
theorem C17_binding_ignores_signed_did (s : State) (m : BindingMsg) (b : Bool) :
    didBinding s { m with proofNamesDid := b } = didBinding s m := rfl

theorem didPayAddr_ok (s s' : State) (m : PayAddrMsg) (h : didUpdatePaymentAddress s m = .ok s') :
    payAddrPre s.did m = none ∧ s' = { s with did := payAddrApply s.did m } := by
  unfold didUpdatePaymentAddress at h
  split at h
  · cases h
  · rename_i hp
    simp only [pure, Except.pure, Except.ok.injEq] at h
    exact ⟨hp, h.symm⟩

theorem C17_key_payaddr_self_once (s s' : State) (m : PayAddrMsg) (hk : m.did.isKey = true)
    (h : didUpdatePaymentAddress s m = .ok s') :
    m.acc.addr = m.creator ∧ Map.find? s.did.paymentAddress m.did = none ∧
    Map.find? s.did.kid m.acc.addr = none := by
  have hp := (didPayAddr_ok s s' m h).1
  have hns := Did.key_not_sid _ hk
  unfold payAddrPre at hp
  repeat' (split at hp)
  all_goals (first | cases hp | skip)
  all_goals simp_all

theorem C17_sid_payaddr_bound (s s' : State) (m : PayAddrMsg) (hk : m.did.isSid = true)
    (h : didUpdatePaymentAddress s m = .ok s') :
    s.did.creatorBound m.creator m.did = true ∧ m.acc.cosmos = true ∧ m.acc.chainOk = true ∧
    ∃ x, s.did.getDid m.acc.raw = some x ∧ x.did = m.did := by
  have hp := (didPayAddr_ok s s' m h).1
  have hnk : m.did.isKey = false := by
    cases hkk : m.did.isKey with
    | false => rfl
    | true => rw [Did.key_not_sid _ hkk] at hk; cases hk
  unfold payAddrPre at hp
  repeat' (split at hp)
  all_goals (first | cases hp | skip)
  all_goals simp_all

/-- the unbinding loop of a key rotation accepts a removal list only if none of the removed
    accounts is the DID's payment account on this chain -/
theorem updateChk_keeps_payment (m : DidUpdateMsg) (d : DidState) (pay : Addr) (l acc r : List Bytes)
    (h : updateChk m d pay l acc = .ok r) :
    ∀ a ∈ l, ∃ accId c, Map.find? d.accountId a = some accId ∧ m.removeAcc.find? (·.raw = accId) = some c ∧
      c.ok = true ∧ ¬ (c.cosmos = true ∧ c.chainOk = true ∧ c.addr = pay) := by
  induction l generalizing acc with
  | nil => intro a ha; cases ha
  | cons x t ih =>
    unfold updateChk at h
    split at h
    · cases h
    · rename_i accId hf
      split at h
      · cases h
      · rename_i c hc
        split at h
        · cases h
        · rename_i hok
          split at h
          · cases h
          · rename_i hpay
            intro a ha
            rcases List.mem_cons.mp ha with rfl | ha
            · exact ⟨accId, c, hf, hc, by simpa using hok, by simpa using hpay⟩
            · exact ih _ h a ha

/-- a key rotation that would unbind the DID's payment account is refused: an accepted Update
    had a payment address, and none of the removed accounts is that address on this chain -/
theorem C17_update_keeps_payment_account (s s' : State) (m : DidUpdateMsg) (h : didUpdate s m = .ok s') :
    s.did.creatorBound m.creator m.did = true ∧ m.fresh = true ∧
    ∃ pay, Map.find? s.did.paymentAddress m.did = some pay ∧
      ∀ a ∈ m.remove, ∃ accId c, Map.find? s.did.accountId a = some accId ∧
        m.removeAcc.find? (·.raw = accId) = some c ∧ c.ok = true ∧
        ¬ (c.cosmos = true ∧ c.chainOk = true ∧ c.addr = pay) := by
  unfold didUpdate at h
  split at h
  · rename_i accList pay hal hpay
    split at h
    · cases h
    · rename_i hp1
      split at h
      · cases h
      · rename_i r hchk
        have hp : s.did.creatorBound m.creator m.did = true ∧ m.fresh = true := by
          unfold updatePre1 at hp1
          repeat' (split at hp1)
          all_goals (first | cases hp1 | skip)
          all_goals simp_all
        exact ⟨hp.1, hp.2, pay, hpay, updateChk_keeps_payment m s.did pay m.remove [] r hchk⟩
  · cases h
  · cases h

/-- a key rotation never touches the payment address or the key-DID link -/
theorem C17_update_keeps_payaddr (d : DidState) (m : DidUpdateMsg) (al r : List Bytes) :
    (updateApply d m al r).paymentAddress = d.paymentAddress ∧ (updateApply d m al r).kid = d.kid := by
  unfold updateApply; exact ⟨rfl, rfl⟩

end SaoVerif
