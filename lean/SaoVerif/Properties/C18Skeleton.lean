import SaoVerif.Skeleton.x_node_genesis_go
import SaoVerif.Skeleton.x_sao_genesis_go
import SaoVerif.Skeleton.x_order_genesis_go
import SaoVerif.Skeleton.x_model_genesis_go
import SaoVerif.Skeleton.x_market_genesis_go
import SaoVerif.Skeleton.x_did_genesis_go
import SaoVerif.Skeleton.app_export_go
import SaoVerif.Skeleton.x_node_keeper_fault_go
import SaoVerif.Skeleton.x_node_keeper_fishing_reward_go
import SaoVerif.Skeleton.x_node_keeper_node_go
import SaoVerif.Skeleton.x_did_keeper_account_auth_go
import SaoVerif.Skeleton.x_did_keeper_account_id_go
import SaoVerif.Skeleton.x_did_keeper_account_list_go
import SaoVerif.Skeleton.x_did_keeper_did_balances_go
import SaoVerif.Skeleton.x_did_keeper_did_go
import SaoVerif.Skeleton.x_did_keeper_grpc_query_get_all_account_auth_go
import SaoVerif.Skeleton.x_did_keeper_kid_go
import SaoVerif.Skeleton.x_did_keeper_past_seeds_go
import SaoVerif.Skeleton.x_did_keeper_payment_address_go
import SaoVerif.Skeleton.x_did_keeper_sid_document_go
import SaoVerif.Skeleton.x_did_keeper_sid_document_version_go
import SaoVerif.Skeleton.x_market_keeper_worker_go
import SaoVerif.Skeleton.x_model_keeper_expired_data_go
import SaoVerif.Skeleton.x_model_keeper_metadata_go
import SaoVerif.Skeleton.x_model_keeper_model_go
import SaoVerif.Skeleton.x_node_keeper_pledge_debt_go
import SaoVerif.Skeleton.x_node_keeper_pledge_go
import SaoVerif.Skeleton.x_order_keeper_order_go
import SaoVerif.Skeleton.x_order_keeper_shard_go
import SaoVerif.Skeleton.x_sao_keeper_expired_shard_go
import SaoVerif.Skeleton.x_sao_keeper_timeout_order_go
/-!
# C18 — the decision logic of the anchor files is the one that was modelled

The extractor (harness/cmd/extract) regenerates, on every run and from the tree under check, the *decision skeleton* of every
function: its branching constructs in source order, each guard with its condition and with how its branch ends (`return <err>`,
`continue`, `panic`, …). The hand-written model mirrors exactly these decisions (its `…Pre` / `…Guards` functions are the
guards of the handlers, in their order). This theorem says that for the files the property is anchored in
(x/node/genesis.go, x/sao/genesis.go, x/order/genesis.go, x/model/genesis.go, x/market/genesis.go, x/did/genesis.go, app/export.go, x/node/keeper/fault.go, x/node/keeper/fishing_reward.go, x/node/keeper/node.go; and, because the anchored code calls into them, x_did_keeper_account_auth_go, x_did_keeper_account_id_go, x_did_keeper_account_list_go, x_did_keeper_did_balances_go, x_did_keeper_did_go, x_did_keeper_grpc_query_get_all_account_auth_go, x_did_keeper_kid_go, x_did_keeper_past_seeds_go, x_did_keeper_payment_address_go, x_did_keeper_sid_document_go, x_did_keeper_sid_document_version_go, x_market_keeper_worker_go, x_model_keeper_expired_data_go, x_model_keeper_metadata_go, x_model_keeper_model_go, x_node_keeper_pledge_debt_go, x_node_keeper_pledge_go, x_order_keeper_order_go, x_order_keeper_shard_go, x_sao_keeper_expired_shard_go, x_sao_keeper_timeout_order_go) the regenerated skeletons equal the ones the model was written against
(one kernel-evaluated equality per source file, `SaoVerif/Skeleton/<file>.lean`). A change of a guard, of its order, or a new or
removed branch breaks it: the correspondence then has to be re-established (the check searches the histories for a failing
input and reports the violation either way).
-/
namespace SaoVerif

theorem C18_decision_skeleton_as_modelled :
    [Generated.Skel.x_node_genesis_go,
     Generated.Skel.x_sao_genesis_go,
     Generated.Skel.x_order_genesis_go,
     Generated.Skel.x_model_genesis_go,
     Generated.Skel.x_market_genesis_go,
     Generated.Skel.x_did_genesis_go,
     Generated.Skel.app_export_go,
     Generated.Skel.x_node_keeper_fault_go,
     Generated.Skel.x_node_keeper_fishing_reward_go,
     Generated.Skel.x_node_keeper_node_go,
     Generated.Skel.x_did_keeper_account_auth_go,
     Generated.Skel.x_did_keeper_account_id_go,
     Generated.Skel.x_did_keeper_account_list_go,
     Generated.Skel.x_did_keeper_did_balances_go,
     Generated.Skel.x_did_keeper_did_go,
     Generated.Skel.x_did_keeper_grpc_query_get_all_account_auth_go,
     Generated.Skel.x_did_keeper_kid_go,
     Generated.Skel.x_did_keeper_past_seeds_go,
     Generated.Skel.x_did_keeper_payment_address_go,
     Generated.Skel.x_did_keeper_sid_document_go,
     Generated.Skel.x_did_keeper_sid_document_version_go,
     Generated.Skel.x_market_keeper_worker_go,
     Generated.Skel.x_model_keeper_expired_data_go,
     Generated.Skel.x_model_keeper_metadata_go,
     Generated.Skel.x_model_keeper_model_go,
     Generated.Skel.x_node_keeper_pledge_debt_go,
     Generated.Skel.x_node_keeper_pledge_go,
     Generated.Skel.x_order_keeper_order_go,
     Generated.Skel.x_order_keeper_shard_go,
     Generated.Skel.x_sao_keeper_expired_shard_go,
     Generated.Skel.x_sao_keeper_timeout_order_go] =
    [Expected.Skel.x_node_genesis_go,
     Expected.Skel.x_sao_genesis_go,
     Expected.Skel.x_order_genesis_go,
     Expected.Skel.x_model_genesis_go,
     Expected.Skel.x_market_genesis_go,
     Expected.Skel.x_did_genesis_go,
     Expected.Skel.app_export_go,
     Expected.Skel.x_node_keeper_fault_go,
     Expected.Skel.x_node_keeper_fishing_reward_go,
     Expected.Skel.x_node_keeper_node_go,
     Expected.Skel.x_did_keeper_account_auth_go,
     Expected.Skel.x_did_keeper_account_id_go,
     Expected.Skel.x_did_keeper_account_list_go,
     Expected.Skel.x_did_keeper_did_balances_go,
     Expected.Skel.x_did_keeper_did_go,
     Expected.Skel.x_did_keeper_grpc_query_get_all_account_auth_go,
     Expected.Skel.x_did_keeper_kid_go,
     Expected.Skel.x_did_keeper_past_seeds_go,
     Expected.Skel.x_did_keeper_payment_address_go,
     Expected.Skel.x_did_keeper_sid_document_go,
     Expected.Skel.x_did_keeper_sid_document_version_go,
     Expected.Skel.x_market_keeper_worker_go,
     Expected.Skel.x_model_keeper_expired_data_go,
     Expected.Skel.x_model_keeper_metadata_go,
     Expected.Skel.x_model_keeper_model_go,
     Expected.Skel.x_node_keeper_pledge_debt_go,
     Expected.Skel.x_node_keeper_pledge_go,
     Expected.Skel.x_order_keeper_order_go,
     Expected.Skel.x_order_keeper_shard_go,
     Expected.Skel.x_sao_keeper_expired_shard_go,
     Expected.Skel.x_sao_keeper_timeout_order_go] := by
  rw [skel_x_node_genesis_go, skel_x_sao_genesis_go, skel_x_order_genesis_go, skel_x_model_genesis_go, skel_x_market_genesis_go, skel_x_did_genesis_go, skel_app_export_go, skel_x_node_keeper_fault_go, skel_x_node_keeper_fishing_reward_go, skel_x_node_keeper_node_go, skel_x_did_keeper_account_auth_go, skel_x_did_keeper_account_id_go, skel_x_did_keeper_account_list_go, skel_x_did_keeper_did_balances_go, skel_x_did_keeper_did_go, skel_x_did_keeper_grpc_query_get_all_account_auth_go, skel_x_did_keeper_kid_go, skel_x_did_keeper_past_seeds_go, skel_x_did_keeper_payment_address_go, skel_x_did_keeper_sid_document_go, skel_x_did_keeper_sid_document_version_go, skel_x_market_keeper_worker_go, skel_x_model_keeper_expired_data_go, skel_x_model_keeper_metadata_go, skel_x_model_keeper_model_go, skel_x_node_keeper_pledge_debt_go, skel_x_node_keeper_pledge_go, skel_x_order_keeper_order_go, skel_x_order_keeper_shard_go, skel_x_sao_keeper_expired_shard_go, skel_x_sao_keeper_timeout_order_go]

end SaoVerif
