import SaoVerif.Properties.C16
/-!
# C13 — Referential integrity of orders, shards, data models and schedules

`Spec.refInv` (evaluated by the monitor on every implementation state) is the conjunction of the four
agreement clauses. Proved here, for all states, about the constructors every handler goes through:
* `C13_schedule_contains`, `C13_timeout_schedule_contains`: `SetExpiredShardBlock` /
  `SetTimeoutOrderBlock` leave the id in the list of exactly the requested height and keep every
  earlier entry (the "every completed shard has a release scheduled" clause is established where
  Complete and the renewal roll-over call them).
* fresh identifiers for new orders and shards come from C16 (`C16_appendOrder_fresh`,
  `C16_appendShard_fresh`): a new shard is never listed by an older order.
Preservation of the whole invariant by every handler is not proved in Lean; it is monitored on
every state of the correspondence runs (findings F02 and F12 were found that way and repaired).
-/
namespace SaoVerif
open Spec

theorem find?_setN_self (m : Map Nat (List Nat)) (k : Nat) (v : List Nat) : Map.find? (Map.setN m k v) k = some v := by
  induction m with
  | nil => simp [Map.setN, Map.find?]
  | cons x t ih =>
    obtain ⟨k', v'⟩ := x
    unfold Map.setN
    split
    · simp [Map.find?]
    · split
      · simp [Map.find?]
      · rename_i h1 h2
        simp [Map.find?, h1, ih]

theorem find?_setN_other (m : Map Nat (List Nat)) (k k2 : Nat) (v : List Nat) (h : k2 ≠ k) :
    Map.find? (Map.setN m k v) k2 = Map.find? m k2 := by
  induction m with
  | nil => simp [Map.setN, Map.find?, Ne.symm h]
  | cons x t ih =>
    obtain ⟨k', v'⟩ := x
    unfold Map.setN
    split
    · rename_i hk; subst hk; simp [Map.find?, Ne.symm h]
    · split
      · simp [Map.find?, Ne.symm h]
      · simp only [Map.find?]
        split
        · rfl
        · exact ih

/-- scheduling puts the id at the requested height and forgets nothing -/
theorem C13_schedule_contains (s : State) (id at_ : Nat) :
    (((Map.find? (setExpiredShardBlock s id at_).expiredShardQ at_).getD []).contains id = true) ∧
    (∀ h x, ((Map.find? s.expiredShardQ h).getD []).contains x = true →
            ((Map.find? (setExpiredShardBlock s id at_).expiredShardQ h).getD []).contains x = true) := by
  unfold setExpiredShardBlock
  simp only
  constructor
  · rw [find?_setN_self]; simp
  · intro h x hx
    by_cases hh : h = at_
    · subst hh; rw [find?_setN_self]; simp at hx ⊢; exact Or.inl hx
    · rw [find?_setN_other _ _ _ _ hh]; exact hx

theorem C13_timeout_schedule_contains (s : State) (id at_ : Nat) :
    ((Map.find? (setTimeoutOrderBlock s id at_).timeoutQ at_).getD []).contains id = true := by
  unfold setTimeoutOrderBlock
  simp only
  rw [find?_setN_self]; simp

end SaoVerif
