import SaoVerif.Proofs.Fixed2
/-!
# C10 — Store and Renew act only on a valid signature of the request, sent through a provider acting for the sender

`C10_store_requires_valid_signature`: whatever else the request says, `Store` refuses a request whose signature over the
proposal did not verify. `C10_renew_requires_actor_and_signature`: an accepted `Renew` carried a valid signature, came from the
named provider itself or one of its registered addresses, and asked for a duration within the allowed range.
-/
namespace SaoVerif

theorem C10_store_requires_valid_signature (e : Env) (s : State) (m : StoreMsg) (hs : m.sigValid = false) :
    ∃ msg, saoStore e s m = .error msg := by
  unfold saoStore storeGuards
  simp only [hs, Bool.not_false, if_true, bind, Except.bind, throw, throwThe, MonadExceptOf.throw]
  exact ⟨_, rfl⟩

theorem C10_renew_requires_actor_and_signature (e : Env) (s s' : State) (c p : Addr) (sv : Bool) (sd : Did) (dur : Nat) (t : Int)
    (data : List Bytes) (oks : List Bool) (h : saoRenew e s c p sv sd dur t data = .ok (s', oks)) :
    sv = true ∧ actsFor s c p = true ∧ 3600 ≤ dur ∧ dur ≤ MaxRenewDuration ∧ s.pool.isSome := by
  unfold saoRenew at h
  simp only [bind, Except.bind, pure, Except.pure, throw, throwThe, MonadExceptOf.throw] at h
  repeat' (split at h)
  all_goals (try simp only [reduceCtorEq] at h)
  all_goals (refine ⟨by simp_all, by simp_all, by omega, by omega, by simp_all⟩)

/-- what "acting for a provider" means, for every state: the sender is that provider, or the provider is a registered node
    that lists the sender among its transaction addresses — a node that registered no address can be named by nobody else,
    and an unregistered provider by nobody but itself (the seeded change C10-10 let anybody name a node without addresses) -/
theorem C10_acts_for_iff (s : State) (c p : Addr) :
    actsFor s c p = true ↔ (p = c ∨ ∃ n, s.getNode p = some n ∧ c ∈ n.txAddresses) := by
  unfold actsFor
  constructor
  · intro h
    rcases Bool.or_eq_true_iff.mp h with h | h
    · exact Or.inl (by simpa using h)
    · cases hn : s.getNode p with
      | none => rw [hn] at h; cases h
      | some n =>
        rw [hn] at h
        exact Or.inr ⟨n, rfl, by simpa using h⟩
  · rintro (h | ⟨n, hn, hc⟩)
    · simp [h]
    · rw [hn]; simp [hc]

theorem C10_nobody_else_names_a_node_without_addresses (s : State) (c p : Addr) (n : Node) (hn : s.getNode p = some n)
    (hempty : n.txAddresses = []) (hne : p ≠ c) : actsFor s c p = false := by
  apply Bool.eq_false_iff.mpr
  intro h
  rcases (C10_acts_for_iff s c p).mp h with h | ⟨m, hm, hc⟩
  · exact hne h
  · rw [hn] at hm; cases hm; rw [hempty] at hc; cases hc

end SaoVerif
