import SaoVerif.Proofs.Fixed2
/-!
# C10 — Store and Renew act only on a valid signature of the request, sent through a provider acting for the sender

`C10_store_requires_valid_signature`: whatever else the request says, `Store` refuses a request whose signature over the
proposal did not verify. `C10_renew_requires_actor_and_signature`: an accepted `Renew` carried a valid signature, came from the
named provider itself or one of its registered addresses, and asked for a duration within the allowed range.
-/
namespace SaoVerif

theorem C10_store_requires_valid_signature (e : Env) (s : State) (m : StoreMsg) (hs : m.sigValid = false) :
    ∃ msg, saoStore e s m = .error msg := by
  unfold saoStore storeGuards
  simp only [hs, Bool.not_false, if_true, bind, Except.bind, throw, throwThe, MonadExceptOf.throw]
  exact ⟨_, rfl⟩

theorem C10_renew_requires_actor_and_signature (e : Env) (s s' : State) (c p : Addr) (sv : Bool) (sd : Did) (dur : Nat) (t : Int)
    (data : List Bytes) (oks : List Bool) (h : saoRenew e s c p sv sd dur t data = .ok (s', oks)) :
    sv = true ∧ actsFor s c p = true ∧ 3600 ≤ dur ∧ dur ≤ MaxRenewDuration ∧ s.pool.isSome := by
  unfold saoRenew at h
  simp only [bind, Except.bind, pure, Except.pure, throw, throwThe, MonadExceptOf.throw] at h
  repeat' (split at h)
  all_goals (try simp only [reduceCtorEq] at h)
  all_goals (refine ⟨by simp_all, by simp_all, by omega, by omega, by simp_all⟩)

end SaoVerif
