import SaoVerif.Properties.C05
/-!
# C04 — a renewal is charged once, to the owner's payment account, at the quoted amount

`C04_renewal_charges_owner_once`: for every state and renewal order, when `RenewOrder` accepts, the owner's payment account
pays exactly the order's amount into the market escrow — no other balance moves, no coin is created — and the order that is
recorded carries that same amount; when it refuses (`C04_renewal_refused_charges_nothing`), the state is exactly what it was.
The amount itself is the quoted price (`C04_price_exact`, computed by `renewBody` from size, replicas and duration).
-/
namespace SaoVerif

theorem C04_renewal_charges_owner_once (e : Env) (s s' : State) (o o' : Order)
    (h : renewOrder e s o = (s', o', none)) :
    ∃ payer, s.paymentAddress o.owner = some payer ∧ o'.amount = o.amount ∧ o.amount ≠ 0 ∧ s'.supply = s.supply ∧
      (payer ≠ e.modMarket →
        s'.bal payer = s.bal payer - o.amount ∧ s'.bal e.modMarket = s.bal e.modMarket + o.amount ∧
        ∀ c, c ≠ payer → c ≠ e.modMarket → s'.bal c = s.bal c) := by
  unfold renewOrder at h
  split at h
  · simp at h
  · rename_i payer hp
    split at h
    · simp at h
    · rename_i s1 hs
      simp only [Prod.mk.injEq, and_true] at h
      obtain ⟨h1, h2⟩ := h
      refine ⟨payer, hp, by rw [← h2], ?_, ?_, ?_⟩
      · intro h0; unfold State.sendLit at hs; simp [h0, throw, throwThe, MonadExceptOf.throw] at hs
      · unfold State.sendLit at hs
        split at hs
        · cases hs
        · rw [← h1]
          unfold State.send at hs
          split at hs
          · cases hs
          · split at hs
            · cases hs
            · simp only [pure, Except.pure, Except.ok.injEq] at hs; subst hs; rfl
      · intro hne
        unfold State.sendLit at hs
        split at hs
        · cases hs
        · obtain ⟨a, b, c, _, _, _⟩ := C06_send_conserves s s1 payer e.modMarket o.amount hs hne
          rw [← h1]
          exact ⟨a, b, c⟩

theorem C04_renewal_refused_charges_nothing (e : Env) (s s' : State) (o o' : Order) (m : String)
    (h : renewOrder e s o = (s', o', some m)) : s' = s := by
  unfold renewOrder at h
  split at h
  · simp only [Prod.mk.injEq] at h; exact h.1.symm
  · split at h
    · simp only [Prod.mk.injEq] at h; exact h.1.symm
    · simp only [Prod.mk.injEq] at h; cases h.2.2

end SaoVerif
