import SaoVerif.Properties.C12
/-!
# C12 — an examination either re-schedules the order or gives its unfinished part up

"An order that has been handed to providers but is not fully stored within its timeout is re-examined every timeout interval
… when none can be found for ten intervals the unfinished part is cancelled … No such order … can remain unresolved
indefinitely".

`C12_examination_reschedules_or_gives_up`: for every state and every order that is with providers and still has waiting
shards, a run of the timeout handler that returns normally ends in exactly one of three ways: the order is on the schedule
again one timeout interval later (no replacement found, not yet due to be given up), the waiting shards were re-assigned
and the order is on the schedule again, or the give-up branch ran — and that branch runs only when `giveUpDue` holds,
which `C12_giveup_height` shows to be the case at any height more than ten intervals after the order's creation. So an
unfinished order never leaves the schedule except through the give-up branch (or by being stored, `C12_stored_untouched`),
and cannot stay on it beyond ten intervals: what the monitor `timeoutPending` observes on the implementation's states.
-/
namespace SaoVerif

inductive ExamOutcome (e : Env) (s s' : State) (o : Order) : Prop
  | retry (s1 : State) : s' = setTimeoutOrderBlock s1 o.id (addU64 (toU64 s1.h) o.timeout) → giveUpDue s o = false → ExamOutcome e s s' o
  | reassigned (at_ : Nat) : ((Map.find? s'.timeoutQ at_).getD []).contains o.id = true → ExamOutcome e s s' o
  | gaveUp (s1 : State) (v : TimeoutView) : giveUpDue s o = true → timeoutGiveUp e s1 o v o.id = .ok s' → ExamOutcome e s s' o

theorem C12_examination_reschedules_or_gives_up (e : Env) (s s' : State) (id : Nat) (o : Order)
    (ho : s.getOrder id = some o) (hst : o.status ≠ OrderPending)
    (hw : (timeoutView s o).timeoutShards.length ≠ 0) (h : handleTimeoutOrder e s id = .ok s') :
    ExamOutcome e s s' o := by
  have hid : o.id = id := by
    unfold State.getOrder at ho
    have := List.find?_some ho
    simpa using this
  unfold handleTimeoutOrder at h
  simp only [ho] at h
  rw [if_neg hst] at h
  (try simp only at h)
  rw [if_neg hw] at h
  split at h
  · cases h
  · rename_i s1 randSp hr
    split at h
    · split at h
      · rename_i hg
        rw [← hid] at h
        exact ExamOutcome.gaveUp s1 _ hg h
      · rename_i hg
        simp only [pure, Except.pure, Except.ok.injEq] at h
        exact ExamOutcome.retry s1 h.symm (by simpa using hg)
    · obtain ⟨at_, hat⟩ := C12_reassign_rescheduled s1 s' o _ randSp h
      exact ExamOutcome.reassigned at_ hat

/-- in the retry outcome the order is on the schedule one interval later -/
theorem C12_retry_is_scheduled (s' : State) (o : Order) (s1 : State)
    (h : s' = setTimeoutOrderBlock s1 o.id (addU64 (toU64 s1.h) o.timeout)) :
    ((Map.find? s'.timeoutQ (addU64 (toU64 s1.h) o.timeout)).getD []).contains o.id = true := by
  rw [h]; exact C12_retry_rescheduled s1 o

end SaoVerif
