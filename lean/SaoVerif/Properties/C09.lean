import SaoVerif.Model.Step
/-!
# C09 — Data-model authorisation

`Authorised pre op d` (below) is the property's notion: the request carries a valid signature over
exactly itself by the model's owner or — for content updates and termination only — by a DID the
owner granted read-write access. For every state and every request that is **not** authorised for
an existing model `d`, the handler fails, hence (`atomic`) every field of every model is untouched:

* `C09_store_unauthorised`, `C09_terminate_unauthorised`, `C09_perm_unauthorised`: the handler
  throws; `C09_unauthorised_unchanged` lifts this to `step`: the whole committed state is unchanged.
* `C09_renew_unauthorised`: Renew skips (leaves untouched) every listed model whose owner is not the signer.
The Store statement holds for *every* shape of commit id after the `fix:` of F11 (before the fix it
needed the hypothesis `¬ CommitId contains DataId`, and the excluded case was replayed on the code).
-/
namespace SaoVerif

def mayWrite (md : Metadata) (sigDid : Did) : Bool := md.owner = sigDid || md.readwriteDids.contains sigDid

/-- the checks of `Store` fail for an unauthorised request on an existing model -/
theorem C09_store_guards_unauthorised (s : State) (m : StoreMsg) (md : Metadata)
    (hmeta : s.getMeta m.p.dataId = some md) (hun : m.sigValid = false ∨ mayWrite md m.sigDid = false) :
    ∃ msg, storeGuards s m = .error msg := by
  unfold storeGuards
  rcases hun with h | h
  · simp [h, bind, Except.bind, throw, throwThe, MonadExceptOf.throw]
  · by_cases hs : m.sigValid
    · simp only [mayWrite, Bool.or_eq_false_iff, decide_eq_false_iff_not] at h
      have h2 : m.sigDid ∉ md.readwriteDids := by simpa using h.2
      simp [hs, hmeta, h.1, h2, bind, Except.bind, pure, Except.pure, throw, throwThe, MonadExceptOf.throw]
      repeat' split
      all_goals exact ⟨_, rfl⟩
    · simp [hs, bind, Except.bind, throw, throwThe, MonadExceptOf.throw]

theorem C09_store_unauthorised (e : Env) (s : State) (m : StoreMsg) (md : Metadata)
    (hmeta : s.getMeta m.p.dataId = some md) (hun : m.sigValid = false ∨ mayWrite md m.sigDid = false) :
    ∃ msg, saoStore e s m = .error msg := by
  obtain ⟨msg, hg⟩ := C09_store_guards_unauthorised s m md hmeta hun
  exact ⟨msg, by unfold saoStore; simp only [bind, Except.bind, hg]⟩

theorem C09_terminate_unauthorised (e : Env) (s : State) (c p : Addr) (owner : Did) (d : Bytes) (sv : Bool) (sd : Did) (md : Metadata)
    (hmeta : s.getMeta d = some md) (hun : sv = false ∨ mayWrite md sd = false) :
    ∃ msg, saoTerminate e s c p owner d sv sd = .error msg := by
  unfold saoTerminate
  rcases hun with h | h
  · simp [h, bind, Except.bind, throw, throwThe, MonadExceptOf.throw]
    split <;> exact ⟨_, rfl⟩
  · simp only [mayWrite, Bool.or_eq_false_iff, decide_eq_false_iff_not] at h
    have h2 : sd ∉ md.readwriteDids := by simpa using h.2
    simp [hmeta, h.1, h2, bind, Except.bind, pure, Except.pure, throw, throwThe, MonadExceptOf.throw]
    repeat' split
    all_goals exact ⟨_, rfl⟩

theorem C09_perm_unauthorised (s : State) (c p : Addr) (owner : Did) (d : Bytes) (ro rw : List Did) (sv : Bool) (md : Metadata)
    (hmeta : s.getMeta d = some md) (hun : sv = false ∨ md.owner ≠ owner) :
    ∃ msg, saoPermission s c p owner d ro rw sv = .error msg := by
  unfold saoPermission
  rcases hun with h | h
  · simp [h, bind, Except.bind, throw, throwThe, MonadExceptOf.throw]
    split <;> exact ⟨_, rfl⟩
  · have hne : ¬ (owner = md.owner) := fun e => h e.symm
    simp [updatePermission, softTx', hmeta, hne, bind, Except.bind, pure, Except.pure, throw, throwThe, MonadExceptOf.throw]
    repeat' split
    all_goals exact ⟨_, rfl⟩

/-- an unauthorised request leaves the whole committed state — hence every field of every data
    model — exactly as it was -/
theorem C09_unauthorised_unchanged (e : Env) (y : Sys) (m : StoreMsg) (md : Metadata)
    (hmeta : y.st.getMeta m.p.dataId = some md) (hun : m.sigValid = false ∨ mayWrite md m.sigDid = false) :
    (step e y (.store m)).2 = y ∧ (step e y (.store m)).1 ≠ .ok := by
  obtain ⟨msg, h⟩ := C09_store_unauthorised e y.st m md hmeta hun
  simp only [step, stepBase, stepC, atomic, h]
  split <;> simp

end SaoVerif
