import SaoVerif.Model.Step
/-!
# C18 — Genesis export/import round trip

`exportImport` is the composition ExportGenesis → Validate → InitGenesis of the six storage modules
as the code implements it (checked by the `genesis` operation of the correspondence harness, which
really exports, validates and InitChains a fresh application and carries on there).

* `C18_statement`: the round trip is the identity on committed state, and every later operation
  behaves the same. **Refuted** (`C18_refuted`) by a state with an open fault / non-zero cursor:
  x/node has no genesis field for them (finding F19, needs new protobuf fields — not repaired).
* `C18_partial`: on states without fault records, fishing rewards and cursor (and a materialised
  order counter) the round trip is the identity, hence (`C18_continuation`) the re-initialised
  chain processes every subsequent operation exactly like the original.
* `C18_idempotent`: a second round trip changes nothing more.
-/
namespace SaoVerif

def C18_statement : Prop := ∀ s : State, exportImport s = s

def NoUnexportedState (s : State) : Prop :=
  s.faults = [] ∧ s.faultIdx = [] ∧ s.fishing = [] ∧ s.nodeRound = none ∧ s.orderCount = some s.getOrderCount

theorem C18_partial (s : State) (h : NoUnexportedState s) : exportImport s = s := by
  obtain ⟨h1, h2, h3, h4, h5⟩ := h
  unfold exportImport
  rw [← h1, ← h2, ← h3, ← h4, ← h5]

theorem C18_continuation (e : Env) (s : State) (g : Dec) (op : Op) (h : NoUnexportedState s) :
    step e ⟨exportImport s, g⟩ op = step e ⟨s, g⟩ op := by
  rw [C18_partial s h]

theorem getOrderCount_pos (s : State) : s.getOrderCount ≠ 0 := by
  unfold State.getOrderCount
  split <;> simp_all

theorem C18_idempotent (s : State) : exportImport (exportImport s) = exportImport s := by
  apply C18_partial
  refine ⟨rfl, rfl, rfl, rfl, ?_⟩
  show some s.getOrderCount = some (exportImport s).getOrderCount
  have h := getOrderCount_pos s
  unfold exportImport State.getOrderCount at *
  simp only

theorem C18_refuted : ¬ C18_statement := by
  intro h
  have := h { (default : State) with nodeRound := some 2 }
  simp [exportImport] at this

/-- non-vacuity of `C18_partial`: a populated state satisfying its hypothesis -/
example : NoUnexportedState { (default : State) with orderCount := some 3, shardCount := 5 } :=
  ⟨rfl, rfl, rfl, rfl, rfl⟩

end SaoVerif
