import SaoVerif.Model.Step
import SaoVerif.Spec.Inv
/-!
# C16 — Version linearity and identifier uniqueness

* `C16_appendOrder_fresh`, `C16_appendShard_fresh`: the only two functions that hand out identifiers
  return the current counter, bump it by one, and keep "every stored id is below the counter":
  an identifier is never reused and identifiers grow with creation order — for all states.
* The base-version check itself is a substring test (`baseAccepted` states exactly what Store
  accepts); `C16_refuted_empty_base` shows that the empty base is accepted for every model
  (finding F17). That the rollback of a cancelled update restores the last committed version, and
  "one update in flight", are decided by the monitors `baseIsLatest` / `oneInFlight` and by the
  correspondence of Cancel / end-block (the seeded change `seeded/C16-1` is caught there).
-/
namespace SaoVerif
open Spec

theorem getOrderCount_cases (s : State) :
    (s.orderCount = none ∧ s.getOrderCount = 1) ∨ (s.orderCount = some 0 ∧ s.getOrderCount = 1) ∨
    (∃ k, s.orderCount = some (k + 1) ∧ s.getOrderCount = k + 1) := by
  unfold State.getOrderCount
  cases h : s.orderCount with
  | none => exact Or.inl ⟨rfl, rfl⟩
  | some n =>
    cases n with
    | zero => exact Or.inr (Or.inl ⟨rfl, rfl⟩)
    | succ k => exact Or.inr (Or.inr ⟨k, rfl, rfl⟩)

theorem getOrderCount_pos' (s : State) : 0 < s.getOrderCount := by
  rcases getOrderCount_cases s with ⟨_, h⟩ | ⟨_, h⟩ | ⟨k, _, h⟩ <;> omega

theorem getOrderCount_after_append (s : State) (o : Order) :
    (s.appendOrder o).2.getOrderCount = s.getOrderCount + 1 := by
  have hp := getOrderCount_pos' s
  have : (s.appendOrder o).2.orderCount = some (s.getOrderCount + 1) := rfl
  rcases getOrderCount_cases (s.appendOrder o).2 with ⟨h1, _⟩ | ⟨h1, _⟩ | ⟨k, h1, h2⟩
  · rw [this] at h1; cases h1
  · rw [this] at h1; simp at h1
  · rw [this] at h1; simp at h1; omega

theorem upsertBy_mem {α : Type} (key : α → Nat) (l : List α) (x y : α) (h : y ∈ upsertBy key l x) : y = x ∨ y ∈ l := by
  induction l with
  | nil => simp [upsertBy] at h; exact Or.inl h
  | cons z t ih =>
    unfold upsertBy at h
    split at h
    · rcases List.mem_cons.mp h with h | h
      · exact Or.inl h
      · exact Or.inr (List.mem_cons_of_mem _ h)
    · split at h
      · rcases List.mem_cons.mp h with h | h
        · exact Or.inl h
        · exact Or.inr h
      · rcases List.mem_cons.mp h with h | h
        · exact Or.inr (by rw [h]; exact List.mem_cons_self)
        · rcases ih h with h | h
          · exact Or.inl h
          · exact Or.inr (List.mem_cons_of_mem _ h)

theorem C16_appendOrder_fresh (s : State) (o : Order) (hf : ∀ x ∈ s.orders, x.id < s.getOrderCount) :
    (s.appendOrder o).1 = s.getOrderCount ∧ (s.appendOrder o).2.getOrderCount = s.getOrderCount + 1 ∧
    (∀ x ∈ (s.appendOrder o).2.orders, x.id < (s.appendOrder o).2.getOrderCount) ∧
    (∀ x ∈ s.orders, x.id ≠ (s.appendOrder o).1) := by
  have hp := getOrderCount_pos' s
  refine ⟨rfl, getOrderCount_after_append s o, ?_, ?_⟩
  · intro x hx
    rw [getOrderCount_after_append s o]
    unfold State.appendOrder State.setOrder at hx
    simp only at hx
    rcases upsertBy_mem _ _ _ _ hx with h | h
    · rw [h]; simp
    · have := hf x h; omega
  · intro x hx
    have := hf x hx
    show x.id ≠ s.getOrderCount
    omega

theorem C16_appendShard_fresh (s : State) (x : Shard) (hf : ∀ y ∈ s.shards, y.id < s.shardCount) :
    (s.appendShard x).1 = s.shardCount ∧ (s.appendShard x).2.shardCount = s.shardCount + 1 ∧
    (∀ y ∈ (s.appendShard x).2.shards, y.id < (s.appendShard x).2.shardCount) ∧
    (∀ y ∈ s.shards, y.id ≠ (s.appendShard x).1) := by
  refine ⟨rfl, rfl, ?_, ?_⟩
  · intro y hy
    unfold State.appendShard State.setShard at hy
    simp only at hy
    rcases upsertBy_mem _ _ _ _ hy with h | h
    · rw [h]; show s.shardCount < s.shardCount + 1; omega
    · have := hf y h; show y.id < s.shardCount + 1; omega
  · intro y hy
    have := hf y hy
    show y.id ≠ s.shardCount
    omega

/-- what the base check of Store tests: the base (text before `|`, or the whole id) occurs in the
    model's current commit id -/
def baseAccepted (md : Metadata) (commitId : Bytes) : Bool :=
  containsB md.commit (if commitId.contains BAR then (splitB commitId BAR).headD [] else commitId)

/-- the empty base is "contained" in every commit id: an update naming no base at all is accepted -/
theorem C16_refuted_empty_base (md : Metadata) (new : Bytes) :
    baseAccepted md (BAR :: new) = true := by
  unfold baseAccepted
  have h1 : (BAR :: new).contains BAR = true := by simp
  simp only [h1, ↓reduceIte]
  have h2 : (splitB (BAR :: new) BAR).headD [] = [] := by
    simp [splitB, splitB.go]
  rw [h2]
  cases md.commit <;> simp [containsB, isPrefixB]

end SaoVerif
