import SaoVerif.Model.Step
import SaoVerif.Spec.Inv
/-!
# C16 — Version linearity and identifier uniqueness

* `C16_appendOrder_fresh`, `C16_appendShard_fresh`: the only two functions that hand out identifiers
  return the current counter, bump it by one, and keep "every stored id is below the counter":
  an identifier is never reused and identifiers grow with creation order — for all states.
* The base-version check itself is a substring test (`baseAccepted` states exactly what Store
  accepts); `C16_refuted_empty_base` shows that the empty base is accepted for every model
  (finding F17). That the rollback of a cancelled update restores the last committed version, and
  "one update in flight", are decided by the monitors `baseIsLatest` / `oneInFlight` and by the
  correspondence of Cancel / end-block (the seeded change `seeded/C16-1` is caught there).
-/
namespace SaoVerif
open Spec

theorem getOrderCount_cases (s : State) :
    (s.orderCount = none ∧ s.getOrderCount = 1) ∨ (s.orderCount = some 0 ∧ s.getOrderCount = 1) ∨
    (∃ k, s.orderCount = some (k + 1) ∧ s.getOrderCount = k + 1) := by
  unfold State.getOrderCount
  cases h : s.orderCount with
  | none => exact Or.inl ⟨rfl, rfl⟩
  | some n =>
    cases n with
    | zero => exact Or.inr (Or.inl ⟨rfl, rfl⟩)
    | succ k => exact Or.inr (Or.inr ⟨k, rfl, rfl⟩)

theorem getOrderCount_pos' (s : State) : 0 < s.getOrderCount := by
  rcases getOrderCount_cases s with ⟨_, h⟩ | ⟨_, h⟩ | ⟨k, _, h⟩ <;> omega

theorem getOrderCount_after_append (s : State) (o : Order) :
    (s.appendOrder o).2.getOrderCount = s.getOrderCount + 1 := by
  have hp := getOrderCount_pos' s
  have : (s.appendOrder o).2.orderCount = some (s.getOrderCount + 1) := rfl
  rcases getOrderCount_cases (s.appendOrder o).2 with ⟨h1, _⟩ | ⟨h1, _⟩ | ⟨k, h1, h2⟩
  · rw [this] at h1; cases h1
  · rw [this] at h1; simp at h1
  · rw [this] at h1; simp at h1; omega

theorem upsertBy_mem {α : Type} (key : α → Nat) (l : List α) (x y : α) (h : y ∈ upsertBy key l x) : y = x ∨ y ∈ l := by
  induction l with
  | nil => simp [upsertBy] at h; exact Or.inl h
  | cons z t ih =>
    unfold upsertBy at h
    split at h
    · rcases List.mem_cons.mp h with h | h
      · exact Or.inl h
      · exact Or.inr (List.mem_cons_of_mem _ h)
    · split at h
      · rcases List.mem_cons.mp h with h | h
        · exact Or.inl h
        · exact Or.inr h
      · rcases List.mem_cons.mp h with h | h
        · exact Or.inr (by rw [h]; exact List.mem_cons_self)
        · rcases ih h with h | h
          · exact Or.inl h
          · exact Or.inr (List.mem_cons_of_mem _ h)

theorem C16_appendOrder_fresh (s : State) (o : Order) (hf : ∀ x ∈ s.orders, x.id < s.getOrderCount) :
    (s.appendOrder o).1 = s.getOrderCount ∧ (s.appendOrder o).2.getOrderCount = s.getOrderCount + 1 ∧
    (∀ x ∈ (s.appendOrder o).2.orders, x.id < (s.appendOrder o).2.getOrderCount) ∧
    (∀ x ∈ s.orders, x.id ≠ (s.appendOrder o).1) := by
  have hp := getOrderCount_pos' s
  refine ⟨rfl, getOrderCount_after_append s o, ?_, ?_⟩
  · intro x hx
    rw [getOrderCount_after_append s o]
    unfold State.appendOrder State.setOrder at hx
    simp only at hx
    rcases upsertBy_mem _ _ _ _ hx with h | h
    · rw [h]; simp
    · have := hf x h; omega
  · intro x hx
    have := hf x hx
    show x.id ≠ s.getOrderCount
    omega

theorem C16_appendShard_fresh (s : State) (x : Shard) (hf : ∀ y ∈ s.shards, y.id < s.shardCount) :
    (s.appendShard x).1 = s.shardCount ∧ (s.appendShard x).2.shardCount = s.shardCount + 1 ∧
    (∀ y ∈ (s.appendShard x).2.shards, y.id < (s.appendShard x).2.shardCount) ∧
    (∀ y ∈ s.shards, y.id ≠ (s.appendShard x).1) := by
  refine ⟨rfl, rfl, ?_, ?_⟩
  · intro y hy
    unfold State.appendShard State.setShard at hy
    simp only at hy
    rcases upsertBy_mem _ _ _ _ hy with h | h
    · rw [h]; show s.shardCount < s.shardCount + 1; omega
    · have := hf y h; show y.id < s.shardCount + 1; omega
  · intro y hy
    have := hf y hy
    show y.id ≠ s.shardCount
    omega

/-- what the base check of Store tests: the base (text before `|`, or the whole id) occurs in the
    model's current commit id -/
def baseAccepted (md : Metadata) (commitId : Bytes) : Bool :=
  containsB md.commit (if commitId.contains BAR then (splitB commitId BAR).headD [] else commitId)

/-- the empty base is "contained" in every commit id: an update naming no base at all is accepted -/
theorem C16_refuted_empty_base (md : Metadata) (new : Bytes) :
    baseAccepted md (BAR :: new) = true := by
  unfold baseAccepted
  have h1 : (BAR :: new).contains BAR = true := by simp
  simp only [h1, ↓reduceIte]
  have h2 : (splitB (BAR :: new) BAR).headD [] = [] := by
    simp [splitB, splitB.go]
  rw [h2]
  cases md.commit <;> simp [containsB, isPrefixB]

end SaoVerif

namespace SaoVerif

/-- `ResetMetaDuration` changes nothing of a model record but its duration -/
theorem resetMetaDuration_keeps (s s' : State) (m m' : Metadata) (h : resetMetaDuration s m = .ok (s', m')) :
    m' = { m with duration := m'.duration } := by
  unfold resetMetaDuration at h
  simp only [bind, Except.bind, pure, Except.pure] at h
  split at h
  · simp only [Except.ok.injEq, Prod.mk.injEq] at h
    rw [← h.2]
  · split at h
    · split at h
      · cases h
      · simp only [Except.ok.injEq, Prod.mk.injEq] at h
        rw [← h.2]
    · simp only [Except.ok.injEq, Prod.mk.injEq] at h
      rw [← h.2]

theorem find_map_replace (l : List Metadata) (m : Metadata) (h : l.any (·.dataId = m.dataId) = true) :
    (l.map (fun x => if x.dataId = m.dataId then m else x)).find? (·.dataId = m.dataId) = some m := by
  induction l with
  | nil => simp at h
  | cons y t ih =>
    simp only [List.map_cons, List.find?_cons]
    by_cases hy : y.dataId = m.dataId
    · simp [hy]
    · have ht : t.any (·.dataId = m.dataId) = true := by
        simp only [List.any_cons, Bool.or_eq_true] at h
        rcases h with h | h
        · simp [hy] at h
        · exact h
      simp only [hy, if_false, decide_false]
      exact ih ht

theorem getMeta_setMeta (s : State) (m : Metadata) : (s.setMeta m).getMeta m.dataId = some m := by
  unfold State.setMeta State.getMeta
  simp only
  split
  · rename_i h; exact find_map_replace _ _ h
  · rename_i h
    rw [List.find?_append]
    have : s.metas.find? (·.dataId = m.dataId) = none := by
      apply List.find?_eq_none.mpr
      intro x hx hxd
      apply h
      exact List.any_eq_true.mpr ⟨x, hx, hxd⟩
    simp [this]

theorem getMeta_dataId (s : State) (d : Bytes) (m : Metadata) (h : s.getMeta d = some m) : m.dataId = d := by
  have := List.find?_some h
  simpa using this

/-- cancelling an update of a model that has committed versions puts the model back on its chain:
    status Complete, the latest commit is the last entry of the (unchanged) commit list, and the
    current order is the last completed one -/
theorem C16_rollback_restores_latest (s s' : State) (d : Bytes) (m : Metadata) (hm : s.getMeta d = some m)
    (hc : m.commits ≠ []) (h : rollbackMeta s d = .ok s') :
    ∃ m', s'.getMeta d = some m' ∧ m'.status = MetaComplete ∧ m'.commits = m.commits ∧
      some m'.commit = m.commits.getLast?.map commitFromVersion ∧ some m'.orderId = m.orders.getLast? := by
  unfold rollbackMeta at h
  simp only [hm] at h
  have hl : ¬ m.commits.length = 0 := by
    intro h0; exact hc (List.length_eq_zero_iff.mp h0)
  rw [if_neg hl] at h
  cases hlo : m.orders.getLast? with
  | none => simp [hlo, throw, throwThe, MonadExceptOf.throw, bind, Except.bind] at h
  | some lo =>
    simp only [hlo, bind, Except.bind] at h
    split at h
    · cases h
    · rename_i r hr
      obtain ⟨s1, m1⟩ := r
      simp only [pure, Except.pure, Except.ok.injEq] at h
      subst h
      have hk := resetMetaDuration_keeps _ _ _ _ hr
      have hd := getMeta_dataId _ _ _ hm
      have hd1 : m1.dataId = d := by rw [hk]; exact hd
      refine ⟨m1, ?_, ?_, ?_, ?_, ?_⟩
      · rw [← hd1]; exact getMeta_setMeta _ _
      · rw [hk]
      · rw [hk]
      · rw [hk]
        cases hcl : m.commits.getLast? with
        | none => exact absurd (List.getLast?_eq_none_iff.mp hcl) hc
        | some v => simp
      · rw [hk]

end SaoVerif
