import SaoVerif.Properties.C04
/-!
# C14 — Terminate decrements the node-side and the market-side counters under the same condition

"counters are incremented in ShardPledge/WorkerAppend and decremented in ShardRelease/WorkerRelease under the same
condition (shard completed and owned by the order)". For `TerminateOrder` the market side is `Withdraw`
(`withdrawLoop` → `workerRelease`) and the node side is the release loop (`modelTerminateOrder.rel` → `shardRelease`).
`C14_terminate_skips_foreign_shard`: for a shard the order lists but does not own (a renewal order lists the shards it
will take over later; a later order's shard; a shard not completed) *neither* loop touches any pledge or worker
record. seeded/C14-2 widens only the node-side condition, so a renewed shard is released twice.
-/
namespace SaoVerif

theorem C14_terminate_skips_foreign_shard (e : Env) (o : Order) (s : State) (r : Dec) (id : Nat) (sh : Shard)
    (hs : s.getShard id = some sh) (hnot : ¬ (sh.status = ShardCompleted ∧ sh.orderId = o.id)) :
    (withdrawLoop o [id] s r).1 = s ∧ modelTerminateOrder.rel e o [id] s = .ok (s, none) := by
  constructor
  · unfold withdrawLoop
    simp only [hs]
    repeat' split
    all_goals (first | (rename_i h; exact absurd h hnot) | simp [withdrawLoop])
  · unfold modelTerminateOrder.rel
    simp only [hs]
    split
    · rename_i h; exact absurd h hnot
    · unfold modelTerminateOrder.rel
      rfl

/-- … and for a shard the order owns both run: the worker's stored bytes and the pledge's used capacity drop together -/
theorem C14_terminate_releases_owned_shard_on_both_sides (e : Env) (o : Order) (s : State) (r : Dec) (id : Nat) (sh : Shard) (w : Worker)
    (hs : s.getShard id = some sh) (hst : sh.status = ShardCompleted) (heq : sh.orderId = o.id)
    (hw : s.getWorker sh.sp = some w) :
    (withdrawLoop o [id] s r).1 = (workerRelease s o sh).1 ∧
    modelTerminateOrder.rel e o [id] s = (do
      let (s, err) ← shardRelease e s sh.sp (some sh)
      match err with
      | some m => pure (s, some m)
      | none => modelTerminateOrder.rel e o [] s) := by
  constructor
  · have h1 : ¬ (sh.orderId > o.id) := by omega
    simp [withdrawLoop, hs, h1, hst, heq, workerRelease, hw]
  · conv => lhs; unfold modelTerminateOrder.rel
    simp only [hs, hst, heq, and_self, if_true]
    rfl

end SaoVerif
