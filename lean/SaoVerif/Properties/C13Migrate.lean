import SaoVerif.Proofs.Ids
/-!
# C13 — completing a migration leaves no order listing the removed source shard

When a migrating shard is completed, the source shard is released and removed, and every order that listed it must list the
new shard instead: the order being completed, the order the source shard was earning under, and the order of every renewal
the source shard carries (the `fix:` of F02 added the last group). `C13_migration_leaves_no_dangling_reference`: if in the
state before, every order listing the source shard is one of those (which is what the invariant "a shard is listed by its
own order and by the orders of its pending renewals" says), and order ids are unique, then after `completeMigration` **no**
order lists the removed shard — for every state, order and shard. `C13_migration_removes_source` is the other half: the shard
record itself is gone.
-/
namespace SaoVerif

def OSorted (s : State) : Prop := (s.orders.map (·.id)).Pairwise (· < ·)

/-- the order store is sorted in every state reachable from a sorted one (`Bnd` is an invariant of every history: Properties/C16Ids.lean) -/
theorem Bnd_OSorted {s : State} (hb : Bnd s) : OSorted s := (Bnd_sorted hb).1

theorem setOrder_listers (s : State) (x : Order) (L : Nat) (hs : OSorted s) (hx : L ∉ x.shards) :
    OSorted (s.setOrder x) ∧ ∀ o ∈ (s.setOrder x).orders, L ∈ o.shards → o ∈ s.orders ∧ o.id ≠ x.id := by
  refine ⟨upsertBy_sorted (fun (z : Order) => z.id) _ _ hs, ?_⟩
  intro o ho hL
  rcases upsertBy_mem_ne (fun (z : Order) => z.id) s.orders x o hs ho with h | h
  · rw [h] at hL; exact absurd hL hx
  · exact h

theorem foldSet_listers (s0 : State) (f : Order → Order) (L : Nat) (hfid : ∀ x, (f x).id = x.id) (hfL : ∀ x, L ∉ (f x).shards)
    (ids : List Nat) (sB : State) (hs : OSorted sB) :
    OSorted (ids.foldl (fun (s' : State) id => match s0.getOrder id with
        | some o => s'.setOrder (f o)
        | none => s') sB) ∧
    ∀ o ∈ (ids.foldl (fun (s' : State) id => match s0.getOrder id with
        | some o => s'.setOrder (f o)
        | none => s') sB).orders, L ∈ o.shards →
      o ∈ sB.orders ∧ ∀ id ∈ ids, (s0.getOrder id).isSome → o.id ≠ id := by
  induction ids generalizing sB with
  | nil => exact ⟨hs, fun o ho _ => ⟨ho, fun id hid => by cases hid⟩⟩
  | cons a t ih =>
    simp only [List.foldl_cons]
    cases hg : s0.getOrder a with
    | none =>
      simp only
      have := ih sB hs
      refine ⟨this.1, fun o ho hL => ?_⟩
      obtain ⟨h1, h2⟩ := this.2 o ho hL
      refine ⟨h1, fun id hid hsome => ?_⟩
      rcases List.mem_cons.mp hid with h | h
      · rw [h, hg] at hsome; cases hsome
      · exact h2 id h hsome
    | some oa =>
      simp only
      have hst := setOrder_listers sB (f oa) L hs (hfL oa)
      have := ih (sB.setOrder (f oa)) hst.1
      refine ⟨this.1, fun o ho hL => ?_⟩
      obtain ⟨h1, h2⟩ := this.2 o ho hL
      obtain ⟨h3, h4⟩ := hst.2 o h1 hL
      refine ⟨h3, fun id hid hsome => ?_⟩
      rcases List.mem_cons.mp hid with h | h
      · rw [h]
        have : oa.id = a := (getOrder_mem hg).2
        rw [hfid, this] at h4; exact h4
      · exact h2 id h hsome

theorem migTail_listers (A : State) (hA : OSorted A) (L : Nat) (o' ip0 : Order) (c : Prop) [Decidable c] (f : Order → Order)
    (hfid : ∀ x, (f x).id = x.id) (hfL : ∀ x, L ∉ (f x).shards) (ho'L : L ∉ o'.shards) (l : List Nat) (s' : State)
    (h1 : l.foldl (fun (s' : State) id => match A.getOrder id with
        | some o => s'.setOrder (f o)
        | none => s') (if c then ((A.setOrder o').setOrder (f ip0), f ip0) else (A.setOrder o', o')).1 = s') :
    ∀ o ∈ s'.orders, L ∈ o.shards →
      o ∈ A.orders ∧ o.id ≠ o'.id ∧ (c → o.id ≠ ip0.id) ∧ ∀ id ∈ l, (A.getOrder id).isSome → o.id ≠ id := by
  have e1 := setOrder_listers A o' L hA ho'L
  have hB : OSorted (if c then ((A.setOrder o').setOrder (f ip0), f ip0) else (A.setOrder o', o')).1 ∧
      ∀ o ∈ (if c then ((A.setOrder o').setOrder (f ip0), f ip0) else (A.setOrder o', o')).1.orders, L ∈ o.shards →
        o ∈ A.orders ∧ o.id ≠ o'.id ∧ (c → o.id ≠ ip0.id) := by
    split
    · rename_i hc
      have e2 := setOrder_listers (A.setOrder o') (f ip0) L e1.1 (hfL ip0)
      refine ⟨e2.1, fun o ho hL => ?_⟩
      obtain ⟨h3, h4⟩ := e2.2 o ho hL
      obtain ⟨h5, h6⟩ := e1.2 o h3 hL
      exact ⟨h5, h6, fun _ => by rw [hfid] at h4; exact h4⟩
    · rename_i hc
      refine ⟨e1.1, fun o ho hL => ?_⟩
      obtain ⟨h5, h6⟩ := e1.2 o ho hL
      exact ⟨h5, h6, fun hc' => absurd hc' hc⟩
  have hF := foldSet_listers A f L hfid hfL l _ hB.1
  rw [h1] at hF
  intro o ho hL
  obtain ⟨h7, h8⟩ := hF.2 o ho hL
  obtain ⟨h9, h10, h11⟩ := hB.2 o h7 hL
  exact ⟨h9, h10, h11, h8⟩

/-- **C13 (the defect class of F02)**: after a migration is completed, no order lists the removed source shard -/
theorem C13_migration_leaves_no_dangling_reference (e : Env) (s s' : State) (order : Order) (shard : Shard) (oldShard : Shard)
    (o' : Order) (sh' : Shard) (ip : Order)
    (hs : OSorted s)
    (hold : getOrderShardBySP s order shard.«from» = some oldShard)
    (hne : shard.id ≠ oldShard.id)
    (hJ : ∀ o ∈ s.orders, oldShard.id ∈ o.shards →
      o.id = order.id ∨ o.id = oldShard.orderId ∨ o.id ∈ oldShard.renewInfos.map (·.orderId))
    (h : completeMigration e s order shard = .ok (s', o', sh', ip)) :
    ∀ o ∈ s'.orders, oldShard.id ∉ o.shards := by
  unfold completeMigration softTx softTx' at h
  simp only [bind, Except.bind, pure, Except.pure, throw, throwThe, MonadExceptOf.throw] at h
  split at h
  · cases h
  · split at h
    · cases h
    · rename_i v hv
      have hv' : osPart v = osPart s := by
        split at hv
        · cases hv
        · rename_i w hw
          split at hv
          · cases hv
          · simp only [Except.ok.injEq] at hv
            rw [← hv]
            exact shardRelease_os _ _ _ _ _ _ hw
      rw [hold] at h
      simp only at h
      split at h
      · cases h
      · rename_i v2 hv2
        have hv2' : osPart v2 = osPart v := by
          split at hv2
          · cases hv2
          · simp only [Except.ok.injEq] at hv2
            rw [← hv2]
            exact marketMigrate_os _ _ _ _
        have hord : (v2.removeShard oldShard.id).orders = s.orders := by
          show v2.orders = s.orders
          have := hv2'.trans hv'
          exact congrArg (fun p => p.1) this
        have hvord : v.orders = s.orders := congrArg (fun p => p.1) hv'
        have hA : OSorted (v2.removeShard oldShard.id) := by unfold OSorted; rw [hord]; exact hs
        simp only [Except.ok.injEq, Prod.mk.injEq] at h
        obtain ⟨h1, _, _, _⟩ := h
        have key := migTail_listers (v2.removeShard oldShard.id) hA oldShard.id _ _ _ _ (by intro x; rfl)
          (by intro x hx; simp only [List.mem_append, List.mem_filter, List.mem_singleton] at hx
              split at hx
              · simp only [List.mem_filter, decide_eq_true_eq] at hx; exact hx.2.1 rfl
              · simp only [List.mem_append, List.mem_filter, List.mem_singleton, decide_eq_true_eq] at hx
                rcases hx with hx | hx
                · exact hx.2.1 rfl
                · exact hne hx.symm)
          (by intro hx; simp only [List.mem_filter, decide_eq_true_eq, if_true] at hx; exact hx.2.1 rfl) _ s' h1
        intro o ho hL
        obtain ⟨k1, k2, k3, k4⟩ := key o ho hL
        rw [hord] at k1
        rcases hJ o k1 hL with hj | hj | hj
        · exact k2 hj
        all_goals
          have k2' : o.id ≠ order.id := k2
          have hfind : s.orders.find? (·.id = o.id) = some o := sorted_find_unique _ _ hs k1
          have hvget : v.getOrder o.id = some o := by unfold State.getOrder; rw [hvord]; exact hfind
          have hAget : (v2.removeShard oldShard.id).getOrder o.id = some o := by unfold State.getOrder; rw [hord]; exact hfind
        · -- the order the source shard was earning under
          by_cases hc : oldShard.orderId ≠ order.id
          · have := k3 hc
            rw [if_pos hc, ← hj, hvget] at this
            exact this rfl
          · have : oldShard.orderId = order.id := Decidable.of_not_not hc
            exact k2' (hj.trans this)
        · -- the order of one of its pending renewals
          by_cases hip : o.id = (if oldShard.orderId ≠ order.id then (v.getOrder oldShard.orderId).getD default else order).id
          · by_cases hc : oldShard.orderId ≠ order.id
            · exact k3 hc hip
            · rw [if_neg hc] at hip; exact k2' hip
          · refine k4 o.id ?_ (by rw [hAget]; rfl) rfl
            simp only [List.mem_filter, decide_eq_true_eq]
            exact ⟨hj, k2', hip⟩

theorem foldSet_shards (s0 : State) (f : Order → Order) (ids : List Nat) (sB : State) :
    (ids.foldl (fun (s' : State) id => match s0.getOrder id with
        | some o => s'.setOrder (f o)
        | none => s') sB).shards = sB.shards := by
  induction ids generalizing sB with
  | nil => rfl
  | cons a t ih =>
    simp only [List.foldl_cons]
    rw [ih]
    split <;> rfl

/-- … and the source shard's record is gone -/
theorem C13_migration_removes_source (e : Env) (s s' : State) (order : Order) (shard : Shard) (oldShard : Shard)
    (o' : Order) (sh' : Shard) (ip : Order)
    (hold : getOrderShardBySP s order shard.«from» = some oldShard)
    (h : completeMigration e s order shard = .ok (s', o', sh', ip)) :
    s'.getShard oldShard.id = none := by
  unfold completeMigration softTx softTx' at h
  simp only [bind, Except.bind, pure, Except.pure, throw, throwThe, MonadExceptOf.throw] at h
  split at h
  · cases h
  · split at h
    · cases h
    · rw [hold] at h
      simp only at h
      split at h
      · cases h
      · rename_i v2 hv2
        simp only [Except.ok.injEq, Prod.mk.injEq] at h
        obtain ⟨h1, _, _, _⟩ := h
        rw [← h1]
        unfold State.getShard
        refine (congrArg (fun l => List.find? (fun x => decide (x.id = oldShard.id)) l) (foldSet_shards _ _ _ _)).trans ?_
        have : ∀ (B : State), B.shards = (v2.removeShard oldShard.id).shards → B.shards.find? (·.id = oldShard.id) = none := by
          intro B hB
          rw [hB]
          apply List.find?_eq_none.mpr
          intro x hx
          unfold State.removeShard at hx
          simp only [List.mem_filter, decide_eq_true_eq] at hx
          simp only [decide_eq_true_eq]
          exact hx.2
        apply this
        split <;> rfl

end SaoVerif
