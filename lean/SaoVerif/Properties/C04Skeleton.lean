import SaoVerif.Skeleton.x_sao_keeper_msg_server_store_go
import SaoVerif.Skeleton.x_sao_keeper_msg_server_complete_go
import SaoVerif.Skeleton.x_sao_keeper_msg_server_renew_go
import SaoVerif.Skeleton.x_market_keeper_pool_management_go
import SaoVerif.Skeleton.x_order_keeper_order_management_go
import SaoVerif.Skeleton.x_model_keeper_data_management_go
import SaoVerif.Skeleton.x_sao_keeper_timeout_management_go
import SaoVerif.Skeleton.x_sao_keeper_expire_management_go
import SaoVerif.Skeleton.x_node_keeper_msg_server_claim_reward_go
/-!
# C04 — the decision logic of the anchor files is the one that was modelled

The extractor (harness/cmd/extract) regenerates, on every run and from the tree under check, the *decision skeleton* of every
function: its branching constructs in source order, each guard with its condition and with how its branch ends (`return <err>`,
`continue`, `panic`, …). The hand-written model mirrors exactly these decisions (its `…Pre` / `…Guards` functions are the
guards of the handlers, in their order). This theorem says that for the files the property is anchored in
(x/sao/keeper/msg_server_store.go, x/sao/keeper/msg_server_complete.go, x/sao/keeper/msg_server_renew.go, x/market/keeper/pool_management.go, x/order/keeper/order_management.go, x/model/keeper/data_management.go, x/sao/keeper/timeout_management.go, x/sao/keeper/expire_management.go, x/node/keeper/msg_server_claim_reward.go) the regenerated skeletons equal the ones the model was written against
(one kernel-evaluated equality per source file, `SaoVerif/Skeleton/<file>.lean`). A change of a guard, of its order, or a new or
removed branch breaks it: the correspondence then has to be re-established (the check searches the histories for a failing
input and reports the violation either way).
-/
namespace SaoVerif

theorem C04_decision_skeleton_as_modelled :
    [Generated.Skel.x_sao_keeper_msg_server_store_go,
     Generated.Skel.x_sao_keeper_msg_server_complete_go,
     Generated.Skel.x_sao_keeper_msg_server_renew_go,
     Generated.Skel.x_market_keeper_pool_management_go,
     Generated.Skel.x_order_keeper_order_management_go,
     Generated.Skel.x_model_keeper_data_management_go,
     Generated.Skel.x_sao_keeper_timeout_management_go,
     Generated.Skel.x_sao_keeper_expire_management_go,
     Generated.Skel.x_node_keeper_msg_server_claim_reward_go] =
    [Expected.Skel.x_sao_keeper_msg_server_store_go,
     Expected.Skel.x_sao_keeper_msg_server_complete_go,
     Expected.Skel.x_sao_keeper_msg_server_renew_go,
     Expected.Skel.x_market_keeper_pool_management_go,
     Expected.Skel.x_order_keeper_order_management_go,
     Expected.Skel.x_model_keeper_data_management_go,
     Expected.Skel.x_sao_keeper_timeout_management_go,
     Expected.Skel.x_sao_keeper_expire_management_go,
     Expected.Skel.x_node_keeper_msg_server_claim_reward_go] := by
  rw [skel_x_sao_keeper_msg_server_store_go, skel_x_sao_keeper_msg_server_complete_go, skel_x_sao_keeper_msg_server_renew_go, skel_x_market_keeper_pool_management_go, skel_x_order_keeper_order_management_go, skel_x_model_keeper_data_management_go, skel_x_sao_keeper_timeout_management_go, skel_x_sao_keeper_expire_management_go, skel_x_node_keeper_msg_server_claim_reward_go]

end SaoVerif
