import SaoVerif.Proofs.Ledger
import SaoVerif.Properties.C08Footprint
/-!
# C06 — the ledger stays balanced over every history

`ledPart s` (Proofs/Ledger.lean) = the sum of all account balances minus the recorded supply. No operation of the model
changes it (`C06_step_keeps_ledger_balanced`): storage, market, node, DID, fault and staking messages and the end-blockers move
coins only by transfers, which debit and credit the same amount; the begin-blocker mints into an account and into the supply
by the same amount. So for every history the total of all balances moves exactly with the supply
(`C06_ledger_over_histories`), and — with `C08_coins_are_created_only_by_the_begin_blocker` — outside begin-blocks the
total of all balances is constant (`C06_total_constant_outside_begin`): whatever an escrow pays out was paid into some
account before. The solvency monitors (§7, C06) compare each escrow with the records; this theorem is the "no coins from
nowhere" half of that comparison, for all states and histories.
-/
namespace SaoVerif

/-! ### staking messages -/
theorem setRole_ledS (e : Env) (s : State) (a : Addr) (r : Nat) (v : Option ValAddr) : ledPart (setRole e s a r v) = ledPart s := by
  unfold setRole; split <;> rfl

theorem verifyLoop_ledS (e : Env) (val : ValAddr) (acc : Option Addr) (b : Bool) (sub : Dec) (l : List DelegationV) (s s' : State)
    (h : verifySuper.loop e val acc b sub l s = .ok s') : ledPart s' = ledPart s := by
  induction l generalizing s with
  | nil => unfold verifySuper.loop at h; simp only [pure, Except.pure, Except.ok.injEq] at h; rw [← h]
  | cons d t ih =>
    unfold verifySuper.loop at h
    have key : ∀ (x : State), ledPart x = ledPart s → verifySuper.loop e val acc b sub t x = .ok s' → ledPart s' = ledPart s :=
      fun x hx hl => (ih _ hl).trans hx
    have k1 : ∀ (c : Prop) [Decidable c] (a : Addr) (r : Nat) (v : Option ValAddr),
        ledPart (if c then setRole e s a r v else s) = ledPart s := by
      intro c _ a r v; split
      · exact setRole_ledS _ _ _ _ _
      · rfl
    split at h
    · exact ih _ h
    · split at h
      · exact ih _ h
      · split at h
        · exact key _ (k1 _ _ _ _) h
        · split at h
          · exact key _ (k1 _ _ _ _) h
          · dsimp only at h
            split at h
            all_goals (
              split at h
              · exact key _ (k1 _ _ _ _) h
              · obtain ⟨ok, _, h⟩ := bind_ok h
                split at h
                · exact key _ (k1 _ _ _ _) h
                · exact key _ (k1 _ _ _ _) h)

theorem verifySuper_ledS (e : Env) (s s' : State) (g g' : Dec) (v : ValAddr) (a : Option Addr) (b : Bool)
    (h : verifySuper e s g v a b = .ok (s', g')) : ledPart s' = ledPart s := by
  unfold verifySuper at h
  dsimp only at h
  obtain ⟨sub, _, h⟩ := bind_ok h
  obtain ⟨s1, hs1, h⟩ := bind_ok h
  simp only [pure, Except.pure, Except.ok.injEq, Prod.mk.injEq] at h
  rw [← h.1]
  exact verifyLoop_ledS _ _ _ _ _ _ _ _ hs1

theorem send_ledS (s s' : State) (a b : Addr) (x : Int) (h : s.send a b x = .ok s') : ledPart s' = ledPart s := send_led _ _ _ _ _ h

/-- the outcome of a staking message: whatever the result and the package variable, committed `ledPart` is kept -/
def keepsLed (s : State) (r : Dec × TxM State) : Prop :=
  match r.2 with
  | .ok s' => ledPart s' = ledPart s
  | .error _ => True

theorem delegate_keepsLed (e : Env) (s : State) (g : Dec) (del : Addr) (val : ValAddr) (amt : Int) :
    keepsLed s (stakeDelegate e s g del val amt) := by
  unfold stakeDelegate
  split
  · simp [keepsLed, throw, throwThe, MonadExceptOf.throw]
  · dsimp only
    split
    · simp [keepsLed, throw, throwThe, MonadExceptOf.throw]
    · rename_i s1 hs1
      split
      · simp [keepsLed, throw, throwThe, MonadExceptOf.throw]
      · split
        · simp [keepsLed, throw, throwThe, MonadExceptOf.throw]
        · rename_i s2 g2 hv
          simp only [keepsLed, pure, Except.pure]
          rw [verifySuper_ledS _ _ _ _ _ _ _ _ hv]
          show ledPart s1 = ledPart s
          exact send_ledS _ _ _ _ _ hs1

theorem undelegate_keepsLed (e : Env) (s : State) (g : Dec) (del : Addr) (val : ValAddr) (amt : Int) :
    keepsLed s (stakeUndelegate e s g del val amt) := by
  unfold stakeUndelegate
  split
  · simp [keepsLed, throw, throwThe, MonadExceptOf.throw]
  · simp [keepsLed, throw, throwThe, MonadExceptOf.throw]
  · dsimp only
    split
    · simp [keepsLed, throw, throwThe, MonadExceptOf.throw]
    · split
      · simp [keepsLed, throw, throwThe, MonadExceptOf.throw]
      · split
        · simp [keepsLed, throw, throwThe, MonadExceptOf.throw]
        · split
          · simp [keepsLed, throw, throwThe, MonadExceptOf.throw]
          · rename_i s2 g2 hr
            have hs2 : ledPart s2 = ledPart s := by
              split at hr
              · obtain ⟨x, hx, hr⟩ := bind_ok hr
                obtain ⟨sx, gx⟩ := x
                simp only [pure, Except.pure, Except.ok.injEq, Prod.mk.injEq] at hr
                rw [← hr.1]
                show ledPart sx = ledPart s
                exact verifySuper_ledS _ _ _ _ _ _ _ _ hx
              · rw [verifySuper_ledS _ _ _ _ _ _ _ _ hr]; rfl
            split
            · split
              · simp [keepsLed, throw, throwThe, MonadExceptOf.throw]
              · rename_i s3 hs3
                simp only [keepsLed, pure, Except.pure]
                have := send_ledS _ _ _ _ _ hs3
                simp only [ledPart] at this hs2 ⊢
                simp_all
            · simp only [keepsLed, pure, Except.pure]
              simp only [ledPart] at hs2 ⊢
              simp_all


theorem redelegate_keepsLed (e : Env) (s : State) (g : Dec) (del : Addr) (src dst : ValAddr) (amt : Int) :
    keepsLed s (stakeRedelegate e s g del src dst amt) := by
  unfold keepsLed
  split
  · rename_i s' hs
    exact redelegate_keeps ledPart (fun e s s' g g' v a b h => verifySuper_ledS e s s' g g' v a b h)
      (fun s s' a b x h => send_ledS s s' a b x h) (fun _ _ => rfl) e s g del src dst amt s' hs
  · trivial

/-! ### every operation -/
theorem begin_led (e : Env) (s s' : State) (h : nodeBeginBlock e s = .ok s') : ledPart s' = ledPart s := by
  unfold nodeBeginBlock at h
  split at h
  · dsimp only at h
    obtain ⟨r, hr, h⟩ := bind_ok h
    split at h
    · obtain ⟨pool', _, h⟩ := bind_ok h
      simp only [pure, Except.pure, Except.ok.injEq] at h
      rw [← h]
      exact mint_led _ _ _
    · simp only [pure, Except.pure, Except.ok.injEq] at h; rw [← h]
  · simp only [pure, Except.pure, Except.ok.injEq] at h; rw [← h]

theorem atomic_led (s : State) (r : TxM State) (h : ∀ s', r = .ok s' → ledPart s' = ledPart s) : ledPart (atomic s r).2 = ledPart s := by
  unfold atomic
  split
  · exact h _ rfl
  · split <;> rfl

theorem blocker_led (s : State) (r : TxM State) (h : ∀ s', r = .ok s' → ledPart s' = ledPart s) : ledPart (blocker s r).2 = ledPart s := by
  unfold blocker
  split
  · exact h _ rfl
  · split <;> rfl

theorem stepC_led (e : Env) (s : State) (op : Op) : ledPart (stepC e s op).2 = ledPart s := by
  cases op
  case advance to seed => rfl
  case begin_ => exact blocker_led _ _ (fun s' h => begin_led e s s' h)
  case end_ => exact blocker_led _ _ (fun s' h => endBlock_led e s s' h)
  case create c => exact atomic_led _ _ (fun s' h => nodeCreate_led e s s' c h)
  case reset m => exact atomic_led _ _ (fun s' h => nodeReset_led e s s' m h)
  case addv c n => exact atomic_led _ _ (fun s' h => nodeAddVstorage_led e s s' c n h)
  case remv c n => exact atomic_led _ _ (fun s' h => nodeRemoveVstorage_led e s s' c n h)
  case claim c =>
    refine atomic_led _ _ (fun s' h => ?_)
    cases hc : nodeClaimReward e s c with
    | error m => rw [hc] at h; cases h
    | ok v =>
      rw [hc] at h
      simp only [Except.map, Except.ok.injEq] at h
      rw [← h]
      exact nodeClaimReward_led e s v.1 c v.2 hc
  case store m => exact atomic_led _ _ (fun s' h => saoStore_led e s s' m h)
  case ready c p o => exact atomic_led _ _ (fun s' h => saoReady_led s s' c p o h)
  case complete c p o sz ok cid => exact atomic_led _ _ (fun s' h => saoComplete_led e s s' c p o sz ok cid h)
  case cancel c p o => exact atomic_led _ _ (fun s' h => saoCancel_led e s s' c p o h)
  case terminate c p ow d sv sd => exact atomic_led _ _ (fun s' h => saoTerminate_led e s s' c p ow d sv sd h)
  case renew c p sv sd du t data =>
    refine atomic_led _ _ (fun s' h => ?_)
    cases hc : saoRenew e s c p sv sd du t data with
    | error m => rw [hc] at h; cases h
    | ok v =>
      rw [hc] at h
      simp only [Except.map, Except.ok.injEq] at h
      rw [← h]
      exact saoRenew_led e s v.1 c p sv sd du t data v.2 hc
  case migrate c p data => exact atomic_led _ _ (fun s' h => saoMigrate_led s s' c p data h)
  case perm c p ow d ro rw sv => exact atomic_led _ _ (fun s' h => saoPermission_led s s' c p ow d ro rw sv h)
  case report c p fs ids => exact atomic_led _ _ (fun s' h => saoReportFaults_led s s' c p fs ids h)
  case recover c p fs ik => exact atomic_led _ _ (fun s' h => saoRecoverFaults_led s s' c p fs ik h)
  case payaddr m => exact atomic_led _ _ (fun s' h => by rw [(didPayAddr_ok s s' m h).2]; rfl)
  case binding m => exact atomic_led _ _ (fun s' h => by rw [(didBinding_ok s s' m h).2]; rfl)
  case didupdate m => exact atomic_led _ _ (fun s' h => by obtain ⟨d, hd⟩ := didUpdate_ok s s' m h; rw [hd]; rfl)
  all_goals rfl

/-- **C06, for every operation and state**: the sum of all balances minus the supply is unchanged — whatever the
    operation, its arguments and its outcome -/
theorem C06_step_keeps_ledger_balanced (e : Env) (y : Sys) (op : Op) : ledPart (step e y op).2.st = ledPart y.st := by
  cases op
  case delegate c v a =>
    simp only [step, stepBase, stakeStep]
    have := delegate_keepsLed e y.st y.global c v a
    unfold keepsLed at this
    split
    · rename_i s' hs; rw [hs] at this; exact this
    · rfl
  case undelegate c v a =>
    simp only [step, stepBase, stakeStep]
    have := undelegate_keepsLed e y.st y.global c v a
    unfold keepsLed at this
    split
    · rename_i s' hs; rw [hs] at this; exact this
    · rfl
  case redelegate c v w a =>
    simp only [step, stepBase, stakeStep]
    have := redelegate_keepsLed e y.st y.global c v w a
    unfold keepsLed at this
    split
    · rename_i s' hs; rw [hs] at this; exact this
    · rfl
  case restart => rfl
  case genesis => rfl
  case sim inner => rfl
  all_goals exact stepC_led e y.st _

/-- **C06 over histories**: after any history the total of all balances has moved exactly as much as the supply -/
theorem C06_ledger_over_histories (e : Env) (y : Sys) (ops : List Op) :
    bankTotal (runOps e y ops).st.bank - (runOps e y ops).st.supply = bankTotal y.st.bank - y.st.supply := by
  induction ops generalizing y with
  | nil => rfl
  | cons op t ih =>
    show ledPart (runOps e (step e y op).2 t).st = ledPart y.st
    have := ih (step e y op).2
    unfold ledPart
    rw [this]
    exact C06_step_keeps_ledger_balanced e y op

/-- a history without a begin-block: the total of all balances is exactly what it was — no handler, end-blocker or failed
    transaction creates or destroys a coin -/
theorem C06_total_constant_outside_begin (e : Env) (y : Sys) (ops : List Op) (h : ∀ op ∈ ops, op ≠ .begin_) :
    bankTotal (runOps e y ops).st.bank = bankTotal y.st.bank := by
  have h1 := C06_ledger_over_histories e y ops
  have h2 := (C08_supply_over_histories e y ops).2 h
  omega

example : ledPart { (default : State) with bank := [(1, 70), (2, 30)], supply := 100 } = 0 := by decide

end SaoVerif
