import SaoVerif.Properties.C08
/-!
# C08 — AddVstorage settles the reward on the capacity held before the change

`C08_add_settles_first`: for every pool and record, adding capacity first credits what the *old* capacity earned
(`accRewardPerByte × old capacity − debt`, `C08_settle_exact`), then raises the capacity and re-bases the debt on the new
one — so the added bytes earn nothing for the time before they were pledged. `C08_first_pledge_earns_nothing_yet`: a
provider's first pledge starts with no reward and a debt equal to the accumulator times its capacity. Mirror of
`C08_remove_settles_first`; the step clause `rewardDebtRebased` checks the same on every implementation step.
-/
namespace SaoVerif

theorem C08_add_settles_first (pool : Pool) (p : Pledge) (c : Addr) (amount sz : Int) :
    (addvPledge pool (some p) c amount sz).reward = (settle pool p).reward ∧
    (addvPledge pool (some p) c amount sz).totalStorage = p.totalStorage + sz ∧
    (addvPledge pool (some p) c amount sz).rewardDebt = Dec.mulInt pool.accRewardPerByte (p.totalStorage + sz) ∧
    (addvPledge pool (some p) c amount sz).totalStoragePledged = p.totalStoragePledged + amount ∧
    (addvPledge pool (some p) c amount sz).usedStorage = p.usedStorage := by
  unfold addvPledge settle
  simp only
  split <;> simp

theorem C08_first_pledge_earns_nothing_yet (pool : Pool) (c : Addr) (amount sz : Int) :
    (addvPledge pool none c amount sz).reward = 0 ∧
    (addvPledge pool none c amount sz).totalStorage = sz ∧
    (addvPledge pool none c amount sz).rewardDebt = Dec.mulInt pool.accRewardPerByte sz ∧
    (addvPledge pool none c amount sz).creator = c := by
  unfold addvPledge settle
  simp

end SaoVerif
