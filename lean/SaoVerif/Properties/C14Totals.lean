import SaoVerif.Proofs.PoolTotals
import SaoVerif.Properties.C08Footprint
/-!
# C14 — pool totals equal the sums over the pledge records, over every history

`TotalsInv s`: no provider has two pledge records, and the pool's total capacity and total capacity collateral are the sums
over the pledge records (`PoolSum`, linked to the monitor `poolAgrees` by `poolSum_agrees`, and to the divisor of the block
reward — monitor `rewardDivisorAgrees`). It is preserved by **every** operation (`C14_step_keeps_totals`): `AddVstorage` and
`RemoveVstorage` move a record and the totals by the same amounts (`C14_add_keeps_pool_sum`, `C14_remove_keeps_pool_sum`); every
other function leaves `qPart` alone (Proofs/PoolTotals.lean) — reward settlement, shard collateral, claims, renewals and fault
penalties rewrite a record under the same provider with the same capacity and capacity collateral. So it holds after every
history that starts in a state satisfying it (`C14_totals_over_histories`); the empty state does.
-/
namespace SaoVerif
open Spec

/-! ### staking messages do not touch pledges or the pool -/
theorem setRole_qS (e : Env) (s : State) (a : Addr) (r : Nat) (v : Option ValAddr) : qPart (setRole e s a r v) = qPart s := by
  unfold setRole; split <;> rfl

theorem verifyLoop_qS (e : Env) (val : ValAddr) (acc : Option Addr) (b : Bool) (sub : Dec) (l : List DelegationV) (s s' : State)
    (h : verifySuper.loop e val acc b sub l s = .ok s') : qPart s' = qPart s := by
  induction l generalizing s with
  | nil => unfold verifySuper.loop at h; simp only [pure, Except.pure, Except.ok.injEq] at h; rw [← h]
  | cons d t ih =>
    unfold verifySuper.loop at h
    have key : ∀ (x : State), qPart x = qPart s → verifySuper.loop e val acc b sub t x = .ok s' → qPart s' = qPart s :=
      fun x hx hl => (ih _ hl).trans hx
    have k1 : ∀ (c : Prop) [Decidable c] (a : Addr) (r : Nat) (v : Option ValAddr),
        qPart (if c then setRole e s a r v else s) = qPart s := by
      intro c _ a r v; split
      · exact setRole_qS _ _ _ _ _
      · rfl
    split at h
    · exact ih _ h
    · split at h
      · exact ih _ h
      · split at h
        · exact key _ (k1 _ _ _ _) h
        · split at h
          · exact key _ (k1 _ _ _ _) h
          · dsimp only at h
            split at h
            all_goals (
              split at h
              · exact key _ (k1 _ _ _ _) h
              · obtain ⟨ok, _, h⟩ := bind_ok h
                split at h
                · exact key _ (k1 _ _ _ _) h
                · exact key _ (k1 _ _ _ _) h)

theorem verifySuper_qS (e : Env) (s s' : State) (g g' : Dec) (v : ValAddr) (a : Option Addr) (b : Bool)
    (h : verifySuper e s g v a b = .ok (s', g')) : qPart s' = qPart s := by
  unfold verifySuper at h
  dsimp only at h
  obtain ⟨sub, _, h⟩ := bind_ok h
  obtain ⟨s1, hs1, h⟩ := bind_ok h
  simp only [pure, Except.pure, Except.ok.injEq, Prod.mk.injEq] at h
  rw [← h.1]
  exact verifyLoop_qS _ _ _ _ _ _ _ _ hs1

theorem send_qS (s s' : State) (a b : Addr) (x : Int) (h : s.send a b x = .ok s') : qPart s' = qPart s := send_q _ _ _ _ _ h

/-- the outcome of a staking message: whatever the result and the package variable, committed `qPart` is kept -/
def keepsQ (s : State) (r : Dec × TxM State) : Prop :=
  match r.2 with
  | .ok s' => qPart s' = qPart s
  | .error _ => True

theorem delegate_keepsQ (e : Env) (s : State) (g : Dec) (del : Addr) (val : ValAddr) (amt : Int) :
    keepsQ s (stakeDelegate e s g del val amt) := by
  unfold stakeDelegate
  split
  · simp [keepsQ, throw, throwThe, MonadExceptOf.throw]
  · dsimp only
    split
    · simp [keepsQ, throw, throwThe, MonadExceptOf.throw]
    · rename_i s1 hs1
      split
      · simp [keepsQ, throw, throwThe, MonadExceptOf.throw]
      · split
        · simp [keepsQ, throw, throwThe, MonadExceptOf.throw]
        · rename_i s2 g2 hv
          simp only [keepsQ, pure, Except.pure]
          rw [verifySuper_qS _ _ _ _ _ _ _ _ hv]
          show qPart s1 = qPart s
          exact send_qS _ _ _ _ _ hs1

theorem undelegate_keepsQ (e : Env) (s : State) (g : Dec) (del : Addr) (val : ValAddr) (amt : Int) :
    keepsQ s (stakeUndelegate e s g del val amt) := by
  unfold stakeUndelegate
  split
  · simp [keepsQ, throw, throwThe, MonadExceptOf.throw]
  · simp [keepsQ, throw, throwThe, MonadExceptOf.throw]
  · dsimp only
    split
    · simp [keepsQ, throw, throwThe, MonadExceptOf.throw]
    · split
      · simp [keepsQ, throw, throwThe, MonadExceptOf.throw]
      · split
        · simp [keepsQ, throw, throwThe, MonadExceptOf.throw]
        · split
          · simp [keepsQ, throw, throwThe, MonadExceptOf.throw]
          · rename_i s2 g2 hr
            have hs2 : qPart s2 = qPart s := by
              split at hr
              · obtain ⟨x, hx, hr⟩ := bind_ok hr
                obtain ⟨sx, gx⟩ := x
                simp only [pure, Except.pure, Except.ok.injEq, Prod.mk.injEq] at hr
                rw [← hr.1]
                show qPart sx = qPart s
                exact verifySuper_qS _ _ _ _ _ _ _ _ hx
              · rw [verifySuper_qS _ _ _ _ _ _ _ _ hr]; rfl
            split
            · split
              · simp [keepsQ, throw, throwThe, MonadExceptOf.throw]
              · rename_i s3 hs3
                simp only [keepsQ, pure, Except.pure]
                have := send_qS _ _ _ _ _ hs3
                exact this.trans hs2
            · simp only [keepsQ, pure, Except.pure]
              exact hs2


/-! ### from `qPart` to the invariant -/
def TotalsInv (s : State) : Prop := uniquePledges s ∧ PoolSum s

theorem sum_map_triple1 (l : List Pledge) :
    sumInt (l.map (·.totalStorage)) = sumInt ((l.map (fun p => (p.creator, p.totalStorage, p.totalStoragePledged))).map (·.2.1)) := by
  rw [List.map_map]; rfl

theorem sum_map_triple2 (l : List Pledge) :
    sumInt (l.map (·.totalStoragePledged)) = sumInt ((l.map (fun p => (p.creator, p.totalStorage, p.totalStoragePledged))).map (·.2.2)) := by
  rw [List.map_map]; rfl

theorem totals_of_q {s s' : State} (hq : qPart s' = qPart s) (hi : TotalsInv s) : TotalsInv s' := by
  obtain ⟨hu, pool, hp, h1, h2⟩ := hi
  unfold qPart at hq
  simp only [Prod.mk.injEq] at hq
  obtain ⟨hcr, hg⟩ := hq
  have hu' : uniquePledges s' := by unfold uniquePledges at hu ⊢; rw [hcr]; exact hu
  refine ⟨hu', ?_⟩
  unfold qGuard at hg
  unfold uniquePledges at hu hu'
  simp only [hu, hu', if_true, Option.some.injEq] at hg
  unfold psPart at hg
  simp only [Prod.mk.injEq] at hg
  obtain ⟨hpool, hpl⟩ := hg
  rw [hp] at hpool
  cases hp' : s'.pool with
  | none => rw [hp'] at hpool; cases hpool
  | some pool' =>
    rw [hp'] at hpool
    simp only [Option.map_some, Option.some.injEq, Prod.mk.injEq] at hpool
    refine ⟨pool', hp', ?_, ?_⟩
    · rw [hpool.1, h1, sum_map_triple1, sum_map_triple1, hpl]
    · rw [hpool.2, h2, sum_map_triple2, sum_map_triple2, hpl]

theorem redelegate_keepsQ (e : Env) (s : State) (g : Dec) (del : Addr) (src dst : ValAddr) (amt : Int) :
    keepsQ s (stakeRedelegate e s g del src dst amt) := by
  unfold keepsQ
  split
  · rename_i s' hs
    exact redelegate_keeps qPart (fun e s s' g g' v a b h => verifySuper_qS e s s' g g' v a b h)
      (fun s s' a b x h => send_qS s s' a b x h) (fun _ _ => rfl) e s g del src dst amt s' hs
  · trivial

/-! ### every operation -/
theorem begin_q (e : Env) (s s' : State) (h : nodeBeginBlock e s = .ok s') : qPart s' = qPart s := by
  unfold nodeBeginBlock at h
  split at h
  · rename_i pool hp
    dsimp only at h
    obtain ⟨r, hr, h⟩ := bind_ok h
    split at h
    · obtain ⟨pool', hpool', h⟩ := bind_ok h
      simp only [pure, Except.pure, Except.ok.injEq] at h
      rw [← h]
      refine qPart_of_eq (s := s) ?_ rfl
      show (some pool').map _ = s.pool.map _
      rw [hp]
      simp only [Option.map_some, Option.some.injEq, Prod.mk.injEq]
      unfold beginPool at hpool'
      simp only [bind, Except.bind, pure, Except.pure, throw, throwThe, MonadExceptOf.throw] at hpool'
      repeat' (split at hpool')
      all_goals (cases hpool')
      all_goals exact ⟨rfl, rfl⟩
    · simp only [pure, Except.pure, Except.ok.injEq] at h; rw [← h]
  · simp only [pure, Except.pure, Except.ok.injEq] at h; rw [← h]


/-! ### every operation but the two capacity messages leaves `qPart` alone -/
def isCapacityMsg : Op → Bool
  | .addv .. => true
  | .remv .. => true
  | _ => false

theorem atomic_q (s : State) (r : TxM State) (h : ∀ s', r = .ok s' → qPart s' = qPart s) : qPart (atomic s r).2 = qPart s := by
  unfold atomic
  split
  · exact h _ rfl
  · split <;> rfl

theorem blocker_q (s : State) (r : TxM State) (h : ∀ s', r = .ok s' → qPart s' = qPart s) : qPart (blocker s r).2 = qPart s := by
  unfold blocker
  split
  · exact h _ rfl
  · split <;> rfl

theorem stepC_q (e : Env) (s : State) (op : Op) (hop : isCapacityMsg op = false) : qPart (stepC e s op).2 = qPart s := by
  cases op
  case addv => cases hop
  case remv => cases hop
  case advance to seed => rfl
  case begin_ => exact blocker_q _ _ (fun s' h => begin_q e s s' h)
  case end_ => exact blocker_q _ _ (fun s' h => endBlock_q e s s' h)
  case create c => exact atomic_q _ _ (fun s' h => nodeCreate_q e s s' c h)
  case reset m => exact atomic_q _ _ (fun s' h => nodeReset_q e s s' m h)
  case claim c =>
    refine atomic_q _ _ (fun s' h => ?_)
    cases hc : nodeClaimReward e s c with
    | error m => rw [hc] at h; cases h
    | ok v =>
      rw [hc] at h
      simp only [Except.map, Except.ok.injEq] at h
      rw [← h]
      exact nodeClaimReward_q e s v.1 c v.2 hc
  case store m => exact atomic_q _ _ (fun s' h => saoStore_q e s s' m h)
  case ready c p o => exact atomic_q _ _ (fun s' h => saoReady_q s s' c p o h)
  case complete c p o sz ok cid => exact atomic_q _ _ (fun s' h => saoComplete_q e s s' c p o sz ok cid h)
  case cancel c p o => exact atomic_q _ _ (fun s' h => saoCancel_q e s s' c p o h)
  case terminate c p ow d sv sd => exact atomic_q _ _ (fun s' h => saoTerminate_q e s s' c p ow d sv sd h)
  case renew c p sv sd du t data =>
    refine atomic_q _ _ (fun s' h => ?_)
    cases hc : saoRenew e s c p sv sd du t data with
    | error m => rw [hc] at h; cases h
    | ok v =>
      rw [hc] at h
      simp only [Except.map, Except.ok.injEq] at h
      rw [← h]
      exact saoRenew_q e s v.1 c p sv sd du t data v.2 hc
  case migrate c p data => exact atomic_q _ _ (fun s' h => saoMigrate_q s s' c p data h)
  case perm c p ow d ro rw sv => exact atomic_q _ _ (fun s' h => saoPermission_q s s' c p ow d ro rw sv h)
  case report c p fs ids => exact atomic_q _ _ (fun s' h => saoReportFaults_q s s' c p fs ids h)
  case recover c p fs ik => exact atomic_q _ _ (fun s' h => saoRecoverFaults_q s s' c p fs ik h)
  case payaddr m => exact atomic_q _ _ (fun s' h => by rw [(didPayAddr_ok s s' m h).2]; rfl)
  case binding m => exact atomic_q _ _ (fun s' h => by rw [(didBinding_ok s s' m h).2]; rfl)
  case didupdate m => exact atomic_q _ _ (fun s' h => by obtain ⟨d, hd⟩ := didUpdate_ok s s' m h; rw [hd]; rfl)
  all_goals rfl

theorem step_q (e : Env) (y : Sys) (op : Op) (hop : isCapacityMsg op = false) : qPart (step e y op).2.st = qPart y.st := by
  cases op
  case delegate c v a =>
    simp only [step, stepBase, stakeStep]
    have := delegate_keepsQ e y.st y.global c v a
    unfold keepsQ at this
    split
    · rename_i s' hs; rw [hs] at this; exact this
    · rfl
  case undelegate c v a =>
    simp only [step, stepBase, stakeStep]
    have := undelegate_keepsQ e y.st y.global c v a
    unfold keepsQ at this
    split
    · rename_i s' hs; rw [hs] at this; exact this
    · rfl
  case redelegate c v w a =>
    simp only [step, stepBase, stakeStep]
    have := redelegate_keepsQ e y.st y.global c v w a
    unfold keepsQ at this
    split
    · rename_i s' hs; rw [hs] at this; exact this
    · rfl
  case restart => rfl
  case genesis => rfl
  case sim inner => rfl
  all_goals exact stepC_q e y.st _ hop

theorem unique_of_pledges {s s' : State} (h : s'.pledges = s.pledges) (hu : uniquePledges s) : uniquePledges s' := by
  unfold uniquePledges at hu ⊢; rw [h]; exact hu

theorem add_keeps_unique (e : Env) (s s' : State) (c : Addr) (size : Nat) (hu : uniquePledges s)
    (h : nodeAddVstorage e s c size = .ok s') : uniquePledges s' := by
  unfold nodeAddVstorage at h
  split at h
  · cases h
  · split at h
    · cases h
    · simp only at h
      split at h
      · cases h
      · split at h
        · cases h
        · rename_i s1 hs1
          split at h
          · cases h
          · rename_i s2 hs2
            simp only [pure, Except.pure, Except.ok.injEq] at h
            rw [← h]
            have h2 : s2.pledges = s.pledges := (promoteIfDue_frame _ _ _ _ _ hs2).trans (sendLit_frame _ _ _ _ _ hs1).1
            exact setPledge_unique s2 _ (unique_of_pledges h2 hu)

theorem remv_keeps_unique (e : Env) (s s' : State) (c : Addr) (size : Nat) (hu : uniquePledges s)
    (h : nodeRemoveVstorage e s c size = .ok s') : uniquePledges s' := by
  obtain ⟨pl, s1, s2, _, hs1, hs2, rfl⟩ := remv_ok e s s' c size h
  have h2 : s2.pledges = s.pledges := (demoteIfDue_frame _ _ _ _ _ hs2).1.trans (send_frame _ _ _ _ _ hs1).1
  exact setPledge_unique s2 _ (unique_of_pledges h2 hu)

theorem atomic_tot (s : State) (r : TxM State) (hi : TotalsInv s) (h : ∀ s', r = .ok s' → TotalsInv s') : TotalsInv (atomic s r).2 := by
  unfold atomic
  split
  · exact h _ rfl
  · split <;> exact hi

theorem blocker_tot (s : State) (r : TxM State) (hi : TotalsInv s) (h : ∀ s', r = .ok s' → TotalsInv s') : TotalsInv (blocker s r).2 := by
  unfold blocker
  split
  · exact h _ rfl
  · split <;> exact hi

theorem stepC_tot (e : Env) (s : State) (op : Op) (hi : TotalsInv s) : TotalsInv (stepC e s op).2 := by
  cases op
  case advance to seed => exact totals_of_q rfl hi
  case begin_ => exact blocker_tot _ _ hi (fun s' h => totals_of_q (begin_q e s s' h) hi)
  case end_ => exact blocker_tot _ _ hi (fun s' h => totals_of_q (endBlock_q e s s' h) hi)
  case create c => exact atomic_tot _ _ hi (fun s' h => totals_of_q (nodeCreate_q e s s' c h) hi)
  case reset m => exact atomic_tot _ _ hi (fun s' h => totals_of_q (nodeReset_q e s s' m h) hi)
  case addv c n => exact atomic_tot _ _ hi (fun s' h => ⟨add_keeps_unique e s s' c n hi.1 h, C14_add_keeps_pool_sum e s s' c n hi.1 hi.2 h⟩)
  case remv c n => exact atomic_tot _ _ hi (fun s' h => ⟨remv_keeps_unique e s s' c n hi.1 h, C14_remove_keeps_pool_sum e s s' c n hi.1 hi.2 h⟩)
  case claim c =>
    refine atomic_tot _ _ hi (fun s' h => ?_)
    cases hc : nodeClaimReward e s c with
    | error m => rw [hc] at h; cases h
    | ok v =>
      rw [hc] at h
      simp only [Except.map, Except.ok.injEq] at h
      rw [← h]
      exact totals_of_q (nodeClaimReward_q e s v.1 c v.2 hc) hi
  case store m => exact atomic_tot _ _ hi (fun s' h => totals_of_q (saoStore_q e s s' m h) hi)
  case ready c p o => exact atomic_tot _ _ hi (fun s' h => totals_of_q (saoReady_q s s' c p o h) hi)
  case complete c p o sz ok cid => exact atomic_tot _ _ hi (fun s' h => totals_of_q (saoComplete_q e s s' c p o sz ok cid h) hi)
  case cancel c p o => exact atomic_tot _ _ hi (fun s' h => totals_of_q (saoCancel_q e s s' c p o h) hi)
  case terminate c p ow d sv sd => exact atomic_tot _ _ hi (fun s' h => totals_of_q (saoTerminate_q e s s' c p ow d sv sd h) hi)
  case renew c p sv sd du t data =>
    refine atomic_tot _ _ hi (fun s' h => ?_)
    cases hc : saoRenew e s c p sv sd du t data with
    | error m => rw [hc] at h; cases h
    | ok v =>
      rw [hc] at h
      simp only [Except.map, Except.ok.injEq] at h
      rw [← h]
      exact totals_of_q (saoRenew_q e s v.1 c p sv sd du t data v.2 hc) hi
  case migrate c p data => exact atomic_tot _ _ hi (fun s' h => totals_of_q (saoMigrate_q s s' c p data h) hi)
  case perm c p ow d ro rw sv => exact atomic_tot _ _ hi (fun s' h => totals_of_q (saoPermission_q s s' c p ow d ro rw sv h) hi)
  case report c p fs ids => exact atomic_tot _ _ hi (fun s' h => totals_of_q (saoReportFaults_q s s' c p fs ids h) hi)
  case recover c p fs ik => exact atomic_tot _ _ hi (fun s' h => totals_of_q (saoRecoverFaults_q s s' c p fs ik h) hi)
  case payaddr m => exact atomic_tot _ _ hi (fun s' h => totals_of_q (by rw [(didPayAddr_ok s s' m h).2]; rfl) hi)
  case binding m => exact atomic_tot _ _ hi (fun s' h => totals_of_q (by rw [(didBinding_ok s s' m h).2]; rfl) hi)
  case didupdate m => exact atomic_tot _ _ hi (fun s' h => totals_of_q (by obtain ⟨d, hd⟩ := didUpdate_ok s s' m h; rw [hd]; rfl) hi)
  case genesis => exact totals_of_q (s := s) rfl hi
  all_goals exact hi

/-- **C14, for every operation and state**: "no provider has two pledge records, and the pool's capacity and capacity
    collateral are the sums over the records" survives every operation, whatever its arguments and outcome -/
theorem C14_step_keeps_totals (e : Env) (y : Sys) (op : Op) (hi : TotalsInv y.st) : TotalsInv (step e y op).2.st := by
  cases op
  case delegate c v a =>
    simp only [step, stepBase, stakeStep]
    have := delegate_keepsQ e y.st y.global c v a
    unfold keepsQ at this
    split
    · rename_i s' hs; rw [hs] at this; exact totals_of_q this hi
    · exact hi
  case undelegate c v a =>
    simp only [step, stepBase, stakeStep]
    have := undelegate_keepsQ e y.st y.global c v a
    unfold keepsQ at this
    split
    · rename_i s' hs; rw [hs] at this; exact totals_of_q this hi
    · exact hi
  case redelegate c v w a =>
    simp only [step, stepBase, stakeStep]
    have := redelegate_keepsQ e y.st y.global c v w a
    unfold keepsQ at this
    split
    · rename_i s' hs; rw [hs] at this; exact totals_of_q this hi
    · exact hi
  case restart => exact hi
  case genesis => exact stepC_tot e y.st .genesis hi
  case sim inner => exact hi
  all_goals exact stepC_tot e y.st _ hi

/-- **C14 over histories** -/
theorem C14_totals_over_histories (e : Env) (y : Sys) (ops : List Op) (hi : TotalsInv y.st) : TotalsInv (runOps e y ops).st := by
  induction ops generalizing y with
  | nil => exact hi
  | cons op t ih => exact ih _ (C14_step_keeps_totals e y op hi)

/-- what the monitors `poolAgrees` (C14) and `rewardDivisorAgrees` (C08) evaluate on sampled histories holds on all of them -/
theorem C14_pool_agrees_over_histories (e : Env) (y : Sys) (ops : List Op) (hi : TotalsInv y.st) :
    poolAgrees (runOps e y ops).st = true :=
  poolSum_agrees _ (C14_totals_over_histories e y ops hi).2

/-- the divisor of the block reward is the capacity the providers hold, after every history (C08) -/
theorem C08_reward_divisor_over_histories (e : Env) (y : Sys) (ops : List Op) (hi : TotalsInv y.st) :
    ∃ pool, (runOps e y ops).st.pool = some pool ∧ pool.totalStorage = sumInt ((runOps e y ops).st.pledges.map (·.totalStorage)) := by
  obtain ⟨pool, hp, h1, _⟩ := (C14_totals_over_histories e y ops hi).2
  exact ⟨pool, hp, h1⟩

/-- not vacuous: a state with a pool and no pledge satisfies the invariant, and so does one with two providers -/
example : TotalsInv { (default : State) with pledges := [], pool := some { (default : Pool) with totalStorage := 0, totalPledged := 0 } } :=
  ⟨by unfold uniquePledges; exact List.nodup_nil, ⟨_, rfl, by decide, by decide⟩⟩

end SaoVerif
