import SaoVerif.Properties.C11
/-!
# C11 — "… and its income stops"

`C11_release_stops_income`: releasing a shard from a provider's market account — whatever has or has not accrued since the
account was last settled, in particular when it was settled earlier in the same block — lowers the account's income rate by
exactly the shard's rate (unit price × size) and its stored bytes by the shard's size, credits what accrued up to now, and
moves the settlement mark to the current height. (The seeded change C11-8 returned early when nothing had accrued and left
the income rate running; the state clause `incomeStops` evaluates the consequence on the implementation's states.)
-/
namespace SaoVerif

theorem find_worker_replace (l : List Worker) (w : Worker) (h : l.any (·.sp = w.sp) = true) :
    (l.map (fun x => if x.sp = w.sp then w else x)).find? (·.sp = w.sp) = some w := by
  induction l with
  | nil => simp at h
  | cons x t ih =>
    simp only [List.map_cons, List.find?_cons]
    by_cases hx : x.sp = w.sp
    · simp [hx]
    · have : (t.any (·.sp = w.sp)) = true := by
        simp only [List.any_cons, Bool.or_eq_true, decide_eq_true_eq] at h
        rcases h with h | h
        · exact absurd h hx
        · simpa using h
      simp [hx, ih this]

theorem find_worker_append (l : List Worker) (w : Worker) (h : l.any (·.sp = w.sp) = false) :
    (l ++ [w]).find? (·.sp = w.sp) = some w := by
  induction l with
  | nil => simp
  | cons x t ih =>
    simp only [List.any_cons, Bool.or_eq_false_iff, decide_eq_false_iff_not] at h
    simp [h.1, ih h.2]

theorem getWorker_setWorker (s : State) (w : Worker) : (s.setWorker w).getWorker w.sp = some w := by
  unfold State.setWorker State.getWorker
  simp only
  split
  · rename_i h; exact find_worker_replace _ _ h
  · rename_i h; exact find_worker_append _ _ (by simpa using h)

/-- the market account after a release -/
def releasedWorker (s : State) (o : Order) (sh : Shard) (w : Worker) : Worker :=
  { w with
    reward := w.reward + Dec.mulInt w.incomePerSecond (s.h - w.lastRewardAt)
    incomePerSecond := w.incomePerSecond - Dec.mulInt o.unitPrice (toI64 sh.size)
    storage := subU64 w.storage sh.size
    lastRewardAt := s.h }

theorem releasedWorker_fields (s : State) (o : Order) (sh : Shard) (w : Worker) :
    (releasedWorker s o sh w).incomePerSecond = w.incomePerSecond - Dec.mulInt o.unitPrice (toI64 sh.size) ∧
    (releasedWorker s o sh w).storage = subU64 w.storage sh.size ∧ (releasedWorker s o sh w).sp = w.sp := by
  unfold releasedWorker
  exact ⟨rfl, rfl, rfl⟩

theorem workerRelease_eq (s : State) (o : Order) (sh : Shard) (w : Worker) (hw : s.getWorker sh.sp = some w) :
    workerRelease s o sh = (s.setWorker (releasedWorker s o sh w), none) := by
  unfold workerRelease releasedWorker
  rw [hw]

theorem C11_release_stops_income (s : State) (o : Order) (sh : Shard) (w : Worker) (hw : s.getWorker sh.sp = some w) :
    (workerRelease s o sh).1.getWorker sh.sp = some (releasedWorker s o sh w) ∧ (workerRelease s o sh).2 = none ∧
    (releasedWorker s o sh w).incomePerSecond = w.incomePerSecond - Dec.mulInt o.unitPrice (toI64 sh.size) ∧
    (releasedWorker s o sh w).storage = subU64 w.storage sh.size := by
  have hsp : w.sp = sh.sp := by
    unfold State.getWorker at hw
    have := List.find?_some hw
    simpa using this
  obtain ⟨f1, f2, f3⟩ := releasedWorker_fields s o sh w
  rw [workerRelease_eq s o sh w hw]
  refine ⟨?_, rfl, f1, f2⟩
  have := getWorker_setWorker s (releasedWorker s o sh w)
  rw [f3, hsp] at this
  exact this

end SaoVerif
