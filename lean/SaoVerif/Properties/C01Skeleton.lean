import SaoVerif.Skeleton.x_did_keeper_msg_server_binding_go
import SaoVerif.Skeleton.x_did_keeper_msg_server_update_go
import SaoVerif.Skeleton.x_node_keeper_hooks_go
import SaoVerif.Skeleton.x_node_keeper_reputation_go
import SaoVerif.Skeleton.x_node_keeper_node_go
import SaoVerif.Skeleton.x_node_abci_go
import SaoVerif.Skeleton.x_sao_keeper_msg_server_terminate_go
import SaoVerif.Skeleton.x_model_keeper_data_management_go
import SaoVerif.Skeleton.x_sao_keeper_expired_shard_go
import SaoVerif.Skeleton.x_did_keeper_utils_go
import SaoVerif.Skeleton.app_app_go
/-!
# C01 — the decision logic of the anchor files is the one that was modelled

The extractor (harness/cmd/extract) regenerates, on every run and from the tree under check, the *decision skeleton* of every
function: its branching constructs in source order, each guard with its condition and with how its branch ends (`return <err>`,
`continue`, `panic`, …). The hand-written model mirrors exactly these decisions (its `…Pre` / `…Guards` functions are the
guards of the handlers, in their order). This theorem says that for the files the property is anchored in
(x/did/keeper/msg_server_binding.go, x/did/keeper/msg_server_update.go, x/node/keeper/hooks.go, x/node/keeper/reputation.go, x/node/keeper/node.go, x/node/abci.go, x/sao/keeper/msg_server_terminate.go, x/model/keeper/data_management.go, x/sao/keeper/expired_shard.go, x/did/keeper/utils.go, app/app.go) the regenerated skeletons equal the ones the model was written against
(one kernel-evaluated equality per source file, `SaoVerif/Skeleton/<file>.lean`). A change of a guard, of its order, or a new or
removed branch breaks it: the correspondence then has to be re-established (the check searches the histories for a failing
input and reports the violation either way).
-/
namespace SaoVerif

theorem C01_decision_skeleton_as_modelled :
    [Generated.Skel.x_did_keeper_msg_server_binding_go,
     Generated.Skel.x_did_keeper_msg_server_update_go,
     Generated.Skel.x_node_keeper_hooks_go,
     Generated.Skel.x_node_keeper_reputation_go,
     Generated.Skel.x_node_keeper_node_go,
     Generated.Skel.x_node_abci_go,
     Generated.Skel.x_sao_keeper_msg_server_terminate_go,
     Generated.Skel.x_model_keeper_data_management_go,
     Generated.Skel.x_sao_keeper_expired_shard_go,
     Generated.Skel.x_did_keeper_utils_go,
     Generated.Skel.app_app_go] =
    [Expected.Skel.x_did_keeper_msg_server_binding_go,
     Expected.Skel.x_did_keeper_msg_server_update_go,
     Expected.Skel.x_node_keeper_hooks_go,
     Expected.Skel.x_node_keeper_reputation_go,
     Expected.Skel.x_node_keeper_node_go,
     Expected.Skel.x_node_abci_go,
     Expected.Skel.x_sao_keeper_msg_server_terminate_go,
     Expected.Skel.x_model_keeper_data_management_go,
     Expected.Skel.x_sao_keeper_expired_shard_go,
     Expected.Skel.x_did_keeper_utils_go,
     Expected.Skel.app_app_go] := by
  rw [skel_x_did_keeper_msg_server_binding_go, skel_x_did_keeper_msg_server_update_go, skel_x_node_keeper_hooks_go, skel_x_node_keeper_reputation_go, skel_x_node_keeper_node_go, skel_x_node_abci_go, skel_x_sao_keeper_msg_server_terminate_go, skel_x_model_keeper_data_management_go, skel_x_sao_keeper_expired_shard_go, skel_x_did_keeper_utils_go, skel_app_app_go]

end SaoVerif
