import SaoVerif.Properties.C16
/-!
# C11 — a completing shard can only push a model's expiry outwards

`Complete` calls `ExtendMetaDuration(dataId, end of the completing shard's period)`. A shard whose own period
ends before the model's current expiry (a shorter update, a migrated or late replica) must not pull the model's
expiry earlier: "a model never disappears while a paid, unexpired shard of it remains".
`C11_extend_never_shortens`: whatever the requested end height, the model's lifetime afterwards is at least
what it was, and exactly the requested one when that is longer. (`ResetMetaDuration`, used by force-push and
rollback, recomputes the maximum over all completed shards instead.) seeded/C11-2 merges the two into one
helper with an `≠` guard; the monitor `modelOutlivesShards` catches it on the runs.
-/
namespace SaoVerif

theorem removeDataExpireBlock_metas (s s' : State) (d : Bytes) (at_ : Nat) (h : removeDataExpireBlock s d at_ = .ok s') :
    s'.metas = s.metas := by
  unfold removeDataExpireBlock at h
  split at h
  · simp only [pure, Except.pure, Except.ok.injEq] at h; rw [← h]
  · split at h
    · cases h
    · simp only at h
      split at h <;> (simp only [pure, Except.pure, Except.ok.injEq] at h; rw [← h])

theorem C11_extend_never_shortens (s s' : State) (d : Bytes) (at_ : Nat) (md : Metadata)
    (hm : s.getMeta d = some md) (h : extendMetaDuration s d at_ = .ok s') :
    ∃ md', s'.getMeta d = some md' ∧ md.duration ≤ md'.duration ∧
      (md.duration < subU64 at_ md.createdAt → md'.duration = subU64 at_ md.createdAt) ∧
      md'.createdAt = md.createdAt ∧ md'.owner = md.owner ∧ md'.commit = md.commit := by
  unfold extendMetaDuration at h
  simp only [hm, Option.getD_some, bind, Except.bind, pure, Except.pure] at h
  split at h
  · rename_i hlt
    split at h
    · cases h
    · rename_i s1 hs1
      simp only [Except.ok.injEq] at h
      have hd := getMeta_dataId s d md hm
      refine ⟨{ md with duration := subU64 at_ md.createdAt }, ?_, by simp only; omega, fun _ => rfl, rfl, rfl, rfl⟩
      rw [← h]
      have := getMeta_setMeta (setDataExpireBlock s1 md.dataId at_) { md with duration := subU64 at_ md.createdAt }
      simpa [hd] using this
  · rename_i hge
    simp only [Except.ok.injEq] at h
    subst h
    exact ⟨md, hm, Nat.le_refl _, fun hc => absurd hc hge, rfl, rfl, rfl⟩

end SaoVerif
