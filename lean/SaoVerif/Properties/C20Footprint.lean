import SaoVerif.Properties.C08Footprint
/-! C20: the write-footprint theorems of `Properties/C08Footprint.lean` that belong to this property
    (`C20_*` there) are part of this property's proof obligations: a change that breaks them breaks C20. -/
namespace SaoVerif
theorem C20_footprint (e : Env) (y : Sys) (op : Op)
    (h1 : ∀ c v a, op ≠ .delegate c v a) (h2 : ∀ c v a, op ≠ .undelegate c v a) (h2r : ∀ c v w a, op ≠ .redelegate c v w a) :
    (step e y op).2.st.staking = y.st.staking := C20_stakes_change_only_by_staking_messages e y op h1 h2 h2r
end SaoVerif
