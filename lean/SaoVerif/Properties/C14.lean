import SaoVerif.Model.Step
import SaoVerif.Spec.Inv
/-!
# C14 — aggregate accounting equals the sum over providers

`PoolSum s`: the pool's `totalStorage` / `totalPledged` are the sums of the pledges' `totalStorage` /
`totalStoragePledged` (the Prop form of `Spec.poolAgrees`, see `poolSum_iff`).

* `C14_remove_keeps_pool_sum`: every accepted RemoveVstorage preserves `PoolSum` — whatever the
  size, the pool and the provider's pledge are debited by the same bytes and the same coins.
* `C14_set_pledge_sum`: the general accounting lemma — replacing one provider's pledge changes any
  per-provider sum by exactly (new − old).
The per-provider clauses (used capacity, worker storage and income rate, shard collateral = sums over
completed shards: `Spec.aggInv`) are monitored on every implementation state; F01 was found by them.
-/
namespace SaoVerif
open Spec

theorem sumInt_foldl (l : List Int) (a : Int) : l.foldl (· + ·) a = a + sumInt l := by
  unfold sumInt
  induction l generalizing a with
  | nil => simp
  | cons x t ih => simp only [List.foldl_cons]; rw [ih, ih (0 + x)]; omega

theorem sumInt_cons (x : Int) (l : List Int) : sumInt (x :: l) = x + sumInt l := by
  show (x :: l).foldl (· + ·) 0 = _
  simp only [List.foldl_cons]; rw [sumInt_foldl]; omega

theorem sumInt_append (l1 l2 : List Int) : sumInt (l1 ++ l2) = sumInt l1 + sumInt l2 := by
  induction l1 with
  | nil => simp [sumInt]
  | cons x t ih => simp only [List.cons_append, sumInt_cons, ih]; omega

def uniquePledges (s : State) : Prop := (s.pledges.map (·.creator)).Nodup

theorem sum_replace (f : Pledge → Int) (l : List Pledge) (p old : Pledge)
    (hu : (l.map (·.creator)).Nodup) (hf : l.find? (·.creator = p.creator) = some old) :
    sumInt ((l.map (fun x => if x.creator = p.creator then p else x)).map f) = sumInt (l.map f) - f old + f p := by
  induction l with
  | nil => simp at hf
  | cons y t ih =>
    simp only [List.map_cons, sumInt_cons]
    simp only [List.map_cons, List.nodup_cons] at hu
    by_cases hy : y.creator = p.creator
    · simp only [List.find?_cons, hy, decide_true] at hf
      cases hf
      have hrest : t.map (fun x => if x.creator = p.creator then p else x) = t := by
        conv => rhs; rw [← List.map_id t]
        apply List.map_congr_left
        intro x hx
        have : x.creator ≠ p.creator := by
          intro hxc
          exact hu.1 (List.mem_map.mpr ⟨x, hx, by rw [hxc, hy]⟩)
        simp [this]
      rw [hrest]
      simp only [hy, if_true]
      omega
    · simp only [List.find?_cons, hy, decide_false] at hf
      have := ih hu.2 hf
      simp only [hy, if_false]
      omega

theorem sum_append_new (f : Pledge → Int) (l : List Pledge) (p : Pledge) :
    sumInt ((l ++ [p]).map f) = sumInt (l.map f) + f p := by
  simp only [List.map_append, sumInt_append, List.map_cons, List.map_nil, sumInt_cons]
  simp [sumInt]

theorem any_of_find (l : List Pledge) (c : Addr) (old : Pledge) (h : l.find? (·.creator = c) = some old) :
    l.any (·.creator = c) = true := by
  have := List.find?_some h
  have hm := List.mem_of_find?_eq_some h
  exact List.any_eq_true.mpr ⟨old, hm, this⟩

/-- replacing one provider's pledge changes any per-provider sum by exactly (new − old) -/
theorem C14_set_pledge_sum (f : Pledge → Int) (s : State) (p old : Pledge)
    (hu : uniquePledges s) (hf : s.getPledge p.creator = some old) :
    sumInt ((s.setPledge p).pledges.map f) = sumInt (s.pledges.map f) - f old + f p := by
  unfold State.setPledge
  simp only [any_of_find _ _ _ hf, if_true]
  exact sum_replace f _ p old hu hf

def PoolSum (s : State) : Prop :=
  ∃ pool, s.pool = some pool ∧
    pool.totalStorage = sumInt (s.pledges.map (·.totalStorage)) ∧
    pool.totalPledged = sumInt (s.pledges.map (·.totalStoragePledged))

theorem settle_totals (pool : Pool) (p : Pledge) :
    (settle pool p).totalStorage = p.totalStorage ∧ (settle pool p).totalStoragePledged = p.totalStoragePledged ∧
    (settle pool p).creator = p.creator ∧ (settle pool p).usedStorage = p.usedStorage ∧
    (settle pool p).totalShardPledged = p.totalShardPledged := by
  unfold settle; split <;> simp

theorem remvPledge_totals (pl : RemvPlan) :
    (remvPledge pl).totalStorage = pl.pledge.totalStorage - pl.sz ∧
    (remvPledge pl).totalStoragePledged = pl.pledge.totalStoragePledged - pl.amount ∧
    (remvPledge pl).creator = pl.pledge.creator ∧
    (remvPledge pl).usedStorage = pl.pledge.usedStorage ∧
    (remvPledge pl).totalShardPledged = pl.pledge.totalShardPledged := by
  unfold remvPledge
  simp only [settle_totals]
  exact ⟨trivial, trivial, trivial, trivial, trivial⟩

theorem remvPlan_ok (s : State) (c : Addr) (size : Nat) (pl : RemvPlan) (h : remvPlan s c size = .ok pl) :
    s.pool = some pl.pool ∧ s.getPledge c = some pl.pledge := by
  unfold remvPlan at h
  split at h
  · cases h
  · split at h
    · cases h
    · cases h
    · rename_i pool pledge hpool hpl
      simp only at h
      split at h
      · cases h
      · split at h
        · cases h
        · split at h
          · cases h
          · split at h
            · cases h
            · simp only [pure, Except.pure, Except.ok.injEq] at h
              subst h
              exact ⟨hpool, hpl⟩

theorem getPledge_creator (s : State) (c : Addr) (p : Pledge) (h : s.getPledge c = some p) : p.creator = c := by
  have := List.find?_some h
  simpa using this

theorem send_frame (s s' : State) (a b : Addr) (x : Int) (h : s.send a b x = .ok s') :
    s'.pledges = s.pledges ∧ s'.pool = s.pool ∧ s'.shards = s.shards ∧ s'.orders = s.orders ∧
    s'.workers = s.workers ∧ s'.nodes = s.nodes ∧ s'.params = s.params ∧ s'.debts = s.debts := by
  unfold State.send at h
  split at h
  · cases h
  · split at h
    · cases h
    · simp only [pure, Except.pure, Except.ok.injEq] at h
      subst h
      simp [State.setBal]

theorem demoteIfDue_frame (e : Env) (s s' : State) (c : Addr) (p : Pledge) (h : demoteIfDue e s c p = .ok s') :
    s'.pledges = s.pledges ∧ s'.bank = s.bank ∧ s'.debts = s.debts := by
  unfold demoteIfDue at h
  split at h
  · split at h
    · cases h
    · split at h
      · simp only [pure, Except.pure, Except.ok.injEq] at h
        subst h; simp [State.setNode]
      · simp only [pure, Except.pure, Except.ok.injEq] at h
        subst h; exact ⟨rfl, rfl, rfl⟩
  · simp only [pure, Except.pure, Except.ok.injEq] at h
    subst h; exact ⟨rfl, rfl, rfl⟩

/-- the shape of an accepted RemoveVstorage -/
theorem remv_ok (e : Env) (s s' : State) (c : Addr) (size : Nat) (h : nodeRemoveVstorage e s c size = .ok s') :
    ∃ pl s1 s2, remvPlan s c size = .ok pl ∧ s.send e.modNode c pl.amount = .ok s1 ∧
      demoteIfDue e s1 c (remvPledge pl) = .ok s2 ∧
      s' = { (s2.setPledge (remvPledge pl)) with
             pool := some { pl.pool with totalPledged := pl.pool.totalPledged - pl.amount, totalStorage := pl.pool.totalStorage - pl.sz } } := by
  unfold nodeRemoveVstorage at h
  split at h
  · cases h
  · rename_i pl hpl
    split at h
    · cases h
    · rename_i s1 hs1
      split at h
      · cases h
      · rename_i s2 hs2
        simp only [pure, Except.pure, Except.ok.injEq] at h
        exact ⟨pl, s1, s2, hpl, hs1, hs2, h.symm⟩

/-- every accepted RemoveVstorage debits the pool and the provider's pledge by the same bytes and
    coins: the network totals stay the sums over providers -/
theorem C14_remove_keeps_pool_sum (e : Env) (s s' : State) (c : Addr) (size : Nat)
    (hu : uniquePledges s) (hi : PoolSum s) (h : nodeRemoveVstorage e s c size = .ok s') : PoolSum s' := by
  obtain ⟨pl, s1, s2, hpl, hs1, hs2, rfl⟩ := remv_ok e s s' c size h
  have hfr := send_frame _ _ _ _ _ hs1
  have ⟨hpool, hpledge⟩ := remvPlan_ok _ _ _ _ hpl
  have hs2p : s2.pledges = s.pledges := by rw [(demoteIfDue_frame _ _ _ _ _ hs2).1, hfr.1]
  obtain ⟨pool, hp, hts, htp⟩ := hi
  rw [hpool] at hp
  cases hp
  have hcr := getPledge_creator _ _ _ hpledge
  have htot := remvPledge_totals pl
  have hu2 : uniquePledges s2 := by unfold uniquePledges; rw [hs2p]; exact hu
  have hg2 : s2.getPledge (remvPledge pl).creator = some pl.pledge := by
    unfold State.getPledge; rw [hs2p, htot.2.2.1, hcr]; exact hpledge
  refine ⟨_, rfl, ?_, ?_⟩
  · have := C14_set_pledge_sum (·.totalStorage) s2 (remvPledge pl) pl.pledge hu2 hg2
    show pl.pool.totalStorage - pl.sz = sumInt ((s2.setPledge (remvPledge pl)).pledges.map (·.totalStorage))
    rw [this, htot.1, hs2p, ← hts]; omega
  · have := C14_set_pledge_sum (·.totalStoragePledged) s2 (remvPledge pl) pl.pledge hu2 hg2
    show pl.pool.totalPledged - pl.amount = sumInt ((s2.setPledge (remvPledge pl)).pledges.map (·.totalStoragePledged))
    rw [this, htot.2.1, hs2p, ← htp]; omega

theorem poolSum_agrees (s : State) (h : PoolSum s) : poolAgrees s = true := by
  obtain ⟨pool, hp, h1, h2⟩ := h
  unfold poolAgrees
  simp [hp, h1, h2]

theorem map_replace_creator (l : List Pledge) (p : Pledge) :
    (l.map (fun x => if x.creator = p.creator then p else x)).map (·.creator) = l.map (·.creator) := by
  induction l with
  | nil => rfl
  | cons y t ih =>
    simp only [List.map_cons, ih]
    by_cases hy : y.creator = p.creator <;> simp [hy]

/-- writing a pledge keeps "one pledge record per provider" -/
theorem setPledge_unique (s : State) (p : Pledge) (hu : uniquePledges s) : uniquePledges (s.setPledge p) := by
  unfold uniquePledges State.setPledge
  simp only
  split
  · rw [map_replace_creator]; exact hu
  · rename_i hn
    simp only [List.map_append, List.map_cons, List.map_nil]
    refine List.nodup_append.mpr ⟨hu, by simp, ?_⟩
    intro a ha b hb
    simp only [List.mem_singleton] at hb
    subst hb
    intro hab
    subst hab
    apply hn
    rcases List.mem_map.mp ha with ⟨x, hx, hxc⟩
    exact List.any_eq_true.mpr ⟨x, hx, by simpa using hxc⟩

/-- the hypotheses of `C14_remove_keeps_pool_sum` are satisfiable by a non-trivial state -/
example : let s : State := { (default : State) with
      pledges := [{ creator := 7, totalStorage := 100, usedStorage := 10, totalStoragePledged := 5,
                    totalShardPledged := 0, reward := 0, rewardDebt := 0 }],
      pool := some { (default : Pool) with totalStorage := 100, totalPledged := 5 } }
    uniquePledges s ∧ PoolSum s := by
  refine ⟨by simp [uniquePledges], ⟨_, rfl, by simp [sumInt], by simp [sumInt]⟩⟩

theorem addvPledge_totals (pool : Pool) (old : Option Pledge) (c : Addr) (amount sz : Int) :
    (addvPledge pool old c amount sz).totalStorage = (old.map (·.totalStorage)).getD 0 + sz ∧
    (addvPledge pool old c amount sz).totalStoragePledged = (old.map (·.totalStoragePledged)).getD 0 + amount ∧
    (addvPledge pool old c amount sz).creator = (old.map (·.creator)).getD c ∧
    (addvPledge pool old c amount sz).totalShardPledged = (old.map (·.totalShardPledged)).getD 0 ∧
    (addvPledge pool old c amount sz).usedStorage = (old.map (·.usedStorage)).getD 0 := by
  unfold addvPledge
  cases old with
  | none => simp [settle_totals]
  | some p => simp [settle_totals]

theorem sendLit_frame (s s' : State) (a b : Addr) (x : Int) (h : s.sendLit a b x = .ok s') :
    s'.pledges = s.pledges ∧ s'.pool = s.pool ∧ s'.shards = s.shards ∧ s'.orders = s.orders ∧
    s'.workers = s.workers ∧ s'.nodes = s.nodes ∧ s'.params = s.params ∧ s'.debts = s.debts := by
  unfold State.sendLit at h
  split at h
  · cases h
  · exact send_frame _ _ _ _ _ h

theorem promoteIfDue_frame (e : Env) (s s' : State) (c : Addr) (p : Pledge) (h : promoteIfDue e s c p = .ok s') :
    s'.pledges = s.pledges := by
  unfold promoteIfDue at h
  split at h
  · split at h
    · cases h
    · split at h
      · split at h
        · cases h
        · simp only [pure, Except.pure, Except.ok.injEq] at h
          subst h; simp [State.setNode]
        · simp only [pure, Except.pure, Except.ok.injEq] at h
          subst h; rfl
      · simp only [pure, Except.pure, Except.ok.injEq] at h
        subst h; rfl
  · simp only [pure, Except.pure, Except.ok.injEq] at h
    subst h; rfl

theorem any_false_of_find_none (l : List Pledge) (c : Addr) (h : l.find? (·.creator = c) = none) :
    l.any (·.creator = c) = false := by
  cases ha : l.any (·.creator = c) with
  | false => rfl
  | true =>
    rcases List.any_eq_true.mp ha with ⟨x, hx, hxc⟩
    have := List.find?_eq_none.mp h x hx
    simp_all

/-- every accepted AddVstorage credits the pool and the provider's pledge with the same bytes and
    coins (whether or not the provider had a pledge record): the totals stay the sums over providers -/
theorem C14_add_keeps_pool_sum (e : Env) (s s' : State) (c : Addr) (size : Nat)
    (hu : uniquePledges s) (hi : PoolSum s) (h : nodeAddVstorage e s c size = .ok s') : PoolSum s' := by
  unfold nodeAddVstorage at h
  split at h
  · cases h
  · split at h
    · cases h
    · rename_i pool hpool
      simp only at h
      split at h
      · cases h
      · split at h
        · cases h
        · rename_i s1 hs1
          have hfr := sendLit_frame _ _ _ _ _ hs1
          split at h
          · cases h
          · rename_i s2 hs2
            have hs2p : s2.pledges = s.pledges := by rw [promoteIfDue_frame _ _ _ _ _ hs2, hfr.1]
            simp only [pure, Except.pure, Except.ok.injEq] at h
            subst h
            obtain ⟨pool0, hp, hts, htp⟩ := hi
            rw [hpool] at hp
            cases hp
            have hg1 : s1.getPledge c = s.getPledge c := by unfold State.getPledge; rw [hfr.1]
            rw [hg1]
            have hu2 : uniquePledges s2 := by unfold uniquePledges; rw [hs2p]; exact hu
            cases hold : s.getPledge c with
            | none =>
              have htot := addvPledge_totals pool none c (addAmount size) (addSize (addAmount size))
              simp only [Option.map_none, Option.getD_none] at htot
              have hany : s2.pledges.any (·.creator = (addvPledge pool none c (addAmount size) (addSize (addAmount size))).creator) = false := by
                rw [htot.2.2.1, hs2p]; exact any_false_of_find_none _ _ hold
              refine ⟨_, rfl, ?_, ?_⟩
              · show pool.totalStorage + addSize (addAmount size) = sumInt ((s2.setPledge _).pledges.map (·.totalStorage))
                unfold State.setPledge
                simp only [hany]
                rw [if_neg (by simp), sum_append_new, hs2p, ← hts, htot.1]; omega
              · show pool.totalPledged + addAmount size = sumInt ((s2.setPledge _).pledges.map (·.totalStoragePledged))
                unfold State.setPledge
                simp only [hany]
                rw [if_neg (by simp), sum_append_new, hs2p, ← htp, htot.2.1]; omega
            | some old =>
              have htot := addvPledge_totals pool (some old) c (addAmount size) (addSize (addAmount size))
              simp only [Option.map_some, Option.getD_some] at htot
              have hcr := getPledge_creator _ _ _ hold
              have hg2 : s2.getPledge (addvPledge pool (some old) c (addAmount size) (addSize (addAmount size))).creator = some old := by
                unfold State.getPledge; rw [hs2p, htot.2.2.1, hcr]; exact hold
              refine ⟨_, rfl, ?_, ?_⟩
              · have := C14_set_pledge_sum (·.totalStorage) s2 _ old hu2 hg2
                show pool.totalStorage + addSize (addAmount size) = sumInt ((s2.setPledge _).pledges.map (·.totalStorage))
                rw [this, htot.1, hs2p, ← hts]; omega
              · have := C14_set_pledge_sum (·.totalStoragePledged) s2 _ old hu2 hg2
                show pool.totalPledged + addAmount size = sumInt ((s2.setPledge _).pledges.map (·.totalStoragePledged))
                rw [this, htot.2.1, hs2p, ← htp]; omega

end SaoVerif
