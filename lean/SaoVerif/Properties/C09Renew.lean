import SaoVerif.Proofs.Fixed2
/-!
# C09 — only the owner's signature renews a model, and only a committed, unexpired one

`C09_renew_requires_owner_signature`: for every state and data id, `Renew` goes ahead for a model only when the DID that signed
the request is the model's owner (a read-write grantee may update the content, not prolong — and pay for — its storage), the
model has no update in flight, its current order is complete and not past its term, and every shard that order lists exists
and is stored or migrating; `C09_renew_skips_otherwise`: in every other case that data id is skipped and the state, the pool
and the charge are untouched by it.
-/
namespace SaoVerif

theorem C09_renew_requires_owner_signature (s : State) (sigDid : Did) (d : Bytes) (md : Metadata) (o : Order) (shs : List Shard)
    (h : renewGuards s sigDid d = some (md, o, shs)) :
    s.getMeta d = some md ∧ md.owner = sigDid ∧ md.status = MetaComplete ∧ s.getOrder md.orderId = some o ∧
      o.status = OrderCompleted ∧ ¬ (toI64 o.createdAt + toI64 o.duration < s.h) := by
  unfold renewGuards at h
  cases hm : s.getMeta d with
  | none => simp [hm, bind, Option.bind] at h
  | some m =>
    simp only [hm, bind, Option.bind] at h
    by_cases h1 : m.owner ≠ sigDid
    · simp [h1] at h
    · by_cases h2 : m.status ≠ MetaComplete
      · simp [h1, h2] at h
      · simp only [h1, h2, if_false] at h
        cases ho : s.getOrder m.orderId with
        | none => simp [ho] at h
        | some o1 =>
          simp only [ho] at h
          generalize hs : List.mapM (m := Option) (β := Shard) _ o1.shards = r at h
          cases r with
          | none => simp at h
          | some l =>
            simp only at h
            by_cases h3 : o1.status ≠ OrderCompleted
            · simp [h3] at h
            · by_cases h4 : toI64 o1.createdAt + toI64 o1.duration < s.h
              · simp [h3, h4] at h
              · simp only [h3, h4, if_false, pure, Option.some.injEq, Prod.mk.injEq] at h
                obtain ⟨e1, e2, _⟩ := h
                subst e1; subst e2
                exact ⟨rfl, by simpa using h1, by simpa using h2, ho, by simpa using h3, h4⟩

theorem C09_renew_skips_otherwise (e : Env) (s : State) (pool : Pool) (c p : Addr) (sigDid : Did) (dur : Nat) (t : Int) (d : Bytes)
    (h : renewGuards s sigDid d = none) : renewOne e s pool c p sigDid dur t d = .ok (s, pool, false) := by
  unfold renewOne
  rw [h]; rfl

end SaoVerif
