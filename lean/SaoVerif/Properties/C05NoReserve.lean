import SaoVerif.Properties.C05Cancel
/-!
# C05 — cancelling before storage started touches nothing but the shard records

"… no provider keeps capacity or collateral reserved for it …"

`C05_cancel_before_storage_only_removes_shards`: when none of the shards the order lists has been stored (waiting, timed out,
migrating — any status but completed), the shard loop of Cancel is exactly the removal of those shard records: every pledge,
the pool, every balance, every node, order and model leave the loop as they entered it, for every state and every list. No
provider had anything booked for such a shard (collateral and used capacity are booked when a shard completes,
`C14_pledge_books_used_capacity`), so nothing stays reserved. Together with `C05_cancel_removes_every_listed_shard` this
is the shard half of the clean roll-back; the refund and the model roll-back are `C05_refund_full` and
`C05_stage_then_rollback_restores_record` / `C05_rollback_new_model`.
-/
namespace SaoVerif

theorem find_filter_ne (l : List Shard) (i j : Nat) (sh : Shard)
    (h : (l.filter (·.id ≠ i)).find? (·.id = j) = some sh) : l.find? (·.id = j) = some sh := by
  induction l with
  | nil => simp at h
  | cons a t ih =>
    by_cases hai : a.id = i
    · have e1 : (a :: t).filter (·.id ≠ i) = t.filter (·.id ≠ i) := by
        rw [List.filter_cons]; simp [hai]
      rw [e1] at h
      have hsh := ih h
      have hj : sh.id = j := by simpa using List.find?_some hsh
      have hne : sh.id ≠ i := by
        have := List.mem_of_find?_eq_some h
        simpa using (List.mem_filter.mp this).2
      have : ¬ a.id = j := by rw [hai, ← hj]; exact fun x => hne x.symm
      rw [List.find?_cons]; simp only [this, decide_false]; exact hsh
    · have e1 : (a :: t).filter (·.id ≠ i) = a :: t.filter (·.id ≠ i) := by
        rw [List.filter_cons]; simp [hai]
      rw [e1] at h
      rw [List.find?_cons] at h ⊢
      by_cases haj : a.id = j
      · simp only [haj, decide_true] at h ⊢; exact h
      · simp only [haj, decide_false] at h ⊢; exact ih h

theorem getShard_removeShard_some (s : State) (i j : Nat) (sh : Shard) (h : (s.removeShard i).getShard j = some sh) :
    s.getShard j = some sh := by
  unfold State.getShard State.removeShard at *
  exact find_filter_ne _ _ _ _ h

theorem C05_cancel_before_storage_only_removes_shards (e : Env) (l : List Nat) (s s' : State)
    (hnone : ∀ id ∈ l, ∀ sh, s.getShard id = some sh → sh.status ≠ ShardCompleted)
    (h : saoCancelBody.loop e l s = .ok s') : s' = l.foldl (fun st id => st.removeShard id) s := by
  induction l generalizing s with
  | nil =>
    unfold saoCancelBody.loop at h
    simp only [pure, Except.pure, Except.ok.injEq] at h
    rw [← h]; rfl
  | cons i t ih =>
    unfold saoCancelBody.loop at h
    simp only [bind, Except.bind] at h
    split at h
    · rename_i sh hsh
      have hst := hnone i List.mem_cons_self sh hsh
      simp only [hst, if_false, pure, Except.pure] at h
      simp only [List.foldl_cons]
      refine ih _ ?_ h
      intro id hid x hx
      exact hnone id (List.mem_cons_of_mem _ hid) x (getShard_removeShard_some _ _ _ _ hx)
    · simp [throw, throwThe, MonadExceptOf.throw] at h

/-- in particular every pledge record, the pool, every balance, debt and market worker are what they were -/
theorem C05_cancel_before_storage_keeps_pledges (e : Env) (l : List Nat) (s s' : State)
    (hnone : ∀ id ∈ l, ∀ sh, s.getShard id = some sh → sh.status ≠ ShardCompleted)
    (h : saoCancelBody.loop e l s = .ok s') : s'.pledges = s.pledges ∧ s'.pool = s.pool ∧ s'.bank = s.bank ∧ s'.debts = s.debts ∧ s'.workers = s.workers ∧ s'.nodes = s.nodes := by
  rw [C05_cancel_before_storage_only_removes_shards e l s s' hnone h]
  clear h hnone
  induction l generalizing s with
  | nil => exact ⟨rfl, rfl, rfl, rfl, rfl, rfl⟩
  | cons i t ih => simp only [List.foldl_cons]; exact ih (s.removeShard i)

/-- an accepted Cancel is for an existing order that is not complete yet, by someone allowed to cancel it, through a
    provider acting for the sender -/
theorem C05_cancel_requires_open_order (e : Env) (s s' : State) (c p : Addr) (oid : Nat) (h : saoCancel e s c p oid = .ok s') :
    ∃ o, s.getOrder oid = some o ∧ o.status ≠ OrderCompleted ∧ cancelAllowed s c p o = true ∧ actsFor s c p = true := by
  unfold saoCancel at h
  split at h
  · simp [throw, throwThe, MonadExceptOf.throw] at h
  · rename_i o ho
    split at h
    · simp [throw, throwThe, MonadExceptOf.throw] at h
    · split at h
      · simp [throw, throwThe, MonadExceptOf.throw] at h
      · refine ⟨o, ho, ?_, by simp_all, by simp_all⟩
        intro hc
        unfold saoCancelBody at h
        simp [hc, throw, throwThe, MonadExceptOf.throw, bind, Except.bind] at h

/-- the last step of Cancel and of the timeout give-up: the order is refunded (`C05_refund_full`: in full, to the payer), the
    model rolled back, and the order record removed — in that order, and the order is gone afterwards -/
theorem C05_cancel_order_refunds_then_removes (e : Env) (s s' : State) (id : Nat) (h : cancelOrder e s id = .ok (s', none)) :
    ∃ s1 s2, refundOrder e s id = (s1, none) ∧ rollbackMeta s1 ((s.getOrder id).getD default).dataId = .ok s2 ∧
      s' = s2.removeOrder id ∧ s'.getOrder id = none := by
  unfold cancelOrder at h
  simp only [bind, Except.bind, pure, Except.pure] at h
  split at h
  · simp at h
  · rename_i s1 hs1
    split at h
    · cases h
    · rename_i s2 hs2
      simp only [Except.ok.injEq, Prod.mk.injEq, and_true] at h
      refine ⟨s1, s2, hs1, hs2, h.symm, ?_⟩
      rw [← h]
      unfold State.getOrder State.removeOrder
      simp only
      apply List.find?_eq_none.mpr
      intro x hx
      have := (List.mem_filter.mp hx).2
      simpa using this

end SaoVerif
