import SaoVerif.Skeleton.x_sao_abci_go
import SaoVerif.Skeleton.x_sao_keeper_expire_management_go
import SaoVerif.Skeleton.x_sao_keeper_timeout_management_go
import SaoVerif.Skeleton.x_node_abci_go
import SaoVerif.Skeleton.x_node_keeper_node_go
import SaoVerif.Skeleton.x_node_keeper_reputation_go
import SaoVerif.Skeleton.x_node_keeper_shard_pledge_management_go
import SaoVerif.Skeleton.x_model_abic_go
import SaoVerif.Skeleton.x_sao_keeper_msg_server_renew_go
import SaoVerif.Skeleton.x_market_keeper_pool_management_go
import SaoVerif.Skeleton.x_node_types_params_go
import SaoVerif.Skeleton.x_node_types_genesis_go
/-!
# C02 — the decision logic of the anchor files is the one that was modelled

The extractor (harness/cmd/extract) regenerates, on every run and from the tree under check, the *decision skeleton* of every
function: its branching constructs in source order, each guard with its condition and with how its branch ends (`return <err>`,
`continue`, `panic`, …). The hand-written model mirrors exactly these decisions (its `…Pre` / `…Guards` functions are the
guards of the handlers, in their order). This theorem says that for the files the property is anchored in
(x/sao/abci.go, x/sao/keeper/expire_management.go, x/sao/keeper/timeout_management.go, x/node/abci.go, x/node/keeper/node.go, x/node/keeper/reputation.go, x/node/keeper/shard_pledge_management.go, x/model/abic.go, x/sao/keeper/msg_server_renew.go, x/market/keeper/pool_management.go, x/node/types/params.go, x/node/types/genesis.go) the regenerated skeletons equal the ones the model was written against
(one kernel-evaluated equality per source file, `SaoVerif/Skeleton/<file>.lean`). A change of a guard, of its order, or a new or
removed branch breaks it: the correspondence then has to be re-established (the check searches the histories for a failing
input and reports the violation either way).
-/
namespace SaoVerif

theorem C02_decision_skeleton_as_modelled :
    [Generated.Skel.x_sao_abci_go,
     Generated.Skel.x_sao_keeper_expire_management_go,
     Generated.Skel.x_sao_keeper_timeout_management_go,
     Generated.Skel.x_node_abci_go,
     Generated.Skel.x_node_keeper_node_go,
     Generated.Skel.x_node_keeper_reputation_go,
     Generated.Skel.x_node_keeper_shard_pledge_management_go,
     Generated.Skel.x_model_abic_go,
     Generated.Skel.x_sao_keeper_msg_server_renew_go,
     Generated.Skel.x_market_keeper_pool_management_go,
     Generated.Skel.x_node_types_params_go,
     Generated.Skel.x_node_types_genesis_go] =
    [Expected.Skel.x_sao_abci_go,
     Expected.Skel.x_sao_keeper_expire_management_go,
     Expected.Skel.x_sao_keeper_timeout_management_go,
     Expected.Skel.x_node_abci_go,
     Expected.Skel.x_node_keeper_node_go,
     Expected.Skel.x_node_keeper_reputation_go,
     Expected.Skel.x_node_keeper_shard_pledge_management_go,
     Expected.Skel.x_model_abic_go,
     Expected.Skel.x_sao_keeper_msg_server_renew_go,
     Expected.Skel.x_market_keeper_pool_management_go,
     Expected.Skel.x_node_types_params_go,
     Expected.Skel.x_node_types_genesis_go] := by
  rw [skel_x_sao_abci_go, skel_x_sao_keeper_expire_management_go, skel_x_sao_keeper_timeout_management_go, skel_x_node_abci_go, skel_x_node_keeper_node_go, skel_x_node_keeper_reputation_go, skel_x_node_keeper_shard_pledge_management_go, skel_x_model_abic_go, skel_x_sao_keeper_msg_server_renew_go, skel_x_market_keeper_pool_management_go, skel_x_node_types_params_go, skel_x_node_types_genesis_go]

end SaoVerif
