import SaoVerif.Model.Step
/-!
# C19 — Fault reports: only fishmen, only live shards, never touching others' funds

* `C19_report_requires_fishman`: ReportFaults from an account that is not a registered node listed
  as a fishman fails (state unchanged); `C19_recover_requires_role`: RecoverFaults is accepted only
  from the accused provider itself (serving storage) or from a fishman.
* `C19_report_frame`: an accepted ReportFaults changes nothing but the two fault stores: balances,
  supply, orders, shards, data models, nodes, pledges, debts, pool, workers and the fishing ledger are
  untouched — for every state and every list of reports (induction over the list).
* `C19_report_noop_unless_live`, `C19_report_noop_wrong_data`: a report entry is ignored unless the
  named order exists, belongs to the named data model and lists the named shard, held by the
  accused provider, with its paid period not ended.
Penalties never reach an implementation state (a second report can never confirm a fault, and
clearing a report panics on an empty key; both modelled literally), so `penalty ≤ reward + collateral`
holds vacuously; the monitor `faultReport` re-checks all clauses on every accepted message.
-/
namespace SaoVerif

theorem C19_report_requires_fishman (s : State) (c p : Addr) (fs : List FaultIn) (ids : List StrId)
    (h : (s.getNode c).isNone ∨ s.params.fishmen.contains c = false) :
    ∃ msg, saoReportFaults s c p fs ids = .error msg := by
  unfold saoReportFaults
  cases hn : s.getNode c with
  | none => simp [throw, throwThe, MonadExceptOf.throw]
  | some n =>
    rcases h with h | h
    · simp [hn] at h
    · have hc : n.creator = c := by
        unfold State.getNode at hn
        have := List.find?_some hn
        simpa using this
      have hm : c ∉ s.params.fishmen := by simpa using h
      simp [throw, throwThe, MonadExceptOf.throw, hc, hm]

/-- fields a fault report may never touch -/
def sameExceptFaults (a b : State) : Prop :=
  a.bank = b.bank ∧ a.supply = b.supply ∧ a.orders = b.orders ∧ a.shards = b.shards ∧ a.metas = b.metas ∧
  a.nodes = b.nodes ∧ a.pledges = b.pledges ∧ a.debts = b.debts ∧ a.pool = b.pool ∧ a.workers = b.workers ∧
  a.fishing = b.fishing ∧ a.params = b.params ∧ a.h = b.h

theorem sameExceptFaults_refl (a : State) : sameExceptFaults a a := ⟨rfl, rfl, rfl, rfl, rfl, rfl, rfl, rfl, rfl, rfl, rfl, rfl, rfl⟩

theorem sameExceptFaults_trans {a b c : State} (h1 : sameExceptFaults a b) (h2 : sameExceptFaults b c) : sameExceptFaults a c := by
  obtain ⟨a1, a2, a3, a4, a5, a6, a7, a8, a9, a10, a11, a12, a13⟩ := h1
  obtain ⟨b1, b2, b3, b4, b5, b6, b7, b8, b9, b10, b11, b12, b13⟩ := h2
  exact ⟨a1.trans b1, a2.trans b2, a3.trans b3, a4.trans b4, a5.trans b5, a6.trans b6, a7.trans b7, a8.trans b8,
         a9.trans b9, a10.trans b10, a11.trans b11, a12.trans b12, a13.trans b13⟩

theorem setFault_frame (s : State) (f : Fault) : sameExceptFaults s (s.setFault f) :=
  ⟨rfl, rfl, rfl, rfl, rfl, rfl, rfl, rfl, rfl, rfl, rfl, rfl, rfl⟩

theorem faultBySpShard_frame (s : State) (p : Addr) (sh : Nat) : sameExceptFaults s (s.faultBySpShard p sh).1 := by
  unfold State.faultBySpShard
  split
  · exact sameExceptFaults_refl s
  · split
    · exact sameExceptFaults_refl s
    · exact ⟨rfl, rfl, rfl, rfl, rfl, rfl, rfl, rfl, rfl, rfl, rfl, rfl, rfl⟩

theorem reportStep_frame (c p : Addr) (s : State) (x : FaultIn × StrId) : sameExceptFaults s (reportStep c p s x) := by
  unfold reportStep
  simp only
  repeat' split
  all_goals first
    | exact sameExceptFaults_refl s
    | exact faultBySpShard_frame s _ _
    | exact sameExceptFaults_trans (faultBySpShard_frame s _ _) (setFault_frame _ _)

theorem foldl_reportStep_frame (c p : Addr) (l : List (FaultIn × StrId)) (s : State) :
    sameExceptFaults s (l.foldl (reportStep c p) s) := by
  induction l generalizing s with
  | nil => exact sameExceptFaults_refl s
  | cons x t ih => exact sameExceptFaults_trans (reportStep_frame c p s x) (ih _)

/-- an accepted ReportFaults changes nothing but the fault stores -/
theorem C19_report_frame (s s' : State) (c p : Addr) (fs : List FaultIn) (ids : List StrId)
    (h : saoReportFaults s c p fs ids = .ok s') : sameExceptFaults s s' := by
  unfold saoReportFaults at h
  split at h
  · cases h
  · split at h
    · cases h
    · simp only [pure, Except.pure, Except.ok.injEq] at h
      rw [← h]
      exact foldl_reportStep_frame c p (fs.zip ids) s

/-- a report entry whose shard is not a live shard of the named order held by the accused changes nothing -/
theorem C19_report_noop_unless_live (c p : Addr) (s : State) (x : FaultIn × StrId) (o : Order)
    (ho : s.getOrder x.1.orderId = some o) (h : faultTargetsLiveShard s o x.1 true = false) : reportStep c p s x = s := by
  unfold reportStep
  simp only [ho, h]
  repeat' split
  all_goals first | rfl | simp_all

/-- an entry naming a different order / data model than the stored ones changes nothing -/
theorem C19_report_noop_wrong_data (c p : Addr) (s : State) (x : FaultIn × StrId) (o : Order)
    (ho : s.getOrder x.1.orderId = some o) (h : o.dataId ≠ x.1.dataId) : reportStep c p s x = s := by
  unfold reportStep
  simp only [ho]
  repeat' split
  all_goals first | rfl | simp_all

theorem C19_recover_requires_role (s : State) (c p : Addr) (fs : List FaultIn) (ik : Nat)
    (h : (s.getNode c).isNone ∨ (c ≠ p ∧ s.params.fishmen.contains c = false)) :
    ∃ msg, saoRecoverFaults s c p fs ik = .error msg := by
  unfold saoRecoverFaults
  cases hn : s.getNode c with
  | none => simp [bind, Except.bind, throw, throwThe, MonadExceptOf.throw]
  | some n =>
    rcases h with h | ⟨h1, h2⟩
    · simp [hn] at h
    · have hc : n.creator = c := by
        unfold State.getNode at hn
        have := List.find?_some hn
        simpa using this
      have hm : c ∉ s.params.fishmen := by simpa using h2
      simp [bind, Except.bind, throw, throwThe, MonadExceptOf.throw, hc, hm, h1]

end SaoVerif
