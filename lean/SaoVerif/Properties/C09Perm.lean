import SaoVerif.Properties.C09
import SaoVerif.Properties.C16
/-!
# C09 — an accepted permission update leaves exactly the lists the owner signed

`C09_perm_sets_exact_lists`: after an accepted UpdataPermission the model's read-only and read-write lists are the ones of
the request — an empty list revokes everybody (the seeded change C09-7 kept the old list when the new one was empty) — and
nothing else of the record changes.
-/
namespace SaoVerif

theorem C09_perm_sets_exact_lists (s s' : State) (c p : Addr) (owner : Did) (d : Bytes) (ro rw : List Did) (sv : Bool)
    (h : saoPermission s c p owner d ro rw sv = .ok s') :
    ∃ m, s.getMeta d = some m ∧ m.owner = owner ∧
      s'.getMeta d = some { m with readonlyDids := ro, readwriteDids := rw } := by
  unfold saoPermission at h
  simp only [bind, Except.bind, pure, Except.pure] at h
  split at h; · cases h
  split at h; · cases h
  split at h; · cases h
  split at h; · cases h
  unfold updatePermission at h
  cases hm : s.getMeta d with
  | none => rw [hm] at h; simp [softTx', throw, throwThe, MonadExceptOf.throw] at h
  | some m =>
    rw [hm] at h
    dsimp only at h
    by_cases hown : owner ≠ m.owner
    · simp [softTx', hown, throw, throwThe, MonadExceptOf.throw] at h
    · have hown' : owner = m.owner := Classical.not_not.mp hown
      simp only [softTx', hown, ↓reduceIte, pure, Except.pure, Except.ok.injEq] at h
      refine ⟨m, rfl, hown'.symm, ?_⟩
      rw [← h]
      have hd : m.dataId = d := by
        unfold State.getMeta at hm
        have := List.find?_some hm
        simpa using this
      subst hd
      exact getMeta_setMeta s { m with readonlyDids := ro, readwriteDids := rw }

end SaoVerif
