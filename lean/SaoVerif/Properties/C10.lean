import SaoVerif.Model.Step
/-!
# C10 — Actor authorisation

For every state and every message whose sender neither *is* the claimed provider nor is listed in
that provider's own transaction addresses (`actsFor`), Complete, Migrate, Terminate, Renew and
UpdataPermission fail (`C10_*_requires_actor`), so nothing of the victim changes. A pending order is
cancelled only by its creator or through the order's own gateway (`C10_cancel_requires_creator`;
this needed the `fix:` of F10 — before it the claimed provider was unconstrained, refuted by replay).
Ready is accepted only from the order's gateway or one of its addresses (`C10_ready_requires_gateway`).
Node messages (Create, Reset, Add/RemoveVstorage, ClaimReward) are keyed by the transaction signer
in the model by construction: they take `creator` as the only address.
-/
namespace SaoVerif

theorem C10_complete_requires_actor (e : Env) (s : State) (c p : Addr) (oid size : Nat) (ok : Bool) (cid : StrId)
    (h : actsFor s c p = false) : ∃ msg, saoComplete e s c p oid size ok cid = .error msg := by
  unfold saoComplete
  simp [h, throw, throwThe, MonadExceptOf.throw]

theorem C10_migrate_requires_actor (s : State) (c p : Addr) (data : List Bytes)
    (h : actsFor s c p = false) : ∃ msg, saoMigrate s c p data = .error msg := by
  unfold saoMigrate
  simp [bind, Except.bind, throw, throwThe, MonadExceptOf.throw, h]

theorem C10_terminate_requires_actor (e : Env) (s : State) (c p : Addr) (ow : Did) (d : Bytes) (sv : Bool) (sd : Did)
    (h : actsFor s c p = false) : ∃ msg, saoTerminate e s c p ow d sv sd = .error msg := by
  unfold saoTerminate
  simp [bind, Except.bind, throw, throwThe, MonadExceptOf.throw, h]

theorem C10_perm_requires_actor (s : State) (c p : Addr) (ow : Did) (d : Bytes) (ro rw : List Did) (sv : Bool)
    (h : actsFor s c p = false) : ∃ msg, saoPermission s c p ow d ro rw sv = .error msg := by
  unfold saoPermission
  simp [bind, Except.bind, throw, throwThe, MonadExceptOf.throw, h]

/-- the sender of an accepted Cancel is the order's creator, or the order was created by one of
    the addresses of its own gateway; in both cases the sender acts for the provider it claims -/
theorem C10_cancel_requires_creator (e : Env) (s s' : State) (c p : Addr) (oid : Nat) (o : Order)
    (ho : s.getOrder oid = some o) (h : saoCancel e s c p oid = .ok s') :
    cancelAllowed s c p o = true ∧ actsFor s c p = true := by
  unfold saoCancel at h
  simp only [ho] at h
  split at h
  · cases h
  · rename_i h1
    split at h
    · cases h
    · rename_i h2
      exact ⟨by simpa using h1, by simpa using h2⟩

/-- `cancelAllowed` is exactly: creator of the order, or the claimed provider is the order's own
    gateway and that gateway lists the order's creator among its addresses -/
theorem cancelAllowed_iff (s : State) (c p : Addr) (o : Order) :
    cancelAllowed s c p o = true ↔
      (o.creator = c ∨ (p = o.provider ∧ ∃ n, s.getNode p = some n ∧ o.creator ∈ n.txAddresses)) := by
  unfold cancelAllowed
  cases hn : s.getNode p with
  | none => simp
  | some n => simp

theorem C10_ready_requires_gateway (s s' : State) (c p : Addr) (oid : Nat) (o : Order)
    (ho : s.getOrder oid = some o) (h : saoReady s c p oid = .ok s') :
    readyAllowed s c p o = true := by
  unfold saoReady at h
  simp only [ho] at h
  split at h
  · cases h
  · rename_i h1; simpa using h1

/-- a third party that is neither the order's creator nor listed by the order's gateway cannot
    cancel, whatever provider it claims and whatever addresses its own node declares -/
theorem C10_third_party_cannot_cancel (e : Env) (y : Sys) (c p : Addr) (oid : Nat) (o : Order)
    (ho : y.st.getOrder oid = some o) (h1 : o.creator ≠ c)
    (h2 : ∀ n, y.st.getNode o.provider = some n → o.creator ∉ n.txAddresses) :
    (step e y (.cancel c p oid)).2 = y := by
  have hna : cancelAllowed y.st c p o = false := by
    cases hb : cancelAllowed y.st c p o with
    | false => rfl
    | true =>
      rcases (cancelAllowed_iff y.st c p o).mp hb with h | ⟨hp, n, hn, hm⟩
      · exact absurd h h1
      · subst hp; exact absurd hm (h2 n hn)
  have herr : saoCancel e y.st c p oid = .error "only order creator allowed" := by
    simp [saoCancel, ho, hna, throw, throwThe, MonadExceptOf.throw]
  cases y
  simp only [step, stepBase, stepC, atomic, herr]
  split <;> rfl

end SaoVerif
