import SaoVerif.Properties.C06
/-!
# C04 — Order payment conservation

* `C04_price_exact` (in C06.lean): the amount charged is the quoted price
  ⌈size · replica · duration / 10⁶⌉.
* `C04_withdraw_running_shard`: terminating a running shard refunds unit price × size × the blocks
  that remain of its paid period (the provider keeps income for the blocks stored, settled by
  `workerRelease`), for every state and height.
* `C04_withdraw_unstarted_renewal`: a renewal that has not started is refunded in full for the
  shard, unit price × size × renewed duration, and no provider income is touched
  (the `fix:` of F13; before it this case refunded nothing).
* `C04_withdraw_past_period`: a shard that already moved on to a later order contributes nothing.
* `C04_withdraw_waiting_shard`: a replica that was never stored is refunded for the whole term;
  `C04_withdraw_unstored_other`: a shard that is migrating in or has timed out is neither stored nor waiting: it
  adds nothing to the refund and touches no provider income (the replica it stands for is accounted by the
  completed or waiting shard it replaces or that replaced it). seeded/C04-2 merges these branches.
Whole-lifecycle conservation (charged = income + refunds up to dust) is monitored at quiescence
(`Spec.escrowsSettled`) on every implementation state.
-/
namespace SaoVerif

theorem C04_withdraw_unstarted_renewal (o : Order) (s : State) (r : Dec) (id : Nat) (sh : Shard)
    (hs : s.getShard id = some sh) (hst : sh.status = ShardCompleted) (hlt : sh.orderId < o.id) :
    withdrawLoop o [id] s r = (s, r + Dec.mulInt (Dec.mulInt o.unitPrice (toI64 sh.size)) (toI64 o.duration), none) := by
  have h1 : ¬ (sh.orderId > o.id) := by omega
  have h3 : sh.orderId ≠ o.id := by omega
  simp [withdrawLoop, hs, h1, hst, hlt, h3]

theorem C04_withdraw_past_period (o : Order) (s : State) (r : Dec) (id : Nat) (sh : Shard)
    (hs : s.getShard id = some sh) (hgt : sh.orderId > o.id) :
    withdrawLoop o [id] s r = (s, r, none) := by
  simp [withdrawLoop, hs, hgt]

theorem C04_withdraw_running_shard (o : Order) (s : State) (r : Dec) (id : Nat) (sh : Shard) (w : Worker)
    (hs : s.getShard id = some sh) (hst : sh.status = ShardCompleted) (heq : sh.orderId = o.id)
    (hw : s.getWorker sh.sp = some w) :
    (withdrawLoop o [id] s r).2.1 = r + Dec.mulInt (Dec.mulInt o.unitPrice (toI64 sh.size)) (toI64 (addU64 sh.createdAt sh.duration) - s.h) ∧
    (withdrawLoop o [id] s r).2.2 = none := by
  have h1 : ¬ (sh.orderId > o.id) := by omega
  simp [withdrawLoop, hs, h1, hst, heq, workerRelease, hw]

theorem C04_withdraw_waiting_shard (o : Order) (s : State) (r : Dec) (id : Nat) (sh : Shard)
    (hs : s.getShard id = some sh) (hst : sh.status = ShardWaiting) (hle : ¬ sh.orderId > o.id) :
    withdrawLoop o [id] s r = (s, r + Dec.mulInt (Dec.mulInt o.unitPrice (toI64 sh.size)) (toI64 o.duration), none) := by
  have h2 : sh.status ≠ ShardCompleted := by rw [hst]; decide
  simp [withdrawLoop, hs, hle, hst, h2, ShardWaiting, ShardCompleted]

theorem C04_withdraw_unstored_other (o : Order) (s : State) (r : Dec) (id : Nat) (sh : Shard)
    (hs : s.getShard id = some sh) (h1 : sh.status ≠ ShardCompleted) (h2 : sh.status ≠ ShardWaiting) :
    withdrawLoop o [id] s r = (s, r, none) := by
  unfold withdrawLoop
  simp only [hs]
  split
  · simp [withdrawLoop]
  · simp [h1, h2, withdrawLoop]

/-- in particular a migrating or timed-out shard -/
example (o : Order) (s : State) (r : Dec) (id : Nat) (sh : Shard) (hs : s.getShard id = some sh)
    (h : sh.status = ShardMigrating ∨ sh.status = ShardTimeout) : withdrawLoop o [id] s r = (s, r, none) := by
  apply C04_withdraw_unstored_other o s r id sh hs <;> rcases h with h | h <;> rw [h] <;> decide

end SaoVerif
