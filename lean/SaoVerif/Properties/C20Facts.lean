import SaoVerif.Properties.C01Facts
/-! # C20 — the staking hooks of the node keeper are registered (read off app/app.go on every run) -/
namespace SaoVerif

/-- every delegation, undelegation and validator change reaches the node keeper's hooks — the re-evaluation of the super
    role modelled by `verifySuper` — because the application registers them with the staking keeper -/
theorem C20_staking_hooks_registered :
    (Generated.appWiring.filter (fun x => x.1 = "SetHooks")) =
      [("SetHooks", "stakingKeeper",
        "stakingtypes.NewMultiStakingHooks(app.DistrKeeper.Hooks(), app.SlashingKeeper.Hooks(), app.NodeKeeper.Hooks())")] :=
  C01_blocker_order_and_hooks_as_modelled.2.2

end SaoVerif
