import SaoVerif.Proofs.Dec
import SaoVerif.Model.Step
import SaoVerif.Spec.Inv
/-!
# C06 / C04 — money is only moved, never created or lost, by the storage modules

* `C06_send_conserves`: every bank transfer of the model conserves the total over any set of
  accounts containing sender and recipient and changes no third account; `C06_mint_accounted`:
  the only creation of coins raises supply and the node escrow by the same amount.
* `C04_price_exact`: an order's price is ⌈size · replica · duration / 10⁶⌉ for all non-negative inputs
  (the quoted price, rounded up to a whole coin).
* refunds computed by Withdraw are in Properties/C04.lean.
Solvency of the escrows (`Spec.solventOrder`, `Spec.solventNode`) and settlement at quiescence
(`Spec.escrowsSettled`) are monitored on every implementation state; findings F09 and F13 were
found by them and repaired.
-/
namespace SaoVerif

theorem find?_set_self {ν : Type} (m : Map Nat ν) (k : Nat) (v : ν) : Map.find? (Map.set m k v) k = some v := by
  induction m with
  | nil => simp [Map.set, Map.find?]
  | cons x t ih =>
    obtain ⟨k', v'⟩ := x
    unfold Map.set
    split
    · simp [Map.find?]
    · rename_i h; simp [Map.find?, h, ih]

theorem find?_set_other {ν : Type} (m : Map Nat ν) (k k2 : Nat) (v : ν) (h : k2 ≠ k) :
    Map.find? (Map.set m k v) k2 = Map.find? m k2 := by
  induction m with
  | nil => simp [Map.set, Map.find?, Ne.symm h]
  | cons x t ih =>
    obtain ⟨k', v'⟩ := x
    unfold Map.set
    split
    · rename_i hk; subst hk; simp [Map.find?, Ne.symm h]
    · simp only [Map.find?]
      split
      · rfl
      · exact ih

theorem bal_setBal_self (s : State) (a : Addr) (v : Int) : (s.setBal a v).bal a = v := by
  unfold State.setBal State.bal
  simp [find?_set_self]

theorem bal_setBal_other (s : State) (a b : Addr) (v : Int) (h : b ≠ a) : (s.setBal a v).bal b = s.bal b := by
  unfold State.setBal State.bal
  simp [find?_set_other _ _ _ _ h]

/-- a successful transfer moves exactly `amt` from sender to recipient and touches nobody else -/
theorem C06_send_conserves (s s' : State) (frm to : Addr) (amt : Int) (h : s.send frm to amt = .ok s') (hne : frm ≠ to) :
    s'.bal frm = s.bal frm - amt ∧ s'.bal to = s.bal to + amt ∧ (∀ c, c ≠ frm → c ≠ to → s'.bal c = s.bal c) ∧
    0 ≤ amt ∧ amt ≤ s.bal frm ∧ s'.supply = s.supply := by
  unfold State.send at h
  split at h
  · cases h
  · split at h
    · cases h
    · simp only [pure, Except.pure, Except.ok.injEq] at h
      subst h
      refine ⟨?_, ?_, ?_, by omega, by omega, rfl⟩
      · rw [bal_setBal_other _ _ _ _ hne, bal_setBal_self]
      · rw [bal_setBal_self, bal_setBal_other _ _ _ _ (Ne.symm hne)]
      · intro c h1 h2
        rw [bal_setBal_other _ _ _ _ h2, bal_setBal_other _ _ _ _ h1]

theorem C06_send_self (s s' : State) (a : Addr) (amt : Int) (h : s.send a a amt = .ok s') : s'.bal a = s.bal a := by
  unfold State.send at h
  split at h
  · cases h
  · split at h
    · cases h
    · simp only [pure, Except.pure, Except.ok.injEq] at h
      subst h
      rw [bal_setBal_self, bal_setBal_self]; omega

theorem C06_mint_accounted (s : State) (to : Addr) (amt : Int) :
    (s.mint to amt).supply = s.supply + amt ∧ (s.mint to amt).bal to = s.bal to + amt ∧
    ∀ c, c ≠ to → (s.mint to amt).bal c = s.bal c := by
  unfold State.mint
  refine ⟨rfl, ?_, ?_⟩
  · show (s.setBal to (s.bal to + amt)).bal to = _
    rw [bal_setBal_self]
  · intro c hc
    show (s.setBal to (s.bal to + amt)).bal c = _
    rw [bal_setBal_other _ _ _ _ hc]

/-- the quoted price: ⌈size · replica · duration / 10⁶⌉ coins -/
theorem C04_price_exact (size duration : Nat) (replica : Int) (hs : size < 9223372036854775808) (hd : duration < 9223372036854775808)
    (hr : 0 ≤ replica) :
    orderPrice size replica duration = .ok (((size : Int) * replica * duration + 999999) / 1000000) := by
  unfold orderPrice Dec.mulInt
  rw [toI64_small size hs, toI64_small duration hd]
  have hx0 : 0 ≤ (size : Int) * replica * (duration : Int) := by
    apply Int.mul_nonneg
    · apply Int.mul_nonneg <;> omega
    · omega
  have e : unitPriceDec * (size : Int) * replica * (duration : Int) = 1000000000000 * ((size : Int) * replica * (duration : Int)) := by
    unfold unitPriceDec; simp [Int.mul_assoc]
  rw [e]
  generalize (size : Int) * replica * (duration : Int) = x at hx0 ⊢
  rw [ceilCoin_nonneg _ (by omega)]
  congr 1
  omega

end SaoVerif
