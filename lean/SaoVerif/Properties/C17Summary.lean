import SaoVerif.Properties.C17SidPay
/-!
# C17 — the state clauses of the property, together, after every history

"An account is bound to at most one DID and appears in that DID's account list exactly while bound … A sid DID's payment
address is always one of its currently bound accounts on this chain and that account cannot be unbound, a key DID's payment
address is set only by that address itself and never changes afterwards, and an address is linked to at most one key DID."

`C17_registry_integrity_over_histories` collects the invariants of C17Unique / C17Registry / C17SidPay / C17KeyPay: from a
registry that satisfies them (the empty one does), after every history whose account-id descriptions are consistent
(`WfRun`), all of them hold again. The clauses about *requests* (fresh proof signed by the account's own key, submission by
an account already bound) are the handler theorems of C17.lean (`C17_binding_requires`, …); the tie of their
cryptographic inputs to real signatures is the harness's (finding F08 concerns the text that is signed).
-/
namespace SaoVerif

theorem opWf_of_opWfIn (d : DidState) (op : Op) (h : opWfIn d op = true) : opWf op = true := by
  cases op <;> first | rfl | (simp only [opWfIn, Bool.and_eq_true] at h; exact h.1)

theorem allWf_of_WfRun (e : Env) (y : Sys) (ops : List Op) (h : WfRun e y ops) : ops.all opWf = true := by
  induction ops generalizing y with
  | nil => rfl
  | cons op t ih =>
    simp only [List.all_cons, Bool.and_eq_true]
    exact ⟨opWf_of_opWfIn _ _ h.1, ih _ h.2⟩

theorem C17_registry_integrity_over_histories (e : Env) (y : Sys) (ops : List Op) (hw : WfRun e y ops)
    (hreg : RegPay y.st.did) (hkp : KeyPay y.st.did) :
    let d := (runOps e y ops).st.did
    -- an account is bound to at most one DID
    AccUnique d ∧
    -- … and appears in that DID's account list exactly while bound
    (∀ x ∈ d.did, ∃ ads, Map.find? d.accountList x.did = some ads ∧ ∃ ad ∈ ads, Map.find? d.accountId ad = some x.accountId) ∧
    (∀ did ads, Map.find? d.accountList did = some ads → ∀ ad ∈ ads,
      ∃ acc, Map.find? d.accountId ad = some acc ∧ ∃ x ∈ d.did, x.accountId = acc ∧ x.did = did) ∧
    -- a sid DID's payment address is one of its currently bound accounts on this chain
    SidPay d ∧
    -- a key DID's payment address and the address → key-DID link are inverse to each other: one key DID per address
    KeyPay d := by
  have h1 := C17_sid_payaddr_over_histories e y ops hw hreg
  have h2 := C17_keypay_over_histories e y ops (allWf_of_WfRun e y ops hw) hkp
  exact ⟨h1.1.unique, h1.1.listed, h1.1.backed, h1.2, h2⟩

end SaoVerif
