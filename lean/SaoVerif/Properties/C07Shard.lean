import SaoVerif.Properties.C07
import SaoVerif.Properties.C06
/-!
# C07 — what is taken for a shard is recorded on it, and what is recorded is what is returned

* `C07_pledge_takes_recorded`: when the collateral of a new shard is taken, the coins move from the
  provider to the node escrow and exactly that (non-negative) amount is stored as `shard.pledge`.
* `C07_release_returns_pledge` + `C07_release_amount`: when a shard ends, the escrow pays the provider
  `shard.pledge` less only the debt recorded against that provider (`PledgeDebt`), to that provider and
  to nobody else.
-/
namespace SaoVerif

theorem repayPledgeDebt_bank (s : State) (sp : Addr) (l : List Int) :
    (repayPledgeDebt s sp l).1.bank = s.bank ∧ (repayPledgeDebt s sp l).1.pledges = s.pledges ∧ (repayPledgeDebt s sp l).1.pool = s.pool := by
  unfold repayPledgeDebt
  split
  · exact ⟨rfl, rfl, rfl⟩
  · split <;> simp [State.removeDebt, State.setDebt]

theorem C07_release_returns_pledge (e : Env) (s s' : State) (sp : Addr) (sh : Shard) (hne : e.modNode ≠ sp)
    (h : shardRelease e s sp (some sh) = .ok (s', none)) :
    s'.bal sp = s.bal sp + (repayPledgeDebt s sh.sp [sh.pledge]).2.headD 0 ∧
    s'.bal e.modNode = s.bal e.modNode - (repayPledgeDebt s sh.sp [sh.pledge]).2.headD 0 ∧
    ∀ x, x ≠ sp → x ≠ e.modNode → s'.bal x = s.bal x := by
  unfold shardRelease at h
  cases hp : s.getPledge sp with
  | none => simp [hp, pure, Except.pure] at h
  | some pledge =>
    cases hpool : s.pool with
    | none => simp [hp, hpool, pure, Except.pure] at h
    | some pool =>
      simp only [hp, hpool, bind, Except.bind, pure, Except.pure] at h
      generalize hr : repayPledgeDebt s sh.sp [sh.pledge] = r at h ⊢
      obtain ⟨s1, rs⟩ := r
      simp only at h ⊢
      have hb1 : s1.bank = s.bank := by
        have := (repayPledgeDebt_bank s sh.sp [sh.pledge]).1; rw [hr] at this; exact this
      have hbal1 : ∀ x, s1.bal x = s.bal x := fun x => by unfold State.bal; rw [hb1]
      split at h
      · simp only [Except.ok.injEq, Prod.mk.injEq] at h; cases h.2
      · rename_i s2 hs2
        have hs' : s'.bank = s2.bank := by
          split at h
          · simp [throw, throwThe, MonadExceptOf.throw] at h
          · simp only [Except.ok.injEq, Prod.mk.injEq, and_true] at h
            rw [← h]; rfl
        have hbal' : ∀ x, s'.bal x = s2.bal x := fun x => by unfold State.bal; rw [hs']
        by_cases hz : rs.headD 0 ≠ 0
        · rw [if_pos hz] at hs2
          obtain ⟨a, b, c, _⟩ := C06_send_conserves s1 s2 e.modNode sp (rs.headD 0) hs2 hne
          refine ⟨by rw [hbal', b, hbal1], by rw [hbal', a, hbal1], fun x h1 h2 => by rw [hbal', c x h2 h1, hbal1]⟩
        · rw [if_neg hz] at hs2
          cases hs2
          have hz0 : rs.headD 0 = 0 := by simpa using hz
          refine ⟨by rw [hbal', hbal1, hz0]; omega, by rw [hbal', hbal1, hz0]; omega, fun x _ _ => by rw [hbal', hbal1]⟩

theorem getShard_upsert (l : List Shard) (x : Shard) : (upsertBy (·.id) l x).find? (·.id = x.id) = some x := by
  induction l with
  | nil => simp [upsertBy]
  | cons y t ih =>
    unfold upsertBy
    split
    · simp
    · rename_i hne
      split
      · simp
      · simp only [List.find?_cons]
        have : decide (y.id = x.id) = false := by simpa using hne
        rw [this]; exact ih

theorem getShard_setShard (s : State) (x : Shard) : (s.setShard x).getShard x.id = some x := by
  unfold State.setShard State.getShard; exact getShard_upsert _ _

/-- taking the collateral of a new shard (no renewal queued): the coins leave the provider for the
    node escrow, and exactly that amount is recorded on the shard -/
theorem C07_pledge_takes_recorded (e : Env) (s s' : State) (sh : Shard) (up : Dec) (hne : sh.sp ≠ e.modNode)
    (hr : sh.renewInfos = []) (h : shardPledge e s sh up = .ok (s', none)) :
    ∃ amt sh', s'.getShard sh.id = some sh' ∧ sh'.pledge = amt ∧ 0 ≤ amt ∧
      s'.bal sh.sp = s.bal sh.sp - amt ∧ s'.bal e.modNode = s.bal e.modNode + amt ∧
      ∀ x, x ≠ sh.sp → x ≠ e.modNode → s'.bal x = s.bal x := by
  unfold shardPledge at h
  cases hp : s.getPledge sh.sp with
  | none => simp [hp, pure, Except.pure] at h
  | some pledge =>
    cases hpool : s.pool with
    | none => simp [hp, hpool, pure, Except.pure] at h
    | some pool =>
      simp only [hp, hpool, hr, bind, Except.bind, pure, Except.pure, List.foldl_nil, ne_eq, not_true_eq_false, if_false] at h
      split at h
      · simp only [Except.ok.injEq, Prod.mk.injEq] at h; cases h.2
      · split at h
        · cases h
        · rename_i v hv
          split at h
          · simp only [Except.ok.injEq, Prod.mk.injEq] at h; cases h.2
          · rename_i s1 hs1
            simp only [Except.ok.injEq, Prod.mk.injEq, and_true] at h
            subst h
            obtain ⟨a, b, c, d, _⟩ := C06_send_conserves s s1 sh.sp e.modNode v hs1 hne
            refine ⟨v, _, getShard_setShard _ { sh with pledge := v, renewInfos := [] }, rfl, d, ?_, ?_, ?_⟩
            · exact a
            · exact b
            · intro x h1 h2; exact c x h1 h2

/-- what is paid back for a shard collateral `p`: all of it when no debt is recorded against the
    provider, otherwise `p` less the recorded debt (nothing when the debt exceeds it) -/
theorem C07_release_amount (s : State) (sp : Addr) (p : Int) :
    (repayPledgeDebt s sp [p]).2.headD 0 =
      (match s.getDebt sp with
       | none => p
       | some d => if p ≥ d then p - d else 0) := by
  unfold repayPledgeDebt
  cases hd : s.getDebt sp with
  | none => simp
  | some d =>
    simp only [repayLoop]
    by_cases hge : p ≥ d
    · simp [hge]
    · simp [hge]

end SaoVerif
