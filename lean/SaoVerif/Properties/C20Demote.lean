import SaoVerif.Properties.C14
import SaoVerif.Properties.C20
/-!
# C20 — the super role is dropped in the same transaction when the capacity requirement is lost

`C20_remove_demotes`: for every state, provider and size, if an accepted RemoveVstorage leaves the
provider's pledged capacity below `VstorageThreshold`, then in the resulting state the provider's node
does not hold the super role.
-/
namespace SaoVerif

theorem find_upsert_node (e : Env) (l : List Node) (n : Node) :
    (upsertBy (fun x => e.rankOf x.creator) l n).find? (·.creator = n.creator) = some n := by
  induction l with
  | nil => simp [upsertBy]
  | cons y t ih =>
    unfold upsertBy
    split
    · simp
    · rename_i hne
      split
      · simp
      · have hc : y.creator ≠ n.creator := by
          intro hyc; apply hne; show e.rankOf y.creator = e.rankOf n.creator; rw [hyc]
        simp only [List.find?_cons]
        have : decide (y.creator = n.creator) = false := by simpa using hc
        rw [this]; exact ih

theorem getNode_setNode (e : Env) (s : State) (n : Node) :
    (s.setNode e n).getNode n.creator = some n := by
  unfold State.setNode State.getNode; exact find_upsert_node e _ _

theorem getNode_creator (s : State) (c : Addr) (n : Node) (h : s.getNode c = some n) : n.creator = c := by
  have := List.find?_some h
  simpa using this

theorem C20_remove_demotes (e : Env)
    (s s' : State) (c : Addr) (size : Nat) (h : nodeRemoveVstorage e s c size = .ok s')
    (hlow : ∀ p, s'.getPledge c = some p → p.totalStorage < s.params.vstorageThreshold) :
    ∃ n, s'.getNode c = some n ∧ n.role ≠ 1 := by
  obtain ⟨pl, s1, s2, hpl, hs1, hs2, rfl⟩ := remv_ok e s s' c size h
  have hfr := send_frame _ _ _ _ _ hs1
  have hnodes : ∀ (t : State), ({ (t.setPledge (remvPledge pl)) with
      pool := some { pl.pool with totalPledged := pl.pool.totalPledged - pl.amount, totalStorage := pl.pool.totalStorage - pl.sz } } : State).getNode c = t.getNode c := by
    intro t; rfl
  rw [hnodes]
  -- the new pledge record is the one stored for c
  have ⟨_, hpledge⟩ := remvPlan_ok _ _ _ _ hpl
  have hcr := getPledge_creator _ _ _ hpledge
  have htot := remvPledge_totals pl
  have hlow' : (remvPledge pl).totalStorage < s1.params.vstorageThreshold := by
    rw [hfr.2.2.2.2.2.2.1]
    apply hlow
    show (s2.setPledge (remvPledge pl)).getPledge c = some (remvPledge pl)
    have hs2p : s2.pledges = s.pledges := by rw [(demoteIfDue_frame _ _ _ _ _ hs2).1, hfr.1]
    unfold State.setPledge State.getPledge
    simp only
    have hany : s2.pledges.any (·.creator = (remvPledge pl).creator) = true := by
      rw [hs2p, htot.2.2.1, hcr]; exact any_of_find _ _ _ hpledge
    rw [if_pos hany]
    have : ∀ l : List Pledge, l.any (·.creator = (remvPledge pl).creator) = true →
        (l.map (fun x => if x.creator = (remvPledge pl).creator then remvPledge pl else x)).find? (·.creator = c) = some (remvPledge pl) := by
      intro l
      induction l with
      | nil => intro h; simp at h
      | cons y t ih =>
        intro h
        simp only [List.map_cons, List.find?_cons]
        by_cases hy : y.creator = (remvPledge pl).creator
        · simp [hy, htot.2.2.1, hcr]
        · have hyc : y.creator ≠ c := by rw [htot.2.2.1, hcr] at hy; exact hy
          simp only [hy, if_false]
          have : decide (y.creator = c) = false := by simpa using hyc
          rw [this]
          apply ih
          simp only [List.any_cons, Bool.or_eq_true] at h
          rcases h with h | h
          · simp [hy] at h
          · exact h
    exact this _ hany
  unfold demoteIfDue at hs2
  rw [if_pos hlow'] at hs2
  split at hs2
  · cases hs2
  · rename_i node hnode
    have hnc := getNode_creator _ _ _ hnode
    split at hs2
    · simp only [pure, Except.pure, Except.ok.injEq] at hs2
      subst hs2
      refine ⟨{ node with role := 0 }, ?_, by simp⟩
      have := getNode_setNode e s1 { node with role := 0 }
      simpa [hnc] using this
    · rename_i hr
      simp only [pure, Except.pure, Except.ok.injEq] at hs2
      subst hs2
      exact ⟨node, hnode, hr⟩

end SaoVerif
