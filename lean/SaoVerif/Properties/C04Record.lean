import SaoVerif.Proofs.Os
import SaoVerif.Properties.C12
import SaoVerif.Properties.C04Store
/-!
# C04 — the order records the amount that was charged

`C04_store_records_the_charged_amount`: for every state and request, when the paying-and-placing part of `Store` accepts, the
new order is in the order store and the amount it records is exactly the quoted price — the very amount
`C04_store_charges_payer_once` shows was taken from the payer. Refunds (`C05_refund_full`), the deposit into the market
escrow and every settlement are computed from that recorded amount, so "refund = charge" rests on this equality. (The seeded
change C05-9 recorded the price before its round-up and charged it after.)
-/
namespace SaoVerif

theorem generateShards_fold_amount (sps : List Addr) (acc : Order × State) :
    (sps.foldl (fun (acc : Order × State) sp =>
      let (sh, s') := newShardTask acc.2 acc.1 sp
      ({ acc.1 with shards := acc.1.shards ++ [sh.id] }, s')) acc).1.amount = acc.1.amount := by
  induction sps generalizing acc with
  | nil => rfl
  | cons a t ih =>
    simp only [List.foldl_cons]
    have := ih (({ acc.1 with shards := acc.1.shards ++ [(newShardTask acc.2 acc.1 a).1.id] }, (newShardTask acc.2 acc.1 a).2))
    simpa using this

theorem generateShards_amount (s : State) (o : Order) (sps : List Addr) : (generateShards s o sps).1.amount = o.amount := by
  unfold generateShards
  have := generateShards_fold_amount sps (o, s)
  simp only at this ⊢
  split <;> simp_all

theorem newOrder_records (s : State) (o : Order) (sps : List Addr) :
    (newOrder s o sps).2.getOrder (newOrder s o sps).1.id = some (newOrder s o sps).1 ∧ (newOrder s o sps).1.amount = o.amount := by
  unfold newOrder
  simp only
  refine ⟨getOrder_setOrder _ _, ?_⟩
  show (generateShards _ _ sps).1.amount = o.amount
  rw [generateShards_amount]

theorem getOrder_of_os {s s' : State} (h : osPart s' = osPart s) (j : Nat) : s'.getOrder j = s.getOrder j := by
  unfold osPart at h
  simp only [Prod.mk.injEq] at h
  unfold State.getOrder; rw [h.1]

theorem C04_store_records_the_charged_amount (e : Env) (s s' : State) (m : StoreMsg) (order : Order) (payAddr : Option Addr)
    (isProvider : Bool) (lc c : Bytes) (h : storePlace e s m order payAddr isProvider lc c = .ok s') :
    ∃ (o : Order) (amount : Int), orderPrice order.size order.replica order.duration = .ok amount ∧
      s'.getOrder o.id = some o ∧ o.amount = amount := by
  unfold storePlace at h
  (try dsimp only at h)
  obtain ⟨v, hv, h⟩ := bind_ok h
  obtain ⟨s1, sps⟩ := v
  (try dsimp only at h)
  obtain ⟨amount, hamt, h⟩ := bind_ok h
  obtain ⟨payer, hpayer, h⟩ := bind_ok h
  split at h
  · exact (throw_bind_ne h).elim
  obtain ⟨s2, hs2, h⟩ := bind_ok h
  (try dsimp only at h)
  have hos := storeAttach_os _ _ _ _ _ _ h
  let o0 : Order := { ({ order with unitPrice := unitPriceDec } : Order) with amount := amount }
  have hrec := newOrder_records s2 o0 (sps.map (·.creator))
  refine ⟨(newOrder s2 o0 (sps.map (·.creator))).1, amount, hamt, ?_, hrec.2⟩
  rw [getOrder_of_os hos]
  split
  · exact hrec.1
  · exact hrec.1

end SaoVerif
