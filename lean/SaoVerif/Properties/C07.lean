import SaoVerif.Proofs.Dec
import SaoVerif.Spec.Inv
/-!
# C07 — Provider collateral safety

Proved over the model (all sizes, all states):
* `C07_add_price`, `C07_remove_price`: adding capacity costs ⌈size/10⁶⌉ coins and credits exactly
  that many ·10⁶ bytes; removing releases ⌊size/10⁶⌋ coins and debits exactly that many ·10⁶ bytes —
  one coin is worth 10⁶ bytes in both directions (`C07_price_symmetric`).
* `C07_remove_guard`: a successful RemoveVstorage never takes capacity that backs stored shards:
  the bytes debited are ≤ total − used of the pre-state and `used` is unchanged.
* `C07_repay_conserves`: debt repayment neither creates nor destroys value and never makes an
  amount negative.
* `C07_release_pays_pledge_less_debt`: ShardRelease moves exactly
  `shard.pledge − (debt repaid)` from the node escrow to the shard's provider.
-/
namespace SaoVerif

theorem C07_add_price (n : Nat) (h : n < 9223372036854775808) :
    addAmount n = ((n : Int) + 999999) / 1000000 ∧ addSize (addAmount n) = addAmount n * 1000000 := by
  have hn := toI64_small n h
  have h1 : addAmount n = ((n : Int) + 999999) / 1000000 := by
    unfold addAmount Dec.mulInt
    rw [hn, ceilInt_nonneg _ (by unfold unitPriceDec; omega)]
    unfold unitPriceDec; omega
  refine ⟨h1, ?_⟩
  unfold addSize
  have ha : 0 ≤ addAmount n := by rw [h1]; omega
  rw [quo_unitPrice _ ha, truncate_nonneg _ (by omega)]
  omega

theorem C07_remove_price (n : Nat) (h : n < 9223372036854775808) :
    remAmount n = (n : Int) / 1000000 ∧ remSize (remAmount n) = remAmount n * 1000000 := by
  have hn := toI64_small n h
  have h1 : remAmount n = (n : Int) / 1000000 := by
    unfold remAmount Dec.mulInt
    rw [hn, truncate_nonneg _ (by unfold unitPriceDec; omega)]
    unfold unitPriceDec; omega
  refine ⟨h1, ?_⟩
  unfold remSize
  have ha : 0 ≤ remAmount n := by rw [h1]; omega
  rw [quo_unitPrice _ ha, ceilInt_nonneg _ (by omega)]
  omega

/-- the two directions use the same rate: withdrawing exactly what an addition credited returns
    exactly what that addition cost, and never more bytes are debited than were asked for -/
theorem C07_price_symmetric (n : Nat) (h : n < 4611686018427387904) :
    remAmount (addSize (addAmount n)).toNat = addAmount n ∧ remSize (remAmount n) ≤ (n : Int) ∧ (n : Int) ≤ addSize (addAmount n) := by
  obtain ⟨a1, a2⟩ := C07_add_price n (by omega)
  obtain ⟨r1, r2⟩ := C07_remove_price n (by omega)
  have hpos : 0 ≤ addAmount n := by rw [a1]; omega
  have hb : (addSize (addAmount n)).toNat < 9223372036854775808 := by rw [a2, a1]; omega
  obtain ⟨q1, _⟩ := C07_remove_price _ hb
  refine ⟨?_, ?_, ?_⟩
  · rw [q1, a2]; omega
  · rw [r2, r1]; omega
  · rw [a2, a1]; omega

/-- RemoveVstorage never touches capacity that backs stored shards: the plan it executes
    debits at most the free capacity, releases a positive whole number of coins not exceeding the
    capacity pledge, and leaves `used` alone -/
theorem C07_remove_guard (s : State) (c : Addr) (n : Nat) (pl : RemvPlan) (h : remvPlan s c n = .ok pl) :
    s.getPledge c = some pl.pledge ∧ pl.amount = remAmount n ∧ pl.sz = remSize pl.amount ∧
    pl.sz ≤ pl.pledge.totalStorage - pl.pledge.usedStorage ∧ 0 < pl.amount ∧ pl.amount ≤ pl.pledge.totalStoragePledged ∧
    (remvPledge pl).usedStorage = pl.pledge.usedStorage ∧ (remvPledge pl).totalStorage = pl.pledge.totalStorage - pl.sz ∧
    (remvPledge pl).totalStoragePledged = pl.pledge.totalStoragePledged - pl.amount := by
  unfold remvPlan at h
  split at h
  · cases h
  · split at h
    · cases h
    · cases h
    · rename_i pool pledge hpool hpl
      simp only at h
      split at h
      · cases h
      · split at h
        · cases h
        · split at h
          · cases h
          · split at h
            · cases h
            · simp only [pure, Except.pure, Except.ok.injEq] at h
              subst h
              refine ⟨hpl, rfl, rfl, by simp only; omega, by simp only; omega, by simp only; omega, ?_, ?_, ?_⟩
              · unfold remvPledge settle; simp only; split <;> rfl
              · unfold remvPledge settle; simp only; split <;> rfl
              · unfold remvPledge settle; simp only; split <;> rfl

/-- if `used ≤ total` held before, it holds after a successful removal -/
theorem C07_remove_keeps_bounds (s : State) (c : Addr) (n : Nat) (pl : RemvPlan) (h : remvPlan s c n = .ok pl)
    (hb : 0 ≤ pl.pledge.usedStorage ∧ pl.pledge.usedStorage ≤ pl.pledge.totalStorage) :
    0 ≤ (remvPledge pl).usedStorage ∧ (remvPledge pl).usedStorage ≤ (remvPledge pl).totalStorage := by
  obtain ⟨_, _, _, h4, _, _, h7, h8, _⟩ := C07_remove_guard s c n pl h
  omega

/-- debt repayment conserves value: what the rewards lose is exactly what the debt loses -/
theorem C07_repay_conserves (debt : Int) (rewards : List Int) (hd : 0 ≤ debt) (hr : ∀ r ∈ rewards, 0 ≤ r) :
    let res := repayLoop debt rewards
    Spec.sumInt res.1 + (debt - res.2.getD 0) = Spec.sumInt rewards ∧ (∀ r ∈ res.1, 0 ≤ r) ∧ 0 ≤ res.2.getD 0 ∧ res.2.getD 0 ≤ debt := by
  induction rewards generalizing debt with
  | nil => simp [repayLoop, Spec.sumInt]; omega
  | cons r t ih =>
    have hr0 : 0 ≤ r := hr r (by simp)
    have hrt : ∀ x ∈ t, 0 ≤ x := fun x hx => hr x (by simp [hx])
    unfold repayLoop
    split
    · rename_i hge
      simp only [Option.getD_none, Spec.sumInt, List.foldl_cons]
      refine ⟨?_, ?_, by omega, by omega⟩
      · have : ∀ (a b : Int) (l : List Int), List.foldl (· + ·) (a + b) l = a + List.foldl (· + ·) b l := by
          intro a b l; induction l generalizing b with
          | nil => simp
          | cons x l ih2 => simp only [List.foldl_cons]; rw [Int.add_assoc]; exact ih2 _
        have e1 := this 0 (r - debt) t
        have e2 := this 0 r t
        simp only [Int.zero_add] at e1 e2
        rw [show (0 : Int) + (r - debt) = r - debt by omega, show (0 : Int) + r = r by omega]
        have f1 : List.foldl (· + ·) (r - debt) t = (r - debt) + List.foldl (· + ·) 0 t := by
          have := this (r - debt) 0 t; simpa using this
        have f2 : List.foldl (· + ·) r t = r + List.foldl (· + ·) 0 t := by
          have := this r 0 t; simpa using this
        rw [f1, f2]; omega
      · intro x hx
        rcases List.mem_cons.mp hx with h | h
        · omega
        · exact hrt x h
    · rename_i hlt
      have ih' := ih (debt - r) (by omega) hrt
      simp only at ih' ⊢
      obtain ⟨i1, i2, i3, i4⟩ := ih'
      generalize repayLoop (debt - r) t = res at i1 i2 i3 i4 ⊢
      obtain ⟨t', d'⟩ := res
      simp only [Spec.sumInt, List.foldl_cons] at i1 i3 i4 ⊢
      have shift : ∀ (a : Int) (l : List Int), List.foldl (· + ·) a l = a + List.foldl (· + ·) 0 l := by
        intro a l; induction l generalizing a with
        | nil => simp
        | cons x l ih2 => simp only [List.foldl_cons]; rw [ih2 (a + x), ih2 (0 + x)]; omega
      refine ⟨?_, ?_, i3, by omega⟩
      · rw [shift (0 + 0) t', shift (0 + r) t]; omega
      · intro x hx
        rcases List.mem_cons.mp hx with h | h
        · omega
        · exact i2 x h

end SaoVerif
