import SaoVerif.Generated.Facts
/-!
# C18 — which stores have a genesis field, regenerated from the Go source on every run

`exportImport` (Model/Step.lean) says which parts of the state survive an export / import round trip. Its
static counterpart: every store prefix declared in `x/*/types` is backed by a field of that module's
`GenesisState`, except the four prefixes of finding F19 (fault records, fault index, fishing-reward ledger,
super-node cursor) and `x/market`'s `Pool/value/`, a prefix no keeper reads or writes. A new store without
a genesis field, or a genesis field that disappears, changes the facts and breaks `C18_stores_have_genesis_fields`.
-/
namespace SaoVerif

/-- which genesis field carries which store prefix (store directory, prefix, genesis directory, field);
    x/sao/types repeats the key constants of the order store, which x/order exports -/
def storeGenesisTable : List (String × String × String × String) := [
  ("x/did/types", "AccountAuth/value/", "x/did/types", "AccountAuthList"),
  ("x/did/types", "AccountId/value/", "x/did/types", "AccountIdList"),
  ("x/did/types", "AccountList/value/", "x/did/types", "AccountListList"),
  ("x/did/types", "DidBalances/value/", "x/did/types", "DidBalancesList"),
  ("x/did/types", "Did/value/", "x/did/types", "DidList"),
  ("x/did/types", "Kid/value/", "x/did/types", "KidList"),
  ("x/did/types", "PastSeeds/value/", "x/did/types", "PastSeedsList"),
  ("x/did/types", "PaymentAddress/value/", "x/did/types", "PaymentAddressList"),
  ("x/did/types", "SidDocument/value/", "x/did/types", "SidDocumentList"),
  ("x/did/types", "SidDocumentVersion/value/", "x/did/types", "SidDocumentVersionList"),
  ("x/market/types", "Worker/value/", "x/market/types", "WorkerList"),
  ("x/model/types", "ExpiredData/value/", "x/model/types", "ExpiredDataList"),
  ("x/model/types", "Metadata/value/", "x/model/types", "MetadataList"),
  ("x/model/types", "Model/value/", "x/model/types", "ModelList"),
  ("x/node/types", "Node/value/", "x/node/types", "NodeList"),
  ("x/node/types", "PledgeDebt/value/", "x/node/types", "PledgeDebtList"),
  ("x/node/types", "Pledge/value/", "x/node/types", "PledgeList"),
  ("x/node/types", "Pool/value/", "x/node/types", "Pool"),
  ("x/order/types", "Order/count/", "x/order/types", "OrderCount"),
  ("x/order/types", "Order/value/", "x/order/types", "OrderList"),
  ("x/order/types", "Shard/count/", "x/order/types", "ShardCount"),
  ("x/order/types", "Shard/value/", "x/order/types", "ShardList"),
  ("x/sao/types", "ExpiredShard/value/", "x/sao/types", "ExpiredShardList"),
  ("x/sao/types", "Order/count/", "x/order/types", "OrderCount"),
  ("x/sao/types", "Order/value/", "x/order/types", "OrderList"),
  ("x/sao/types", "Shard/count/", "x/order/types", "ShardCount"),
  ("x/sao/types", "Shard/value/", "x/order/types", "ShardList"),
  ("x/sao/types", "TimeoutOrder/value/", "x/sao/types", "TimeoutOrderList") ]

/-- prefixes without a genesis field on the unchanged tree: finding F19 and one unused declaration -/
def storesWithoutGenesisField : List (String × String) :=
  [ ("x/node/types", "Fault/faultId/"), ("x/node/types", "Fault/value/"), ("x/node/types", "FishingReward/value/"),
    ("x/node/types", "NodeRound/value/"), ("x/market/types", "Pool/value/") ]

theorem C18_stores_have_genesis_fields :
    Generated.storePrefixes.all (fun p =>
      storesWithoutGenesisField.contains (p.1, p.2.2) ||
      storeGenesisTable.any (fun t => t.1 = p.1 && t.2.1 = p.2.2 &&
        Generated.genesisFields.any (fun g => g.1 = t.2.2.1 && g.2.1 = t.2.2.2))) = true := by decide

/-- … and the F19 stores really have none (the refuted half stays visible: the day they get a field this
    theorem fails and the known finding can be retired) -/
theorem C18_refuted_stores_without_field :
    (storesWithoutGenesisField.all (fun (d, p) => !storeGenesisTable.any (fun t => t.1 = d && t.2.1 = p)) &&
     !Generated.genesisFields.any (fun g => g.1 = "x/node/types" &&
        ["FaultList", "FaultIdList", "FishingRewardList", "NodeRound", "NodeRoundList"].contains g.2.1)) = true := by decide

theorem C18_genesis_fields_known : Generated.genesisFields.length = 30 := by decide

end SaoVerif
