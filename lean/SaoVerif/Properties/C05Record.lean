import SaoVerif.Properties.C16
/-!
# C05 — an abandoned update leaves the model record exactly as it was

`Store` on an existing model *stages* the update (`UpdateMetaStatusAndCommit`: status, commit id, order pointer, and the
lifetime if the new order outlives the model); if the order ends with nothing stored, `RollbackMeta` puts the record back.
`C05_stage_then_rollback_restores_record`: for every state and every order, staging followed by rollback yields the record
the model had before — every field (owner, alias, content id, version history, order list, permissions, …) — except
possibly the lifetime, which is recomputed from the shards that are still stored. A staging step that touches a field the
rollback does not restore (seeded/C05-4: the content id) contradicts this theorem, and shows in the state comparison.
-/
namespace SaoVerif

/-- what staging writes: the record of the model with a new status, commit id, order pointer and (possibly) lifetime -/
theorem stage_record (s s1 : State) (o : Order) (m0 : Metadata) (hm : s.getMeta o.dataId = some m0)
    (h1 : updateMetaStatusAndCommit s o = .ok (s1, none)) :
    ∃ ms, s1.getMeta o.dataId = some ms ∧
      ms = { m0 with status := (o.operation : Int), commit := o.commit, orderId := o.id, duration := ms.duration } := by
  unfold updateMetaStatusAndCommit at h1
  simp only [hm, bind, Except.bind, pure, Except.pure] at h1
  have hd := getMeta_dataId _ _ _ hm
  split at h1
  · simp only [Except.ok.injEq, Prod.mk.injEq] at h1; cases h1.2
  · split at h1
    · simp only [Except.ok.injEq, Prod.mk.injEq] at h1; cases h1.2
    · split at h1
      · cases h1
      · rename_i r hr
        obtain ⟨sx, mx⟩ := r
        simp only [Except.ok.injEq, Prod.mk.injEq] at h1
        have hmx : mx = { m0 with duration := mx.duration } := by
          split at hr
          · split at hr
            · cases hr
            · simp only [Except.ok.injEq, Prod.mk.injEq] at hr
              rw [← hr.2]
          · simp only [Except.ok.injEq, Prod.mk.injEq] at hr
            rw [← hr.2]
        refine ⟨{ mx with status := (o.operation : Int), commit := o.commit, orderId := o.id }, ?_, ?_⟩
        · rw [← h1.1]
          have : ({ mx with status := (o.operation : Int), commit := o.commit, orderId := o.id } : Metadata).dataId = o.dataId := by
            show mx.dataId = _; rw [hmx]; exact hd
          rw [← this]
          exact getMeta_setMeta _ _
        · rw [hmx]

/-- what `RollbackMeta` writes for a model with committed versions -/
theorem rollback_record (s s' : State) (d : Bytes) (m : Metadata) (hm : s.getMeta d = some m)
    (hc : m.commits ≠ []) (h : rollbackMeta s d = .ok s') :
    ∃ m' lo lc, s'.getMeta d = some m' ∧ m.orders.getLast? = some lo ∧ m.commits.getLast? = some lc ∧
      m' = { m with status := MetaComplete, commit := commitFromVersion lc, orderId := lo, duration := m'.duration } := by
  unfold rollbackMeta at h
  simp only [hm] at h
  have hl : ¬ m.commits.length = 0 := by
    intro h0; exact hc (List.length_eq_zero_iff.mp h0)
  rw [if_neg hl] at h
  cases hlo : m.orders.getLast? with
  | none => simp [hlo, throw, throwThe, MonadExceptOf.throw, bind, Except.bind] at h
  | some lo =>
    cases hcl : m.commits.getLast? with
    | none => exact absurd (List.getLast?_eq_none_iff.mp hcl) hc
    | some lc =>
      simp only [hlo, hcl, bind, Except.bind] at h
      split at h
      · cases h
      · rename_i r hr
        obtain ⟨s1, m1⟩ := r
        simp only [pure, Except.pure, Except.ok.injEq] at h
        subst h
        have hk := resetMetaDuration_keeps _ _ _ _ hr
        have hd := getMeta_dataId _ _ _ hm
        have hd1 : m1.dataId = d := by rw [hk]; exact hd
        refine ⟨m1, lo, lc, ?_, rfl, rfl, ?_⟩
        · rw [← hd1]; exact getMeta_setMeta _ _
        · rw [hk]; simp

/-- **C05**: an update that is staged and then rolled back leaves the model's record as it was, lifetime aside -/
theorem C05_stage_then_rollback_restores_record (s s1 s2 : State) (o : Order) (m0 : Metadata)
    (hm : s.getMeta o.dataId = some m0) (hc : m0.commits ≠ [])
    (hst : m0.status = MetaComplete)
    (hcm : some m0.commit = m0.commits.getLast?.map commitFromVersion)
    (hord : some m0.orderId = m0.orders.getLast?)
    (h1 : updateMetaStatusAndCommit s o = .ok (s1, none)) (h2 : rollbackMeta s1 o.dataId = .ok s2) :
    ∃ m2, s2.getMeta o.dataId = some m2 ∧ m2 = { m0 with duration := m2.duration } := by
  obtain ⟨ms, hms, hrec⟩ := stage_record s s1 o m0 hm h1
  have hcs : ms.commits ≠ [] := by rw [hrec]; exact hc
  obtain ⟨m2, lo, lc, hm2, hlo, hlc, hrec2⟩ := rollback_record s1 s2 o.dataId ms hms hcs h2
  refine ⟨m2, hm2, ?_⟩
  have e1 : ms.orders = m0.orders := by rw [hrec]
  have e2 : ms.commits = m0.commits := by rw [hrec]
  rw [e1] at hlo; rw [e2] at hlc
  rw [hlo] at hord; rw [hlc] at hcm
  simp only [Option.map_some, Option.some.injEq] at hcm hord
  rw [hrec2, hrec, ← hcm, ← hord, ← hst]

end SaoVerif
