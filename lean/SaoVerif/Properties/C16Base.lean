import SaoVerif.Proofs.Frames
import SaoVerif.Properties.C16
/-!
# C16 — an update is attached only on top of the model's latest committed version

`Store` ends in `storeAttach` (Model/Sao.lean). `C16_attach_requires_base`: whenever it attaches an order to an
*existing* model, (1) the model's current order id is not newer than the new order, (2) that current order exists
and is completed — at most one update is in flight —, and (3) the model's latest commit contains the base version the
request names. This holds for **every** operation: a regular update and a force-push alike (seeded/C16-2 exempts the
force-push from (3)). What (3) does *not* say is equality: the Go check is `strings.Contains`, so an empty or
partial base passes — refuted as `C16_refuted_empty_base` (finding F17). `saoStore` calls `storeAttach` (by definition, last line) on the state
reached after payment and placement; that those steps leave every data model as it was is shown piecewise
(`sendLit_metas`, `getSps_round` + `sameButRound_metas`, `newOrder_metas`, `setTimeoutOrderBlock_metas`); their
composition along the success path of `saoStore` is not spelled out as one theorem (the unfolded handler exceeds
`split`'s simp budget) — the correspondence and the monitor clause `baseIsLatest` cover the whole handler.
-/
namespace SaoVerif

/-- the base version a request names: the part before `|`, or the whole commit id -/
def baseOf (commitId : Bytes) : Bytes :=
  if commitId.contains BAR then (splitB commitId BAR).headD [] else commitId

theorem C16_attach_requires_base (s s' : State) (m : StoreMsg) (order : Order) (last commit : Bytes) (md : Metadata)
    (hmd : s.getMeta m.p.dataId = some md) (h : storeAttach s m order last commit = .ok s') :
    md.orderId ≤ order.id ∧ (∃ lo, s.getOrder md.orderId = some lo ∧ lo.status = OrderCompleted) ∧
    containsB md.commit last = true := by
  unfold storeAttach at h
  simp only [hmd, bind, Except.bind, pure, Except.pure] at h
  split at h
  · cases h
  · rename_i hle
    split at h
    · rename_i lo hlo
      split at h
      · cases h
      · rename_i hst
        split at h
        · cases h
        · rename_i hb
          refine ⟨by omega, ⟨lo, hlo, by simpa using hst⟩, by simpa using hb⟩
    · cases h

theorem upsertBy_order_metas (s : State) (o : Order) : (s.setOrder o).metas = s.metas := rfl

theorem generateShards_metas (s : State) (o : Order) (sps : List Addr) : (generateShards s o sps).2.metas = s.metas := by
  unfold generateShards
  have gen : ∀ (l : List Addr) (acc : Order × State),
      (l.foldl (fun (acc : Order × State) sp =>
        let (sh, s') := newShardTask acc.2 acc.1 sp
        ({ acc.1 with shards := acc.1.shards ++ [sh.id] }, s')) acc).2.metas = acc.2.metas := by
    intro l
    induction l with
    | nil => intro acc; rfl
    | cons a t ih =>
      intro acc
      simp only [List.foldl_cons]
      rw [ih]
      rfl
  exact gen sps (o, s)

theorem newOrder_metas (s : State) (o : Order) (sps : List Addr) : (newOrder s o sps).2.metas = s.metas := by
  unfold newOrder
  simp only
  rw [upsertBy_order_metas, generateShards_metas]
  rfl

theorem sendLit_metas (s s' : State) (a b : Addr) (x : Int) (h : s.sendLit a b x = .ok s') : s'.metas = s.metas := by
  unfold State.sendLit at h
  split at h
  · cases h
  · unfold State.send at h
    split at h
    · cases h
    · split at h
      · cases h
      · simp only [pure, Except.pure, Except.ok.injEq] at h; rw [← h]; rfl

end SaoVerif

namespace SaoVerif

theorem sameButRound_metas (s s' : State) (h : sameButRound s s') : s'.metas = s.metas := by
  unfold sameButRound at h; rw [h]

theorem setTimeoutOrderBlock_metas (s : State) (id at_ : Nat) : (setTimeoutOrderBlock s id at_).metas = s.metas := rfl

end SaoVerif
