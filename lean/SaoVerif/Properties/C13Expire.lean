import SaoVerif.Properties.C13Migrate
/-!
# C13 — the expiry of a shard leaves no order listing it

`HandleExpiredShard` releases a stored shard at the end of its paid period. When the shard carries no pending renewal its
record is removed, and the order it was earning under must stop listing it (or disappear, if that was its last shard).
`C13_expiry_leaves_no_dangling_reference`: if, before, the only order listing the shard is the one it names (no renewal
lists it — there is none), that order lists it once, and order ids are unique, then afterwards no order lists it.
-/
namespace SaoVerif

theorem eraseP_not_mem (l : List Nat) (a : Nat) (h : l.Nodup) : a ∉ l.eraseP (· = a) := by
  induction l with
  | nil => simp
  | cons x t ih =>
    simp only [List.nodup_cons] at h
    by_cases hx : x = a
    · simp only [List.eraseP_cons, hx, decide_true, cond_true]
      rw [← hx]; exact h.1
    · simp only [List.eraseP_cons, hx, decide_false, cond_false, List.mem_cons, not_or]
      exact ⟨fun h' => hx h'.symm, ih h.2⟩

theorem C13_expiry_leaves_no_dangling_reference (e : Env) (s s' : State) (shardId : Nat) (shard : Shard) (order : Order)
    (hs : OSorted s)
    (hsh : s.getShard shardId = some shard) (hord : s.getOrder shard.orderId = some order)
    (hnr : shard.renewInfos = []) (hnd : order.shards.Nodup)
    (hJ : ∀ o ∈ s.orders, shardId ∈ o.shards → o.id = shard.orderId)
    (h : handleExpiredShard e s shardId = .ok s') :
    ∀ o ∈ s'.orders, shardId ∉ o.shards := by
  unfold handleExpiredShard at h
  rw [hsh] at h
  simp only [hord] at h
  obtain ⟨v, hv, h⟩ := bind_ok h
  have hoid : order.id = shard.orderId := (getOrder_mem hord).2
  have hom : order ∈ s.orders := (getOrder_mem hord).1
  rw [hnr] at hv
  simp only at hv
  obtain ⟨x, hx, hv⟩ := bind_ok hv
  obtain ⟨s1, er⟩ := x
  simp only [pure, Except.pure, Except.ok.injEq] at hv
  have hvo : v.orders = s.orders := by
    rw [← hv]
    show s1.orders = s.orders
    have h1 := shardRelease_os _ _ _ _ _ _ hx
    have h2 := workerRelease_os s order shard
    exact congrArg (fun p => p.1) (h1.trans h2)
  have hvs : OSorted v := by unfold OSorted; rw [hvo]; exact hs
  split at h
  · rename_i hlen
    split at h
    · rename_i hhead
      simp only [pure, Except.pure, Except.ok.injEq] at h
      rw [← h]
      intro o ho hL
      unfold State.removeOrder at ho
      simp only [List.mem_filter, decide_eq_true_eq] at ho
      rw [hvo] at ho
      exact ho.2 ((hJ o ho.1 hL).trans hoid.symm)
    · rename_i hhead
      simp only [pure, Except.pure, Except.ok.injEq] at h
      rw [← h, hvo]
      intro o ho hL
      have hid := hJ o ho hL
      have ho' : o = order := by
        have h1 := sorted_find_unique _ _ hs ho
        have h2 : s.orders.find? (·.id = o.id) = some order := by
          rw [hid]; unfold State.getOrder at hord; exact hord
        rw [h1] at h2; exact Option.some.inj h2
      rw [ho'] at hL
      -- the order lists exactly one shard, and it is not this one
      match hsl : order.shards, hlen, hhead, hL with
      | [a], _, hhead, hL =>
        simp only [List.head?_cons, Option.some.injEq] at hhead
        simp only [List.mem_singleton] at hL
        exact hhead hL.symm
  · simp only [pure, Except.pure, Except.ok.injEq] at h
    rw [← h]
    have key := setOrder_listers v { order with shards := order.shards.eraseP (· = shardId) } shardId hvs (eraseP_not_mem _ _ hnd)
    intro o ho hL
    obtain ⟨k1, k2⟩ := key.2 o ho hL
    rw [hvo] at k1
    exact k2 ((hJ o k1 hL).trans hoid.symm)

end SaoVerif
