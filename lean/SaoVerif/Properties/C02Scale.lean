import SaoVerif.Properties.C14Totals
import SaoVerif.Properties.C02Begin
/-!
# C02 — the pool never records collateral without capacity

`ScaleInv s`: the pool's capacity is its capacity collateral × 10⁶ bytes (the hard-coded price of a byte is 10⁻⁶ coins, and
`AddVstorage` / `RemoveVstorage` convert coins to bytes exactly). It is preserved by every operation
(`C02_step_keeps_scale`, together with `TotalsInv`), so after every history the begin-blocker's divisor — the pool's capacity —
is non-zero whenever its guard — the pool's collateral — is (`C02_divisor_nonzero_over_histories`): the hypothesis
`PoolOk.storage` of `C02_begin_blocker_never_panics` is an invariant, not an assumption.
-/
namespace SaoVerif

theorem addSize_exact (a : Int) (ha : 0 ≤ a) : addSize a = a * 1000000 := by
  unfold addSize
  rw [quo_unitPrice _ ha, truncate_nonneg _ (by omega)]
  omega

theorem remSize_exact (a : Int) (ha : 0 ≤ a) : remSize a = a * 1000000 := by
  unfold remSize
  rw [quo_unitPrice _ ha, ceilInt_nonneg _ (by omega)]
  omega

def ScaleInv (s : State) : Prop := ∀ pool, s.pool = some pool → pool.totalStorage = pool.totalPledged * 1000000

theorem remvPlan_scale (s : State) (c : Addr) (size : Nat) (pl : RemvPlan) (h : remvPlan s c size = .ok pl) :
    pl.sz = remSize pl.amount ∧ 0 ≤ pl.amount := by
  unfold remvPlan at h
  split at h
  · cases h
  · split at h
    · cases h
    · cases h
    · simp only at h
      split at h
      · cases h
      · split at h
        · cases h
        · split at h
          · cases h
          · rename_i hneg
            split at h
            · cases h
            · simp only [pure, Except.pure, Except.ok.injEq] at h
              subst h
              refine ⟨rfl, ?_⟩
              show 0 ≤ remAmount size
              omega

theorem scale_of_q {s s' : State} (hq : qPart s' = qPart s) (hu : uniquePledges s) (hs : ScaleInv s) : ScaleInv s' := by
  unfold qPart at hq
  simp only [Prod.mk.injEq] at hq
  obtain ⟨hcr, hg⟩ := hq
  have hu' : (s'.pledges.map (·.creator)).Nodup := by rw [hcr]; exact hu
  unfold qGuard at hg
  unfold uniquePledges at hu
  simp only [hu, hu', if_true, Option.some.injEq] at hg
  unfold psPart at hg
  simp only [Prod.mk.injEq] at hg
  intro pool' hp'
  have h1 := hg.1
  rw [hp'] at h1
  cases hp : s.pool with
  | none => rw [hp] at h1; cases h1
  | some pool =>
    rw [hp] at h1
    simp only [Option.map_some, Option.some.injEq, Prod.mk.injEq] at h1
    rw [h1.1, h1.2]
    exact hs pool hp

theorem add_keeps_scale (e : Env) (s s' : State) (c : Addr) (size : Nat) (hs : ScaleInv s)
    (h : nodeAddVstorage e s c size = .ok s') : ScaleInv s' := by
  unfold nodeAddVstorage at h
  split at h
  · cases h
  · split at h
    · cases h
    · rename_i pool hpool
      simp only at h
      split at h
      · cases h
      · rename_i hneg
        split at h
        · cases h
        · split at h
          · cases h
          · simp only [pure, Except.pure, Except.ok.injEq] at h
            rw [← h]
            intro pool' hp'
            simp only [Option.some.injEq] at hp'
            rw [← hp']
            show pool.totalStorage + addSize (addAmount size) = (pool.totalPledged + addAmount size) * 1000000
            rw [addSize_exact _ (by omega), hs pool hpool]
            omega

theorem remv_keeps_scale (e : Env) (s s' : State) (c : Addr) (size : Nat) (hs : ScaleInv s)
    (h : nodeRemoveVstorage e s c size = .ok s') : ScaleInv s' := by
  obtain ⟨pl, s1, s2, hpl, _, _, rfl⟩ := remv_ok e s s' c size h
  have hp := (remvPlan_ok _ _ _ _ hpl).1
  obtain ⟨hsz, hnn⟩ := remvPlan_scale _ _ _ _ hpl
  intro pool' hp'
  simp only [Option.some.injEq] at hp'
  rw [← hp']
  show pl.pool.totalStorage - pl.sz = (pl.pool.totalPledged - pl.amount) * 1000000
  rw [hsz, remSize_exact _ hnn, hs pl.pool hp]
  omega

/-- **C02**: together with "pool totals = sums over the pledge records", "capacity = collateral × 10⁶" survives every operation -/
theorem C02_step_keeps_scale (e : Env) (y : Sys) (op : Op) (hi : TotalsInv y.st) (hs : ScaleInv y.st) :
    ScaleInv (step e y op).2.st := by
  by_cases hc : isCapacityMsg op = false
  · exact scale_of_q (step_q e y op hc) hi.1 hs
  · cases op
    case addv c n =>
      show ScaleInv (atomic y.st (nodeAddVstorage e y.st c n)).2
      unfold atomic
      split
      · rename_i s' h; exact add_keeps_scale e _ _ c n hs h
      · split <;> exact hs
    case remv c n =>
      show ScaleInv (atomic y.st (nodeRemoveVstorage e y.st c n)).2
      unfold atomic
      split
      · rename_i s' h; exact remv_keeps_scale e _ _ c n hs h
      · split <;> exact hs
    all_goals exact absurd rfl hc

theorem C02_scale_over_histories (e : Env) (y : Sys) (ops : List Op) (hi : TotalsInv y.st) (hs : ScaleInv y.st) :
    TotalsInv (runOps e y ops).st ∧ ScaleInv (runOps e y ops).st := by
  induction ops generalizing y with
  | nil => exact ⟨hi, hs⟩
  | cons op t ih => exact ih _ (C14_step_keeps_totals e y op hi) (C02_step_keeps_scale e y op hi hs)

/-- after every history the divisor of the block reward is non-zero whenever the begin-blocker's guard lets it through -/
theorem C02_divisor_nonzero_over_histories (e : Env) (y : Sys) (ops : List Op) (hi : TotalsInv y.st) (hs : ScaleInv y.st)
    (pool : Pool) (hp : (runOps e y ops).st.pool = some pool) (hpl : pool.totalPledged ≠ 0) : pool.totalStorage ≠ 0 := by
  have := (C02_scale_over_histories e y ops hi hs).2 pool hp
  rw [this]
  omega

end SaoVerif
