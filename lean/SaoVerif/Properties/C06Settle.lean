import SaoVerif.Properties.C04Store
/-!
# C06 — a settlement passes the refund through the order escrow: market escrow → order escrow → client

`C06_withdraw_moves_refund_to_order_escrow`: for every state and order, an accepted `market.Withdraw` moves exactly the refund
it reports from the market escrow to the order escrow; computing it (the loop over the order's shards, which only rewrites
worker records) moves no coin. `C06_termination_pays_refund_from_order_escrow`: `order.TerminateOrder` then pays exactly the
refund it is given from the order escrow to the owner's payment account. Together: a termination, a force-push settlement or an
expiry leaves the order escrow's balance where it was and lowers the market escrow by what the client receives — no
settlement draws on money the order escrow holds for *other*, still unstored orders.
-/
namespace SaoVerif

theorem workerRelease_bank (s : State) (o : Order) (sh : Shard) : bankOf (workerRelease s o sh).1 = bankOf s := by
  unfold workerRelease; split <;> rfl

theorem withdrawLoop_bank (o : Order) (l : List Nat) (s : State) (r : Dec) : bankOf (withdrawLoop o l s r).1 = bankOf s := by
  induction l generalizing s r with
  | nil => rfl
  | cons id t ih =>
    unfold withdrawLoop
    split
    · exact ih _ _
    · split
      · exact ih _ _
      · simp only
        split
        · split
          · rename_i sh _ _ _ _ s1 m hw
            have := workerRelease_bank s o sh
            rw [hw] at this
            exact this
          · rename_i sh _ _ _ _ s1 hw
            rw [ih]
            have := workerRelease_bank s o sh
            rw [hw] at this
            exact this
        · split
          · exact ih _ _
          · split <;> exact ih _ _

theorem bal_of_bank {s s' : State} (h : bankOf s' = bankOf s) (a : Addr) : s'.bal a = s.bal a := by
  unfold State.bal; have := congrArg Prod.fst h; simp only [bankOf] at this; rw [this]

theorem C06_withdraw_moves_refund_to_order_escrow (e : Env) (s s' : State) (o : Order) (refund : Int)
    (hne : e.modMarket ≠ e.modOrder) (h : marketWithdraw e s o = .ok (s', refund, none)) :
    0 ≤ refund ∧ s'.bal e.modMarket = s.bal e.modMarket - refund ∧ s'.bal e.modOrder = s.bal e.modOrder + refund ∧
    (∀ a, a ≠ e.modMarket → a ≠ e.modOrder → s'.bal a = s.bal a) ∧ s'.supply = s.supply := by
  unfold marketWithdraw at h
  simp only [bind, Except.bind, pure, Except.pure] at h
  split at h
  · simp at h
  · generalize hw : withdrawLoop o o.shards s _ = w at h
    obtain ⟨s1, rd, err⟩ := w
    have hb : bankOf s1 = bankOf s := by
      have := withdrawLoop_bank o o.shards s (Dec.ofInt o.amount - Dec.mulInt (Dec.mulInt (Dec.mulInt o.unitPrice (toI64 o.size)) o.replica) (toI64 o.duration))
      rw [hw] at this; exact this
    have hsup1 : s1.supply = s.supply := congrArg Prod.snd hb
    simp only at h
    split at h
    · simp at h
    · split at h
      · simp [throw, throwThe, MonadExceptOf.throw] at h
      · rename_i hnn
        have h0 : 0 ≤ Dec.truncate rd := by
          have : (0 : Int) ≤ rd := Int.not_lt.mp hnn
          unfold Dec.truncate
          exact Int.tdiv_nonneg this (by decide)
        split at h
        · split at h
          · simp at h
          · rename_i s2 hs2
            simp only [Except.ok.injEq, Prod.mk.injEq, and_true] at h
            obtain ⟨h1, h2⟩ := h
            subst h1; subst h2
            obtain ⟨a, b, c, _, _, f⟩ := C06_send_conserves s1 s2 e.modMarket e.modOrder _ hs2 hne
            refine ⟨h0, by rw [a, bal_of_bank hb], by rw [b, bal_of_bank hb], fun x h1 h2 => by rw [c x h1 h2, bal_of_bank hb], by rw [f, hsup1]⟩
        · rename_i hz
          simp only [Except.ok.injEq, Prod.mk.injEq, and_true] at h
          obtain ⟨h1, h2⟩ := h
          subst h1
          have hz' : Dec.truncate rd = 0 := by simpa using hz
          rw [← h2, hz']
          refine ⟨by omega, by rw [bal_of_bank hb]; omega, by rw [bal_of_bank hb]; omega, fun x _ _ => bal_of_bank hb x, hsup1⟩

theorem C06_termination_pays_refund_from_order_escrow (e : Env) (s s' : State) (id : Nat) (refund : Int) (o : Order) (acc : Addr)
    (ho : s.getOrder id = some o) (hp : s.paymentAddress o.owner = some acc) (hne : e.modOrder ≠ acc)
    (h : orderTerminate e s id refund = .ok (s', none)) :
    s'.bal acc = s.bal acc + refund ∧ s'.bal e.modOrder = s.bal e.modOrder - refund ∧
    (∀ a, a ≠ acc → a ≠ e.modOrder → s'.bal a = s.bal a) ∧ s'.supply = s.supply := by
  unfold orderTerminate at h
  simp only [ho, hp, bind, Except.bind, pure, Except.pure] at h
  have e1 : ∀ (y : State) (i : Nat) (a : Addr), (y.removeOrder i).bal a = y.bal a := fun _ _ _ => rfl
  have e2 : ∀ (y : State) (i : Nat), (y.removeOrder i).supply = y.supply := fun _ _ => rfl
  split at h
  · simp at h
  · split at h
    · split at h
      · simp at h
      · rename_i s1 hs1
        simp only [Except.ok.injEq, Prod.mk.injEq, and_true] at h
        rw [← h]
        obtain ⟨a, b, c, _, _, f⟩ := C06_send_conserves s s1 e.modOrder acc refund hs1 hne
        exact ⟨by rw [e1, b], by rw [e1, a], fun x h1 h2 => by rw [e1, c x h2 h1], by rw [e2, f]⟩
    · rename_i hz
      simp only [Except.ok.injEq, Prod.mk.injEq, and_true] at h
      have hz' : refund = 0 := by simpa using hz
      rw [← h, hz']
      exact ⟨by rw [e1]; omega, by rw [e1]; omega, fun x _ _ => e1 _ _ _, e2 _ _⟩

end SaoVerif
