import SaoVerif.Properties.C15
import SaoVerif.Proofs.Fixed
/-!
# C15 — the destination of a migration

`C15_migration_picks_fresh_eligible_provider`: when `Migrate` reaches an order whose shard held by the signer qualifies
(stored, not itself a migration source already), what happens next is exactly one of two things, for every state with one
node record per address, every seed and every remaining work list: no provider is found and the order is left as it is,
or a *single* provider is chosen that holds no shard of that order at that moment (whatever the shard's status — stored,
waiting, timed out, migrating), is online, serving storage and accepting orders with reputation above the floor and has
free pledged capacity for the shard; the new migrating shard names that provider and the signer as its source.
-/
namespace SaoVerif

/-- the providers that hold a shard of the order -/
def holders (st : State) (o : Order) : List Addr := (o.shards.filterMap st.getShard).map (·.sp)

theorem mem_holders (st : State) (o : Order) (id : Nat) (sh : Shard) (hid : id ∈ o.shards) (hs : st.getShard id = some sh) :
    sh.sp ∈ holders st o := by
  unfold holders
  exact List.mem_map.mpr ⟨sh, List.mem_filterMap.mpr ⟨id, hid, hs⟩, rfl⟩

/-- the shard a migration opens at its destination -/
def migShard (o : Order) (osh : Shard) (p : Addr) (n : Node) : Shard :=
  { id := 0, orderId := o.id, status := ShardMigrating, size := osh.size, cid := osh.cid, pledge := 0, «from» := p, sp := n.creator, duration := 0, createdAt := 0, renewInfos := [] }

theorem C15_migration_picks_fresh_eligible_provider (s st s' : State) (p : Addr) (oid : Nat) (t : List Nat) (commits : List Bytes)
    (o : Order) (osh : Shard)
    (hwf : (st.nodes.map (·.creator)).Nodup)
    (ho : st.getOrder oid = some o) (hc : commits.contains o.commit = false)
    (hsh : getOrderShardBySP st o p = some osh) (hst : osh.status = ShardCompleted)
    (hfrom : (o.shards.filterMap st.getShard).any (fun sh => sh.«from» = p) = false)
    (h : migrateOrderLoop s p (oid :: t) commits st = .ok s') :
    ∃ st1 sps, randomSP st 1 (holders st o) (toI64 osh.size) = .ok (st1, sps) ∧
      match sps with
      | [] => migrateOrderLoop s p t (commits ++ [o.commit]) st1 = .ok s'
      | n :: _ =>
        n.creator ∉ holders st o ∧ Eligible st n (toI64 osh.size) ∧
        (∀ id ∈ o.shards, ∀ sh, st.getShard id = some sh → sh.sp ≠ n.creator) ∧
        migrateOrderLoop s p t (commits ++ [o.commit])
          ((st1.appendShard (migShard o osh p n)).2.setOrder
            { o with shards := o.shards ++ [(st1.appendShard (migShard o osh p n)).1] }) = .ok s' := by
  unfold migrateOrderLoop at h
  simp only [ho, hc, hsh, hst, hfrom] at h
  simp only [ne_eq, not_true_eq_false, if_false, Bool.false_eq_true] at h
  obtain ⟨v, hv, h⟩ := bind_ok h
  obtain ⟨st1, sps⟩ := v
  refine ⟨st1, sps, hv, ?_⟩
  have hfull := C15_full st st1 1 (holders st o) (toI64 osh.size) sps hwf hv
  cases sps with
  | nil => exact h
  | cons n rest =>
    have hn := hfull.2.1 n (List.mem_cons_self)
    refine ⟨hn.1, hn.2, ?_, h⟩
    intro id hid sh hs heq
    exact hn.1 (heq ▸ mem_holders st o id sh hid hs)

end SaoVerif
