import SaoVerif.Properties.C17Unique
import SaoVerif.Proofs.MapLemmas
/-!
# C17 — key DIDs and their payment addresses, over every history

"A key DID's payment address is set only by that address itself and never changes afterwards, and an address is linked to
at most one key DID."

`KeyPay d`: the payment-address table restricted to key DIDs and the address → key-DID index are inverse to each other
(so an address is linked to one key DID and a key DID to one address). Every operation preserves it
(`C17_step_keeps_keypay`), hence every history (`C17_keypay_over_histories`); and once a key DID has a payment address no
operation changes or removes it (`C17_key_payaddr_never_changes`, over histories `C17_key_payaddr_fixed_over_histories`);
the step that sets it is signed by that address (`C17_key_payaddr_set_by_itself`).

Input assumption (checked on every operation of every correspondence run by the driver, monitor `inputWf`): a binding
whose proof DID equals "did:sid:" + root document id names a sid DID (`bindingWf`).
-/
namespace SaoVerif

def KeyPay (d : DidState) : Prop :=
  (∀ did a, Map.find? d.paymentAddress did = some a → did.isKey = true → Map.find? d.kid a = some did) ∧
  (∀ a did, Map.find? d.kid a = some did → Map.find? d.paymentAddress did = some a ∧ did.isKey = true)

theorem sid_not_key (d : Did) (h : d.isSid = true) : d.isKey = false := by
  unfold Did.isSid at h; unfold Did.isKey
  cases h2 : (d % 3 == 2)
  · simp [h2] at h
  · cases hk : (d % 3 == 1)
    · rfl
    · have a1 : d % 3 = 2 := by simpa using h2
      have a2 : d % 3 = 1 := by simpa using hk
      rw [a1] at a2; cases a2

/-- what an accepted UpdatePaymentAddress of a key DID has checked -/
theorem payAddr_key_facts (d : DidState) (m : PayAddrMsg) (h : payAddrPre d m = none) (hs : m.did.isSid = false) :
    m.did.isKey = true ∧ Map.find? d.paymentAddress m.did = none ∧ Map.find? d.kid m.acc.addr = none ∧ m.acc.addr = m.creator := by
  unfold payAddrPre at h
  split at h; · cases h
  split at h; · cases h
  split at h; · cases h
  rename_i hpa
  split at h; · cases h
  split at h; · cases h
  split at h; · cases h
  rw [hs] at h
  simp only [Bool.false_eq_true, ↓reduceIte] at h
  split at h
  · rename_i hk
    split at h; · cases h
    rename_i hc
    split at h; · cases h
    rename_i hkid
    refine ⟨hk, ?_, ?_, ?_⟩
    · cases hf : Map.find? d.paymentAddress m.did with
      | none => rfl
      | some x => exfalso; apply hpa; simp [hf, hk]
    · cases hf : Map.find? d.kid m.acc.addr with
      | none => rfl
      | some x => simp [hf] at hkid
    · simpa using hc
  · cases h

theorem payaddr_keeps_keypay (d : DidState) (m : PayAddrMsg) (h : payAddrPre d m = none) (hk : KeyPay d) :
    KeyPay (payAddrApply d m) := by
  unfold payAddrApply
  cases hs : m.did.isSid
  · -- a key DID: both tables get the new pair; neither key was present
    simp only [Bool.false_eq_true, ↓reduceIte]
    obtain ⟨hkey, hpa, hkid, _⟩ := payAddr_key_facts d m h hs
    constructor
    · intro did a hf hdk
      have hf : Map.find? (Map.set d.paymentAddress m.did m.acc.addr) did = some a := hf
      show Map.find? (Map.set d.kid m.acc.addr m.did) a = some did
      by_cases hd : did = m.did
      · subst hd
        rw [Map.find?_set_self'] at hf
        cases hf
        exact Map.find?_set_self' _ _ _
      · rw [Map.find?_set_other' _ _ _ _ hd] at hf
        have hold := hk.1 did a hf hdk
        have hne : a ≠ m.acc.addr := by
          intro ha; rw [ha, hkid] at hold; cases hold
        rw [Map.find?_set_other' _ _ _ _ hne]; exact hold
    · intro a did hf
      have hf : Map.find? (Map.set d.kid m.acc.addr m.did) a = some did := hf
      show Map.find? (Map.set d.paymentAddress m.did m.acc.addr) did = some a ∧ did.isKey = true
      by_cases ha : a = m.acc.addr
      · subst ha
        rw [Map.find?_set_self'] at hf
        cases hf
        exact ⟨Map.find?_set_self' _ _ _, hkey⟩
      · rw [Map.find?_set_other' _ _ _ _ ha] at hf
        have hold := hk.2 a did hf
        have hne : did ≠ m.did := by
          intro hd; rw [hd, hpa] at hold; cases hold.1
        rw [Map.find?_set_other' _ _ _ _ hne]; exact hold
  · -- a sid DID: only its own entry of the payment table changes; no key DID is concerned
    simp only [↓reduceIte]
    have hnk := sid_not_key _ hs
    constructor
    · intro did a hf hdk
      have hf : Map.find? (Map.set d.paymentAddress m.did m.acc.addr) did = some a := hf
      show Map.find? d.kid a = some did
      have hd : did ≠ m.did := by intro hd; rw [hd, hnk] at hdk; cases hdk
      rw [Map.find?_set_other' _ _ _ _ hd] at hf
      exact hk.1 did a hf hdk
    · intro a did hf
      have hf : Map.find? d.kid a = some did := hf
      show Map.find? (Map.set d.paymentAddress m.did m.acc.addr) did = some a ∧ did.isKey = true
      have hold := hk.2 a did hf
      have hd : did ≠ m.did := by intro hd; rw [hd, hnk] at hold; cases hold.2
      rw [Map.find?_set_other' _ _ _ _ hd]; exact hold

/-- the payment table after a binding: unchanged, or one new entry for the (sid) DID being created -/
theorem binding_payaddr_eq (d : DidState) (m : BindingMsg) :
    (bindingApply d m).paymentAddress =
      if (Map.find? d.sidDocumentVersion m.rootDocId).isNone ∧ m.acc.cosmos ∧ m.acc.chainOk ∧ (Map.find? d.paymentAddress m.did).isNone
      then Map.set d.paymentAddress m.did m.acc.addr else d.paymentAddress := by
  unfold bindingApply
  simp only
  repeat' split
  all_goals simp_all

theorem binding_payaddr (d : DidState) (m : BindingMsg) :
    (bindingApply d m).paymentAddress = d.paymentAddress ∨
    (Map.find? d.paymentAddress m.did = none ∧ m.acc.cosmos = true ∧ m.acc.chainOk = true ∧
      (bindingApply d m).paymentAddress = Map.set d.paymentAddress m.did m.acc.addr) := by
  rw [binding_payaddr_eq]
  split
  · rename_i hc
    right
    refine ⟨?_, hc.2.1, hc.2.2.1, rfl⟩
    cases hf : Map.find? d.paymentAddress m.did with
    | none => rfl
    | some x => have := hc.2.2.2; simp [hf] at this
  · left; rfl

theorem binding_kid (d : DidState) (m : BindingMsg) : (bindingApply d m).kid = d.kid := by
  unfold bindingApply
  simp only
  repeat' split
  all_goals simp_all

theorem bindingPre_matches (d : DidState) (m : BindingMsg) (h : bindingPre d m = none) : m.didMatchesRoot = true := by
  unfold bindingPre at h
  split at h
  · cases h
  · rename_i hm; simpa using hm

theorem binding_keeps_keypay (d : DidState) (m : BindingMsg) (h : bindingPre d m = none) (hw : bindingWf m = true)
    (hk : KeyPay d) : KeyPay (bindingApply d m) := by
  have hsid : m.did.isSid = true := by
    have := bindingPre_matches d m h
    unfold bindingWf at hw; rw [this] at hw; simpa using hw
  have hnk := sid_not_key _ hsid
  unfold KeyPay
  rw [binding_kid]
  rcases binding_payaddr d m with hp | ⟨hn, _, _, hp⟩
  · rw [hp]; exact hk
  · rw [hp]
    constructor
    · intro did a hf hdk
      have hd : did ≠ m.did := by intro hd; rw [hd, hnk] at hdk; cases hdk
      rw [Map.find?_set_other' _ _ _ _ hd] at hf
      exact hk.1 did a hf hdk
    · intro a did hf
      have hold := hk.2 a did hf
      have hd : did ≠ m.did := by intro hd; rw [hd, hnk] at hold; cases hold.2
      rw [Map.find?_set_other' _ _ _ _ hd]; exact hold

theorem update_payaddr_kid (d : DidState) (m : DidUpdateMsg) (l r : List Bytes) :
    (updateApply d m l r).paymentAddress = d.paymentAddress ∧ (updateApply d m l r).kid = d.kid := by
  unfold updateApply; exact ⟨rfl, rfl⟩

/-- what an accepted Update has checked, and its effect -/
theorem didUpdate_facts (s s' : State) (m : DidUpdateMsg) (h : didUpdate s m = .ok s') :
    ∃ accList payAddr removeAccId, Map.find? s.did.accountList m.did = some accList ∧
      Map.find? s.did.paymentAddress m.did = some payAddr ∧ updatePre1 s.did m accList = none ∧
      updateChk m s.did payAddr m.remove [] = .ok removeAccId ∧ updatePre2 s.did m = none ∧
      s' = { s with did := updateApply s.did m accList removeAccId } := by
  unfold didUpdate at h
  split at h
  · rename_i accList payAddr h1 h2
    split at h
    · cases h
    · rename_i hp1
      split at h
      · cases h
      · rename_i removeAccId hchk
        split at h
        · cases h
        · rename_i hp2
          simp only [pure, Except.pure, Except.ok.injEq] at h
          exact ⟨accList, payAddr, removeAccId, h1, h2, hp1, hchk, hp2, h.symm⟩
  · cases h
  · cases h

/-- an invariant of the DID registry that the three DID handlers preserve is preserved by every operation -/
theorem did_step_inv (P : DidState → Prop)
    (hpay : ∀ d m, payAddrPre d m = none → P d → P (payAddrApply d m))
    (hbind : ∀ d m, bindingPre d m = none → bindingWf m = true → P d → P (bindingApply d m))
    (hupd : ∀ s s' m, didUpdate s m = .ok s' → P s.did → P s'.did)
    (e : Env) (y : Sys) (op : Op) (hw : opWf op = true) (hp : P y.st.did) : P (step e y op).2.st.did := by
  by_cases h1 : ∃ m, op = .payaddr m
  · obtain ⟨m, rfl⟩ := h1
    show P (atomic y.st (didUpdatePaymentAddress y.st m)).2.did
    unfold atomic
    split
    · rename_i s' hs
      obtain ⟨hpre, rfl⟩ := didPayAddr_ok _ _ _ hs
      exact hpay _ _ hpre hp
    · split <;> exact hp
  by_cases h2 : ∃ m, op = .binding m
  · obtain ⟨m, rfl⟩ := h2
    show P (atomic y.st (didBinding y.st m)).2.did
    unfold atomic
    split
    · rename_i s' hs
      obtain ⟨hpre, rfl⟩ := didBinding_ok _ _ _ hs
      exact hbind _ _ hpre hw hp
    · split <;> exact hp
  by_cases h3 : ∃ m, op = .didupdate m
  · obtain ⟨m, rfl⟩ := h3
    show P (atomic y.st (didUpdate y.st m)).2.did
    unfold atomic
    split
    · rename_i s' hs; exact hupd _ _ _ hs hp
    · split <;> exact hp
  · have := C17_registry_changes_only_by_did_messages e y op (fun m hm => h1 ⟨m, hm⟩) (fun m hm => h2 ⟨m, hm⟩) (fun m hm => h3 ⟨m, hm⟩)
    rw [this]; exact hp

theorem did_history_inv (P : DidState → Prop)
    (hstep : ∀ e y op, opWf op = true → P y.st.did → P (step e y op).2.st.did)
    (e : Env) (y : Sys) (ops : List Op) (hw : ops.all opWf = true) (hp : P y.st.did) : P (runOps e y ops).st.did := by
  induction ops generalizing y with
  | nil => exact hp
  | cons op t ih =>
    simp only [List.all_cons, Bool.and_eq_true] at hw
    exact ih _ hw.2 (hstep e y op hw.1 hp)

theorem update_keeps_keypay (s s' : State) (m : DidUpdateMsg) (h : didUpdate s m = .ok s') (hk : KeyPay s.did) : KeyPay s'.did := by
  obtain ⟨l, _, r, _, _, _, _, _, rfl⟩ := didUpdate_facts s s' m h
  unfold KeyPay
  show (∀ did a, Map.find? (updateApply s.did m l r).paymentAddress did = some a → _ → Map.find? (updateApply s.did m l r).kid a = some did) ∧
    (∀ a did, Map.find? (updateApply s.did m l r).kid a = some did → Map.find? (updateApply s.did m l r).paymentAddress did = some a ∧ _)
  rw [(update_payaddr_kid s.did m l r).1, (update_payaddr_kid s.did m l r).2]
  exact hk

/-- **C17, for every operation**: key DIDs and linked addresses stay in one-to-one correspondence -/
theorem C17_step_keeps_keypay (e : Env) (y : Sys) (op : Op) (hw : opWf op = true) (hk : KeyPay y.st.did) :
    KeyPay (step e y op).2.st.did :=
  did_step_inv KeyPay payaddr_keeps_keypay binding_keeps_keypay update_keeps_keypay e y op hw hk

/-- **C17 over histories** -/
theorem C17_keypay_over_histories (e : Env) (y : Sys) (ops : List Op) (hw : ops.all opWf = true) (hk : KeyPay y.st.did) :
    KeyPay (runOps e y ops).st.did :=
  did_history_inv KeyPay C17_step_keeps_keypay e y ops hw hk

/-- an address is linked to at most one key DID, and a key DID to at most one address — after every history -/
theorem C17_address_links_one_key_did (e : Env) (y : Sys) (ops : List Op) (hw : ops.all opWf = true) (hk : KeyPay y.st.did)
    (d1 d2 : Did) (a : Addr) (h1 : d1.isKey = true) (h2 : d2.isKey = true)
    (p1 : Map.find? (runOps e y ops).st.did.paymentAddress d1 = some a)
    (p2 : Map.find? (runOps e y ops).st.did.paymentAddress d2 = some a) : d1 = d2 := by
  have k := C17_keypay_over_histories e y ops hw hk
  have a1 := k.1 d1 a p1 h1
  have a2 := k.1 d2 a p2 h2
  rw [a1] at a2; cases a2; rfl

/-! ### "never changes afterwards" -/
def KeyFixed (did : Did) (a : Addr) (d : DidState) : Prop := Map.find? d.paymentAddress did = some a

theorem C17_key_payaddr_never_changes (e : Env) (y : Sys) (op : Op) (hw : opWf op = true) (did : Did) (a : Addr)
    (hkey : did.isKey = true) (h : Map.find? y.st.did.paymentAddress did = some a) :
    Map.find? (step e y op).2.st.did.paymentAddress did = some a := by
  refine did_step_inv (KeyFixed did a) ?_ ?_ ?_ e y op hw h
  · intro d m hpre hf
    unfold KeyFixed at hf ⊢
    unfold payAddrApply
    have hne : did ≠ m.did := by
      intro hd; subst hd
      cases hs : Did.isSid m.did
      · have := (payAddr_key_facts d m hpre hs).2.1; rw [this] at hf; cases hf
      · rw [sid_not_key _ hs] at hkey; cases hkey
    split
    · show Map.find? (Map.set d.paymentAddress m.did m.acc.addr) did = some a
      rw [Map.find?_set_other' _ _ _ _ hne]; exact hf
    · show Map.find? (Map.set d.paymentAddress m.did m.acc.addr) did = some a
      rw [Map.find?_set_other' _ _ _ _ hne]; exact hf
  · intro d m _ _ hf
    unfold KeyFixed at hf ⊢
    rcases binding_payaddr d m with hp | ⟨hn, _, _, hp⟩
    · rw [hp]; exact hf
    · rw [hp]
      have hne : did ≠ m.did := by intro hd; rw [hd, hn] at hf; cases hf
      rw [Map.find?_set_other' _ _ _ _ hne]; exact hf
  · intro s s' m hu hf
    obtain ⟨l, _, r, _, _, _, _, _, rfl⟩ := didUpdate_facts s s' m hu
    unfold KeyFixed at hf ⊢
    show Map.find? (updateApply s.did m l r).paymentAddress did = some a
    rw [(update_payaddr_kid s.did m l r).1]; exact hf

/-- **C17 over histories**: once set, a key DID's payment address is the same after every further history -/
theorem C17_key_payaddr_fixed_over_histories (e : Env) (y : Sys) (ops : List Op) (hw : ops.all opWf = true) (did : Did) (a : Addr)
    (hkey : did.isKey = true) (h : Map.find? y.st.did.paymentAddress did = some a) :
    Map.find? (runOps e y ops).st.did.paymentAddress did = some a :=
  did_history_inv (KeyFixed did a) (fun e y op hw hp => C17_key_payaddr_never_changes e y op hw did a hkey hp) e y ops hw h

/-- the operation that gives a key DID its payment address is signed by that address -/
theorem C17_key_payaddr_set_by_itself (e : Env) (y : Sys) (op : Op) (hw : opWf op = true) (did : Did) (a : Addr)
    (hkey : did.isKey = true) (h0 : Map.find? y.st.did.paymentAddress did = none)
    (h1 : Map.find? (step e y op).2.st.did.paymentAddress did = some a) :
    ∃ m, op = .payaddr m ∧ m.creator = a ∧ m.did = did := by
  by_cases hp : ∃ m, op = .payaddr m
  · obtain ⟨m, rfl⟩ := hp
    refine ⟨m, rfl, ?_⟩
    have h1 : Map.find? (atomic y.st (didUpdatePaymentAddress y.st m)).2.did.paymentAddress did = some a := h1
    unfold atomic at h1
    split at h1
    · rename_i s' hs
      obtain ⟨hpre, rfl⟩ := didPayAddr_ok _ _ _ hs
      have h1 : Map.find? (payAddrApply y.st.did m).paymentAddress did = some a := h1
      have hd : did = m.did := by
        apply Classical.byContradiction
        intro hne
        unfold payAddrApply at h1
        split at h1
        · have h1 : Map.find? (Map.set y.st.did.paymentAddress m.did m.acc.addr) did = some a := h1
          rw [Map.find?_set_other' _ _ _ _ hne, h0] at h1; cases h1
        · have h1 : Map.find? (Map.set y.st.did.paymentAddress m.did m.acc.addr) did = some a := h1
          rw [Map.find?_set_other' _ _ _ _ hne, h0] at h1; cases h1
      subst hd
      cases hs2 : Did.isSid m.did
      · obtain ⟨_, _, _, hc⟩ := payAddr_key_facts _ m hpre hs2
        unfold payAddrApply at h1
        rw [hs2] at h1
        have h1 : Map.find? (Map.set y.st.did.paymentAddress m.did m.acc.addr) m.did = some a := h1
        rw [Map.find?_set_self'] at h1
        cases h1
        exact ⟨hc.symm, rfl⟩
      · rw [sid_not_key _ hs2] at hkey; cases hkey
    · split at h1 <;> (rw [h0] at h1; cases h1)
  · exfalso
    by_cases hb : ∃ m, op = .binding m
    · obtain ⟨m, rfl⟩ := hb
      have h1 : Map.find? (atomic y.st (didBinding y.st m)).2.did.paymentAddress did = some a := h1
      unfold atomic at h1
      split at h1
      · rename_i s' hs
        obtain ⟨hpre, rfl⟩ := didBinding_ok _ _ _ hs
        have h1 : Map.find? (bindingApply y.st.did m).paymentAddress did = some a := h1
        have hsid : m.did.isSid = true := by
          have := bindingPre_matches _ m hpre
          have hw : bindingWf m = true := hw
          unfold bindingWf at hw; rw [this] at hw; simpa using hw
        rcases binding_payaddr y.st.did m with hp' | ⟨_, _, _, hp'⟩
        · rw [hp', h0] at h1; cases h1
        · rw [hp'] at h1
          have hne : did ≠ m.did := by intro hd; rw [hd, sid_not_key _ hsid] at hkey; cases hkey
          rw [Map.find?_set_other' _ _ _ _ hne, h0] at h1; cases h1
      · split at h1 <;> (rw [h0] at h1; cases h1)
    · by_cases hu : ∃ m, op = .didupdate m
      · obtain ⟨m, rfl⟩ := hu
        have h1 : Map.find? (atomic y.st (didUpdate y.st m)).2.did.paymentAddress did = some a := h1
        unfold atomic at h1
        split at h1
        · rename_i s' hs
          obtain ⟨l, _, r, _, _, _, _, _, rfl⟩ := didUpdate_facts _ _ m hs
          have h1 : Map.find? (updateApply y.st.did m l r).paymentAddress did = some a := h1
          rw [(update_payaddr_kid y.st.did m l r).1, h0] at h1; cases h1
        · split at h1 <;> (rw [h0] at h1; cases h1)
      · have := C17_registry_changes_only_by_did_messages e y op (fun m hm => hp ⟨m, hm⟩) (fun m hm => hb ⟨m, hm⟩) (fun m hm => hu ⟨m, hm⟩)
        rw [this, h0] at h1; cases h1

/-- the hypotheses are met by a state that has a key DID with its address -/
example : KeyPay { (default : DidState) with paymentAddress := [(4, 7)], kid := [(7, 4)] } := by
  constructor
  · intro did a h _
    simp only [Map.find?] at h ⊢
    split at h
    · rename_i hd; cases h; subst hd; simp
    · cases h
  · intro a did h
    simp only [Map.find?] at h ⊢
    split at h
    · rename_i ha; cases h; subst ha; simp [Did.isKey]
    · cases h

end SaoVerif
