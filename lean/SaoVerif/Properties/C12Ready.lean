import SaoVerif.Model.Step
/-!
# C12 — handing an order to providers schedules its first re-examination in the future

"An order that has been handed to providers but is not fully stored within its timeout is re-examined every
timeout interval." For orders that start out pending (submitted by the owner itself) the hand-over is
`MsgReady`. `C12_ready_schedules_from_now`: whenever `Ready` is accepted, the timeout schedule of the resulting
state lists the order at `current height + order.timeout` — counted from the moment of the hand-over, not from
the creation of the order, which may lie more than one timeout in the past (seeded/C12-2 schedules it at
`createdAt + timeout`: an entry at a height that has already passed is never examined). The monitor clause
`timeoutPending` evaluates "an unfinished order has an entry beyond the current height" after every accepted
`Ready` / `Store` and after every block.
-/
namespace SaoVerif

theorem find_setN {ν : Type} (m : Map Nat ν) (k : Nat) (v : ν) : Map.find? (Map.setN m k v) k = some v := by
  induction m with
  | nil => simp [Map.setN, Map.find?]
  | cons x t ih =>
    obtain ⟨k', v'⟩ := x
    unfold Map.setN
    split
    · simp [Map.find?]
    · split
      · simp [Map.find?]
      · rename_i h1 h2
        simp [Map.find?, h1, ih]

theorem setTimeoutOrderBlock_lists (s : State) (id at_ : Nat) :
    ((Map.find? (setTimeoutOrderBlock s id at_).timeoutQ at_).getD []).contains id = true ∧
    (setTimeoutOrderBlock s id at_).h = s.h := by
  unfold setTimeoutOrderBlock
  simp [find_setN]

theorem generateShards_fold_fields (sps : List Addr) (acc : Order × State) :
    (sps.foldl (fun (acc : Order × State) sp =>
      let (sh, s') := newShardTask acc.2 acc.1 sp
      ({ acc.1 with shards := acc.1.shards ++ [sh.id] }, s')) acc).1.id = acc.1.id ∧
    (sps.foldl (fun (acc : Order × State) sp =>
      let (sh, s') := newShardTask acc.2 acc.1 sp
      ({ acc.1 with shards := acc.1.shards ++ [sh.id] }, s')) acc).1.timeout = acc.1.timeout := by
  induction sps generalizing acc with
  | nil => exact ⟨rfl, rfl⟩
  | cons a t ih =>
    simp only [List.foldl_cons]
    have := ih (({ acc.1 with shards := acc.1.shards ++ [(newShardTask acc.2 acc.1 a).1.id] }, (newShardTask acc.2 acc.1 a).2))
    simpa using this

theorem generateShards_fields (s : State) (o : Order) (sps : List Addr) :
    (generateShards s o sps).1.id = o.id ∧ (generateShards s o sps).1.timeout = o.timeout := by
  unfold generateShards
  have := generateShards_fold_fields sps (o, s)
  simp only at this ⊢
  split <;> simp_all

theorem getOrder_id (s : State) (id : Nat) (o : Order) (h : s.getOrder id = some o) : o.id = id := by
  unfold State.getOrder at h
  have := List.find?_some h
  simpa using this

theorem C12_ready_schedules_from_now (s s' : State) (c p : Addr) (oid : Nat) (h : saoReady s c p oid = .ok s') :
    ∃ o, s.getOrder oid = some o ∧ o.status = OrderPending ∧ readyAllowed s c p o = true ∧
      ((Map.find? s'.timeoutQ (addU64 (toU64 s'.h) o.timeout)).getD []).contains oid = true := by
  unfold saoReady at h
  split at h
  · cases h
  · rename_i o ho
    split at h
    · cases h
    · rename_i hal
      unfold saoReadyBody at h
      simp only [bind, Except.bind, pure, Except.pure] at h
      split at h
      · cases h
      · rename_i hst
        split at h
        · cases h
        · rename_i x hx
          obtain ⟨s1, sps⟩ := x
          simp only [Except.ok.injEq] at h
          have hf := generateShards_fields s1 o (sps.map (·.creator))
          have hid := getOrder_id s oid o ho
          refine ⟨o, ho, by simpa using hst, by simpa using hal, ?_⟩
          rw [← h]
          have hl := setTimeoutOrderBlock_lists (((generateShards s1 o (sps.map (·.creator))).2).setOrder (generateShards s1 o (sps.map (·.creator))).1)
            (generateShards s1 o (sps.map (·.creator))).1.id
            (addU64 (toU64 ((generateShards s1 o (sps.map (·.creator))).2.setOrder (generateShards s1 o (sps.map (·.creator))).1).h) (generateShards s1 o (sps.map (·.creator))).1.timeout)
          rw [hl.2]
          rw [hf.1, hf.2, hid]
          rw [hf.1, hf.2, hid] at hl
          exact hl.1

end SaoVerif
