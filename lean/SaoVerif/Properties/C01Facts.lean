import SaoVerif.Generated.Facts
import SaoVerif.Properties.C03Facts
/-!
# C01 — sources of nondeterminism, regenerated from the Go source on every run

The model's `step` takes `(Env, Sys, Op)` and nothing else. That the Go handlers have no further input is
checked here against `Generated/Facts.lean` (written by `harness/cmd/extract` from the tree under check):

* `C01_no_clock_or_environment_reads` — in keepers, module roots (`abci.go`, `genesis.go`, `module.go`) and
  `app/`, the only call that reads the wall clock, a random source or the host environment is the
  `time.Now()` argument of `defer telemetry.ModuleMeasureSince(...)` in the node begin-blocker, which only
  feeds a metric (the `fix:` of F07 removed the two in the did handlers);
* `C01_no_goroutines` — no `go` statement and no `select` in consensus code;
* `C01_map_ranges_are_the_known_ones` — the `range` loops over Go maps are the six listed. Two read
  `maccPerms` while the application is built; the bodies of the other four delete or set one record per key
  (`C01_removeShards_perm` proves order-independence for the two `shardSet` loops; the per-key writes of
  `DoPenalty` and `SetExpiredShardsBlock` touch disjoint records). A new map range — e.g. one that builds
  an ordered result from a map — changes this list.
-/
namespace SaoVerif

theorem C01_no_clock_or_environment_reads :
    Generated.clockCalls = [("x/node/abci.go", "BeginBlocker", "time.Now")] := by decide

theorem C01_no_goroutines : Generated.goStmts = [] := by decide

theorem C01_map_ranges_are_the_known_ones :
    Generated.mapRanges =
      [ ("app/app.go", "*App.ModuleAccountAddrs", "maccPerms"),
        ("app/app.go", "GetMaccPerms", "maccPerms"),
        ("x/model/keeper/data_management.go", "Keeper.UpdateMeta", "shardSet"),
        ("x/node/keeper/node.go", "Keeper.DoPenalty", "totalPenaltyMap"),
        ("x/sao/keeper/expired_shard.go", "Keeper.SetExpiredShardsBlock", "expiredShardsMap"),
        ("x/sao/keeper/msg_server_terminate.go", "msgServer.Terminate", "shardSet") ] := by decide

/-- in-memory residue of non-consensus calls and of long-running processes (the last two clauses of C01):
    apart from the package variable of finding F06 there is no place to keep it — `C03_process_state_is_known`
    and `C03_keepers_hold_no_memory`, restated for this property -/
theorem C01_no_process_memory :
    Generated.pkgVars.length = 4 ∧
    Generated.keeperFields.all (fun f => statelessFieldTypes.contains f.2.2 || plainFields.contains (f.1, f.2.1)) = true :=
  ⟨by rw [C03_process_state_is_known]; rfl, C03_keepers_hold_no_memory⟩

/-- the blockers the harness drives are all the blockers there are (`x/order`'s is empty) -/
theorem C01_blockers_known :
    Generated.blockers =
      [ ("x/model", "abic.go", "EndBlocker"), ("x/node", "abci.go", "BeginBlocker"), ("x/node", "abci.go", "EndBlock"),
        ("x/order", "abic.go", "EndBlocker"), ("x/sao", "abci.go", "EndBlocker") ] := by decide

/-- the model's operation alphabet covers every message the six modules accept: these are all the handlers there are, one
    per constructor of `Op` (`binding`, `didupdate`, `payaddr`; `addv`, `claim`, `create`, `remv`, `reset`; `cancel`, `complete`,
    `migrate`, `ready`, `recover`, `renew`, `report`, `store`, `terminate`, `perm`). A new handler changes this list and has to
    be modelled before any theorem over "every operation" speaks about the code again. -/
theorem C01_every_message_is_modelled :
    Generated.msgHandlers.map (fun x => (x.1, x.2.2)) =
      [ ("x/did/keeper", "Binding"), ("x/did/keeper", "Update"), ("x/did/keeper", "UpdatePaymentAddress"),
        ("x/node/keeper", "AddVstorage"), ("x/node/keeper", "ClaimReward"), ("x/node/keeper", "Create"),
        ("x/node/keeper", "RemoveVstorage"), ("x/node/keeper", "Reset"),
        ("x/sao/keeper", "Cancel"), ("x/sao/keeper", "Complete"), ("x/sao/keeper", "Migrate"), ("x/sao/keeper", "Ready"),
        ("x/sao/keeper", "RecoverFaults"), ("x/sao/keeper", "Renew"), ("x/sao/keeper", "ReportFaults"), ("x/sao/keeper", "Store"),
        ("x/sao/keeper", "Terminate"), ("x/sao/keeper", "UpdataPermission") ] := by decide

/-- the harness calls the blockers directly, in the order `endBlock` of the model composes them (sao, node, order, model);
    that this is the order the application wires — and that the node keeper's staking hooks are registered, which is how a
    delegation reaches `verifySuper` (C20) — is read off `app/app.go` -/
theorem C01_blocker_order_and_hooks_as_modelled :
    (Generated.appWiring.filter (fun x => x.1 = "SetOrderEndBlockers")).map (·.2.2) =
      ["saomoduletypes.ModuleName", "nodemoduletypes.ModuleName", "ordermoduletypes.ModuleName", "modelmoduletypes.ModuleName",
       "didmoduletypes.ModuleName", "marketmoduletypes.ModuleName"] ∧
    (Generated.appWiring.filter (fun x => x.1 = "SetOrderBeginBlockers")).map (·.2.2) =
      ["saomoduletypes.ModuleName", "nodemoduletypes.ModuleName", "ordermoduletypes.ModuleName", "modelmoduletypes.ModuleName",
       "didmoduletypes.ModuleName", "marketmoduletypes.ModuleName"] ∧
    (Generated.appWiring.filter (fun x => x.1 = "SetHooks")) =
      [("SetHooks", "stakingKeeper",
        "stakingtypes.NewMultiStakingHooks(app.DistrKeeper.Hooks(), app.SlashingKeeper.Hooks(), app.NodeKeeper.Hooks())")] := by
  decide

end SaoVerif
