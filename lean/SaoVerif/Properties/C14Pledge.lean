import SaoVerif.Properties.C07Shard
import SaoVerif.Properties.C08Claim
/-!
# C14 — an accepted shard pledge books the capacity it uses

`C14_pledge_books_used_capacity`: whenever `ShardPledge` accepts a shard — whatever its collateral comes to, zero included —
the provider's record leaves with its used capacity raised by the shard's size and its shard collateral raised by what the
shard records. (The seeded changes C14-7 and C14-8 skipped the bookkeeping when the collateral was zero, so that the later
release subtracted a size that had never been added.)
-/
namespace SaoVerif

theorem C14_pledge_books_used_capacity (e : Env) (s s' : State) (sh : Shard) (up : Dec) (pl : Pledge) (pool : Pool)
    (hpl : s.getPledge sh.sp = some pl) (hpool : s.pool = some pool) (h : shardPledge e s sh up = .ok (s', none)) :
    ∃ pl' sh', s'.getPledge sh.sp = some pl' ∧ s'.getShard sh.id = some sh' ∧
      pl'.usedStorage = (settle pool pl).usedStorage + toI64 sh.size ∧
      pl'.totalShardPledged = (settle pool pl).totalShardPledged + sh'.pledge ∧
      pl'.totalStorage = (settle pool pl).totalStorage := by
  have hc : (settle pool pl).creator = sh.sp := by
    have : pl.creator = sh.sp := getPledge_creator s sh.sp pl hpl
    rw [← this]; unfold settle; split <;> rfl
  unfold shardPledge at h
  simp only [hpl, hpool, bind, Except.bind, pure, Except.pure] at h
  split at h
  · simp only [Except.ok.injEq, Prod.mk.injEq] at h; cases h.2
  · split at h
    · cases h
    · rename_i sp0 hsp0
      split at h
      · simp only [Except.ok.injEq, Prod.mk.injEq] at h; cases h.2
      · rename_i s2 hs2
        simp only [Except.ok.injEq, Prod.mk.injEq] at h
        rw [← h.1]
        let pl' : Pledge := { (settle pool pl) with
          totalShardPledged := (settle pool pl).totalShardPledged + sh.renewInfos.foldl (fun acc ri => if acc < ri.pledge then ri.pledge else acc) sp0,
          rewardDebt := Dec.mulInt pool.accRewardPerByte (settle pool pl).totalStorage,
          usedStorage := (settle pool pl).usedStorage + toI64 sh.size }
        let sh' : Shard := { sh with pledge := sh.renewInfos.foldl (fun acc ri => if acc < ri.pledge then ri.pledge else acc) sp0 }
        refine ⟨pl', sh', ?_, getShard_setShard _ sh', rfl, rfl, rfl⟩
        show (State.setShard (State.setPledge s2 pl') sh').getPledge sh.sp = some pl'
        have e1 : ∀ (y : State) (z : Shard), (y.setShard z).getPledge sh.sp = y.getPledge sh.sp := fun _ _ => rfl
        rw [e1]
        have := getPledge_setPledge s2 pl'
        rw [show pl'.creator = (settle pool pl).creator from rfl, hc] at this
        exact this

end SaoVerif
