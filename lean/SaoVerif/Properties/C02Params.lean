import SaoVerif.Properties.C02Begin
import SaoVerif.Properties.C08Footprint
/-!
# C02 — parameters that pass validation keep the begin-blocker total, from genesis on

`paramsValidate` (Spec/Inv.lean) is the model of `Params.Validate` and of the per-key validators the parameter store runs on
every value it is given — at genesis and for every governance change. The driver compares it with what the application did
with each genesis the harness offered (accepted / refused): lines `genesis` and `genesisRejected` of a trace.

`C02_validated_params_ok`: parameters that pass are parameters on which the begin-blocker cannot fail (`ParamsOk`, the
hypothesis of `C02_begin_blocker_never_panics`). The floor on the two periods (`> 10`) is what keeps `halvingPeriod / 2` away
from zero; the sign checks on block reward and yield are the `fix:` of F23. `C02_params_ok_over_histories`: no operation
changes any of these values (only the fishmen list can change), so they hold after every history, and with a coherent pool
the begin-blocker of every later block returns normally (`C02_begin_blocker_total_after_history`).
-/
namespace SaoVerif

theorem C02_validated_params_ok (p : NodeParams) (hv : paramsValidate p = true) (hd : p.denomIsSao = true) : ParamsOk p := by
  have h1 : ¬ p.blockReward < 0 := by
    intro h; simp [paramsValidate, paramsRefusal, h] at hv
  have h2 : p.apyOk = true := by
    cases hb : p.apyOk
    · simp [paramsValidate, paramsRefusal, h1, hb] at hv
    · rfl
  have h3 : ¬ p.apy < 0 := by
    intro h; simp [paramsValidate, paramsRefusal, h1, h2, h] at hv
  have h4 : 10 < p.halvingPeriod := by
    apply Classical.byContradiction
    intro h; simp [paramsValidate, paramsRefusal, h1, h2, h3, h] at hv
  have h5 : 10 < p.adjustmentPeriod := by
    apply Classical.byContradiction
    intro h; simp [paramsValidate, paramsRefusal, h1, h2, h3, h4, h] at hv
  exact ⟨Int.not_lt.mp h1, Int.not_lt.mp h3, h4, h5, hd⟩

/-- what the validators refuse: each of the values that made the begin-blocker fail -/
theorem C02_validation_refuses (p : NodeParams) :
    (p.blockReward < 0 → paramsValidate p = false) ∧ (p.apyOk = true → 0 ≤ p.blockReward → p.apy < 0 → paramsValidate p = false) ∧
    (0 ≤ p.blockReward → p.apyOk = true → 0 ≤ p.apy → p.halvingPeriod ≤ 10 → paramsValidate p = false) := by
  refine ⟨fun h => ?_, fun h1 h2 h3 => ?_, fun h1 h2 h3 h4 => ?_⟩
  · simp [paramsValidate, paramsRefusal, h]
  · have a : ¬ p.blockReward < 0 := Int.not_lt.mpr h2
    simp [paramsValidate, paramsRefusal, a, h1, h3]
  · have a : ¬ p.blockReward < 0 := Int.not_lt.mpr h1
    have b : ¬ p.apy < 0 := Int.not_lt.mpr h3
    have c : ¬ 10 < p.halvingPeriod := Int.not_lt.mpr h4
    simp [paramsValidate, paramsRefusal, a, h2, b, c]

/-- the only operation that changes a parameter changes the fishmen list, which no validator looks at -/
theorem step_keeps_params_ok (e : Env) (y : Sys) (op : Op) (h : ParamsOk y.st.params) : ParamsOk (step e y op).2.st.params := by
  by_cases hg : ∃ l, op = .govfishmen l
  · obtain ⟨l, rfl⟩ := hg
    have : (step e y (.govfishmen l)).2.st.params = { y.st.params with fishmen := l } := rfl
    rw [this]
    exact ⟨h.reward, h.apy, h.halving, h.adjustment, h.denom⟩
  · rw [C01_parameters_never_change e y op (fun l hl => hg ⟨l, hl⟩)]; exact h

theorem C02_params_ok_over_histories (e : Env) (y : Sys) (ops : List Op) (h : ParamsOk y.st.params) :
    ParamsOk (runOps e y ops).st.params := by
  induction ops generalizing y with
  | nil => exact h
  | cons op t ih => exact ih _ (step_keeps_params_ok e y op h)

/-- **C02**: from a genesis whose parameters passed validation, after any history, the begin-blocker of the next block
    returns normally whenever the pool record is coherent -/
theorem C02_begin_blocker_total_after_history (e : Env) (y : Sys) (ops : List Op)
    (hv : paramsValidate y.st.params = true) (hd : y.st.params.denomIsSao = true)
    (hpool : ∀ pool, (runOps e y ops).st.pool = some pool → PoolOk pool) :
    ∃ s', nodeBeginBlock e (runOps e y ops).st = .ok s' :=
  C02_begin_blocker_never_panics e _ (C02_params_ok_over_histories e y ops (C02_validated_params_ok _ hv hd)) hpool

def sampleParams : NodeParams :=
  { (default : NodeParams) with
    blockReward := 1000
    apy := 5
    apyOk := true
    halvingPeriod := 11
    adjustmentPeriod := 2000
    penaltyBase := 1
    maxPenalty := 11
    shareThreshold := 100000000000000000
    vstorageThreshold := 1
    offlineTriggerHeight := 1 }

example : paramsValidate sampleParams = true := by decide

end SaoVerif
