import SaoVerif.Properties.C03
/-!
# C20 — a staking message that succeeds leaves nothing in process memory

"The decision depends only on committed state": the role decision of the staking hooks reads the package
variable `sharesBeforeModified` (`Sys.global`). `verifySuper_resets` (C03.lean) shows the hook resets it on
every successful path; here this is lifted to the two staking messages of the model: whenever `Delegate` or
`Undelegate` is accepted, the variable is zero afterwards — so the *next* decision starts from committed state
alone. (The converse is finding F06: a message that fails after the Before-hook leaves it non-zero.) The
monitor clause `residueAfterOkStaking` evaluates exactly this on every accepted staking message of the real
keepers; a hook that returns early without the reset (seeded/C20-2) breaks it.
-/
namespace SaoVerif

/-- the variable after an accepted message is zero; nothing is claimed about a rejected one -/
def okResets (r : Dec × TxM State) : Prop :=
  match r with
  | (g', .ok _) => g' = 0
  | (_, .error _) => True

theorem delegate_okResets (e : Env) (s : State) (g : Dec) (del : Addr) (val : ValAddr) (amt : Int) :
    okResets (stakeDelegate e s g del val amt) := by
  unfold stakeDelegate
  split
  · simp [okResets, throw, throwThe, MonadExceptOf.throw]
  · simp only
    split
    · simp [okResets, throw, throwThe, MonadExceptOf.throw]
    · split
      · simp [okResets, throw, throwThe, MonadExceptOf.throw]
      · split
        · simp [okResets, throw, throwThe, MonadExceptOf.throw]
        · rename_i s2 g2 hvs
          simp only [okResets, pure, Except.pure]
          exact verifySuper_resets _ _ _ _ _ _ _ _ hvs

theorem undelegate_okResets (e : Env) (s : State) (g : Dec) (del : Addr) (val : ValAddr) (amt : Int) :
    okResets (stakeUndelegate e s g del val amt) := by
  unfold stakeUndelegate
  split
  · simp [okResets, throw, throwThe, MonadExceptOf.throw]
  · simp [okResets, throw, throwThe, MonadExceptOf.throw]
  · simp only
    split
    · simp [okResets, throw, throwThe, MonadExceptOf.throw]
    · split
      · simp [okResets, throw, throwThe, MonadExceptOf.throw]
      · split
        · simp [okResets, throw, throwThe, MonadExceptOf.throw]
        · split
          · simp [okResets, throw, throwThe, MonadExceptOf.throw]
          · rename_i s2 g2 hr
            -- the hook ran (removal or modification): its result carries the reset variable
            have hg : g2 = 0 := by
              split at hr
              · simp only [bind, Except.bind] at hr
                split at hr
                · cases hr
                · rename_i x hx
                  obtain ⟨sx, gx⟩ := x
                  simp only [pure, Except.pure, Except.ok.injEq, Prod.mk.injEq] at hr
                  have := verifySuper_resets _ _ _ _ _ _ _ _ hx
                  rw [← hr.2]; exact this
              · exact verifySuper_resets _ _ _ _ _ _ _ _ hr
            subst hg
            split
            · split <;> simp [okResets, throw, throwThe, MonadExceptOf.throw, pure, Except.pure]
            · simp [okResets, pure, Except.pure]

theorem C20_delegate_ok_resets (e : Env) (s s' : State) (g : Dec) (del : Addr) (val : ValAddr) (amt : Int)
    (h : (stakeDelegate e s g del val amt).2 = .ok s') : (stakeDelegate e s g del val amt).1 = 0 := by
  have := delegate_okResets e s g del val amt
  unfold okResets at this
  split at this
  · rename_i heq; rw [heq]; exact this
  · rename_i heq; rw [heq] at h; cases h

theorem C20_undelegate_ok_resets (e : Env) (s s' : State) (g : Dec) (del : Addr) (val : ValAddr) (amt : Int)
    (h : (stakeUndelegate e s g del val amt).2 = .ok s') : (stakeUndelegate e s g del val amt).1 = 0 := by
  have := undelegate_okResets e s g del val amt
  unfold okResets at this
  split at this
  · rename_i heq; rw [heq]; exact this
  · rename_i heq; rw [heq] at h; cases h

/-- at the level of `step`: an accepted staking message ends with a clean process, whatever it started with -/
theorem C20_accepted_staking_leaves_no_residue (e : Env) (y : Sys) (op : Op)
    (hop : (∃ c v a, op = .delegate c v a) ∨ (∃ c v a, op = .undelegate c v a))
    (hok : (step e y op).1 = .ok) : (step e y op).2.global = 0 := by
  rcases hop with ⟨c, v, a, rfl⟩ | ⟨c, v, a, rfl⟩
  · simp only [step, stepBase, stakeStep] at hok ⊢
    split at hok
    · rename_i s' hs
      exact C20_delegate_ok_resets e y.st s' y.global c v a hs
    · cases hok
  · simp only [step, stepBase, stakeStep] at hok ⊢
    split at hok
    · rename_i s' hs
      exact C20_undelegate_ok_resets e y.st s' y.global c v a hs
    · cases hok

theorem redelegateDelegate_okResets (e : Env) (s : State) (g' : Dec) (v v2 : ValidatorV) (del : Addr) (src dst : ValAddr) (tokens : Int) :
    okResets (redelegateDelegate e s g' v v2 del src dst tokens) := by
  unfold redelegateDelegate
  split
  · simp [okResets, throw, throwThe, MonadExceptOf.throw]
  · dsimp only
    split
    · simp [okResets, throw, throwThe, MonadExceptOf.throw]
    · split
      · simp [okResets, throw, throwThe, MonadExceptOf.throw]
      · rename_i s4 g4 hv4
        have hg4 : g4 = 0 := verifySuper_resets _ _ _ _ _ _ _ _ hv4
        split <;> simp [okResets, pure, Except.pure, hg4]

theorem redelegate_okResets (e : Env) (s : State) (g : Dec) (del : Addr) (src dst : ValAddr) (amt : Int) :
    okResets (stakeRedelegate e s g del src dst amt) := by
  unfold stakeRedelegate
  split
  · simp [okResets, throw, throwThe, MonadExceptOf.throw]
  · split
    · simp [okResets, throw, throwThe, MonadExceptOf.throw]
    · split
      · simp [okResets, throw, throwThe, MonadExceptOf.throw]
      · exact redelegateDelegate_okResets _ _ _ _ _ _ _ _ _

/-- the same for a redelegation: its second hook run (`AfterDelegationModified` on the destination) resets the variable -/
theorem C20_redelegate_ok_resets (e : Env) (s s' : State) (g : Dec) (del : Addr) (src dst : ValAddr) (amt : Int)
    (h : (stakeRedelegate e s g del src dst amt).2 = .ok s') : (stakeRedelegate e s g del src dst amt).1 = 0 := by
  have := redelegate_okResets e s g del src dst amt
  unfold okResets at this
  split at this
  · rename_i heq; rw [heq]; exact this
  · rename_i heq; rw [heq] at h; cases h

/-- at the level of `step` -/
theorem C20_accepted_redelegation_leaves_no_residue (e : Env) (y : Sys) (c : Addr) (v w : ValAddr) (a : Int)
    (hok : (step e y (.redelegate c v w a)).1 = .ok) : (step e y (.redelegate c v w a)).2.global = 0 := by
  simp only [step, stepBase, stakeStep] at hok ⊢
  split at hok
  · rename_i s' hs
    exact C20_redelegate_ok_resets e y.st s' y.global c v w a hs
  · cases hok

end SaoVerif
