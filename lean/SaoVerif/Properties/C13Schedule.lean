import SaoVerif.Proofs.Fixed2
import SaoVerif.Properties.C13
import SaoVerif.Properties.C14Pledge
/-!
# C13 — a completed shard leaves `Complete` with its release scheduled at the end of its paid period

"… every completed shard has a release scheduled at the end height of its current paid period …"

`C13_completion_schedules_release`: for every state, whenever the last part of `Complete` accepts, the shard is recorded as
stored with the start height and duration it was given, and its id is in the release schedule at exactly start + duration;
nothing the handler does after scheduling (extending the model's lifetime, taking the collateral, raising the reputation,
writing the order) removes an entry from that schedule. The schedule is written before the collateral is taken, so the
theorem also covers the order of the two: a completion that is accepted cannot have skipped the scheduling.
-/
namespace SaoVerif

def schedOf (s : State) : Map Nat (List Nat) := s.expiredShardQ

@[grind =] theorem schedOf_def (s : State) : schedOf s = s.expiredShardQ := rfl

macro "sched_auto" h:ident : tactic => `(tactic| (
  simp only [bind, Except.bind, pure, Except.pure, throw, throwThe, MonadExceptOf.throw] at $h:ident
  repeat' (split at $h:ident)
  all_goals (first | cases $h:ident | skip)
  all_goals (try simp only [Except.ok.injEq, Prod.mk.injEq] at $h:ident)
  all_goals (first | grind | (simp only [schedOf_def, State.setOrder, State.removeOrder, State.setShard, State.removeShard, State.setMeta,
      State.removeMeta, State.setModel, State.removeModel, State.setNode, State.setPledge, State.setWorker,
                              State.setDebt, State.removeDebt, State.setBal]; grind [schedOf_def]))))

@[grind =] theorem setDataExpireBlock_sq (s : State) (d : Bytes) (a : Nat) : schedOf (setDataExpireBlock s d a) = schedOf s := rfl
@[grind =] theorem setMeta_sq (s : State) (m : Metadata) : schedOf (s.setMeta m) = schedOf s := rfl
@[grind =] theorem setOrder_sq (s : State) (o : Order) : schedOf (s.setOrder o) = schedOf s := rfl
@[grind =] theorem setShard_sq (s : State) (x : Shard) : schedOf (s.setShard x) = schedOf s := rfl
@[grind =] theorem setPledge_sq (s : State) (x : Pledge) : schedOf (s.setPledge x) = schedOf s := rfl
@[grind =] theorem setDebt_sq (s : State) (a : Addr) (x : Int) : schedOf (s.setDebt a x) = schedOf s := rfl

@[grind →] theorem send_sq (s s' : State) (a b : Addr) (x : Int) (h : s.send a b x = .ok s') : schedOf s' = schedOf s := by
  unfold State.send at h
  repeat' (split at h)
  all_goals (first | (simp only [pure, Except.pure, Except.ok.injEq] at h; subst h; rfl) | cases h)

@[grind →] theorem sendLit_sq (s s' : State) (a b : Addr) (x : Int) (h : s.sendLit a b x = .ok s') : schedOf s' = schedOf s := by
  unfold State.sendLit at h
  split at h
  · cases h
  · exact send_sq _ _ _ _ _ h

@[grind →] theorem removeDataExpireBlock_sq (s s' : State) (d : Bytes) (a : Nat) (h : removeDataExpireBlock s d a = .ok s') :
    schedOf s' = schedOf s := by
  unfold removeDataExpireBlock at h
  split at h
  · simp only [pure, Except.pure, Except.ok.injEq] at h; subst h; rfl
  · split at h
    · cases h
    · simp only at h
      split at h <;> (simp only [pure, Except.pure, Except.ok.injEq] at h; subst h; rfl)

@[grind →] theorem extendMetaDuration_sq (s s' : State) (d : Bytes) (a : Nat) (h : extendMetaDuration s d a = .ok s') :
    schedOf s' = schedOf s := by
  unfold extendMetaDuration at h
  sched_auto h

@[grind →] theorem shardPledge_sq (e : Env) (s s' : State) (sh : Shard) (up : Dec) (x : Option String)
    (h : shardPledge e s sh up = .ok (s', x)) : schedOf s' = schedOf s := by
  unfold shardPledge at h
  sched_auto h

@[grind =] theorem increaseReputation_sq (e : Env) (s : State) (a : Addr) (v : Int) : schedOf (increaseReputation e s a v) = schedOf s := by
  unfold increaseReputation
  split <;> rfl

/-- what an accepted pledge leaves in the shard store: the shard as given, with the collateral filled in -/
theorem shardPledge_records (e : Env) (s s' : State) (sh : Shard) (up : Dec) (h : shardPledge e s sh up = .ok (s', none)) :
    ∃ p, s'.getShard sh.id = some { sh with pledge := p } := by
  unfold shardPledge at h
  simp only [bind, Except.bind, pure, Except.pure] at h
  repeat' (split at h)
  all_goals (try simp only [Except.ok.injEq, Prod.mk.injEq, reduceCtorEq, and_false, and_true] at h)
  all_goals (rw [← h]; exact ⟨_, getShard_setShard _ _⟩)

theorem C13_completion_schedules_release (e : Env) (s s' : State) (md : Metadata) (order : Order) (shard : Shard) (ip : Order)
    (p : Addr) (cid : StrId) (h : completeTail e s md order shard ip p cid = .ok s') :
    (∃ sh', s'.getShard shard.id = some sh' ∧ sh'.status = ShardCompleted ∧ sh'.createdAt = shard.createdAt ∧
        sh'.duration = shard.duration ∧ sh'.sp = shard.sp ∧ sh'.orderId = shard.orderId) ∧
    ((Map.find? s'.expiredShardQ (addU64 shard.createdAt shard.duration)).getD []).contains shard.id = true ∧
    (∀ ht x, ((Map.find? s.expiredShardQ ht).getD []).contains x = true →
             ((Map.find? s'.expiredShardQ ht).getD []).contains x = true) := by
  unfold completeTail at h
  (try dsimp only at h)
  obtain ⟨s1, hs1, h⟩ := bind_ok h
  obtain ⟨s2, hs2, h⟩ := bind_ok h
  split at h
  · exact (throw_bind_ne h).elim
  simp only [pure, Except.pure, Except.ok.injEq] at h
  have hp := softTx_ok hs2
  have hq : schedOf s' = schedOf (setExpiredShardBlock s shard.id (addU64 shard.createdAt shard.duration)) := by
    rw [← h, setOrder_sq, increaseReputation_sq, shardPledge_sq _ _ _ _ _ _ hp, extendMetaDuration_sq _ _ _ _ hs1]
  have hsch := C13_schedule_contains s shard.id (addU64 shard.createdAt shard.duration)
  simp only [schedOf] at hq
  refine ⟨?_, by rw [hq]; exact hsch.1, fun ht x hx => by rw [hq]; exact hsch.2 ht x hx⟩
  obtain ⟨pl, hpl⟩ := shardPledge_records _ _ _ _ _ hp
  refine ⟨{ ({ shard with status := ShardCompleted, cid := cid } : Shard) with pledge := pl }, ?_, rfl, rfl, rfl, rfl, rfl⟩
  rw [← h]
  show ((increaseReputation e s2 p _).setOrder order).getShard shard.id = _
  have e1 : ∀ (y : State) (o : Order), (y.setOrder o).getShard shard.id = y.getShard shard.id := fun _ _ => rfl
  have e2 : ∀ (y : State) (a : Addr) (v : Int), (increaseReputation e y a v).getShard shard.id = y.getShard shard.id := by
    intro y a v; unfold increaseReputation; split <;> rfl
  rw [e1, e2]
  exact hpl

/-- a freshly completed shard starts its paid period at the current height, for the order's duration: with the theorem above,
    its release is scheduled at exactly `height + order.duration` -/
theorem C13_fresh_completion_period (e : Env) (s s1 : State) (order o1 ip : Order) (shard sh1 : Shard)
    (h : completeFresh e s order shard = .ok (s1, o1, sh1, ip)) :
    sh1.id = shard.id ∧ sh1.createdAt = toU64 s.h ∧ sh1.duration = order.duration ∧ sh1.sp = shard.sp := by
  unfold completeFresh at h
  simp only [bind, Except.bind, pure, Except.pure] at h
  repeat' (split at h)
  all_goals (try simp only [Except.ok.injEq, Prod.mk.injEq, reduceCtorEq, and_false, and_true] at h)
  all_goals (obtain ⟨_, _, h3, _⟩ := h; rw [← h3]; exact ⟨rfl, rfl, rfl, rfl⟩)

/-- a shard completed by migration takes over exactly the remaining period of the shard it replaces: it ends when that one would -/
theorem C13_migrated_completion_period (e : Env) (s s1 : State) (order o1 ip : Order) (shard sh1 old : Shard)
    (hold : getOrderShardBySP s order shard.«from» = some old)
    (h : completeMigration e s order shard = .ok (s1, o1, sh1, ip)) :
    sh1.id = shard.id ∧ sh1.sp = shard.sp ∧ sh1.orderId = old.orderId ∧ sh1.renewInfos = old.renewInfos ∧
      ∃ ht, sh1.createdAt = toU64 ht ∧ sh1.duration = subU64 (addU64 old.createdAt old.duration) (toU64 ht) := by
  unfold completeMigration at h
  simp only [hold, bind, Except.bind, pure, Except.pure] at h
  repeat' (split at h)
  all_goals (try simp only [Except.ok.injEq, Prod.mk.injEq, reduceCtorEq, and_false, and_true, throw, throwThe, MonadExceptOf.throw] at h)
  all_goals (obtain ⟨_, _, h3, _⟩ := h; rw [← h3]; exact ⟨rfl, rfl, rfl, rfl, _, rfl, rfl⟩)

end SaoVerif
