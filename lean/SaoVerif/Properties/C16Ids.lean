import SaoVerif.Proofs.Ids
import SaoVerif.Properties.C08Footprint
/-!
# C16 — identifiers are never reused, over every history

`Bnd s` (Proofs/Ids.lean): every stored order and shard has an id below its counter, and both stores are sorted by id. It is an invariant of **every**
operation of the model (`C16_step_keeps_ids_below_counters`), neither counter ever goes down
(`C16_counters_never_decrease`), and a new order or shard always takes the current counter as its id
(`C16_appendOrder_fresh`, `C16_appendShard_fresh`). Together, for every history from a state satisfying `Bnd` (the empty
state does): an identifier handed out at any point is strictly above every identifier that was ever handed out before
— whether or not the record still exists (`C16_ids_never_reused`). A change that steps a counter back (seeded/C16-3), or
that writes a record under an id it did not read or allocate, breaks these theorems or the correspondence they rest on.
-/
namespace SaoVerif

/-! ### staking messages do not touch orders and shards -/
theorem setRole_osS (e : Env) (s : State) (a : Addr) (r : Nat) (v : Option ValAddr) : osPart (setRole e s a r v) = osPart s := by
  unfold setRole; split <;> rfl

theorem verifyLoop_osS (e : Env) (val : ValAddr) (acc : Option Addr) (b : Bool) (sub : Dec) (l : List DelegationV) (s s' : State)
    (h : verifySuper.loop e val acc b sub l s = .ok s') : osPart s' = osPart s := by
  induction l generalizing s with
  | nil => unfold verifySuper.loop at h; simp only [pure, Except.pure, Except.ok.injEq] at h; rw [← h]
  | cons d t ih =>
    unfold verifySuper.loop at h
    have key : ∀ (x : State), osPart x = osPart s → verifySuper.loop e val acc b sub t x = .ok s' → osPart s' = osPart s :=
      fun x hx hl => (ih _ hl).trans hx
    have k1 : ∀ (c : Prop) [Decidable c] (a : Addr) (r : Nat) (v : Option ValAddr),
        osPart (if c then setRole e s a r v else s) = osPart s := by
      intro c _ a r v; split
      · exact setRole_osS _ _ _ _ _
      · rfl
    split at h
    · exact ih _ h
    · split at h
      · exact ih _ h
      · split at h
        · exact key _ (k1 _ _ _ _) h
        · split at h
          · exact key _ (k1 _ _ _ _) h
          · dsimp only at h
            split at h
            all_goals (
              split at h
              · exact key _ (k1 _ _ _ _) h
              · obtain ⟨ok, _, h⟩ := bind_ok h
                split at h
                · exact key _ (k1 _ _ _ _) h
                · exact key _ (k1 _ _ _ _) h)

theorem verifySuper_osS (e : Env) (s s' : State) (g g' : Dec) (v : ValAddr) (a : Option Addr) (b : Bool)
    (h : verifySuper e s g v a b = .ok (s', g')) : osPart s' = osPart s := by
  unfold verifySuper at h
  dsimp only at h
  obtain ⟨sub, _, h⟩ := bind_ok h
  obtain ⟨s1, hs1, h⟩ := bind_ok h
  simp only [pure, Except.pure, Except.ok.injEq, Prod.mk.injEq] at h
  rw [← h.1]
  exact verifyLoop_osS _ _ _ _ _ _ _ _ hs1

theorem send_osS (s s' : State) (a b : Addr) (x : Int) (h : s.send a b x = .ok s') : osPart s' = osPart s := send_os _ _ _ _ _ h

/-- the outcome of a staking message: whatever the result and the package variable, the order and shard stores are kept -/
def keepsOs (s : State) (r : Dec × TxM State) : Prop :=
  match r.2 with
  | .ok s' => osPart s' = osPart s
  | .error _ => True

theorem delegate_keepsOs (e : Env) (s : State) (g : Dec) (del : Addr) (val : ValAddr) (amt : Int) :
    keepsOs s (stakeDelegate e s g del val amt) := by
  unfold stakeDelegate
  split
  · simp [keepsOs, throw, throwThe, MonadExceptOf.throw]
  · dsimp only
    split
    · simp [keepsOs, throw, throwThe, MonadExceptOf.throw]
    · rename_i s1 hs1
      split
      · simp [keepsOs, throw, throwThe, MonadExceptOf.throw]
      · split
        · simp [keepsOs, throw, throwThe, MonadExceptOf.throw]
        · rename_i s2 g2 hv
          simp only [keepsOs, pure, Except.pure]
          rw [verifySuper_osS _ _ _ _ _ _ _ _ hv]
          show osPart s1 = osPart s
          exact send_osS _ _ _ _ _ hs1

theorem undelegate_keepsOs (e : Env) (s : State) (g : Dec) (del : Addr) (val : ValAddr) (amt : Int) :
    keepsOs s (stakeUndelegate e s g del val amt) := by
  unfold stakeUndelegate
  split
  · simp [keepsOs, throw, throwThe, MonadExceptOf.throw]
  · simp [keepsOs, throw, throwThe, MonadExceptOf.throw]
  · dsimp only
    split
    · simp [keepsOs, throw, throwThe, MonadExceptOf.throw]
    · split
      · simp [keepsOs, throw, throwThe, MonadExceptOf.throw]
      · split
        · simp [keepsOs, throw, throwThe, MonadExceptOf.throw]
        · split
          · simp [keepsOs, throw, throwThe, MonadExceptOf.throw]
          · rename_i s2 g2 hr
            have hs2 : osPart s2 = osPart s := by
              split at hr
              · obtain ⟨x, hx, hr⟩ := bind_ok hr
                obtain ⟨sx, gx⟩ := x
                simp only [pure, Except.pure, Except.ok.injEq, Prod.mk.injEq] at hr
                rw [← hr.1]
                show osPart sx = osPart s
                exact verifySuper_osS _ _ _ _ _ _ _ _ hx
              · rw [verifySuper_osS _ _ _ _ _ _ _ _ hr]; rfl
            split
            · split
              · simp [keepsOs, throw, throwThe, MonadExceptOf.throw]
              · rename_i s3 hs3
                simp only [keepsOs, pure, Except.pure]
                have := send_osS _ _ _ _ _ hs3
                simp only [osPart] at this hs2 ⊢
                simp_all
            · simp only [keepsOs, pure, Except.pure]
              simp only [osPart] at hs2 ⊢
              simp_all


theorem redelegate_keepsOs (e : Env) (s : State) (g : Dec) (del : Addr) (src dst : ValAddr) (amt : Int) :
    keepsOs s (stakeRedelegate e s g del src dst amt) := by
  unfold keepsOs
  split
  · rename_i s' hs
    exact redelegate_keeps osPart (fun e s s' g g' v a b h => verifySuper_osS e s s' g g' v a b h)
      (fun s s' a b x h => send_osS s s' a b x h) (fun _ _ => rfl) e s g del src dst amt s' hs
  · trivial

/-! ### every operation -/
theorem begin_os (e : Env) (s s' : State) (h : nodeBeginBlock e s = .ok s') : osPart s' = osPart s := by
  unfold nodeBeginBlock at h
  split at h
  · dsimp only at h
    obtain ⟨r, hr, h⟩ := bind_ok h
    split at h
    · obtain ⟨pool', _, h⟩ := bind_ok h
      simp only [pure, Except.pure, Except.ok.injEq] at h
      rw [← h]; rfl
    · simp only [pure, Except.pure, Except.ok.injEq] at h; rw [← h]
  · simp only [pure, Except.pure, Except.ok.injEq] at h; rw [← h]

theorem atomic_ext (s : State) (r : TxM State) (hb : Bnd s) (h : ∀ s', r = .ok s' → Ext s s') : Ext s (atomic s r).2 := by
  unfold atomic
  split
  · exact h _ rfl
  · split <;> exact Ext.refl hb

theorem blocker_ext (s : State) (r : TxM State) (hb : Bnd s) (h : ∀ s', r = .ok s' → Ext s s') : Ext s (blocker s r).2 := by
  unfold blocker
  split
  · exact h _ rfl
  · split <;> exact Ext.refl hb

theorem exportImport_cnt (s : State) : (exportImport s).getOrderCount = s.getOrderCount := by
  have hp := getOrderCount_pos' s
  have : (exportImport s).orderCount = some s.getOrderCount := rfl
  rcases getOrderCount_cases (exportImport s) with ⟨h1, _⟩ | ⟨h1, _⟩ | ⟨k, h1, h2⟩
  · rw [this] at h1; cases h1
  · rw [this] at h1; simp at h1; omega
  · rw [this] at h1; simp at h1; omega

/-- the state-only part of every operation keeps identifiers below the counters and never lowers a counter -/
theorem stepC_ext (e : Env) (s : State) (op : Op) (hb : Bnd s) : Ext s (stepC e s op).2 := by
  cases op
  case advance to seed => exact os_ext rfl hb
  case begin_ => exact blocker_ext _ _ hb (fun s' h => os_ext (begin_os e s s' h) hb)
  case end_ => exact blocker_ext _ _ hb (fun s' h => endBlock_ext e s s' hb h)
  case create c => exact atomic_ext _ _ hb (fun s' h => os_ext (nodeCreate_os e s s' c h) hb)
  case reset m => exact atomic_ext _ _ hb (fun s' h => os_ext (nodeReset_os e s s' m h) hb)
  case addv c n => exact atomic_ext _ _ hb (fun s' h => os_ext (nodeAddVstorage_os e s s' c n h) hb)
  case remv c n => exact atomic_ext _ _ hb (fun s' h => os_ext (nodeRemoveVstorage_os e s s' c n h) hb)
  case claim c =>
    refine atomic_ext _ _ hb (fun s' h => ?_)
    cases hc : nodeClaimReward e s c with
    | error m => rw [hc] at h; cases h
    | ok v =>
      rw [hc] at h
      simp only [Except.map, Except.ok.injEq] at h
      rw [← h]
      exact os_ext (nodeClaimReward_os e s v.1 c v.2 hc) hb
  case store m => exact atomic_ext _ _ hb (fun s' h => saoStore_ext e s s' m hb h)
  case ready c p o => exact atomic_ext _ _ hb (fun s' h => saoReady_ext s s' c p o hb h)
  case complete c p o sz ok cid => exact atomic_ext _ _ hb (fun s' h => saoComplete_ext e s s' c p o sz ok cid hb h)
  case cancel c p o => exact atomic_ext _ _ hb (fun s' h => saoCancel_ext e s s' c p o hb h)
  case terminate c p ow d sv sd => exact atomic_ext _ _ hb (fun s' h => saoTerminate_ext e s s' c p ow d sv sd hb h)
  case renew c p sv sd du t data =>
    refine atomic_ext _ _ hb (fun s' h => ?_)
    cases hc : saoRenew e s c p sv sd du t data with
    | error m => rw [hc] at h; cases h
    | ok v =>
      rw [hc] at h
      simp only [Except.map, Except.ok.injEq] at h
      rw [← h]
      exact saoRenew_ext e s v.1 c p sv sd du t data v.2 hb hc
  case migrate c p data => exact atomic_ext _ _ hb (fun s' h => saoMigrate_ext s s' c p data hb h)
  case perm c p ow d ro rw sv => exact atomic_ext _ _ hb (fun s' h => os_ext (saoPermission_os s s' c p ow d ro rw sv h) hb)
  case report c p fs ids => exact atomic_ext _ _ hb (fun s' h => os_ext (saoReportFaults_os s s' c p fs ids h) hb)
  case recover c p fs ik => exact atomic_ext _ _ hb (fun s' h => os_ext (saoRecoverFaults_os s s' c p fs ik h) hb)
  case payaddr m => exact atomic_ext _ _ hb (fun s' h => os_ext (by rw [(didPayAddr_ok s s' m h).2]; rfl) hb)
  case binding m => exact atomic_ext _ _ hb (fun s' h => os_ext (by rw [(didBinding_ok s s' m h).2]; rfl) hb)
  case didupdate m => exact atomic_ext _ _ hb (fun s' h => os_ext (by obtain ⟨d, hd⟩ := didUpdate_ok s s' m h; rw [hd]; rfl) hb)
  case delegate => exact Ext.refl hb
  case undelegate => exact Ext.refl hb
  case redelegate => exact Ext.refl hb
  case govfishmen => exact os_ext rfl hb
  case restart => exact Ext.refl hb
  case genesis =>
    show Ext s (exportImport s)
    have hc := exportImport_cnt s
    refine ⟨Bnd_mk ?_ (Bnd_ids hb).2 (Bnd_sorted hb).1 (Bnd_sorted hb).2, Nat.le_of_eq hc.symm, Nat.le_refl _⟩
    intro x hx
    rw [hc]; exact (Bnd_ids hb).1 x hx
  case unmodelled => exact Ext.refl hb
  case sim => exact Ext.refl hb

/-- **C16, for every operation and state**: identifiers stay below the counters and no counter goes down — whatever the
    operation, its arguments and its outcome (accepted, rejected, panicking blocker, non-consensus execution) -/
theorem C16_step_keeps_ids_below_counters (e : Env) (y : Sys) (op : Op) (hb : Bnd y.st) : Ext y.st (step e y op).2.st := by
  cases op
  case delegate c v a =>
    simp only [step, stepBase, stakeStep]
    have := delegate_keepsOs e y.st y.global c v a
    unfold keepsOs at this
    split
    · rename_i s' hs; rw [hs] at this; exact os_ext this hb
    · exact Ext.refl hb
  case undelegate c v a =>
    simp only [step, stepBase, stakeStep]
    have := undelegate_keepsOs e y.st y.global c v a
    unfold keepsOs at this
    split
    · rename_i s' hs; rw [hs] at this; exact os_ext this hb
    · exact Ext.refl hb
  case redelegate c v w a =>
    simp only [step, stepBase, stakeStep]
    have := redelegate_keepsOs e y.st y.global c v w a
    unfold keepsOs at this
    split
    · rename_i s' hs; rw [hs] at this; exact os_ext this hb
    · exact Ext.refl hb
  case restart => exact Ext.refl hb
  case genesis => exact stepC_ext e y.st .genesis hb
  case sim inner => exact Ext.refl hb
  all_goals exact stepC_ext e y.st _ hb

/-- over every history: `Bnd` still holds and the counters are where they were or higher -/
theorem C16_ids_over_histories (e : Env) (y : Sys) (ops : List Op) (hb : Bnd y.st) : Ext y.st (runOps e y ops).st := by
  induction ops generalizing y with
  | nil => exact Ext.refl hb
  | cons op t ih =>
    have e1 := C16_step_keeps_ids_below_counters e y op hb
    exact Ext.trans e1 (ih _ e1.1)

theorem C16_counters_never_decrease (e : Env) (y : Sys) (ops : List Op) (hb : Bnd y.st) :
    y.st.getOrderCount ≤ (runOps e y ops).st.getOrderCount ∧ y.st.shardCount ≤ (runOps e y ops).st.shardCount :=
  (C16_ids_over_histories e y ops hb).2

/-- **C16 over histories**: take any history `ops1`, any order or shard that exists after it, and any further history
    `ops2`. The next order id and the next shard id handed out after `ops2` (the counters — `C16_appendOrder_fresh`) are
    strictly above that record's id, and above the id of every record that exists then. Identifiers are never reused,
    whether or not the earlier record still exists. -/
theorem C16_ids_never_reused (e : Env) (y : Sys) (ops1 ops2 : List Op) (hb : Bnd y.st) :
    (∀ o ∈ (runOps e y ops1).st.orders, o.id < (runOps e (runOps e y ops1) ops2).st.getOrderCount) ∧
    (∀ x ∈ (runOps e y ops1).st.shards, x.id < (runOps e (runOps e y ops1) ops2).st.shardCount) ∧
    (∀ o ∈ (runOps e (runOps e y ops1) ops2).st.orders, o.id < (runOps e (runOps e y ops1) ops2).st.getOrderCount) ∧
    (∀ x ∈ (runOps e (runOps e y ops1) ops2).st.shards, x.id < (runOps e (runOps e y ops1) ops2).st.shardCount) := by
  have h1 := C16_ids_over_histories e y ops1 hb
  have h2 := C16_ids_over_histories e (runOps e y ops1) ops2 h1.1
  have b1 := Bnd_ids h1.1
  have b2 := Bnd_ids h2.1
  refine ⟨fun o ho => ?_, fun x hx => ?_, b2.1, b2.2⟩
  · have := b1.1 o ho; have := h2.2.1; omega
  · have := b1.2 x hx; have := h2.2.2; omega

/-- **C16**: after every history no two orders share an id and no two shards share an id (both stores stay sorted by id) -/
theorem C16_no_two_records_share_an_id (e : Env) (y : Sys) (ops : List Op) (hb : Bnd y.st) :
    ((runOps e y ops).st.orders.map (·.id)).Nodup ∧ ((runOps e y ops).st.shards.map (·.id)).Nodup := by
  have h := Bnd_sorted (C16_ids_over_histories e y ops hb).1
  exact ⟨List.Pairwise.imp (fun hlt => Nat.ne_of_lt hlt) h.1, List.Pairwise.imp (fun hlt => Nat.ne_of_lt hlt) h.2⟩

/-- the invariant is not vacuous: the empty state satisfies it, and so does a state holding records -/
example : Bnd { (default : State) with orders := [], shards := [] } :=
  Bnd_mk (fun x hx => (by cases hx)) (fun x hx => (by cases hx)) List.Pairwise.nil List.Pairwise.nil

example : Bnd { (default : State) with orders := [{ (default : Order) with id := 3 }], orderCount := some 4,
                                        shards := [{ (default : Shard) with id := 6 }], shardCount := 9 } :=
  Bnd_mk (by intro x hx; simp at hx; subst hx; decide) (by intro x hx; simp at hx; subst hx; decide) (by simp) (by simp)

end SaoVerif
