import SaoVerif.Proofs.Fixed2
import SaoVerif.Properties.C16
/-!
# C16 — how the committed history of a model grows

"… the committed history of a model is a single chain in which each entry was the latest when its successor was accepted;
a force-push replaces only the latest entry."

`C16_update_appends_one_version`: the first completion of a regular update (operation 1) appends exactly one entry — the
order's commit stamped with the current height — to the model's history and the order's id to its order list, and makes it
the current commit; no earlier entry is touched. `C16_force_push_replaces_only_latest`: the first completion of a force-push
(operation 2) leaves the history without its last entry plus the new one: every earlier entry is kept in place.
(`C16_attach_requires_base` is the other half: the request was accepted only on the latest commit.)
-/
namespace SaoVerif

theorem resetMetaDuration_fields (s s' : State) (m m' : Metadata) (h : resetMetaDuration s m = .ok (s', m')) :
    m'.commits = m.commits ∧ m'.orders = m.orders ∧ m'.commit = m.commit ∧ m'.dataId = m.dataId ∧ m'.cid = m.cid := by
  unfold resetMetaDuration at h
  simp only [bind, Except.bind, pure, Except.pure] at h
  repeat' (split at h)
  all_goals (try simp only [Except.ok.injEq, Prod.mk.injEq, reduceCtorEq] at h)
  all_goals (first | (obtain ⟨_, h2⟩ := h; rw [← h2]; exact ⟨rfl, rfl, rfl, rfl, rfl⟩) | skip)

/-- the model record after the first completion of a regular update -/
def upd1 (m : Metadata) (o : Order) (ht : Int) : Metadata :=
  { m with cid := o.cid, commit := o.commit, commits := m.commits ++ [versionOf o.commit ht], orders := m.orders ++ [o.id], status := MetaComplete }

theorem C16_update_appends_one_version (e : Env) (s s' : State) (o : Order) (m : Metadata)
    (hm : s.getMeta o.dataId = some m) (hop : o.operation = 1) (h : updateMeta e s o = .ok (s', none)) :
    ∃ m', s'.getMeta o.dataId = some m' ∧ m'.commits = m.commits ++ [versionOf o.commit s.h] ∧
      m'.orders = m.orders ++ [o.id] ∧ m'.commit = o.commit ∧ m'.status = MetaComplete := by
  have hd := getMeta_dataId s o.dataId m hm
  unfold updateMeta at h
  simp only [hm, hop, bind, Except.bind, pure, Except.pure] at h
  repeat' (split at h)
  all_goals (try simp only [Except.ok.injEq, Prod.mk.injEq, reduceCtorEq, and_false, and_true] at h)
  all_goals (try omega)
  all_goals (
    rw [← h]
    have := getMeta_setMeta s (upd1 m o s.h)
    rw [show (upd1 m o s.h).dataId = m.dataId from rfl, hd] at this
    exact ⟨upd1 m o s.h, this, rfl, rfl, rfl, rfl⟩)

def markComplete (m : Metadata) : Metadata := { m with status := MetaComplete }

theorem C16_force_push_replaces_only_latest (e : Env) (s s' : State) (o : Order) (m : Metadata)
    (hm : s.getMeta o.dataId = some m) (hop : o.operation = 2) (h : updateMeta e s o = .ok (s', none)) :
    ∃ m', s'.getMeta o.dataId = some m' ∧ m'.commits = m.commits.dropLast ++ [versionOf o.commit s.h] ∧
      m'.commit = o.commit ∧ m'.status = MetaComplete ∧ m.commits ≠ [] := by
  have hd := getMeta_dataId s o.dataId m hm
  have h1 : ¬ o.operation = 1 := by omega
  unfold updateMeta at h
  simp only [hm, hop, bind, Except.bind, pure, Except.pure] at h
  split at h
  · simp at h
  · split at h
    · simp at h
    · simp only [show ¬ ((2 : Nat) = 1) by decide, if_false, if_true] at h
      split at h
      rotate_left
      · simp [throw, throwThe, MonadExceptOf.throw] at h
      · rename_i lastV hlast
        have hne : m.commits ≠ [] := by
          intro hnil; rw [hnil] at hlast; simp at hlast
        have hlen : m.commits.length > 0 := List.length_pos_iff.mpr hne
        split at h
        · cases h
        · rename_i v hv
          obtain ⟨s1, orders, shardSet, err⟩ := v
          have hfix := updateMetaLoop_fixed _ _ _ _ _ _ _ _ hv
          have hh : s1.h = s.h := by
            have := congrArg (fun x => x.2.2.1) hfix; simpa [fixedPart] using this
          simp only at h
          split at h
          · simp at h
          · split at h
            · cases h
            · rename_i w hw
              obtain ⟨s2, m2⟩ := w
              simp only [Except.ok.injEq, Prod.mk.injEq, and_true] at h
              obtain ⟨c1, _, c3, c4, _⟩ := resetMetaDuration_fields _ _ _ _ hw
              have hshh : ∀ (l : List Nat) (y : State), (l.foldl (fun s id => s.removeShard id) y).h = y.h := by
                intro l; induction l with
                | nil => intro y; rfl
                | cons a t ih => intro y; simp only [List.foldl_cons]; rw [ih]; rfl
              have key := getMeta_setMeta s2 (markComplete m2)
              have hmm : (markComplete m2).dataId = o.dataId := by
                show m2.dataId = o.dataId
                rw [c4]; exact hd
              rw [hmm] at key
              simp only [hlen, if_true] at c1
              rw [← h]
              refine ⟨markComplete m2, key, ?_, c3, rfl, hne⟩
              show m2.commits = _
              rw [c1, hshh, hh]

end SaoVerif
