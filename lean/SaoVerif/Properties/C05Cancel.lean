import SaoVerif.Proofs.Os
import SaoVerif.Properties.C05
/-!
# C05 — a cancelled order's shards all disappear

"… All of the order's shards and the order itself disappear …"

`C05_cancel_removes_every_listed_shard`: the shard loop of Cancel removes *every* shard the order lists, whatever its status
— waiting, migrating, timed out and handed to a replacement, or (were it possible) stored — and nothing it does afterwards
in the loop brings one back: after it, none of the listed ids names a shard. (The seeded changes C05-8 and C13-8 narrowed the
removal to some statuses and left timed-out shards behind.)
-/
namespace SaoVerif

theorem getShard_removeShard_none (s : State) (i j : Nat) (h : s.getShard j = none) : (s.removeShard i).getShard j = none := by
  unfold State.getShard State.removeShard at *
  simp only
  apply List.find?_eq_none.mpr
  intro x hx
  have hx' : x ∈ s.shards := (List.mem_filter.mp hx).1
  exact List.find?_eq_none.mp h x hx'

theorem getShard_removeShard_self (s : State) (i : Nat) : (s.removeShard i).getShard i = none := by
  unfold State.getShard State.removeShard
  simp only
  apply List.find?_eq_none.mpr
  intro x hx
  have := (List.mem_filter.mp hx).2
  simpa using this

theorem getShard_of_os {s s' : State} (h : osPart s' = osPart s) (j : Nat) : s'.getShard j = s.getShard j := by
  unfold osPart at h
  simp only [Prod.mk.injEq] at h
  unfold State.getShard; rw [h.2.2.1]

theorem cancelLoop_keeps_absent (e : Env) (l : List Nat) (s s' : State) (j : Nat) (hj : s.getShard j = none)
    (h : saoCancelBody.loop e l s = .ok s') : s'.getShard j = none := by
  induction l generalizing s with
  | nil =>
    unfold saoCancelBody.loop at h
    simp only [pure, Except.pure, Except.ok.injEq] at h
    rw [← h]; exact hj
  | cons id t ih =>
    unfold saoCancelBody.loop at h
    simp only [bind, Except.bind] at h
    split at h
    · rename_i sh _
      split at h
      · cases h
      · rename_i s1 hs1
        refine ih _ (getShard_removeShard_none _ _ _ ?_) h
        split at hs1
        · have := shardRelease_os _ _ _ _ _ _ (softTx_ok hs1)
          rw [getShard_of_os this]; exact hj
        · simp only [pure, Except.pure, Except.ok.injEq] at hs1
          rw [← hs1]; exact hj
    · simp [throw, throwThe, MonadExceptOf.throw] at h

/-- **C05**: after the shard loop of Cancel none of the ids the order listed names a shard -/
theorem C05_cancel_removes_every_listed_shard (e : Env) (l : List Nat) (s s' : State)
    (h : saoCancelBody.loop e l s = .ok s') : ∀ id ∈ l, s'.getShard id = none := by
  induction l generalizing s with
  | nil => intro id hid; cases hid
  | cons i t ih =>
    intro id hid
    unfold saoCancelBody.loop at h
    simp only [bind, Except.bind] at h
    split at h
    · split at h
      · cases h
      · rename_i s1 _
        rcases List.mem_cons.mp hid with rfl | hid
        · exact cancelLoop_keeps_absent e t _ s' _ (getShard_removeShard_self s1 _) h
        · exact ih _ h id hid
    · simp [throw, throwThe, MonadExceptOf.throw] at h

end SaoVerif
