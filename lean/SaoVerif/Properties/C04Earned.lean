import SaoVerif.Properties.C11Income
/-!
# C04 — storage income accrues with bytes × blocks and in no other way

`earned w h` = what a provider's market account has earned up to height `h`: the recorded reward plus its income rate times
the blocks since the last settlement. `C04_release_keeps_earned`: releasing a shard settles and lowers the rate but leaves
`earned` at the current height exactly as it was — nothing is gained or lost by the bookkeeping itself.
`C04_append_keeps_earned`: so does starting a shard at the current height (for an account whose rate is zero whenever it
stores nothing — the state clause `workerAgrees`). `C04_earned_grows_by_rate`: between two heights with no operation on the
account, `earned` grows by rate × blocks, i.e. by Σ (unit price × size) × blocks over its stored shards. Together these are
the inductive content of the monitored step clause `incomeContinuous`: income is bytes × blocks × price, and only that.
-/
namespace SaoVerif

def earned (w : Worker) (h : Int) : Dec := w.reward + Dec.mulInt w.incomePerSecond (h - w.lastRewardAt)

theorem C04_earned_grows_by_rate (w : Worker) (h1 h2 : Int) :
    earned w h2 = earned w h1 + Dec.mulInt w.incomePerSecond (h2 - h1) := by
  unfold earned Dec.mulInt
  show (w.reward : Int) + (w.incomePerSecond : Int) * (h2 - w.lastRewardAt) =
    (w.reward : Int) + (w.incomePerSecond : Int) * (h1 - w.lastRewardAt) + (w.incomePerSecond : Int) * (h2 - h1)
  rw [Int.add_assoc, ← Int.mul_add]
  congr 2
  omega

theorem C04_release_keeps_earned (s : State) (o : Order) (sh : Shard) (w : Worker) :
    earned (releasedWorker s o sh w) s.h = earned w s.h := by
  unfold earned releasedWorker Dec.mulInt
  simp only [Int.sub_self, Int.mul_zero, Int.add_zero]

theorem C04_release_step_keeps_earned (s : State) (o : Order) (sh : Shard) (w : Worker) (hw : s.getWorker sh.sp = some w) :
    ∃ w', (workerRelease s o sh).1.getWorker sh.sp = some w' ∧ earned w' s.h = earned w s.h := by
  rw [workerRelease_eq s o sh w hw]
  have hsp : (releasedWorker s o sh w).sp = sh.sp := by
    rw [(releasedWorker_fields s o sh w).2.2]
    unfold State.getWorker at hw
    have := List.find?_some hw
    simpa using this
  refine ⟨releasedWorker s o sh w, ?_, C04_release_keeps_earned s o sh w⟩
  have := getWorker_setWorker s (releasedWorker s o sh w)
  rw [hsp] at this
  exact this

/-- the market account after a shard starts at the current height -/
def appendedWorker (s : State) (o : Order) (sh : Shard) (w : Worker) : Worker :=
  { w with
    reward := w.reward + (if w.storage > 0 then Dec.mulInt (Dec.mulInt o.unitPrice (toI64 sh.size)) (s.h - toI64 sh.createdAt) +
                 Dec.mulInt w.incomePerSecond (s.h - w.lastRewardAt)
               else Dec.mulInt (Dec.mulInt o.unitPrice (toI64 sh.size)) (s.h - toI64 sh.createdAt))
    lastRewardAt := s.h
    storage := addU64 w.storage sh.size
    incomePerSecond := w.incomePerSecond + Dec.mulInt o.unitPrice (toI64 sh.size) }

theorem workerAppend_eq (s : State) (o : Order) (sh : Shard) (w : Worker) (hw : s.getWorker sh.sp = some w) :
    workerAppend s o sh = s.setWorker (appendedWorker s o sh w) := by
  unfold workerAppend appendedWorker
  rw [hw]
  rfl

theorem C04_append_keeps_earned (s : State) (o : Order) (sh : Shard) (w : Worker)
    (hnow : toI64 sh.createdAt = s.h) (hidle : w.storage = 0 → w.incomePerSecond = 0) :
    earned (appendedWorker s o sh w) s.h = earned w s.h := by
  unfold earned appendedWorker Dec.mulInt
  simp only [hnow, Int.sub_self, Int.mul_zero, Int.add_zero, Int.zero_add]
  split
  · rfl
  · rename_i h0
    have : w.storage = 0 := by omega
    rw [hidle this]
    simp

end SaoVerif
