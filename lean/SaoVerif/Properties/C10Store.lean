import SaoVerif.Properties.C10
/-!
# C10 — who an order is charged to

"… an order is charged to the owner DID's payment address only when the owner-signed request is submitted by the gateway it
names or by an account bound to the owner, and to a sponsor's address only when the sponsor itself submits it."

`storePayer` and `storeActor` are the two decisions of `Store` about the sender (stages of `storeGuards`):
* `C10_sponsor_is_the_sender`: a request is charged to a sponsor only when the payment DID is a key DID whose registered
  payment address *is the sender of the message* — nothing the sender declares (the provider field in particular) stands in
  for that (the seeded changes C10-5, C10-6);
* `C10_owner_pays_only_via_bound_account_or_named_gateway`: without a sponsor the request is accepted only from an account
  bound to the owner DID, or from the gateway the signed request names: that gateway's own account with the provider field
  naming it, or an address that gateway registered (the seeded changes C10-1, C10-3).
-/
namespace SaoVerif

theorem C10_sponsor_is_the_sender (s : State) (m : StoreMsg) (a : Addr) (h : storePayer s m = .ok (some a)) :
    a = m.creator ∧ m.p.paymentDid.isKey = true ∧ s.paymentAddress m.p.paymentDid = some a := by
  unfold storePayer at h
  simp only [bind, Except.bind, pure, Except.pure, throw, throwThe, MonadExceptOf.throw] at h
  repeat' (split at h)
  all_goals (first | cases h | skip)
  all_goals (try simp only [Except.ok.injEq, Option.some.injEq] at h)
  all_goals grind

theorem C10_no_sponsor_means_none_named (s : State) (m : StoreMsg) (h : storePayer s m = .ok none) : m.p.paymentDid = 0 := by
  unfold storePayer at h
  simp only [bind, Except.bind, pure, Except.pure, throw, throwThe, MonadExceptOf.throw] at h
  repeat' (split at h)
  all_goals (first | cases h | skip)
  all_goals grind

theorem C10_owner_pays_only_via_bound_account_or_named_gateway (s : State) (m : StoreMsg) (prov : Addr) (b : Bool)
    (h : storeActor s m prov none = .ok b) :
    creatorBound s m.creator m.p.owner = true ∨
    (prov = m.creator ∧ m.msgProvider = m.creator) ∨
    (prov = m.msgProvider ∧ ∃ n, s.getNode m.msgProvider = some n ∧ n.txAddresses.contains m.creator = true) := by
  unfold storeActor at h
  by_cases hb : creatorBound s m.creator m.p.owner = true
  · exact Or.inl hb
  · right
    simp only [hb, Bool.false_eq_true, ↓reduceIte] at h
    by_cases h1 : (prov = m.creator ∧ m.msgProvider = m.creator)
    · exact Or.inl h1
    · right
      by_cases h2 : prov = m.msgProvider
      · refine ⟨h2, ?_⟩
        cases hn : s.getNode m.msgProvider with
        | none =>
          exfalso
          simp [hn, h2, pure, Except.pure, throw, throwThe, MonadExceptOf.throw] at h
          all_goals simp_all
        | some n =>
          by_cases hc : n.txAddresses.contains m.creator = true
          · exact ⟨n, rfl, hc⟩
          · exfalso
            simp [hn, h2, pure, Except.pure, throw, throwThe, MonadExceptOf.throw] at h
            all_goals simp_all
      · exfalso
        simp [h1, h2, pure, Except.pure, throw, throwThe, MonadExceptOf.throw] at h

end SaoVerif
