import SaoVerif.Proofs.DidReg
/-!
# C17 — the DID registry's tables agree after every history

"An account is bound to at most one DID and appears in that DID's account list exactly while bound … A sid DID's payment
address is always one of its currently bound accounts on this chain and that account cannot be unbound."

`Reg d` collects what the six tables of the registry must satisfy together: bindings are unique per account (`unique`);
a DID's account list has no duplicates (`nodup`), every accountDid it lists has a stored account id and a binding of
that account to that DID (`backed`), is listed by no other DID (`one`), has an authentication entry (`auth`), and two
listed accountDids never stand for the same account (`inj`); conversely every binding is listed by its DID (`listed`).
`SidPay d`: a sid DID's payment address is the chain address of one of its bindings.

Binding, Update and UpdatePaymentAddress preserve both (`binding_keeps_reg`, `update_keeps_reg`, … — the Update case
needs the counting argument `updatePre1_remove_subset`: the remove list of an accepted Update lies inside the DID's own
list, so no other DID's binding can be removed, the defect class of seeds C17-1 / C17-4), no other operation touches the
registry, hence they hold after every history (`C17_registry_agrees_over_histories`, `C17_sid_payaddr_over_histories`).

Input assumption of the `SidPay` theorems (`opWfIn`, evaluated by the driver on every operation of every correspondence
run, monitor `inputWf`): the description of an account id that accompanies a message (network, chain, address) is the one
the registry recorded for that account id, and a cosmos address of this chain is not the empty address.
-/
namespace SaoVerif

structure Reg (d : DidState) : Prop where
  unique : AccUnique d
  nodup : ∀ did ads, Map.find? d.accountList did = some ads → ads.Nodup
  backed : ∀ did ads, Map.find? d.accountList did = some ads → ∀ ad ∈ ads,
    ∃ acc, Map.find? d.accountId ad = some acc ∧ ∃ x ∈ d.did, x.accountId = acc ∧ x.did = did
  one : ∀ did1 did2 ads1 ads2 ad, Map.find? d.accountList did1 = some ads1 → Map.find? d.accountList did2 = some ads2 →
    ad ∈ ads1 → ad ∈ ads2 → did1 = did2
  auth : ∀ did ads ad, Map.find? d.accountList did = some ads → ad ∈ ads → (Map.find? d.accountAuth ad).isSome = true
  listed : ∀ x ∈ d.did, ∃ ads, Map.find? d.accountList x.did = some ads ∧ ∃ ad ∈ ads, Map.find? d.accountId ad = some x.accountId
  inj : ∀ did ads a1 a2, Map.find? d.accountList did = some ads → a1 ∈ ads → a2 ∈ ads →
    Map.find? d.accountId a1 = Map.find? d.accountId a2 → a1 = a2

/-! ### Binding -/
theorem binding_accountList (d : DidState) (m : BindingMsg) :
    (bindingApply d m).accountList = Map.set d.accountList m.did ((Map.find? d.accountList m.did).getD [] ++ [m.accountDid]) := by
  unfold bindingApply
  simp only
  repeat' split
  all_goals simp_all

theorem binding_accountAuth (d : DidState) (m : BindingMsg) :
    (bindingApply d m).accountAuth = Map.set d.accountAuth m.accountDid m.auth := by
  unfold bindingApply
  simp only
  repeat' split
  all_goals simp_all

theorem binding_accountId (d : DidState) (m : BindingMsg) :
    (bindingApply d m).accountId =
      if (Map.find? d.accountId m.accountDid).isNone then Map.set d.accountId m.accountDid m.acc.raw else d.accountId := by
  unfold bindingApply
  simp only
  repeat' split
  all_goals simp_all

/-- what an accepted Binding has checked about the accountDid it adds -/
theorem bindingPre_facts (d : DidState) (m : BindingMsg) (h : bindingPre d m = none) :
    m.accountDid ∉ (Map.find? d.accountList m.did).getD [] ∧ Map.find? d.accountAuth m.accountDid = none ∧
    (∀ v, Map.find? d.accountId m.accountDid = some v → v = m.acc.raw) ∧ d.getDid m.acc.raw = none := by
  unfold bindingPre at h
  split at h; · cases h
  split at h; · cases h
  split at h; · cases h
  split at h; · cases h
  rename_i h1
  split at h; · cases h
  rename_i h2
  split at h; · cases h
  rename_i h3
  split at h; · cases h
  rename_i h4
  refine ⟨by simpa using h1, ?_, ?_, ?_⟩
  · cases hf : Map.find? d.accountAuth m.accountDid with
    | none => rfl
    | some x => simp [hf] at h2
  · intro v hv; rw [hv] at h3; simpa using h3
  · cases hf : d.getDid m.acc.raw with
    | none => rfl
    | some x => simp [hf] at h4

/-- the stored account id of an accountDid after a Binding: the new one names the bound account, the others keep theirs -/
theorem binding_accountId_find (d : DidState) (m : BindingMsg) (h : bindingPre d m = none) (ad : Bytes) :
    Map.find? (bindingApply d m).accountId ad = if ad = m.accountDid then some m.acc.raw else Map.find? d.accountId ad := by
  rw [binding_accountId]
  have hf := (bindingPre_facts d m h).2.2.1
  by_cases hd : ad = m.accountDid
  · subst hd
    simp only [↓reduceIte]
    cases hv : Map.find? d.accountId m.accountDid with
    | none => simp [Map.find?_set_self']
    | some v => simp [hv, hf v hv]
  · simp only [hd, ↓reduceIte]
    split
    · exact Map.find?_set_other' _ _ _ _ hd
    · rfl

theorem find?_did_mem (l : List DidEntry) (a : Bytes) (h : l.find? (·.accountId = a) = none) : ∀ x ∈ l, x.accountId ≠ a := by
  intro x hx hxa
  have := List.find?_eq_none.mp h x hx
  simp [hxa] at this

theorem binding_keeps_reg (d : DidState) (m : BindingMsg) (h : bindingPre d m = none) (hr : Reg d) : Reg (bindingApply d m) := by
  obtain ⟨hnl, hna, _, hnb⟩ := bindingPre_facts d m h
  have hnb : ∀ x ∈ d.did, x.accountId ≠ m.acc.raw := find?_did_mem _ _ hnb
  have hlist : ∀ did ads, Map.find? (bindingApply d m).accountList did = some ads →
      (did = m.did ∧ ads = (Map.find? d.accountList m.did).getD [] ++ [m.accountDid]) ∨
      (did ≠ m.did ∧ Map.find? d.accountList did = some ads) := by
    intro did ads hf
    rw [binding_accountList] at hf
    by_cases hd : did = m.did
    · subst hd; rw [Map.find?_set_self'] at hf; cases hf; exact Or.inl ⟨rfl, rfl⟩
    · rw [Map.find?_set_other' _ _ _ _ hd] at hf; exact Or.inr ⟨hd, hf⟩
  -- the old list of the DID, as a looked-up value
  have hold : ∀ a ∈ (Map.find? d.accountList m.did).getD [], ∃ ads, Map.find? d.accountList m.did = some ads ∧ a ∈ ads := by
    intro a ha
    cases hf : Map.find? d.accountList m.did with
    | none => rw [hf] at ha; cases ha
    | some ads => rw [hf] at ha; exact ⟨ads, rfl, ha⟩
  -- the accountDid being added is listed nowhere yet
  have hfresh : ∀ did ads, Map.find? d.accountList did = some ads → m.accountDid ∉ ads := by
    intro did ads hf hm
    have := hr.auth did ads _ hf hm
    rw [hna] at this; cases this
  have hmemdid : ∀ x, x ∈ (bindingApply d m).did ↔ x ∈ d.did ∨ x = bindingEntry m := by
    intro x; rw [C17_binding_appends]; simp
  -- an old listed accountDid keeps its stored account id
  have hkeep : ∀ did ads, Map.find? d.accountList did = some ads → ∀ ad ∈ ads,
      Map.find? (bindingApply d m).accountId ad = Map.find? d.accountId ad := by
    intro did ads hf ad had
    rw [binding_accountId_find d m h]
    have : ad ≠ m.accountDid := by intro he; subst he; exact hfresh did ads hf had
    simp [this]
  have hnew : Map.find? (bindingApply d m).accountId m.accountDid = some m.acc.raw := by
    rw [binding_accountId_find d m h]; simp
  constructor
  · -- unique
    unfold AccUnique
    rw [C17_binding_appends]
    simp only [List.map_append, List.map_cons, List.map_nil, bindingEntry]
    refine List.nodup_append.mpr ⟨hr.unique, by simp, ?_⟩
    intro a ha b hb
    simp only [List.mem_singleton] at hb
    subst hb
    intro hab; subst hab
    obtain ⟨x, hx, hxa⟩ := List.mem_map.mp ha
    exact hnb x hx hxa
  · -- nodup
    intro did ads hf
    rcases hlist did ads hf with ⟨_, rfl⟩ | ⟨_, hf'⟩
    · refine List.nodup_append.mpr ⟨?_, by simp, ?_⟩
      · cases hf2 : Map.find? d.accountList m.did with
        | none => simp
        | some l => exact hr.nodup _ _ hf2
      · intro a ha b hb
        simp only [List.mem_singleton] at hb
        subst hb
        intro hab; subst hab; exact hnl ha
    · exact hr.nodup _ _ hf'
  · -- backed
    intro did ads hf ad had
    rcases hlist did ads hf with ⟨rfl, rfl⟩ | ⟨_, hf'⟩
    · rcases List.mem_append.mp had with had | had
      · obtain ⟨l, hl, hal⟩ := hold ad had
        obtain ⟨acc, h1, x, hx, h2, h3⟩ := hr.backed _ _ hl ad hal
        exact ⟨acc, by rw [hkeep _ _ hl ad hal]; exact h1, x, (hmemdid x).mpr (Or.inl hx), h2, h3⟩
      · simp only [List.mem_singleton] at had
        subst had
        exact ⟨m.acc.raw, hnew, bindingEntry m, (hmemdid _).mpr (Or.inr rfl), rfl, rfl⟩
    · obtain ⟨acc, h1, x, hx, h2, h3⟩ := hr.backed _ _ hf' ad had
      exact ⟨acc, by rw [hkeep _ _ hf' ad had]; exact h1, x, (hmemdid x).mpr (Or.inl hx), h2, h3⟩
  · -- one
    intro did1 did2 ads1 ads2 ad hf1 hf2 h1 h2
    rcases hlist did1 ads1 hf1 with ⟨rfl, rfl⟩ | ⟨hd1, hf1'⟩ <;> rcases hlist did2 ads2 hf2 with ⟨rfl, rfl⟩ | ⟨hd2, hf2'⟩
    · rfl
    · rcases List.mem_append.mp h1 with h1 | h1
      · obtain ⟨l, hl, hal⟩ := hold ad h1
        exact hr.one _ _ _ _ ad hl hf2' hal h2
      · simp only [List.mem_singleton] at h1
        subst h1; exact absurd h2 (hfresh _ _ hf2')
    · rcases List.mem_append.mp h2 with h2 | h2
      · obtain ⟨l, hl, hal⟩ := hold ad h2
        exact hr.one _ _ _ _ ad hf1' hl h1 hal
      · simp only [List.mem_singleton] at h2
        subst h2; exact absurd h1 (hfresh _ _ hf1')
    · exact hr.one _ _ _ _ ad hf1' hf2' h1 h2
  · -- auth
    intro did ads ad hf had
    rw [binding_accountAuth]
    by_cases he : ad = m.accountDid
    · subst he; rw [Map.find?_set_self']; rfl
    · rw [Map.find?_set_other' _ _ _ _ he]
      rcases hlist did ads hf with ⟨rfl, rfl⟩ | ⟨_, hf'⟩
      · rcases List.mem_append.mp had with had | had
        · obtain ⟨l, hl, hal⟩ := hold ad had
          exact hr.auth _ _ _ hl hal
        · simp only [List.mem_singleton] at had; exact absurd had he
      · exact hr.auth _ _ _ hf' had
  · -- listed
    intro x hx
    rcases (hmemdid x).mp hx with hx | rfl
    · obtain ⟨ads, hf, ad, had, hid⟩ := hr.listed x hx
      by_cases hd : x.did = m.did
      · refine ⟨(Map.find? d.accountList m.did).getD [] ++ [m.accountDid], ?_, ad, ?_, ?_⟩
        · rw [binding_accountList, hd, Map.find?_set_self']
        · rw [hd] at hf; rw [hf]; exact List.mem_append_left _ had
        · rw [hkeep _ _ hf ad had]; exact hid
      · refine ⟨ads, ?_, ad, had, ?_⟩
        · rw [binding_accountList, Map.find?_set_other' _ _ _ _ hd]; exact hf
        · rw [hkeep _ _ hf ad had]; exact hid
    · refine ⟨(Map.find? d.accountList m.did).getD [] ++ [m.accountDid], ?_, m.accountDid, List.mem_append_right _ (List.mem_singleton.mpr rfl), hnew⟩
      rw [binding_accountList]; exact Map.find?_set_self' _ _ _
  · -- inj
    intro did ads a1 a2 hf h1 h2 heq
    -- an old listed accountDid cannot stand for the account being bound: that account had no binding
    have hnot : ∀ l, Map.find? d.accountList m.did = some l → ∀ a ∈ l, Map.find? d.accountId a ≠ some m.acc.raw := by
      intro l hl a ha hfa
      obtain ⟨acc, h1, x, hx, h2, _⟩ := hr.backed _ _ hl a ha
      rw [hfa] at h1; cases h1
      exact hnb x hx h2
    rcases hlist did ads hf with ⟨rfl, rfl⟩ | ⟨_, hf'⟩
    · rcases List.mem_append.mp h1 with h1 | h1 <;> rcases List.mem_append.mp h2 with h2 | h2
      · obtain ⟨l, hl, hal1⟩ := hold a1 h1
        have hal2 : a2 ∈ l := by rw [hl] at h2; exact h2
        rw [hkeep _ _ hl a1 hal1, hkeep _ _ hl a2 hal2] at heq
        exact hr.inj _ _ _ _ hl hal1 hal2 heq
      · simp only [List.mem_singleton] at h2
        subst h2
        obtain ⟨l, hl, hal1⟩ := hold a1 h1
        rw [hkeep _ _ hl a1 hal1, hnew] at heq
        exact absurd heq (hnot l hl a1 hal1)
      · simp only [List.mem_singleton] at h1
        subst h1
        obtain ⟨l, hl, hal2⟩ := hold a2 h2
        rw [hkeep _ _ hl a2 hal2, hnew] at heq
        exact absurd heq.symm (hnot l hl a2 hal2)
      · simp only [List.mem_singleton] at h1 h2
        rw [h1, h2]
    · rw [hkeep _ _ hf' a1 h1, hkeep _ _ hf' a2 h2] at heq
      exact hr.inj _ _ _ _ hf' h1 h2 heq

/-! ### Update -/
theorem unique_entry (l : List DidEntry) (hu : (l.map (·.accountId)).Nodup) (x y : DidEntry) (hx : x ∈ l) (hy : y ∈ l)
    (h : x.accountId = y.accountId) : x = y := by
  induction l with
  | nil => cases hx
  | cons a t ih =>
    simp only [List.map_cons, List.nodup_cons] at hu
    rcases List.mem_cons.mp hx with hxa | hxt
    · rcases List.mem_cons.mp hy with hya | hyt
      · rw [hxa, hya]
      · exfalso; apply hu.1; rw [← hxa, h]; exact List.mem_map_of_mem hyt
    · rcases List.mem_cons.mp hy with hya | hyt
      · exfalso; apply hu.1; rw [← hya, ← h]; exact List.mem_map_of_mem hxt
      · exact ih hu.2 hxt hyt

theorem foldl_set_isSome (u : List (Bytes × StrId)) (a : Map Bytes StrId) (k : Bytes) (h : (Map.find? a k).isSome = true) :
    (Map.find? (u.foldl (fun acc (x : Bytes × StrId) => Map.set acc x.1 x.2) a) k).isSome = true := by
  induction u generalizing a with
  | nil => exact h
  | cons x t ih =>
    simp only [List.foldl_cons]
    apply ih
    by_cases hk : k = x.1
    · subst hk; rw [Map.find?_set_self']; rfl
    · rw [Map.find?_set_other' _ _ _ _ hk]; exact h

theorem update_keeps_reg (s s' : State) (m : DidUpdateMsg) (h : didUpdate s m = .ok s') (hr : Reg s.did) : Reg s'.did := by
  obtain ⟨accList, payAddr, r, hl, _, hp1, hchk, _, rfl⟩ := didUpdate_facts s s' m h
  show Reg (updateApply s.did m accList r)
  generalize s.did = d at *
  obtain ⟨_, c2, c3⟩ := updateChk_spec m d payAddr m.remove [] r hchk
  have c3 : ∀ id ∈ r, ∃ a ∈ m.remove, Map.find? d.accountId a = some id := by
    intro id hid
    rcases c3 id hid with h0 | ⟨a, ha, hfa, _⟩
    · cases h0
    · exact ⟨a, ha, hfa⟩
  have hK := updatePre1_remove_subset d m accList hp1 (hr.nodup _ _ hl)
  obtain ⟨hLn, hLm⟩ := foldl_erase_nodup m.remove accList (hr.nodup _ _ hl)
  -- the four tables after the update
  have e1 : (updateApply d m accList r).did = d.did.filter (fun x => !r.contains x.accountId) := rfl
  have e2 : (updateApply d m accList r).accountId = m.remove.foldl (fun acc a => Map.erase acc a) d.accountId := rfl
  have e3 : (updateApply d m accList r).accountAuth =
      m.remove.foldl (fun acc a => Map.erase acc a) (m.update.foldl (fun acc (u : Bytes × StrId) => Map.set acc u.1 u.2) d.accountAuth) := rfl
  have e4 : (updateApply d m accList r).accountList = Map.set d.accountList m.did (m.remove.foldl (fun l a => l.erase a) accList) := rfl
  have hmem : ∀ x, x ∈ (updateApply d m accList r).did ↔ x ∈ d.did ∧ x.accountId ∉ r := by
    intro x; rw [e1]; simp [List.mem_filter]
  have hid : ∀ ad, ad ∉ m.remove → Map.find? (updateApply d m accList r).accountId ad = Map.find? d.accountId ad := by
    intro ad had; rw [e2, Map.find?_foldl_erase]; simp [had]
  have hlist : ∀ did ads, Map.find? (updateApply d m accList r).accountList did = some ads →
      (did = m.did ∧ ads = m.remove.foldl (fun l a => l.erase a) accList) ∨ (did ≠ m.did ∧ Map.find? d.accountList did = some ads) := by
    intro did ads hf
    rw [e4] at hf
    by_cases hd : did = m.did
    · subst hd; rw [Map.find?_set_self'] at hf; cases hf; exact Or.inl ⟨rfl, rfl⟩
    · rw [Map.find?_set_other' _ _ _ _ hd] at hf; exact Or.inr ⟨hd, hf⟩
  -- an accountDid listed by another DID is not on the remove list
  have hforeign : ∀ did ads, did ≠ m.did → Map.find? d.accountList did = some ads → ∀ ad ∈ ads, ad ∉ m.remove := by
    intro did ads hd hf ad had hrem
    exact hd (hr.one _ _ _ _ ad hf hl had (hK ad hrem))
  -- a binding of another DID survives
  have hsurv_other : ∀ x ∈ d.did, x.did ≠ m.did → x.accountId ∉ r := by
    intro x hx hd hxr
    obtain ⟨a, ha, hfa⟩ := c3 _ hxr
    obtain ⟨acc, h1, x', hx', h2, h3⟩ := hr.backed _ _ hl a (hK a ha)
    rw [hfa] at h1; cases h1
    have := unique_entry _ hr.unique x x' hx hx' h2.symm
    subst this; exact hd h3
  -- the account of a listed accountDid that stays is not among the removed accounts
  have hsurv_listed : ∀ ad ∈ accList, ad ∉ m.remove → ∀ acc, Map.find? d.accountId ad = some acc → acc ∉ r := by
    intro ad had hnr acc hfa hxr
    obtain ⟨a, ha, hfa'⟩ := c3 _ hxr
    have := hr.inj _ _ ad a hl had (hK a ha) (by rw [hfa, hfa'])
    subst this; exact hnr ha
  constructor
  · -- unique
    unfold AccUnique; rw [e1]
    exact List.Nodup.sublist (List.Sublist.map _ List.filter_sublist) hr.unique
  · -- nodup
    intro did ads hf
    rcases hlist did ads hf with ⟨_, rfl⟩ | ⟨_, hf'⟩
    · exact hLn
    · exact hr.nodup _ _ hf'
  · -- backed
    intro did ads hf ad had
    rcases hlist did ads hf with ⟨rfl, rfl⟩ | ⟨hd, hf'⟩
    · obtain ⟨hin, hnr⟩ := (hLm ad).mp had
      obtain ⟨acc, h1, x, hx, h2, h3⟩ := hr.backed _ _ hl ad hin
      exact ⟨acc, by rw [hid ad hnr]; exact h1, x, (hmem x).mpr ⟨hx, by rw [h2]; exact hsurv_listed ad hin hnr acc h1⟩, h2, h3⟩
    · have hnr := hforeign did ads hd hf' ad had
      obtain ⟨acc, h1, x, hx, h2, h3⟩ := hr.backed _ _ hf' ad had
      exact ⟨acc, by rw [hid ad hnr]; exact h1, x, (hmem x).mpr ⟨hx, hsurv_other x hx (by rw [h3]; exact hd)⟩, h2, h3⟩
  · -- one
    intro did1 did2 ads1 ads2 ad hf1 hf2 h1 h2
    rcases hlist did1 ads1 hf1 with ⟨rfl, rfl⟩ | ⟨hd1, hf1'⟩ <;> rcases hlist did2 ads2 hf2 with ⟨rfl, rfl⟩ | ⟨hd2, hf2'⟩
    · rfl
    · exact hr.one _ _ _ _ ad hl hf2' ((hLm ad).mp h1).1 h2
    · exact hr.one _ _ _ _ ad hf1' hl h1 ((hLm ad).mp h2).1
    · exact hr.one _ _ _ _ ad hf1' hf2' h1 h2
  · -- auth
    intro did ads ad hf had
    have key : ad ∉ m.remove → (Map.find? d.accountAuth ad).isSome = true →
        (Map.find? (updateApply d m accList r).accountAuth ad).isSome = true := by
      intro hnr hsome
      rw [e3, Map.find?_foldl_erase]
      simp only [hnr, ↓reduceIte]
      exact foldl_set_isSome _ _ _ hsome
    rcases hlist did ads hf with ⟨rfl, rfl⟩ | ⟨hd, hf'⟩
    · obtain ⟨hin, hnr⟩ := (hLm ad).mp had
      exact key hnr (hr.auth _ _ _ hl hin)
    · exact key (hforeign did ads hd hf' ad had) (hr.auth _ _ _ hf' had)
  · -- listed
    intro x hx
    obtain ⟨hx, hxr⟩ := (hmem x).mp hx
    obtain ⟨ads, hf, ad, had, hfa⟩ := hr.listed x hx
    by_cases hd : x.did = m.did
    · rw [hd] at hf; rw [hl] at hf; cases hf
      have hnr : ad ∉ m.remove := by
        intro hrem
        obtain ⟨id, h1, h2⟩ := c2 ad hrem
        rw [hfa] at h1; cases h1; exact hxr h2
      refine ⟨_, by rw [e4, ← hd]; exact Map.find?_set_self' _ _ _, ad, (hLm ad).mpr ⟨had, hnr⟩, ?_⟩
      rw [hid ad hnr]; exact hfa
    · refine ⟨ads, by rw [e4, Map.find?_set_other' _ _ _ _ hd]; exact hf, ad, had, ?_⟩
      rw [hid ad (hforeign _ _ hd hf ad had)]; exact hfa
  · -- inj
    intro did ads a1 a2 hf h1 h2 heq
    rcases hlist did ads hf with ⟨rfl, rfl⟩ | ⟨hd, hf'⟩
    · obtain ⟨i1, n1⟩ := (hLm a1).mp h1
      obtain ⟨i2, n2⟩ := (hLm a2).mp h2
      rw [hid a1 n1, hid a2 n2] at heq
      exact hr.inj _ _ _ _ hl i1 i2 heq
    · rw [hid a1 (hforeign _ _ hd hf' a1 h1), hid a2 (hforeign _ _ hd hf' a2 h2)] at heq
      exact hr.inj _ _ _ _ hf' h1 h2 heq

/-- **Update removes only bindings of the DID being updated**: every binding of another DID is still there -/
theorem C17_update_removes_only_own_bindings (s s' : State) (m : DidUpdateMsg) (h : didUpdate s m = .ok s') (hr : Reg s.did)
    (x : DidEntry) (hx : x ∈ s.did.did) (hd : x.did ≠ m.did) : x ∈ s'.did.did := by
  obtain ⟨accList, payAddr, r, hl, _, hp1, hchk, _, rfl⟩ := didUpdate_facts s s' m h
  show x ∈ (updateApply s.did m accList r).did
  have e1 : (updateApply s.did m accList r).did = s.did.did.filter (fun x => !r.contains x.accountId) := rfl
  rw [e1]
  obtain ⟨_, _, c3⟩ := updateChk_spec m s.did payAddr m.remove [] r hchk
  have hK := updatePre1_remove_subset s.did m accList hp1 (hr.nodup _ _ hl)
  have : x.accountId ∉ r := by
    intro hxr
    rcases c3 _ hxr with h0 | ⟨a, ha, hfa, _⟩
    · cases h0
    · obtain ⟨acc, h1, x', hx', h2, h3⟩ := hr.backed _ _ hl a (hK a ha)
      rw [hfa] at h1; cases h1
      have := unique_entry _ hr.unique x x' hx hx' h2.symm
      subst this; exact hd h3
  simp [List.mem_filter, hx, this]

/-! ### UpdatePaymentAddress -/
theorem payaddr_keeps_reg (d : DidState) (m : PayAddrMsg) (hr : Reg d) : Reg (payAddrApply d m) := by
  have e : (payAddrApply d m).did = d.did ∧ (payAddrApply d m).accountList = d.accountList ∧
      (payAddrApply d m).accountId = d.accountId ∧ (payAddrApply d m).accountAuth = d.accountAuth := by
    unfold payAddrApply; split <;> exact ⟨rfl, rfl, rfl, rfl⟩
  obtain ⟨e1, e2, e3, e4⟩ := e
  constructor
  · unfold AccUnique; rw [e1]; exact hr.unique
  · rw [e2]; exact hr.nodup
  · rw [e1, e2, e3]; exact hr.backed
  · rw [e2]; exact hr.one
  · rw [e2, e4]; exact hr.auth
  · rw [e1, e2, e3]; exact hr.listed
  · rw [e2, e3]; exact hr.inj

/-- **C17, for every operation**: the tables of the registry keep agreeing -/
theorem C17_step_keeps_registry (e : Env) (y : Sys) (op : Op) (hr : Reg y.st.did) : Reg (step e y op).2.st.did := by
  by_cases hw : opWf op = true
  · exact did_step_inv Reg (fun d m _ h => payaddr_keeps_reg d m h) (fun d m hp _ h => binding_keeps_reg d m hp h) update_keeps_reg e y op hw hr
  · -- the input assumption plays no part here: a binding is the only operation it constrains
    cases op
    case binding m =>
      show Reg (atomic y.st (didBinding y.st m)).2.did
      unfold atomic
      split
      · rename_i s' hs
        obtain ⟨hpre, rfl⟩ := didBinding_ok _ _ _ hs
        exact binding_keeps_reg _ _ hpre hr
      · split <;> exact hr
    all_goals exact absurd rfl hw

/-- **C17 over histories** -/
theorem C17_registry_agrees_over_histories (e : Env) (y : Sys) (ops : List Op) (hr : Reg y.st.did) :
    Reg (runOps e y ops).st.did := by
  induction ops generalizing y with
  | nil => exact hr
  | cons op t ih => exact ih _ (C17_step_keeps_registry e y op hr)

/-- "appears in that DID's account list exactly while bound", after every history: a binding is listed by its DID, and
    what a DID lists is bound to it -/
theorem C17_listed_iff_bound_over_histories (e : Env) (y : Sys) (ops : List Op) (hr : Reg y.st.did) :
    let d := (runOps e y ops).st.did
    (∀ x ∈ d.did, ∃ ads, Map.find? d.accountList x.did = some ads ∧ ∃ ad ∈ ads, Map.find? d.accountId ad = some x.accountId) ∧
    (∀ did ads, Map.find? d.accountList did = some ads → ∀ ad ∈ ads,
      ∃ acc, Map.find? d.accountId ad = some acc ∧ ∃ x ∈ d.did, x.accountId = acc ∧ x.did = did) := by
  have := C17_registry_agrees_over_histories e y ops hr
  exact ⟨this.listed, this.backed⟩

example : Reg (default : DidState) := by
  constructor
  · exact List.nodup_nil
  all_goals (intros; first | contradiction | (rename_i h; simp [Map.find?] at h) | skip)
  all_goals simp_all [Map.find?]

end SaoVerif
