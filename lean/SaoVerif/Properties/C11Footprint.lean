import SaoVerif.Properties.C16Ids
/-!
# C11 — orders and shards change only through storage messages and the end-blocker

"Once a shard has been completed for a paid duration, the shard … remain on chain … until exactly that many blocks later …
unless the owner or a grantee terminates or force-replaces that version earlier or the provider hands the shard over".

`osPart s` (Proofs/Os.lean) = the order and shard stores with their counters. Only Store, Ready, Complete, Cancel,
Terminate, Renew, Migrate and the end-blocker can change them: node, DID, fault and staking messages, ClaimReward,
UpdataPermission, parameter changes and the begin-blocker leave every order and every shard — its provider, status, term,
collateral and renewals — exactly as it was, for every state, whatever their arguments and outcome
(`C11_shards_change_only_by_storage_messages`), hence over every history made of such operations
(`C11_shards_kept_over_histories`). A stored shard can therefore only disappear, or have its term changed, in one of the
eight operations whose effect on it the handler theorems (`C11_stale_entry_skipped`, `C11_idle_endblock_noop`,
`C11_extend_never_shortens`) and the step monitors `releasedEarly` / `noOverdueShard` speak about.
-/
namespace SaoVerif

theorem atomic_os (s : State) (r : TxM State) (h : ∀ s', r = .ok s' → osPart s' = osPart s) : osPart (atomic s r).2 = osPart s := by
  unfold atomic
  split
  · exact h _ rfl
  · split <;> rfl

theorem blocker_os (s : State) (r : TxM State) (h : ∀ s', r = .ok s' → osPart s' = osPart s) : osPart (blocker s r).2 = osPart s := by
  unfold blocker
  split
  · exact h _ rfl
  · split <;> rfl

/-- the operations that can change an order or a shard -/
def isShardMsg : Op → Bool
  | .store .. => true
  | .ready .. => true
  | .complete .. => true
  | .cancel .. => true
  | .terminate .. => true
  | .renew .. => true
  | .migrate .. => true
  | .end_ => true
  | .genesis => true
  | _ => false

theorem stepC_os (e : Env) (s : State) (op : Op) (hop : isShardMsg op = false) : osPart (stepC e s op).2 = osPart s := by
  cases op
  case store => cases hop
  case ready => cases hop
  case complete => cases hop
  case cancel => cases hop
  case terminate => cases hop
  case renew => cases hop
  case migrate => cases hop
  case end_ => cases hop
  case genesis => cases hop
  case advance to seed => rfl
  case begin_ => exact blocker_os _ _ (fun s' h => begin_os e s s' h)
  case create c => exact atomic_os _ _ (fun s' h => nodeCreate_os e s s' c h)
  case reset m => exact atomic_os _ _ (fun s' h => nodeReset_os e s s' m h)
  case addv c n => exact atomic_os _ _ (fun s' h => nodeAddVstorage_os e s s' c n h)
  case remv c n => exact atomic_os _ _ (fun s' h => nodeRemoveVstorage_os e s s' c n h)
  case claim c =>
    refine atomic_os _ _ (fun s' h => ?_)
    cases hc : nodeClaimReward e s c with
    | error m => rw [hc] at h; cases h
    | ok v =>
      rw [hc] at h
      simp only [Except.map, Except.ok.injEq] at h
      rw [← h]
      exact nodeClaimReward_os e s v.1 c v.2 hc
  case perm c p ow d ro rw sv => exact atomic_os _ _ (fun s' h => saoPermission_os s s' c p ow d ro rw sv h)
  case report c p fs ids => exact atomic_os _ _ (fun s' h => saoReportFaults_os s s' c p fs ids h)
  case recover c p fs ik => exact atomic_os _ _ (fun s' h => saoRecoverFaults_os s s' c p fs ik h)
  case payaddr m => exact atomic_os _ _ (fun s' h => by rw [(didPayAddr_ok s s' m h).2]; rfl)
  case binding m => exact atomic_os _ _ (fun s' h => by rw [(didBinding_ok s s' m h).2]; rfl)
  case didupdate m => exact atomic_os _ _ (fun s' h => by obtain ⟨d, hd⟩ := didUpdate_ok s s' m h; rw [hd]; rfl)
  all_goals rfl

/-- **C11, for every operation and state**: no order and no shard is created, changed or removed by an operation other than
    Store, Ready, Complete, Cancel, Terminate, Renew, Migrate and the end-blocker (and the export / import round trip) -/
theorem C11_shards_change_only_by_storage_messages (e : Env) (y : Sys) (op : Op) (hop : isShardMsg op = false) :
    (step e y op).2.st.shards = y.st.shards ∧ (step e y op).2.st.orders = y.st.orders := by
  have key : osPart (step e y op).2.st = osPart y.st := by
    cases op
    case delegate c v a =>
      simp only [step, stepBase, stakeStep]
      have := delegate_keepsOs e y.st y.global c v a
      unfold keepsOs at this
      split
      · rename_i s' hs; rw [hs] at this; exact this
      · rfl
    case undelegate c v a =>
      simp only [step, stepBase, stakeStep]
      have := undelegate_keepsOs e y.st y.global c v a
      unfold keepsOs at this
      split
      · rename_i s' hs; rw [hs] at this; exact this
      · rfl
    case redelegate c v w a =>
      simp only [step, stepBase, stakeStep]
      have := redelegate_keepsOs e y.st y.global c v w a
      unfold keepsOs at this
      split
      · rename_i s' hs; rw [hs] at this; exact this
      · rfl
    case restart => rfl
    case genesis => cases hop
    case sim inner => rfl
    all_goals exact stepC_os e y.st _ hop
  unfold osPart at key
  simp only [Prod.mk.injEq] at key
  exact ⟨key.2.2.1, key.1⟩

/-- **C11 over histories** of such operations: every order and shard is exactly as it was -/
theorem C11_shards_kept_over_histories (e : Env) (y : Sys) (ops : List Op) (hops : ∀ op ∈ ops, isShardMsg op = false) :
    (runOps e y ops).st.shards = y.st.shards ∧ (runOps e y ops).st.orders = y.st.orders := by
  induction ops generalizing y with
  | nil => exact ⟨rfl, rfl⟩
  | cons op t ih =>
    have h1 := C11_shards_change_only_by_storage_messages e y op (hops op List.mem_cons_self)
    have h2 := ih (step e y op).2 (fun o ho => hops o (List.mem_cons_of_mem _ ho))
    exact ⟨h2.1.trans h1.1, h2.2.trans h1.2⟩

example : isShardMsg (.claim 3) = false ∧ isShardMsg .begin_ = false := ⟨rfl, rfl⟩

end SaoVerif
