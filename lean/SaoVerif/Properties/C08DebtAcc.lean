import SaoVerif.Properties.C07Shard
import SaoVerif.Proofs.MapLemmas
/-!
# C08 / C07 — collateral debt accumulates

`C08_unfunded_pledge_adds_to_the_debt`: when a provider takes over a shard that carries renewal collateral and cannot fund it,
everything it has is taken and the *shortfall is added to the debt already recorded against it* — an open debt is never
overwritten (the seeded change C08-8 recorded only the newest shortfall, so that a later claim withheld too little).
-/
namespace SaoVerif

theorem getDebt_setDebt (s : State) (a : Addr) (d : Int) : (s.setDebt a d).getDebt a = some d := by
  unfold State.setDebt State.getDebt; exact Map.find?_set_self' _ _ _

theorem C08_unfunded_pledge_adds_to_the_debt (e : Env) (s s' : State) (sh : Shard) (up : Dec) (x : Option String)
    (hr : sh.renewInfos ≠ []) (h : shardPledge e s sh up = .ok (s', x)) (hx : x = none) :
    ∀ pl pool sp0, s.getPledge sh.sp = some pl → s.pool = some pool → ceilCoin (storeRewardPledge sh.duration sh.size up) = .ok sp0 →
      let shardPl := sh.renewInfos.foldl (fun acc ri => if acc < ri.pledge then ri.pledge else acc) sp0
      s.bal sh.sp < shardPl →
      ∀ s1, s.sendLit sh.sp e.modNode (s.bal sh.sp) = .ok s1 →
        s'.getDebt sh.sp = some ((s1.getDebt sh.sp).getD 0 + (shardPl - s.bal sh.sp)) := by
  intro pl pool sp0 hpl hpool hsp0 shardPl hbal s1 hs1
  unfold shardPledge at h
  simp only [hpl, hpool, hsp0, bind, Except.bind, pure, Except.pure] at h
  split at h
  · simp only [Except.ok.injEq, Prod.mk.injEq] at h; rw [hx] at h; cases h.2
  · have hnb : ¬ s.bal sh.sp ≥ shardPl := by omega
    simp only [shardPl] at hnb
    rw [if_neg hnb] at h
    simp only [hs1, Except.ok.injEq, Prod.mk.injEq] at h
    rw [← h.1]
    have e1 : ∀ (y : State) (p : Pledge) (z : Shard), ((y.setPledge p).setShard z).getDebt sh.sp = y.getDebt sh.sp := fun _ _ _ => rfl
    rw [e1, getDebt_setDebt]
    cases hd : s1.getDebt sh.sp <;> simp [shardPl]

end SaoVerif
