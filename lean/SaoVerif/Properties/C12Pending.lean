import SaoVerif.Properties.C05NoReserve
/-!
# C12 — an order nobody handed to providers in time is cancelled and refunded by the timeout mechanism

`C12_pending_order_times_out_refunded`: for every state, when the timeout handler examines an order that is still pending
(created by the owner's own account and never made Ready), it does exactly what `CancelOrder` does — refund in full to the
payer (`C05_refund_full`), roll the model back, remove the order (`C05_cancel_order_refunds_then_removes`) — so that no such
order and no payment for it stays unresolved; a refund that fails is ignored as in the Go code and leaves the order as it was.
-/
namespace SaoVerif

theorem C12_pending_order_times_out_refunded (e : Env) (s s' : State) (id : Nat) (o : Order)
    (ho : s.getOrder id = some o) (hp : o.status = OrderPending) (h : handleTimeoutOrder e s id = .ok s') :
    ∃ x, cancelOrder e s id = .ok (s', x) := by
  unfold handleTimeoutOrder at h
  simp only [ho, hp, if_true] at h
  split at h
  · rename_i s1 x hc
    simp only [pure, Except.pure, Except.ok.injEq] at h
    exact ⟨x, by rw [hc, h]⟩
  · simp [throw, throwThe, MonadExceptOf.throw] at h

end SaoVerif
