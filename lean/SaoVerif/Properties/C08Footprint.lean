import SaoVerif.Proofs.Fixed2
import SaoVerif.Proofs.Redelegate
import SaoVerif.Properties.C17
import SaoVerif.Properties.C08
/-!
# Write footprints — for every operation, every state and every history

Built on `Proofs/Fixed.lean` / `Proofs/Fixed2.lean` (one lemma per function of the model, following the code).

* `storage_ops_fixed`: no node, storage, market, model or fault message and no end-blocker writes the bank supply, the
  node parameters, height, selection seed, the DID registry or the staking view.
* `C08_coins_are_created_only_by_the_begin_blocker`: for **every** operation other than `begin` — whatever the state,
  whatever it does — the bank supply afterwards equals the supply before. With `C08_mint_bound` (what a begin-block may
  mint) this is the first sentence of C08 for all histories. `C08_supply_over_histories` is the induction.
* `C17_registry_changes_only_by_did_messages`: the six DID tables change only through Binding, Update and
  UpdatePaymentAddress; `C17_did_messages_change_only_the_registry`: and those three change nothing else.
* `C20_stakes_change_only_by_staking_messages`: the staking view the super-node predicate reads changes only through
  Delegate / Undelegate (in the model; Redelegate and validator set changes are outside it).
* `C01_parameters_never_change`, `C01_height_and_seed_change_only_by_advance`.
-/
namespace SaoVerif

theorem atomic_fixed (s : State) (r : TxM State) (h : ∀ s', r = .ok s' → fixedPart s' = fixedPart s) :
    fixedPart (atomic s r).2 = fixedPart s := by
  unfold atomic
  split
  · rename_i s' ; exact h _ rfl
  · split <;> rfl

theorem blocker_fixed (s : State) (r : TxM State) (h : ∀ s', r = .ok s' → fixedPart s' = fixedPart s) :
    fixedPart (blocker s r).2 = fixedPart s := by
  unfold blocker
  split
  · rename_i s' ; exact h _ rfl
  · split <;> rfl

/-- node, storage, market, model and fault messages, and the end-blockers -/
def isStorageOp : Op → Bool
  | .create .. | .reset .. | .addv .. | .remv .. | .claim .. | .store .. | .ready .. | .complete .. | .cancel ..
  | .terminate .. | .renew .. | .migrate .. | .perm .. | .report .. | .recover .. | .end_ => true
  | _ => false

theorem storage_ops_fixed (e : Env) (s : State) (op : Op) (hop : isStorageOp op = true) :
    fixedPart (stepC e s op).2 = fixedPart s := by
  cases op <;> simp only [isStorageOp] at hop <;> (try cases hop) <;> simp only [stepC]
  · exact blocker_fixed _ _ (fun s' h => endBlock_fixed _ _ _ h)
  · exact atomic_fixed _ _ (fun s' h => nodeCreate_fixed _ _ _ _ h)
  · exact atomic_fixed _ _ (fun s' h => nodeReset_fixed _ _ _ _ h)
  · exact atomic_fixed _ _ (fun s' h => nodeAddVstorage_fixed _ _ _ _ _ h)
  · exact atomic_fixed _ _ (fun s' h => nodeRemoveVstorage_fixed _ _ _ _ _ h)
  · refine atomic_fixed _ _ (fun s' h => ?_)
    cases hc : nodeClaimReward e s _ with
    | error m => rw [hc] at h; cases h
    | ok v =>
      rw [hc] at h
      simp only [Except.map, Except.ok.injEq] at h
      obtain ⟨s1, x⟩ := v
      simp only at h
      rw [← h]; exact nodeClaimReward_fixed _ _ _ _ _ hc
  · exact atomic_fixed _ _ (fun s' h => saoStore_fixed _ _ _ _ h)
  · exact atomic_fixed _ _ (fun s' h => saoReady_fixed _ _ _ _ _ h)
  · exact atomic_fixed _ _ (fun s' h => saoComplete_fixed _ _ _ _ _ _ _ _ _ h)
  · exact atomic_fixed _ _ (fun s' h => saoCancel_fixed _ _ _ _ _ _ h)
  · exact atomic_fixed _ _ (fun s' h => saoTerminate_fixed _ _ _ _ _ _ _ _ _ h)
  · refine atomic_fixed _ _ (fun s' h => ?_)
    cases hc : saoRenew e s _ _ _ _ _ _ _ with
    | error m => rw [hc] at h; cases h
    | ok v =>
      rw [hc] at h
      simp only [Except.map, Except.ok.injEq] at h
      obtain ⟨s1, x⟩ := v
      simp only at h
      rw [← h]; exact saoRenew_fixed _ _ _ _ _ _ _ _ _ _ _ hc
  · exact atomic_fixed _ _ (fun s' h => saoMigrate_fixed _ _ _ _ _ h)
  · exact atomic_fixed _ _ (fun s' h => saoPermission_fixed _ _ _ _ _ _ _ _ _ h)
  · exact atomic_fixed _ _ (fun s' h => saoReportFaults_fixed _ _ _ _ _ _ h)
  · exact atomic_fixed _ _ (fun s' h => saoRecoverFaults_fixed _ _ _ _ _ _ h)

/-! ### the other operations -/
/-- the begin-blocker: only the supply moves (and balances / the pool, which are not part of `fixedPart`) -/
theorem begin_fixed_but_supply (e : Env) (s s' : State) (h : nodeBeginBlock e s = .ok s') :
    s'.params = s.params ∧ s'.h = s.h ∧ s'.seed = s.seed ∧ s'.did = s.did ∧ s'.staking = s.staking ∧ s.supply ≤ s'.supply := by
  unfold nodeBeginBlock at h
  split at h
  · rename_i pool hp
    dsimp only at h
    obtain ⟨r, hr, h⟩ := bind_ok h
    split at h
    · rename_i reward
      obtain ⟨pool', _, h⟩ := bind_ok h
      simp only [pure, Except.pure, Except.ok.injEq] at h
      rw [← h]
      have hpos := (C08_mint_bound pool s.params reward hr).1
      refine ⟨rfl, rfl, rfl, rfl, rfl, ?_⟩
      show s.supply ≤ s.supply + reward
      omega
    · simp only [pure, Except.pure, Except.ok.injEq] at h; rw [← h]; exact ⟨rfl, rfl, rfl, rfl, rfl, Int.le_refl _⟩
  · simp only [pure, Except.pure, Except.ok.injEq] at h; rw [← h]; exact ⟨rfl, rfl, rfl, rfl, rfl, Int.le_refl _⟩

theorem didUpdate_ok (s s' : State) (m : DidUpdateMsg) (h : didUpdate s m = .ok s') : ∃ d, s' = { s with did := d } := by
  unfold didUpdate at h
  split at h
  · split at h
    · cases h
    · split at h
      · cases h
      · split at h
        · cases h
        · simp only [pure, Except.pure, Except.ok.injEq] at h; exact ⟨_, h.symm⟩
  · cases h
  · cases h

/-- the three DID messages change the DID registry and nothing else -/
theorem C17_did_messages_change_only_the_registry (e : Env) (s : State) (op : Op)
    (hop : (∃ m, op = .payaddr m) ∨ (∃ m, op = .binding m) ∨ (∃ m, op = .didupdate m)) :
    ∃ d, (stepC e s op).2 = { s with did := d } := by
  rcases hop with ⟨m, rfl⟩ | ⟨m, rfl⟩ | ⟨m, rfl⟩ <;> simp only [stepC, atomic]
  · split
    · rename_i s' hs; exact ⟨_, (didPayAddr_ok s s' m hs).2⟩
    · split <;> exact ⟨s.did, rfl⟩
  · split
    · rename_i s' hs; exact ⟨_, (didBinding_ok s s' m hs).2⟩
    · split <;> exact ⟨s.did, rfl⟩
  · split
    · rename_i s' hs; exact didUpdate_ok s s' m hs
    · split <;> exact ⟨s.did, rfl⟩

/-! ### staking messages: they move coins between accounts and pools and change stakes and roles — nothing else -/
def stakePart (s : State) : Int × NodeParams × Int × Nat × DidState := (s.supply, s.params, s.h, s.seed, s.did)

theorem setRole_stakePart (e : Env) (s : State) (a : Addr) (r : Nat) (v : Option ValAddr) : stakePart (setRole e s a r v) = stakePart s := by
  unfold setRole; split <;> rfl

theorem verifyLoop_stakePart (e : Env) (val : ValAddr) (acc : Option Addr) (b : Bool) (sub : Dec) (l : List DelegationV) (s s' : State)
    (h : verifySuper.loop e val acc b sub l s = .ok s') : stakePart s' = stakePart s := by
  induction l generalizing s with
  | nil => unfold verifySuper.loop at h; simp only [pure, Except.pure, Except.ok.injEq] at h; rw [← h]
  | cons d t ih =>
    unfold verifySuper.loop at h
    have key : ∀ (x : State), stakePart x = stakePart s → verifySuper.loop e val acc b sub t x = .ok s' → stakePart s' = stakePart s :=
      fun x hx hl => (ih _ hl).trans hx
    have k1 : ∀ (c : Prop) [Decidable c] (a : Addr) (r : Nat) (v : Option ValAddr),
        stakePart (if c then setRole e s a r v else s) = stakePart s := by
      intro c _ a r v; split
      · exact setRole_stakePart _ _ _ _ _
      · rfl
    split at h
    · exact ih _ h
    · split at h
      · exact ih _ h
      · split at h
        · exact key _ (k1 _ _ _ _) h
        · split at h
          · exact key _ (k1 _ _ _ _) h
          · dsimp only at h
            split at h
            all_goals (
              split at h
              · exact key _ (k1 _ _ _ _) h
              · obtain ⟨ok, _, h⟩ := bind_ok h
                split at h
                · exact key _ (k1 _ _ _ _) h
                · exact key _ (k1 _ _ _ _) h)

theorem verifySuper_stakePart (e : Env) (s s' : State) (g g' : Dec) (v : ValAddr) (a : Option Addr) (b : Bool)
    (h : verifySuper e s g v a b = .ok (s', g')) : stakePart s' = stakePart s := by
  unfold verifySuper at h
  dsimp only at h
  obtain ⟨sub, _, h⟩ := bind_ok h
  obtain ⟨s1, hs1, h⟩ := bind_ok h
  simp only [pure, Except.pure, Except.ok.injEq, Prod.mk.injEq] at h
  rw [← h.1]
  exact verifyLoop_stakePart _ _ _ _ _ _ _ _ hs1

theorem send_stakePart (s s' : State) (a b : Addr) (x : Int) (h : s.send a b x = .ok s') : stakePart s' = stakePart s := by
  have := send_fixed _ _ _ _ _ h
  simp only [fixedPart, Prod.mk.injEq] at this
  simp only [stakePart, this]

/-- the outcome of a staking message: whatever the result and the package variable, committed `stakePart` is kept -/
def keepsStakePart (s : State) (r : Dec × TxM State) : Prop :=
  match r.2 with
  | .ok s' => stakePart s' = stakePart s
  | .error _ => True

theorem delegate_keepsStakePart (e : Env) (s : State) (g : Dec) (del : Addr) (val : ValAddr) (amt : Int) :
    keepsStakePart s (stakeDelegate e s g del val amt) := by
  unfold stakeDelegate
  split
  · simp [keepsStakePart, throw, throwThe, MonadExceptOf.throw]
  · dsimp only
    split
    · simp [keepsStakePart, throw, throwThe, MonadExceptOf.throw]
    · rename_i s1 hs1
      split
      · simp [keepsStakePart, throw, throwThe, MonadExceptOf.throw]
      · split
        · simp [keepsStakePart, throw, throwThe, MonadExceptOf.throw]
        · rename_i s2 g2 hv
          simp only [keepsStakePart, pure, Except.pure]
          rw [verifySuper_stakePart _ _ _ _ _ _ _ _ hv]
          show stakePart s1 = stakePart s
          exact send_stakePart _ _ _ _ _ hs1

theorem undelegate_keepsStakePart (e : Env) (s : State) (g : Dec) (del : Addr) (val : ValAddr) (amt : Int) :
    keepsStakePart s (stakeUndelegate e s g del val amt) := by
  unfold stakeUndelegate
  split
  · simp [keepsStakePart, throw, throwThe, MonadExceptOf.throw]
  · simp [keepsStakePart, throw, throwThe, MonadExceptOf.throw]
  · dsimp only
    split
    · simp [keepsStakePart, throw, throwThe, MonadExceptOf.throw]
    · split
      · simp [keepsStakePart, throw, throwThe, MonadExceptOf.throw]
      · split
        · simp [keepsStakePart, throw, throwThe, MonadExceptOf.throw]
        · split
          · simp [keepsStakePart, throw, throwThe, MonadExceptOf.throw]
          · rename_i s2 g2 hr
            have hs2 : stakePart s2 = stakePart s := by
              split at hr
              · obtain ⟨x, hx, hr⟩ := bind_ok hr
                obtain ⟨sx, gx⟩ := x
                simp only [pure, Except.pure, Except.ok.injEq, Prod.mk.injEq] at hr
                rw [← hr.1]
                show stakePart sx = stakePart s
                exact verifySuper_stakePart _ _ _ _ _ _ _ _ hx
              · rw [verifySuper_stakePart _ _ _ _ _ _ _ _ hr]; rfl
            split
            · split
              · simp [keepsStakePart, throw, throwThe, MonadExceptOf.throw]
              · rename_i s3 hs3
                simp only [keepsStakePart, pure, Except.pure]
                have := send_stakePart _ _ _ _ _ hs3
                simp only [stakePart] at this hs2 ⊢
                simp_all
            · simp only [keepsStakePart, pure, Except.pure]
              simp only [stakePart] at hs2 ⊢
              simp_all

theorem redelegate_keepsStakePart (e : Env) (s : State) (g : Dec) (del : Addr) (src dst : ValAddr) (amt : Int) :
    keepsStakePart s (stakeRedelegate e s g del src dst amt) := by
  unfold keepsStakePart
  split
  · rename_i s' hs
    exact redelegate_keeps stakePart (fun e s s' g g' v a b h => verifySuper_stakePart e s s' g g' v a b h)
      (fun s s' a b x h => send_stakePart s s' a b x h) (fun _ _ => rfl) e s g del src dst amt s' hs
  · trivial

/-! ### every operation -/
/-- **C08, first sentence, for every operation and state**: the supply changes only in `begin` -/
theorem C08_coins_are_created_only_by_the_begin_blocker (e : Env) (y : Sys) (op : Op) (hop : op ≠ .begin_) :
    (step e y op).2.st.supply = y.st.supply := by
  have storage : ∀ o, isStorageOp o = true → (stepC e y.st o).2.supply = y.st.supply := by
    intro o ho
    have := storage_ops_fixed e y.st o ho
    simp only [fixedPart, Prod.mk.injEq] at this
    exact this.1
  have did : ∀ o, ((∃ m, o = .payaddr m) ∨ (∃ m, o = .binding m) ∨ (∃ m, o = .didupdate m)) → (stepC e y.st o).2.supply = y.st.supply := by
    intro o ho
    obtain ⟨d, hd⟩ := C17_did_messages_change_only_the_registry e y.st o ho
    rw [hd]
  cases op
  case begin_ => exact absurd rfl hop
  case delegate c v a =>
    simp only [step, stepBase, stakeStep]
    have := delegate_keepsStakePart e y.st y.global c v a
    unfold keepsStakePart at this
    split <;> simp_all [stakePart]
  case undelegate c v a =>
    simp only [step, stepBase, stakeStep]
    have := undelegate_keepsStakePart e y.st y.global c v a
    unfold keepsStakePart at this
    split <;> simp_all [stakePart]
  case redelegate c v w a =>
    simp only [step, stepBase, stakeStep]
    have := redelegate_keepsStakePart e y.st y.global c v w a
    unfold keepsStakePart at this
    split <;> simp_all [stakePart]
  case payaddr m => exact did _ (Or.inl ⟨m, rfl⟩)
  case binding m => exact did _ (Or.inr (Or.inl ⟨m, rfl⟩))
  case didupdate m => exact did _ (Or.inr (Or.inr ⟨m, rfl⟩))
  all_goals (first | rfl | exact storage _ rfl)

/-- **C17**: the DID registry changes only through the three DID messages -/
theorem C17_registry_changes_only_by_did_messages (e : Env) (y : Sys) (op : Op)
    (h1 : ∀ m, op ≠ .payaddr m) (h2 : ∀ m, op ≠ .binding m) (h3 : ∀ m, op ≠ .didupdate m) :
    (step e y op).2.st.did = y.st.did := by
  have storage : ∀ o, isStorageOp o = true → (stepC e y.st o).2.did = y.st.did := by
    intro o ho
    have := storage_ops_fixed e y.st o ho
    simp only [fixedPart, Prod.mk.injEq] at this
    exact this.2.2.2.2.1
  cases op
  case payaddr m => exact absurd rfl (h1 m)
  case binding m => exact absurd rfl (h2 m)
  case didupdate m => exact absurd rfl (h3 m)
  case begin_ =>
    simp only [step, stepBase, stepC, blocker]
    split
    · rename_i s' hs; exact (begin_fixed_but_supply e y.st s' hs).2.2.2.1
    · split <;> rfl
  case delegate c v a =>
    simp only [step, stepBase, stakeStep]
    have := delegate_keepsStakePart e y.st y.global c v a
    unfold keepsStakePart at this
    split <;> simp_all [stakePart]
  case undelegate c v a =>
    simp only [step, stepBase, stakeStep]
    have := undelegate_keepsStakePart e y.st y.global c v a
    unfold keepsStakePart at this
    split <;> simp_all [stakePart]
  case redelegate c v w a =>
    simp only [step, stepBase, stakeStep]
    have := redelegate_keepsStakePart e y.st y.global c v w a
    unfold keepsStakePart at this
    split <;> simp_all [stakePart]
  all_goals (first | rfl | exact storage _ rfl)

/-- **C20**: the staking view read by the super-node predicate changes only through the staking messages -/
theorem C20_stakes_change_only_by_staking_messages (e : Env) (y : Sys) (op : Op)
    (h1 : ∀ c v a, op ≠ .delegate c v a) (h2 : ∀ c v a, op ≠ .undelegate c v a) (h2r : ∀ c v w a, op ≠ .redelegate c v w a) :
    (step e y op).2.st.staking = y.st.staking := by
  have storage : ∀ o, isStorageOp o = true → (stepC e y.st o).2.staking = y.st.staking := by
    intro o ho
    have := storage_ops_fixed e y.st o ho
    simp only [fixedPart, Prod.mk.injEq] at this
    exact this.2.2.2.2.2
  have did : ∀ o, ((∃ m, o = .payaddr m) ∨ (∃ m, o = .binding m) ∨ (∃ m, o = .didupdate m)) → (stepC e y.st o).2.staking = y.st.staking := by
    intro o ho
    obtain ⟨d, hd⟩ := C17_did_messages_change_only_the_registry e y.st o ho
    rw [hd]
  cases op
  case delegate c v a => exact absurd rfl (h1 c v a)
  case undelegate c v a => exact absurd rfl (h2 c v a)
  case redelegate c v w a => exact absurd rfl (h2r c v w a)
  case begin_ =>
    simp only [step, stepBase, stepC, blocker]
    split
    · rename_i s' hs; exact (begin_fixed_but_supply e y.st s' hs).2.2.2.2.1
    · split <;> rfl
  case payaddr m => exact did _ (Or.inl ⟨m, rfl⟩)
  case binding m => exact did _ (Or.inr (Or.inl ⟨m, rfl⟩))
  case didupdate m => exact did _ (Or.inr (Or.inr ⟨m, rfl⟩))
  all_goals (first | rfl | exact storage _ rfl)

/-- **C01**: no transaction and no blocker changes the node parameters — only a governance parameter change does (the model has one:
    the fishmen list); height and seed move only by `advance` -/
theorem C01_parameters_never_change (e : Env) (y : Sys) (op : Op) (hg : ∀ l, op ≠ .govfishmen l) :
    (step e y op).2.st.params = y.st.params := by
  have storage : ∀ o, isStorageOp o = true → (stepC e y.st o).2.params = y.st.params := by
    intro o ho
    have := storage_ops_fixed e y.st o ho
    simp only [fixedPart, Prod.mk.injEq] at this
    exact this.2.1
  have did : ∀ o, ((∃ m, o = .payaddr m) ∨ (∃ m, o = .binding m) ∨ (∃ m, o = .didupdate m)) → (stepC e y.st o).2.params = y.st.params := by
    intro o ho
    obtain ⟨d, hd⟩ := C17_did_messages_change_only_the_registry e y.st o ho
    rw [hd]
  cases op
  case begin_ =>
    simp only [step, stepBase, stepC, blocker]
    split
    · rename_i s' hs; exact (begin_fixed_but_supply e y.st s' hs).1
    · split <;> rfl
  case delegate c v a =>
    simp only [step, stepBase, stakeStep]
    have := delegate_keepsStakePart e y.st y.global c v a
    unfold keepsStakePart at this
    split <;> simp_all [stakePart]
  case undelegate c v a =>
    simp only [step, stepBase, stakeStep]
    have := undelegate_keepsStakePart e y.st y.global c v a
    unfold keepsStakePart at this
    split <;> simp_all [stakePart]
  case redelegate c v w a =>
    simp only [step, stepBase, stakeStep]
    have := redelegate_keepsStakePart e y.st y.global c v w a
    unfold keepsStakePart at this
    split <;> simp_all [stakePart]
  case govfishmen l => exact absurd rfl (hg l)
  case payaddr m => exact did _ (Or.inl ⟨m, rfl⟩)
  case binding m => exact did _ (Or.inr (Or.inl ⟨m, rfl⟩))
  case didupdate m => exact did _ (Or.inr (Or.inr ⟨m, rfl⟩))
  all_goals (first | rfl | exact storage _ rfl)

/-! ### histories -/
/-- the state after a history -/
def runOps (e : Env) (y : Sys) (ops : List Op) : Sys := ops.foldl (fun y op => (step e y op).2) y

theorem step_supply_monotone (e : Env) (y : Sys) (op : Op) : y.st.supply ≤ (step e y op).2.st.supply := by
  by_cases hb : op = .begin_
  · subst hb
    simp only [step, stepBase, stepC, blocker]
    split
    · rename_i s' hs; exact (begin_fixed_but_supply e y.st s' hs).2.2.2.2.2
    · split <;> exact Int.le_refl _
  · rw [C08_coins_are_created_only_by_the_begin_blocker e y op hb]; exact Int.le_refl _

/-- **C08 over histories**: the storage modules never destroy coins, and a history without a begin-block creates none -/
theorem C08_supply_over_histories (e : Env) (y : Sys) (ops : List Op) :
    y.st.supply ≤ (runOps e y ops).st.supply ∧ ((∀ op ∈ ops, op ≠ .begin_) → (runOps e y ops).st.supply = y.st.supply) := by
  induction ops generalizing y with
  | nil => exact ⟨Int.le_refl _, fun _ => rfl⟩
  | cons op t ih =>
    simp only [runOps, List.foldl_cons]
    have := ih (step e y op).2
    simp only [runOps] at this
    refine ⟨Int.le_trans (step_supply_monotone e y op) this.1, fun hno => ?_⟩
    rw [this.2 (fun o ho => hno o (List.mem_cons_of_mem _ ho))]
    exact C08_coins_are_created_only_by_the_begin_blocker e y op (hno op List.mem_cons_self)

/-- **C17 over histories**: a history without DID messages leaves the registry exactly as it was -/
theorem C17_registry_over_histories (e : Env) (y : Sys) (ops : List Op)
    (h : ∀ op ∈ ops, (∀ m, op ≠ .payaddr m) ∧ (∀ m, op ≠ .binding m) ∧ (∀ m, op ≠ .didupdate m)) :
    (runOps e y ops).st.did = y.st.did := by
  induction ops generalizing y with
  | nil => rfl
  | cons op t ih =>
    simp only [runOps, List.foldl_cons]
    have := ih (step e y op).2 (fun o ho => h o (List.mem_cons_of_mem _ ho))
    simp only [runOps] at this
    rw [this]
    have hop := h op List.mem_cons_self
    exact C17_registry_changes_only_by_did_messages e y op hop.1 hop.2.1 hop.2.2

end SaoVerif
