import SaoVerif.Properties.C11Expiry
/-!
# C04 — a settled order leaves the order store

`C04_terminated_order_leaves_the_store`: for every state, whenever `order.TerminateOrder` accepts — after the refund was
paid — the order record is gone; when it refuses, nothing at all was changed (`C04_refused_termination_changes_nothing`,
apart from the panic of the unregistered `did` module account, which is an error of the whole transaction). The force-push
and Terminate paths drop an order from its model only after this call (`modelTerminateOrder`), which is what the step clause
`droppedOrderSettled` checks on the implementation: an order that has left its model's list is not in the store any more,
so no payment stays behind unreachable.
-/
namespace SaoVerif

theorem C04_terminated_order_leaves_the_store (e : Env) (s s' : State) (id : Nat) (refund : Int)
    (h : orderTerminate e s id refund = .ok (s', none)) : s'.getOrder id = none := by
  unfold orderTerminate at h
  simp only [bind, Except.bind, pure, Except.pure] at h
  repeat' (split at h)
  all_goals (try simp only [Except.ok.injEq, Prod.mk.injEq, reduceCtorEq, and_false, and_true] at h)
  all_goals (rw [← h]; exact getOrder_removeOrder_self _ _)

theorem C04_refused_termination_changes_nothing (e : Env) (s s' : State) (id : Nat) (refund : Int) (m : String)
    (h : orderTerminate e s id refund = .ok (s', some m)) : s' = s := by
  unfold orderTerminate at h
  simp only [bind, Except.bind, pure, Except.pure] at h
  repeat' (split at h)
  all_goals (try simp only [Except.ok.injEq, Prod.mk.injEq, reduceCtorEq, and_false, and_true] at h)
  all_goals (exact h.1.symm)

end SaoVerif
