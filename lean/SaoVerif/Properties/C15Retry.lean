import SaoVerif.Model.Step
/-!
# C15 — the retry after a timeout excludes every provider the order ever used

`C15_full` (C15.lean) shows that the selection never returns a provider on the ignore list it is given. For a
retry after a timeout the ignore list is `timeoutView.sps`. `C15_retry_ignores_every_holder`: that list contains the
provider of *every* shard the order lists — waiting, completed, migrating or already timed out — so together with
`C15_full` a replacement is distinct from "every provider that already holds, or has timed out on, a shard of that
order". seeded/C15-2 skips the shards that are already in `ShardTimeout` when building the list; the monitor clause
`placementDistinct` catches it on the runs.
-/
namespace SaoVerif

theorem C15_retry_ignores_every_holder (s : State) (order : Order) (id : Nat) (sh : Shard)
    (hid : id ∈ order.shards) (hsh : s.getShard id = some sh) :
    sh.sp ∈ (timeoutView s order).sps := by
  unfold timeoutView
  simp only [List.mem_map, List.mem_filterMap]
  exact ⟨(id, sh), ⟨id, hid, by simp [hsh]⟩, rfl⟩

/-- the waiting shards handed to replacements are shards of the order (nothing else is re-assigned) -/
theorem C15_retry_reassigns_only_waiting (s : State) (order : Order) (sh : Shard)
    (h : sh ∈ (timeoutView s order).timeoutShards) :
    sh.status = ShardWaiting ∧ ∃ id ∈ order.shards, s.getShard id = some sh := by
  unfold timeoutView at h
  simp only [List.mem_map, List.mem_filter, List.mem_filterMap] at h
  obtain ⟨⟨id', sh'⟩, ⟨⟨id, hid, hx⟩, hst⟩, rfl⟩ := h
  cases hg : s.getShard id with
  | none => simp [hg] at hx
  | some x =>
    simp only [hg, Option.map_some, Option.some.injEq, Prod.mk.injEq] at hx
    obtain ⟨rfl, rfl⟩ := hx
    exact ⟨by simpa using hst, id, hid, hg⟩

end SaoVerif
