import SaoVerif.Proofs.PoolTotals
import SaoVerif.Proofs.Ledger
import SaoVerif.Proofs.Os
import SaoVerif.Properties.C10Capacity
import SaoVerif.Properties.C08Claim
import SaoVerif.Properties.C19
import SaoVerif.Proofs.MetaFoot
import SaoVerif.Proofs.Fixed2
/-!
# C19 — what clearing fault reports may change, and the bound on the penalty

"… filing or clearing reports never changes any account balance, order, shard or another provider's pledge, and any
penalty is taken only from the faulty provider's own reward and collateral and never exceeds them."

`C19_recover_frame`: an accepted `RecoverFaults` for provider `p` — whatever reports it names, however many of them are
settled — leaves every balance and the supply, every order and shard, the pool and the pledge record of every provider
other than `p` exactly as they were; and `p`'s own record changes at most by its accrued reward and reward debt being
struck to zero (`Pen`): no field goes negative, the capacity, the capacity collateral and the shard collateral are not
touched. (`C19_report_frame` in C19.lean is the same statement for `ReportFaults`, which changes no pledge at all.)
-/
namespace SaoVerif

/-- the only difference a penalty makes to a pledge record: reward and reward debt kept or struck to zero -/
def Pen (pl pl' : Pledge) : Prop :=
  pl' = { pl with reward := pl'.reward, rewardDebt := pl'.rewardDebt } ∧
  (pl'.reward = pl.reward ∨ pl'.reward = 0) ∧ (pl'.rewardDebt = pl.rewardDebt ∨ pl'.rewardDebt = 0)

theorem Pen.refl (pl : Pledge) : Pen pl pl := ⟨rfl, Or.inl rfl, Or.inl rfl⟩

theorem Pen.trans {a b c : Pledge} (h1 : Pen a b) (h2 : Pen b c) : Pen a c := by
  obtain ⟨e1, r1, d1⟩ := h1
  obtain ⟨e2, r2, d2⟩ := h2
  refine ⟨?_, ?_, ?_⟩
  · rw [e2, e1]
  · rcases r2 with r2 | r2
    · rw [r2]; exact r1
    · exact Or.inr r2
  · rcases d2 with d2 | d2
    · rw [d2]; exact d1
    · exact Or.inr d2

/-- a penalty never takes more than there is -/
theorem Pen.bounds {pl pl' : Pledge} (h : Pen pl pl') (h0 : 0 ≤ pl.reward) (h1 : 0 ≤ pl.rewardDebt) :
    0 ≤ pl'.reward ∧ pl'.reward ≤ pl.reward ∧ 0 ≤ pl'.rewardDebt ∧ pl'.rewardDebt ≤ pl.rewardDebt ∧
    pl'.totalStoragePledged = pl.totalStoragePledged ∧ pl'.totalStorage = pl.totalStorage ∧
    pl'.totalShardPledged = pl.totalShardPledged ∧ pl'.usedStorage = pl.usedStorage := by
  obtain ⟨e, r, d⟩ := h
  refine ⟨?_, ?_, ?_, ?_, by rw [e], by rw [e], by rw [e], by rw [e]⟩
  · rcases r with r | r <;> rw [r]
    · exact h0
    · exact Int.le_refl 0
  · rcases r with r | r <;> rw [r]
    · exact Int.le_refl _
    · exact h0
  · rcases d with d | d <;> rw [d]
    · exact h1
    · exact Int.le_refl 0
  · rcases d with d | d <;> rw [d]
    · exact Int.le_refl _
    · exact h1

/-- everything a fault message must leave alone, the pledge records aside -/
def restPart (s : State) :=
  (s.bank, s.supply, s.debts, s.pool, s.nodes, s.metas, s.workers, s.orders, s.shards, s.params, s.models, s.did, s.staking)

/-- before and after: nothing but fault records, the fishing ledger and pledge records differs; everybody else's pledge
    record is unchanged, `p`'s unchanged or penalised -/
def PenRel (p : Addr) (s s' : State) : Prop :=
  restPart s' = restPart s ∧
  (∀ a, a ≠ p → s'.getPledge a = s.getPledge a) ∧
  (s'.getPledge p = s.getPledge p ∨ ∃ pl pl', s.getPledge p = some pl ∧ s'.getPledge p = some pl' ∧ Pen pl pl')

theorem PenRel.refl (p : Addr) (s : State) : PenRel p s s := ⟨rfl, fun _ _ => rfl, Or.inl rfl⟩

theorem PenRel.of_pledges (p : Addr) {s s' : State} (h : s'.pledges = s.pledges) (hr : restPart s' = restPart s) : PenRel p s s' := by
  have : ∀ a, s'.getPledge a = s.getPledge a := fun a => by unfold State.getPledge; rw [h]
  exact ⟨hr, fun a _ => this a, Or.inl (this p)⟩

theorem PenRel.trans {p : Addr} {a b c : State} (h1 : PenRel p a b) (h2 : PenRel p b c) : PenRel p a c := by
  refine ⟨h2.1.trans h1.1, fun x hx => (h2.2.1 x hx).trans (h1.2.1 x hx), ?_⟩
  rcases h2.2.2 with e2 | ⟨pl1, pl2, g1, g2, pen2⟩
  · rcases h1.2.2 with e1 | ⟨pl0, pl1, g0, g1, pen1⟩
    · exact Or.inl (e2.trans e1)
    · exact Or.inr ⟨pl0, pl1, g0, e2.trans g1, pen1⟩
  · rcases h1.2.2 with e1 | ⟨pl0, pl1', g0, g1', pen1⟩
    · exact Or.inr ⟨pl1, pl2, e1 ▸ g1, g2, pen2⟩
    · rw [g1'] at g1; cases g1
      exact Or.inr ⟨pl0, pl2, g0, g2, pen1.trans pen2⟩

def okPen (p : Addr) (s : State) (r : TxM State) : Prop :=
  match r with
  | .ok s' => PenRel p s s'
  | .error _ => True

theorem fishAdd_pr (s : State) (k : Nat × Nat) (v : Dec) : (fishAdd s k v).pledges = s.pledges ∧ restPart (fishAdd s k v) = restPart s := by
  unfold fishAdd; split <;> exact ⟨rfl, rfl⟩

theorem pr_trans {a b c : State} (h1 : b.pledges = a.pledges ∧ restPart b = restPart a) (h2 : c.pledges = b.pledges ∧ restPart c = restPart b) :
    c.pledges = a.pledges ∧ restPart c = restPart a := ⟨h2.1.trans h1.1, h2.2.trans h1.2⟩

theorem foldl_pr {α : Type} (f : State → α → State) (hf : ∀ s a, (f s a).pledges = s.pledges ∧ restPart (f s a) = restPart s) (l : List α) (s : State) :
    (l.foldl f s).pledges = s.pledges ∧ restPart (l.foldl f s) = restPart s := by
  induction l generalizing s with
  | nil => exact ⟨rfl, rfl⟩
  | cons a t ih => simp only [List.foldl_cons]; exact pr_trans (hf s a) (ih _)

theorem recoverSettle_okPen (pool : Pool) (ik : Nat) (s : State) (o : Order) (org fm : Fault) (pl : Pledge) (p : Addr)
    (hg : s.getPledge p = some pl) : okPen p s (recoverSettle pool ik s o org fm pl) := by
  have hc : pl.creator = p := getPledge_creator s p pl hg
  unfold recoverSettle
  dsimp only
  split
  · simp [okPen, throw, throwThe, MonadExceptOf.throw]
  · split
    · simp [okPen, throw, throwThe, MonadExceptOf.throw]
    · simp only [okPen, pure, Except.pure]
      have key : ∀ (sx : State) (p' : Pledge), sx.pledges = s.pledges ∧ restPart sx = restPart s → Pen pl p' →
          PenRel p s ((sx.setPledge p').removeFault fm) := by
        intro sx p' hpp hpen
        have hc' : p'.creator = p := by rw [hpen.1]; exact hc
        have hsx : ∀ a, sx.getPledge a = s.getPledge a := fun a => by unfold State.getPledge; rw [hpp.1]
        refine ⟨hpp.2, fun a ha => ?_, Or.inr ⟨pl, p', hg, ?_, hpen⟩⟩
        · show (sx.setPledge p').getPledge a = s.getPledge a
          rw [getPledge_setPledge_other _ _ _ (by rw [hc']; exact ha)]; exact hsx a
        · show (sx.setPledge p').getPledge p = some p'
          rw [← hc']; exact getPledge_setPledge _ _
      apply key
      · refine pr_trans ?_ (foldl_pr _ (fun s c => fishAdd_pr s _ _) _ _)
        refine pr_trans ?_ (fishAdd_pr _ _ _)
        split <;> exact ⟨rfl, rfl⟩
      · repeat' split
        all_goals (refine ⟨rfl, ?_, ?_⟩ <;> first | exact Or.inl rfl | exact Or.inr rfl)

theorem okPen_of_rel {p : Addr} {s s1 : State} {r : TxM State} (h : PenRel p s s1) (hr : okPen p s1 r) : okPen p s r := by
  unfold okPen at *
  split
  · rename_i s' _; simp only at hr; exact h.trans hr
  · trivial

theorem faultBySpShard_pledges (s : State) (p : Addr) (sh : Nat) :
    (s.faultBySpShard p sh).1.pledges = s.pledges ∧ restPart (s.faultBySpShard p sh).1 = restPart s := by
  unfold State.faultBySpShard
  repeat' split
  all_goals exact ⟨rfl, rfl⟩

theorem recoverStep_okPen (c p : Addr) (pool : Pool) (ik : Nat) (s : State) (f : FaultIn) :
    okPen p s (recoverStep c p pool ik s f) := by
  have hb : PenRel p s (s.faultBySpShard f.provider f.shardId).1 := PenRel.of_pledges p (faultBySpShard_pledges s _ _).1 (faultBySpShard_pledges s _ _).2
  unfold recoverStep
  split
  · simp only [okPen, pure, Except.pure]; exact PenRel.refl p s
  rename_i hprov
  have hprov : p = f.provider := by simpa using hprov
  split
  · simp only [okPen, pure, Except.pure]; exact PenRel.refl p s
  split
  · simp only [okPen, pure, Except.pure]; exact PenRel.refl p s
  split
  · simp only [okPen, pure, Except.pure]; exact PenRel.refl p s
  split
  · simp only [okPen, pure, Except.pure]; exact PenRel.refl p s
  generalize hq : s.faultBySpShard f.provider f.shardId = q at hb ⊢
  obtain ⟨s1, org?⟩ := q
  (try dsimp only at hb ⊢)
  split
  · simp only [okPen, pure, Except.pure]; exact hb
  split
  · simp only [okPen, pure, Except.pure]; exact hb
  (try dsimp only)
  split
  · simp only [okPen, pure, Except.pure]; exact hb
  · rename_i fm hfm
    -- whichever way the report was updated, it still names the provider of the message
    have hfp : fm.provider = p := by
      unfold recoverDecision at hfm
      split at hfm
      · cases hfm; exact hprov.symm
      · split at hfm
        · cases hfm; exact hprov.symm
        · split at hfm
          · cases hfm; exact hprov.symm
          · cases hfm
    split
    · split
      · rename_i pledge hp
        rw [hfp] at hp
        exact okPen_of_rel hb (recoverSettle_okPen _ _ _ _ _ _ _ _ hp)
      · simp only [okPen, pure, Except.pure]; exact hb.trans (PenRel.of_pledges p rfl rfl)
    · simp only [okPen, pure, Except.pure]; exact hb.trans (PenRel.of_pledges p rfl rfl)

theorem foldlM_pen {α : Type} (p : Addr) (f : State → α → TxM State) (hf : ∀ s a, okPen p s (f s a))
    (l : List α) (s s' : State) (h : l.foldlM f s = .ok s') : PenRel p s s' := by
  induction l generalizing s with
  | nil => simp only [List.foldlM, pure, Except.pure, Except.ok.injEq] at h; rw [← h]; exact PenRel.refl p s
  | cons a t ih =>
    simp only [List.foldlM] at h
    obtain ⟨v, hv, h⟩ := bind_ok h
    have h1 := hf s a
    unfold okPen at h1
    rw [hv] at h1
    exact PenRel.trans h1 (ih _ h)

theorem saoRecoverFaults_pen (s s' : State) (c p : Addr) (fs : List FaultIn) (ik : Nat)
    (h : saoRecoverFaults s c p fs ik = .ok s') : PenRel p s s' := by
  unfold saoRecoverFaults at h
  dsimp only at h
  split at h
  · have key : ∀ (pool : Pool), fs.foldlM (recoverStep c p pool ik) s = .ok s' → PenRel p s s' :=
      fun pool hf => foldlM_pen p _ (fun s a => recoverStep_okPen c p pool ik s a) _ _ _ hf
    split at h
    · split at h
      · exact (throw_bind_ne h).elim
      · split at h
        · exact key _ h
        · cases h
    · split at h
      · exact (throw_bind_ne h).elim
      · split at h
        · exact key _ h
        · cases h
  · cases h

/-- **C19**: what an accepted `RecoverFaults` for provider `p` can change -/
theorem C19_recover_frame (s s' : State) (c p : Addr) (fs : List FaultIn) (ik : Nat)
    (h : saoRecoverFaults s c p fs ik = .ok s') :
    s'.bank = s.bank ∧ s'.supply = s.supply ∧ s'.orders = s.orders ∧ s'.shards = s.shards ∧
    (∀ a, a ≠ p → s'.getPledge a = s.getPledge a) ∧
    (s'.getPledge p = s.getPledge p ∨ ∃ pl pl', s.getPledge p = some pl ∧ s'.getPledge p = some pl' ∧ Pen pl pl') := by
  have hp := saoRecoverFaults_pen s s' c p fs ik h
  have hr := hp.1
  unfold restPart at hr
  simp only [Prod.mk.injEq] at hr
  exact ⟨hr.1, hr.2.1, hr.2.2.2.2.2.2.2.1, hr.2.2.2.2.2.2.2.2.1, hp.2.1, hp.2.2⟩

/-- the same for the operation as a whole: accepted, rejected or panicking, a `RecoverFaults` for `p` leaves everything but
    fault records, the fishing ledger and `p`'s reward / reward debt as it was -/
theorem C19_recover_step_frame (e : Env) (y : Sys) (c p : Addr) (fs : List FaultIn) (ik : Nat) :
    PenRel p y.st (step e y (.recover c p fs ik)).2.st := by
  show PenRel p y.st (atomic y.st (saoRecoverFaults y.st c p fs ik)).2
  unfold atomic
  split
  · rename_i s' hs; exact saoRecoverFaults_pen _ _ _ _ _ _ hs
  · split <;> exact PenRel.refl p y.st

/-- and `ReportFaults` changes no pledge record at all, nor anything else outside the fault store -/
theorem C19_report_step_frame (e : Env) (y : Sys) (c p : Addr) (fs : List FaultIn) (ids : List StrId) :
    restPart (step e y (.report c p fs ids)).2.st = restPart y.st ∧ (step e y (.report c p fs ids)).2.st.pledges = y.st.pledges := by
  show restPart (atomic y.st (saoReportFaults y.st c p fs ids)).2 = restPart y.st ∧ (atomic y.st (saoReportFaults y.st c p fs ids)).2.pledges = y.st.pledges
  unfold atomic
  split
  · rename_i s' hs
    have h := C19_report_frame _ _ _ _ _ _ hs
    have hfx := saoReportFaults_fixed _ _ _ _ _ _ hs
    have hmt := saoReportFaults_mt _ _ _ _ _ _ hs
    unfold sameExceptFaults at h
    unfold fixedPart at hfx
    unfold metaPart at hmt
    simp only [Prod.mk.injEq] at hfx hmt
    obtain ⟨h1, h2, h3, h4, h5, h6, h7, h8, h9, h10, _, h12, _⟩ := h
    refine ⟨?_, h7.symm⟩
    unfold restPart
    rw [← h1, ← h2, ← h8, ← h9, ← h6, ← h5, ← h10, ← h3, ← h4, ← h12, hmt.2, hfx.2.2.2.2.1, hfx.2.2.2.2.2]
  · split <;> exact ⟨rfl, rfl⟩

example : Pen { (default : Pledge) with reward := 5, rewardDebt := 7 } { (default : Pledge) with reward := 0, rewardDebt := 7 } :=
  ⟨rfl, Or.inr rfl, Or.inl rfl⟩

end SaoVerif
