import SaoVerif.Generated.Facts
/-!
# C08 / C06 — where coins are created and moved, regenerated from the Go source on every run

The model moves coins only through `send` / `sendLit` (transfers between two accounts) and `mint` (the begin-blocker);
`C06_step_keeps_ledger_balanced` and `C08_coins_are_created_only_by_the_begin_blocker` rest on that. That the Go code has
no other way of touching a balance is checked here against `Generated/Facts.lean` (`coinCalls`: every call of a bank-keeper
style method that mints, burns, sends or (un)delegates coins, or writes a balance or the supply, in keepers, module roots and
`app/`):

* `C08_mint_only_in_begin_blocker` — the only minting call is `k.MintCoins` in the node `BeginBlocker` (through the keeper's
  one-line wrapper of `bank.MintCoins`);
* `C06_no_burn_and_no_raw_balance_writes` (Properties/C06Facts.lean) — every other call is one of the four transfer methods: no `BurnCoins`, no
  `SetBalance` / `AddCoins` / `SubUnlockedCoins` / `SetSupply`, no delegation of module funds;
* `C06_transfer_sites_are_the_known_ones` (Properties/C06Facts.lean) — the functions that transfer coins are the fourteen the model transfers in
  (`nodeAddVstorage`, `nodeRemoveVstorage`, `nodeClaimReward`, `shardPledge`, `shardRelease`, `marketDeposit`,
  `marketWithdraw`, `refundOrder`, `renewOrder`, `orderTerminate`, `sendToDidBalances`, `renewShard`, `storePlace`,
  `timeoutGiveUp`). A new transfer site, or a transfer removed, changes this list and has to be modelled.
-/
namespace SaoVerif

def transferMethods : List String :=
  ["k.bank.SendCoinsFromModuleToModule", "k.bank.SendCoinsFromAccountToModule", "k.bank.SendCoinsFromModuleToAccount",
   "k.did.SendCoinsFromModuleToDidBalances"]

theorem C08_mint_only_in_begin_blocker :
    Generated.coinCalls.filter (fun x => !transferMethods.contains x.2.2) =
      [ ("x/node/abci.go", "BeginBlocker", "k.MintCoins"),
        ("x/node/keeper/keeper.go", "Keeper.MintCoins", "k.bank.MintCoins") ] := by decide

end SaoVerif
