import SaoVerif.Proofs.FaultFoot
import SaoVerif.Properties.C08Footprint
/-!
# C19 — fault records change only through the two fault messages

`fltPart s` (Proofs/FaultFoot.lean) = fault store, its index, the fishing-reward ledger. No operation other than
`ReportFaults` and `RecoverFaults` changes it (`C19_fault_records_change_only_by_fault_messages`) — apart from the
export/import round trip, which drops these stores (finding F19, C18). Together with `C19_report_requires_fishman` and
`C19_recover_requires_role` (who may send those two messages) and `C19_report_frame` (what they change): a fault record is
created, confirmed or cleared only by a registered fishman's report or by the accused provider's / a fishman's recovery
message, over every history (`C19_faults_over_histories`).
-/
namespace SaoVerif

/-! ### staking messages -/
theorem setRole_fltS (e : Env) (s : State) (a : Addr) (r : Nat) (v : Option ValAddr) : fltPart (setRole e s a r v) = fltPart s := by
  unfold setRole; split <;> rfl

theorem verifyLoop_fltS (e : Env) (val : ValAddr) (acc : Option Addr) (b : Bool) (sub : Dec) (l : List DelegationV) (s s' : State)
    (h : verifySuper.loop e val acc b sub l s = .ok s') : fltPart s' = fltPart s := by
  induction l generalizing s with
  | nil => unfold verifySuper.loop at h; simp only [pure, Except.pure, Except.ok.injEq] at h; rw [← h]
  | cons d t ih =>
    unfold verifySuper.loop at h
    have key : ∀ (x : State), fltPart x = fltPart s → verifySuper.loop e val acc b sub t x = .ok s' → fltPart s' = fltPart s :=
      fun x hx hl => (ih _ hl).trans hx
    have k1 : ∀ (c : Prop) [Decidable c] (a : Addr) (r : Nat) (v : Option ValAddr),
        fltPart (if c then setRole e s a r v else s) = fltPart s := by
      intro c _ a r v; split
      · exact setRole_fltS _ _ _ _ _
      · rfl
    split at h
    · exact ih _ h
    · split at h
      · exact ih _ h
      · split at h
        · exact key _ (k1 _ _ _ _) h
        · split at h
          · exact key _ (k1 _ _ _ _) h
          · dsimp only at h
            split at h
            all_goals (
              split at h
              · exact key _ (k1 _ _ _ _) h
              · obtain ⟨ok, _, h⟩ := bind_ok h
                split at h
                · exact key _ (k1 _ _ _ _) h
                · exact key _ (k1 _ _ _ _) h)

theorem verifySuper_fltS (e : Env) (s s' : State) (g g' : Dec) (v : ValAddr) (a : Option Addr) (b : Bool)
    (h : verifySuper e s g v a b = .ok (s', g')) : fltPart s' = fltPart s := by
  unfold verifySuper at h
  dsimp only at h
  obtain ⟨sub, _, h⟩ := bind_ok h
  obtain ⟨s1, hs1, h⟩ := bind_ok h
  simp only [pure, Except.pure, Except.ok.injEq, Prod.mk.injEq] at h
  rw [← h.1]
  exact verifyLoop_fltS _ _ _ _ _ _ _ _ hs1

theorem send_fltS (s s' : State) (a b : Addr) (x : Int) (h : s.send a b x = .ok s') : fltPart s' = fltPart s := send_flt _ _ _ _ _ h

/-- the outcome of a staking message: whatever the result and the package variable, committed `fltPart` is kept -/
def keepsFlt (s : State) (r : Dec × TxM State) : Prop :=
  match r.2 with
  | .ok s' => fltPart s' = fltPart s
  | .error _ => True

theorem delegate_keepsFlt (e : Env) (s : State) (g : Dec) (del : Addr) (val : ValAddr) (amt : Int) :
    keepsFlt s (stakeDelegate e s g del val amt) := by
  unfold stakeDelegate
  split
  · simp [keepsFlt, throw, throwThe, MonadExceptOf.throw]
  · dsimp only
    split
    · simp [keepsFlt, throw, throwThe, MonadExceptOf.throw]
    · rename_i s1 hs1
      split
      · simp [keepsFlt, throw, throwThe, MonadExceptOf.throw]
      · split
        · simp [keepsFlt, throw, throwThe, MonadExceptOf.throw]
        · rename_i s2 g2 hv
          simp only [keepsFlt, pure, Except.pure]
          rw [verifySuper_fltS _ _ _ _ _ _ _ _ hv]
          show fltPart s1 = fltPart s
          exact send_fltS _ _ _ _ _ hs1

theorem undelegate_keepsFlt (e : Env) (s : State) (g : Dec) (del : Addr) (val : ValAddr) (amt : Int) :
    keepsFlt s (stakeUndelegate e s g del val amt) := by
  unfold stakeUndelegate
  split
  · simp [keepsFlt, throw, throwThe, MonadExceptOf.throw]
  · simp [keepsFlt, throw, throwThe, MonadExceptOf.throw]
  · dsimp only
    split
    · simp [keepsFlt, throw, throwThe, MonadExceptOf.throw]
    · split
      · simp [keepsFlt, throw, throwThe, MonadExceptOf.throw]
      · split
        · simp [keepsFlt, throw, throwThe, MonadExceptOf.throw]
        · split
          · simp [keepsFlt, throw, throwThe, MonadExceptOf.throw]
          · rename_i s2 g2 hr
            have hs2 : fltPart s2 = fltPart s := by
              split at hr
              · obtain ⟨x, hx, hr⟩ := bind_ok hr
                obtain ⟨sx, gx⟩ := x
                simp only [pure, Except.pure, Except.ok.injEq, Prod.mk.injEq] at hr
                rw [← hr.1]
                show fltPart sx = fltPart s
                exact verifySuper_fltS _ _ _ _ _ _ _ _ hx
              · rw [verifySuper_fltS _ _ _ _ _ _ _ _ hr]; rfl
            split
            · split
              · simp [keepsFlt, throw, throwThe, MonadExceptOf.throw]
              · rename_i s3 hs3
                simp only [keepsFlt, pure, Except.pure]
                have := send_fltS _ _ _ _ _ hs3
                exact this.trans hs2
            · simp only [keepsFlt, pure, Except.pure]
              exact hs2


theorem redelegate_keepsFlt (e : Env) (s : State) (g : Dec) (del : Addr) (src dst : ValAddr) (amt : Int) :
    keepsFlt s (stakeRedelegate e s g del src dst amt) := by
  unfold keepsFlt
  split
  · rename_i s' hs
    exact redelegate_keeps fltPart (fun e s s' g g' v a b h => verifySuper_fltS e s s' g g' v a b h)
      (fun s s' a b x h => send_fltS s s' a b x h) (fun _ _ => rfl) e s g del src dst amt s' hs
  · trivial

/-! ### every operation -/
theorem begin_flt (e : Env) (s s' : State) (h : nodeBeginBlock e s = .ok s') : fltPart s' = fltPart s := by
  unfold nodeBeginBlock at h
  split at h
  · dsimp only at h
    obtain ⟨r, hr, h⟩ := bind_ok h
    split at h
    · obtain ⟨pool', _, h⟩ := bind_ok h
      simp only [pure, Except.pure, Except.ok.injEq] at h
      rw [← h]; rfl
    · simp only [pure, Except.pure, Except.ok.injEq] at h; rw [← h]
  · simp only [pure, Except.pure, Except.ok.injEq] at h; rw [← h]

theorem atomic_flt (s : State) (r : TxM State) (h : ∀ s', r = .ok s' → fltPart s' = fltPart s) : fltPart (atomic s r).2 = fltPart s := by
  unfold atomic
  split
  · exact h _ rfl
  · split <;> rfl

theorem blocker_flt (s : State) (r : TxM State) (h : ∀ s', r = .ok s' → fltPart s' = fltPart s) : fltPart (blocker s r).2 = fltPart s := by
  unfold blocker
  split
  · exact h _ rfl
  · split <;> rfl

def isFaultMsg : Op → Bool
  | .report .. => true
  | .recover .. => true
  | .genesis => true     -- the round trip drops the fault stores (F19)
  | _ => false

theorem stepC_flt (e : Env) (s : State) (op : Op) (hop : isFaultMsg op = false) : fltPart (stepC e s op).2 = fltPart s := by
  cases op
  case report => cases hop
  case recover => cases hop
  case genesis => cases hop
  case advance to seed => rfl
  case begin_ => exact blocker_flt _ _ (fun s' h => begin_flt e s s' h)
  case end_ => exact blocker_flt _ _ (fun s' h => endBlock_flt e s s' h)
  case create c => exact atomic_flt _ _ (fun s' h => nodeCreate_flt e s s' c h)
  case reset m => exact atomic_flt _ _ (fun s' h => nodeReset_flt e s s' m h)
  case addv c n => exact atomic_flt _ _ (fun s' h => nodeAddVstorage_flt e s s' c n h)
  case remv c n => exact atomic_flt _ _ (fun s' h => nodeRemoveVstorage_flt e s s' c n h)
  case claim c =>
    refine atomic_flt _ _ (fun s' h => ?_)
    cases hc : nodeClaimReward e s c with
    | error m => rw [hc] at h; cases h
    | ok v =>
      rw [hc] at h
      simp only [Except.map, Except.ok.injEq] at h
      rw [← h]
      exact nodeClaimReward_flt e s v.1 c v.2 hc
  case store m => exact atomic_flt _ _ (fun s' h => saoStore_flt e s s' m h)
  case ready c p o => exact atomic_flt _ _ (fun s' h => saoReady_flt s s' c p o h)
  case complete c p o sz ok cid => exact atomic_flt _ _ (fun s' h => saoComplete_flt e s s' c p o sz ok cid h)
  case cancel c p o => exact atomic_flt _ _ (fun s' h => saoCancel_flt e s s' c p o h)
  case terminate c p ow d sv sd => exact atomic_flt _ _ (fun s' h => saoTerminate_flt e s s' c p ow d sv sd h)
  case renew c p sv sd du t data =>
    refine atomic_flt _ _ (fun s' h => ?_)
    cases hc : saoRenew e s c p sv sd du t data with
    | error m => rw [hc] at h; cases h
    | ok v =>
      rw [hc] at h
      simp only [Except.map, Except.ok.injEq] at h
      rw [← h]
      exact saoRenew_flt e s v.1 c p sv sd du t data v.2 hc
  case migrate c p data => exact atomic_flt _ _ (fun s' h => saoMigrate_flt s s' c p data h)
  case perm c p ow d ro rw sv => exact atomic_flt _ _ (fun s' h => saoPermission_flt s s' c p ow d ro rw sv h)
  case payaddr m => exact atomic_flt _ _ (fun s' h => by rw [(didPayAddr_ok s s' m h).2]; rfl)
  case binding m => exact atomic_flt _ _ (fun s' h => by rw [(didBinding_ok s s' m h).2]; rfl)
  case didupdate m => exact atomic_flt _ _ (fun s' h => by obtain ⟨d, hd⟩ := didUpdate_ok s s' m h; rw [hd]; rfl)
  all_goals rfl

/-- **C19, for every operation and state**: fault records, their index and the fishing-reward ledger change only through
    `ReportFaults` and `RecoverFaults` (and are dropped by an export/import round trip, finding F19) -/
theorem C19_fault_records_change_only_by_fault_messages (e : Env) (y : Sys) (op : Op) (hop : isFaultMsg op = false) :
    fltPart (step e y op).2.st = fltPart y.st := by
  cases op
  case delegate c v a =>
    simp only [step, stepBase, stakeStep]
    have := delegate_keepsFlt e y.st y.global c v a
    unfold keepsFlt at this
    split
    · rename_i s' hs; rw [hs] at this; exact this
    · rfl
  case undelegate c v a =>
    simp only [step, stepBase, stakeStep]
    have := undelegate_keepsFlt e y.st y.global c v a
    unfold keepsFlt at this
    split
    · rename_i s' hs; rw [hs] at this; exact this
    · rfl
  case redelegate c v w a =>
    simp only [step, stepBase, stakeStep]
    have := redelegate_keepsFlt e y.st y.global c v w a
    unfold keepsFlt at this
    split
    · rename_i s' hs; rw [hs] at this; exact this
    · rfl
  case restart => rfl
  case genesis => cases hop
  case sim inner => rfl
  all_goals exact stepC_flt e y.st _ hop

/-- **C19 over histories**: a history without fault messages (and without an export/import) leaves every fault record, the
    index and the fishing ledger exactly as they were -/
theorem C19_faults_over_histories (e : Env) (y : Sys) (ops : List Op) (h : ∀ op ∈ ops, isFaultMsg op = false) :
    fltPart (runOps e y ops).st = fltPart y.st := by
  induction ops generalizing y with
  | nil => rfl
  | cons op t ih =>
    show fltPart (runOps e (step e y op).2 t).st = fltPart y.st
    rw [ih _ (fun o ho => h o (List.mem_cons_of_mem _ ho))]
    exact C19_fault_records_change_only_by_fault_messages e y op (h op List.mem_cons_self)

end SaoVerif
