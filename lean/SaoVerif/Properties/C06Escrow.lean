import SaoVerif.Properties.C06
import SaoVerif.Properties.C07
import SaoVerif.Properties.C14
/-!
# C06 — node escrow solvency is preserved by the capacity messages

`NodeSolvent e s`: the node module account holds at least Σ (capacity collateral + shard collateral)
− Σ recorded debts (the Prop form of `Spec.solventNode`, `nodeSolvent_iff`).
`C06_remove_keeps_node_solvent`: every accepted RemoveVstorage pays out of the escrow exactly what it
takes off the provider's recorded collateral, so solvency is preserved for every state, provider and
size; `C06_remove_pays_the_pledger`: the coins go to the provider that sent the message and to nobody
else.
-/
namespace SaoVerif
open Spec

def NodeSolvent (e : Env) (s : State) : Prop := s.bal e.modNode ≥ owedNode s

theorem nodeSolvent_iff (e : Env) (s : State) : solventNode e s = true ↔ NodeSolvent e s := by
  unfold solventNode NodeSolvent; simp

theorem setPledge_bank (s : State) (p : Pledge) : (s.setPledge p).bank = s.bank ∧ (s.setPledge p).debts = s.debts := by
  unfold State.setPledge; exact ⟨rfl, rfl⟩

theorem bal_congr (s t : State) (a : Addr) (h : t.bank = s.bank) : t.bal a = s.bal a := by
  unfold State.bal; rw [h]

theorem C06_remove_keeps_node_solvent (e : Env) (s s' : State) (c : Addr) (size : Nat)
    (hu : uniquePledges s) (hne : e.modNode ≠ c) (hs : NodeSolvent e s)
    (h : nodeRemoveVstorage e s c size = .ok s') : NodeSolvent e s' := by
  obtain ⟨pl, s1, s2, hpl, hs1, hs2, rfl⟩ := remv_ok e s s' c size h
  have hfr := send_frame _ _ _ _ _ hs1
  have hsend := C06_send_conserves _ _ _ _ _ hs1 hne
  have ⟨_, hpledge⟩ := remvPlan_ok _ _ _ _ hpl
  have hd := demoteIfDue_frame _ _ _ _ _ hs2
  have hs2p : s2.pledges = s.pledges := by rw [hd.1, hfr.1]
  have hcr := getPledge_creator _ _ _ hpledge
  have htot := remvPledge_totals pl
  have hu2 : uniquePledges s2 := by unfold uniquePledges; rw [hs2p]; exact hu
  have hg2 : s2.getPledge (remvPledge pl).creator = some pl.pledge := by
    unfold State.getPledge; rw [hs2p, htot.2.2.1, hcr]; exact hpledge
  have hsum := C14_set_pledge_sum (fun p => p.totalStoragePledged + p.totalShardPledged) s2 (remvPledge pl) pl.pledge hu2 hg2
  unfold NodeSolvent owedNode at hs ⊢
  have hbal : ({ (s2.setPledge (remvPledge pl)) with
      pool := some { pl.pool with totalPledged := pl.pool.totalPledged - pl.amount, totalStorage := pl.pool.totalStorage - pl.sz } } : State).bal e.modNode
      = s.bal e.modNode - pl.amount := by
    rw [← hsend.1]
    apply bal_congr
    show (s2.setPledge (remvPledge pl)).bank = s1.bank
    rw [(setPledge_bank _ _).1, hd.2.1]
  have hdebts : ({ (s2.setPledge (remvPledge pl)) with
      pool := some { pl.pool with totalPledged := pl.pool.totalPledged - pl.amount, totalStorage := pl.pool.totalStorage - pl.sz } } : State).debts = s.debts := by
    show (s2.setPledge (remvPledge pl)).debts = s.debts
    rw [(setPledge_bank _ _).2, hd.2.2, hfr.2.2.2.2.2.2.2]
  rw [hbal, hdebts]
  show s.bal e.modNode - pl.amount ≥ sumInt ((s2.setPledge (remvPledge pl)).pledges.map (fun p => p.totalStoragePledged + p.totalShardPledged)) - _
  rw [hsum, hs2p]
  simp only [htot.2.1, htot.2.2.2.2]
  omega

/-- the released coins go to the provider that asked, and to no third account -/
theorem C06_remove_pays_the_pledger (e : Env) (s s' : State) (c : Addr) (size : Nat) (hne : e.modNode ≠ c)
    (h : nodeRemoveVstorage e s c size = .ok s') :
    ∃ amount, 0 < amount ∧ s'.bal c = s.bal c + amount ∧ s'.bal e.modNode = s.bal e.modNode - amount ∧
      ∀ x, x ≠ c → x ≠ e.modNode → s'.bal x = s.bal x := by
  obtain ⟨pl, s1, s2, hpl, hs1, hs2, rfl⟩ := remv_ok e s s' c size h
  have hsend := C06_send_conserves _ _ _ _ _ hs1 hne
  have hd := demoteIfDue_frame _ _ _ _ _ hs2
  have hg := C07_remove_guard s c size pl hpl
  have hb : ∀ x, ({ (s2.setPledge (remvPledge pl)) with
      pool := some { pl.pool with totalPledged := pl.pool.totalPledged - pl.amount, totalStorage := pl.pool.totalStorage - pl.sz } } : State).bal x = s1.bal x := by
    intro x
    apply bal_congr
    show (s2.setPledge (remvPledge pl)).bank = s1.bank
    rw [(setPledge_bank _ _).1, hd.2.1]
  refine ⟨pl.amount, hg.2.2.2.2.1, ?_, ?_, ?_⟩
  · rw [hb, hsend.2.1]
  · rw [hb, hsend.1]
  · intro x hx1 hx2; rw [hb]; exact hsend.2.2.1 x hx2 hx1

end SaoVerif
