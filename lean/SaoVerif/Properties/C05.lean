import SaoVerif.Properties.C06
/-!
# C05 — Full refund and clean rollback when storage never started

* `C05_refund_full`: `RefundOrder` pays exactly the order's amount from the order escrow to the
  payer's payment address (the sponsor's when the order names one, else the owner's), and nothing
  else moves; a failed refund changes nothing.
* `C05_refund_failure_changes_nothing`: a refund that cannot be made leaves the state untouched.
* the shards of the order are removed by folding `removeShard` over `order.Shards`, characterised for
  all id lists by `foldl_removeShard` (Properties/C01.lean).
* `C05_rollback_new_model`: rolling back a model without committed versions removes the model and
  its alias.
The conjunction on implementation states (refund received, order and shards gone, model rolled
back to its committed version) is the monitor clause `cleanRefund`, evaluated on every cancel and
end-block; `seeded/C05-1` (timeout give-up leaving re-assigned shards behind) is caught by it.
-/
namespace SaoVerif

theorem C05_refund_full (e : Env) (s s' : State) (oid : Nat) (o : Order) (payer : Addr)
    (ho : s.getOrder oid = some o)
    (hp : s.paymentAddress (if o.paymentDid ≠ 0 then o.paymentDid else o.owner) = some payer)
    (hne : e.modOrder ≠ payer) (h : refundOrder e s oid = (s', none)) :
    s'.bal payer = s.bal payer + o.amount ∧ s'.bal e.modOrder = s.bal e.modOrder - o.amount ∧
    (∀ c, c ≠ payer → c ≠ e.modOrder → s'.bal c = s.bal c) ∧ s'.orders = s.orders ∧ s'.shards = s.shards := by
  unfold refundOrder at h
  simp only [ho, hp] at h
  split at h
  · simp at h
  · rename_i s1 hs
    simp only [Prod.mk.injEq, and_true] at h
    subst h
    unfold State.sendLit at hs
    split at hs
    · cases hs
    · obtain ⟨a, b, c, _, _, _⟩ := C06_send_conserves s s1 e.modOrder payer o.amount hs hne
      refine ⟨b, a, fun x h1 h2 => c x h2 h1, ?_, ?_⟩
      · unfold State.send at hs
        split at hs
        · cases hs
        · split at hs
          · cases hs
          · simp only [pure, Except.pure, Except.ok.injEq] at hs; subst hs; rfl
      · unfold State.send at hs
        split at hs
        · cases hs
        · split at hs
          · cases hs
          · simp only [pure, Except.pure, Except.ok.injEq] at hs; subst hs; rfl

theorem C05_refund_failure_changes_nothing (e : Env) (s s' : State) (oid : Nat) (m : String)
    (h : refundOrder e s oid = (s', some m)) : s' = s := by
  unfold refundOrder at h
  split at h
  · simp only [Prod.mk.injEq] at h; exact h.1.symm
  · simp only at h
    split at h
    · simp only [Prod.mk.injEq] at h; exact h.1.symm
    · split at h
      · simp only [Prod.mk.injEq] at h; exact h.1.symm
      · simp only [Prod.mk.injEq] at h; cases h.2

theorem C05_rollback_new_model (s s' : State) (d : Bytes) (m : Metadata) (hm : s.getMeta d = some m)
    (hc : m.commits = []) (h : rollbackMeta s d = .ok s') :
    s' = (s.removeMeta d).removeModel (metaKey m) := by
  unfold rollbackMeta at h
  simp only [hm, hc, List.length_nil, ↓reduceIte, pure, Except.pure, Except.ok.injEq] at h
  exact h.symm

end SaoVerif
