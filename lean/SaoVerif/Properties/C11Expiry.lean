import SaoVerif.Properties.C05Cancel
/-!
# C11 — at the end of its paid period a shard is released once: its record goes, and the last shard takes the order along

`C11_expired_shard_is_removed`: for every state, when the expiry handler runs for a stored shard with no renewal pending, the
shard record is gone afterwards — so no later run (a stale schedule entry, a second entry at the same height) can release it
again: `handleExpiredShard` on an id that names no shard is the identity (`C11_expiry_of_absent_shard_is_noop`).
`C11_last_expired_shard_removes_order`: when that shard was the only one its order listed, the order record is gone too.
With a renewal pending the record stays under the same id and starts its next term (`C04_rollover_restarts_term`).
-/
namespace SaoVerif

theorem getOrder_removeOrder_self (s : State) (i : Nat) : (s.removeOrder i).getOrder i = none := by
  unfold State.getOrder State.removeOrder
  simp only
  apply List.find?_eq_none.mpr
  intro x hx
  have := (List.mem_filter.mp hx).2
  simpa using this

theorem C11_expiry_of_absent_shard_is_noop (e : Env) (s : State) (id : Nat) (h : s.getShard id = none) :
    handleExpiredShard e s id = .ok s := by
  unfold handleExpiredShard
  simp [h, pure, Except.pure, bind, Except.bind]

theorem C11_expired_shard_is_removed (e : Env) (s s' : State) (id : Nat) (sh : Shard) (o : Order)
    (hsh : s.getShard id = some sh) (ho : s.getOrder sh.orderId = some o) (hr : sh.renewInfos = [])
    (h : handleExpiredShard e s id = .ok s') : s'.getShard id = none := by
  unfold handleExpiredShard at h
  simp only [hsh, ho, hr, bind, Except.bind, pure, Except.pure] at h
  cases hrel : shardRelease e (workerRelease s o sh).1 sh.sp (some sh) with
  | error m => simp [hrel] at h
  | ok v =>
    simp only [hrel] at h
    have key : (v.1.removeShard id).getShard id = none := getShard_removeShard_self _ _
    have e1 : ∀ (y : State) (x : Order), (y.setOrder x).getShard id = y.getShard id := fun _ _ => rfl
    have e2 : ∀ (y : State) (x : Nat), (y.removeOrder x).getShard id = y.getShard id := fun _ _ => rfl
    repeat' (split at h)
    all_goals (simp only [Except.ok.injEq] at h; rw [← h])
    all_goals (first | exact key | (rw [e1]; exact key) | (rw [e2]; exact key))

theorem C11_last_expired_shard_removes_order (e : Env) (s s' : State) (id : Nat) (sh : Shard) (o : Order)
    (hsh : s.getShard id = some sh) (ho : s.getOrder sh.orderId = some o) (hl : o.shards = [id])
    (h : handleExpiredShard e s id = .ok s') : s'.getOrder o.id = none := by
  unfold handleExpiredShard at h
  simp only [hsh, ho, hl, bind, Except.bind, pure, Except.pure, List.length_singleton, if_true, List.head?_cons] at h
  split at h
  · cases h
  · simp only [Except.ok.injEq] at h; rw [← h]; exact getOrder_removeOrder_self _ _

end SaoVerif
