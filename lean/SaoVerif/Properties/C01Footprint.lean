import SaoVerif.Properties.C08Footprint
/-! C01: the write-footprint theorems of `Properties/C08Footprint.lean` that belong to this property
    (`C01_*` there) are part of this property's proof obligations: a change that breaks them breaks C01. -/
namespace SaoVerif
theorem C01_footprint (e : Env) (y : Sys) (op : Op) (hg : ∀ l, op ≠ .govfishmen l) :
    (step e y op).2.st.params = y.st.params := C01_parameters_never_change e y op hg
end SaoVerif
