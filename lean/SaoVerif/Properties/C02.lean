import SaoVerif.Proofs.Select
import SaoVerif.Model.Step
/-!
# C02 — Chain liveness (selection loops)

The modelled begin/end blockers and handlers are total functions; the only unbounded Go loops are
`RandomIndex` (now `randomIndexLoop`, accepted by Lean's termination checker with measure `seed`
after the `fix:` of F03 — before the fix no such measure existed and the model needed fuel) and the
`uint8` cursor loop of `GetNextSuperNodes` (structural on the tries left after the `fix:` of F04).

Proved here:
* `C02_randomIndex_exact`: `RandomIndex` returns exactly `count` indices whenever `total > count`
  (so selection never silently under-fills), for every seed including 0.
* `pickSuper`/`getNextSuperNode` are total (no fuel exhaustion case any more): the cursor loop is
  structurally recursive on the tries left, bounded by the number of super nodes (`fix:` of F04;
  the pre-fix model carried `∀ fuel, nextSuperLoop … = none` for the state of findings/F04, which
  was replayed on the implementation before the repair).
* `C02_cursor_in_range`: the cursor written back always indexes the current super-node list.
-/
namespace SaoVerif
open List

theorem filter_length_mono {α : Type} (p q : α → Bool) (l : List α) (h : ∀ x, p x = true → q x = true) :
    (l.filter p).length ≤ (l.filter q).length := by
  induction l with
  | nil => simp
  | cons x t ih =>
    simp only [List.filter_cons]
    cases hp : p x <;> cases hq : q x <;> simp <;> try omega
    have := h x hp; rw [hq] at this; cases this

/-- number of indices below `total` that are not yet used and ≥ i -/
theorem fillUnused_length (total : Nat) (i count : Nat) (idx : List Nat) (hn : idx.Nodup)
    (hroom : (idx.filter (fun x => decide (i ≤ x))).length + count ≤ total - i) (hb : ∀ x ∈ idx, x < total) :
    (fillUnused total i count idx).length = idx.length + count := by
  fun_induction fillUnused total i count idx with
  | case1 i idx => simp
  | case2 i count idx hlt hc ih =>
    apply ih hn _ hb
    -- i ∈ idx: dropping i from the ≥ filter frees one slot
    have hi : i ∈ idx := by simpa using hc
    have hsplit : (idx.filter (fun x => decide (i ≤ x))).length = (idx.filter (fun x => decide (i + 1 ≤ x))).length + 1 := by
      clear ih hroom hb hc hlt
      induction idx with
      | nil => cases hi
      | cons y t iht =>
        simp only [List.nodup_cons] at hn
        rcases List.mem_cons.mp hi with h | h
        · subst h
          have hnot : ∀ x ∈ t, ¬ (i = x) := fun x hx he => hn.1 (he ▸ hx)
          have : t.filter (fun x => decide (i ≤ x)) = t.filter (fun x => decide (i + 1 ≤ x)) := by
            apply List.filter_congr
            intro x hx
            have := hnot x hx
            simp; omega
          simp [List.filter_cons, this]
        · have := iht hn.2 h
          by_cases hy : i ≤ y
          · have hy' : i + 1 ≤ y := by
              have : y ≠ i := fun he => hn.1 (he ▸ h)
              omega
            simp [List.filter_cons, hy, hy', this]
          · have hy' : ¬ (i + 1 ≤ y) := by omega
            simp [List.filter_cons, hy, hy', this]
    omega
  | case3 i count idx hlt hc ih =>
    have hi : i ∉ idx := by simpa using hc
    have hn' : (idx ++ [i]).Nodup := by
      rw [List.nodup_append]
      exact ⟨hn, by simp, by intro a ha b hb'; simp at hb'; subst hb'; intro h; subst h; exact hi ha⟩
    have hb' : ∀ x ∈ idx ++ [i], x < total := by
      intro x hx
      rcases List.mem_append.mp hx with h | h
      · exact hb x h
      · simp at h; omega
    have hf : ((idx ++ [i]).filter (fun x => decide (i + 1 ≤ x))).length ≤ (idx.filter (fun x => decide (i ≤ x))).length := by
      simp only [List.filter_append, List.length_append]
      have h1 : ([i].filter (fun x => decide (i + 1 ≤ x))).length = 0 := by simp
      have h2 : (idx.filter (fun x => decide (i + 1 ≤ x))).length ≤ (idx.filter (fun x => decide (i ≤ x))).length := by
        apply filter_length_mono
        intro x hx; simp at hx ⊢; omega
      omega
    have := ih hn' (by omega) hb'
    simp at this ⊢; omega
  | case4 i count idx hge =>
    exfalso; omega

theorem randomIndexLoop_length (modulus total seed count : Nat) (idx : List Nat) (ht : 0 < total)
    (hn : idx.Nodup) (hb : ∀ x ∈ idx, x < total) (hroom : idx.length + count ≤ total) :
    (randomIndexLoop modulus total seed count idx).length = idx.length + count := by
  fun_induction randomIndexLoop modulus total seed count idx with
  | case1 idx => simp
  | case2 count idx hc =>
    apply fillUnused_length total 0 count idx hn _ hb
    have : idx.filter (fun x => decide (0 ≤ x)) = idx := by simp
    rw [this]; omega
  | case3 seed count idx hc hs rs hdup ih => exact ih hn hb hroom
  | case4 seed count idx hc hs rs hdup ih =>
    have hrs : rs < total := Nat.mod_lt _ ht
    have hi : rs ∉ idx := by simpa using hdup
    have hn' : (idx ++ [rs]).Nodup := by
      rw [List.nodup_append]
      exact ⟨hn, by simp, by intro a ha b hb'; simp at hb'; subst hb'; intro h; subst h; exact hi ha⟩
    have hb' : ∀ x ∈ idx ++ [rs], x < total := by
      intro x hx
      rcases List.mem_append.mp hx with h | h
      · exact hb x h
      · simp at h; omega
    have := ih hn' hb' (by simp; omega)
    simp at this ⊢; omega

/-- `RandomIndex` fills the request exactly, for every seed (including 0 and exhausted seeds). -/
theorem C02_randomIndex_exact (seed total count : Nat) (h : count < total) :
    (randomIndex seed total count).length = count := by
  unfold randomIndex
  have : ¬ total ≤ count := by omega
  simp only [this, ↓reduceIte]
  have := randomIndexLoop_length (modOf total) total seed count [] (by omega) (by simp) (by simp) (by simp; omega)
  simpa using this

/-- After the `fix:` of F04 the cursor written back by `GetNextSuperNodes` always indexes the
    current super-node list (or is 0), so the next call starts in range. -/
theorem C02_cursor_in_range (s s' : State) (r0 : Nat) (ignore : List Addr) (size : Int) (n : Node)
    (h : pickSuper s r0 ST_SELECT 8000 ignore size = (s', some n)) :
    ∃ c, s'.nodeRound = some c ∧ c < max 1 (s.nodes.filter (·.role = 1)).length := by
  unfold pickSuper at h
  simp only at h
  split at h
  · simp at h
  · rename_i i hi
    simp only [Prod.mk.injEq] at h
    obtain ⟨hs, _⟩ := h
    subst hs
    refine ⟨_, rfl, ?_⟩
    split <;> omega

end SaoVerif
