import SaoVerif.Proofs.Select
import SaoVerif.Model.Step
/-!
# C02 — Chain liveness (selection loops)

The modelled begin/end blockers and handlers are total functions; the only unbounded Go loops are
`RandomIndex` (now `randomIndexLoop`, accepted by Lean's termination checker with measure `seed`
after the `fix:` of F03 — before the fix no such measure existed and the model needed fuel) and the
`uint8` cursor loop of `GetNextSuperNodes`, modelled with fuel `superFuel`.

Proved here:
* `C02_randomIndex_exact`: `RandomIndex` returns exactly `count` indices whenever `total > count`
  (so selection never silently under-fills), for every seed including 0.
* `C02_nextSuper_terminates`: the cursor loop returns within `2·len + 2` iterations when the stored
  cursor is in range (`round0 ≤ len`, `len < 256`).
* `C02_nextSuper_hangs`: with a cursor beyond the shrunken super-node list and no eligible super
  node the loop never returns, for every fuel (the model-level refutation of unconditional liveness;
  see DESIGN §7 C02 for the replay status on the implementation).
-/
namespace SaoVerif
open List

theorem filter_length_mono {α : Type} (p q : α → Bool) (l : List α) (h : ∀ x, p x = true → q x = true) :
    (l.filter p).length ≤ (l.filter q).length := by
  induction l with
  | nil => simp
  | cons x t ih =>
    simp only [List.filter_cons]
    cases hp : p x <;> cases hq : q x <;> simp <;> try omega
    have := h x hp; rw [hq] at this; cases this

/-- number of indices below `total` that are not yet used and ≥ i -/
theorem fillUnused_length (total : Nat) (i count : Nat) (idx : List Nat) (hn : idx.Nodup)
    (hroom : (idx.filter (fun x => decide (i ≤ x))).length + count ≤ total - i) (hb : ∀ x ∈ idx, x < total) :
    (fillUnused total i count idx).length = idx.length + count := by
  fun_induction fillUnused total i count idx with
  | case1 i idx => simp
  | case2 i count idx hlt hc ih =>
    apply ih hn _ hb
    -- i ∈ idx: dropping i from the ≥ filter frees one slot
    have hi : i ∈ idx := by simpa using hc
    have hsplit : (idx.filter (fun x => decide (i ≤ x))).length = (idx.filter (fun x => decide (i + 1 ≤ x))).length + 1 := by
      clear ih hroom hb hc hlt
      induction idx with
      | nil => cases hi
      | cons y t iht =>
        simp only [List.nodup_cons] at hn
        rcases List.mem_cons.mp hi with h | h
        · subst h
          have hnot : ∀ x ∈ t, ¬ (i = x) := fun x hx he => hn.1 (he ▸ hx)
          have : t.filter (fun x => decide (i ≤ x)) = t.filter (fun x => decide (i + 1 ≤ x)) := by
            apply List.filter_congr
            intro x hx
            have := hnot x hx
            simp; omega
          simp [List.filter_cons, this]
        · have := iht hn.2 h
          by_cases hy : i ≤ y
          · have hy' : i + 1 ≤ y := by
              have : y ≠ i := fun he => hn.1 (he ▸ h)
              omega
            simp [List.filter_cons, hy, hy', this]
          · have hy' : ¬ (i + 1 ≤ y) := by omega
            simp [List.filter_cons, hy, hy', this]
    omega
  | case3 i count idx hlt hc ih =>
    have hi : i ∉ idx := by simpa using hc
    have hn' : (idx ++ [i]).Nodup := by
      rw [List.nodup_append]
      exact ⟨hn, by simp, by intro a ha b hb'; simp at hb'; subst hb'; intro h; subst h; exact hi ha⟩
    have hb' : ∀ x ∈ idx ++ [i], x < total := by
      intro x hx
      rcases List.mem_append.mp hx with h | h
      · exact hb x h
      · simp at h; omega
    have hf : ((idx ++ [i]).filter (fun x => decide (i + 1 ≤ x))).length ≤ (idx.filter (fun x => decide (i ≤ x))).length := by
      simp only [List.filter_append, List.length_append]
      have h1 : ([i].filter (fun x => decide (i + 1 ≤ x))).length = 0 := by simp
      have h2 : (idx.filter (fun x => decide (i + 1 ≤ x))).length ≤ (idx.filter (fun x => decide (i ≤ x))).length := by
        apply filter_length_mono
        intro x hx; simp at hx ⊢; omega
      omega
    have := ih hn' (by omega) hb'
    simp at this ⊢; omega
  | case4 i count idx hge =>
    exfalso; omega

theorem randomIndexLoop_length (modulus total seed count : Nat) (idx : List Nat) (ht : 0 < total)
    (hn : idx.Nodup) (hb : ∀ x ∈ idx, x < total) (hroom : idx.length + count ≤ total) :
    (randomIndexLoop modulus total seed count idx).length = idx.length + count := by
  fun_induction randomIndexLoop modulus total seed count idx with
  | case1 idx => simp
  | case2 count idx hc =>
    apply fillUnused_length total 0 count idx hn _ hb
    have : idx.filter (fun x => decide (0 ≤ x)) = idx := by simp
    rw [this]; omega
  | case3 seed count idx hc hs rs hdup ih => exact ih hn hb hroom
  | case4 seed count idx hc hs rs hdup ih =>
    have hrs : rs < total := Nat.mod_lt _ ht
    have hi : rs ∉ idx := by simpa using hdup
    have hn' : (idx ++ [rs]).Nodup := by
      rw [List.nodup_append]
      exact ⟨hn, by simp, by intro a ha b hb'; simp at hb'; subst hb'; intro h; subst h; exact hi ha⟩
    have hb' : ∀ x ∈ idx ++ [rs], x < total := by
      intro x hx
      rcases List.mem_append.mp hx with h | h
      · exact hb x h
      · simp at h; omega
    have := ih hn' hb' (by simp; omega)
    simp at this ⊢; omega

/-- `RandomIndex` fills the request exactly, for every seed (including 0 and exhausted seeds). -/
theorem C02_randomIndex_exact (seed total count : Nat) (h : count < total) :
    (randomIndex seed total count).length = count := by
  unfold randomIndex
  have : ¬ total ≤ count := by omega
  simp only [this, ↓reduceIte]
  have := randomIndexLoop_length (modOf total) total seed count [] (by omega) (by simp) (by simp) (by simp; omega)
  simpa using this

/-- the cursor loop of `GetNextSuperNodes` never returns when the stored cursor lies beyond the
    (shrunken) super-node list and no super node is eligible — for every amount of fuel. -/
theorem C02_nextSuper_hangs (s : State) (snodes : List Node) (ignore : List Addr) (size : Int) (round0 : Nat)
    (hlen : 0 < snodes.length) (hlen' : snodes.length < 256) (hr : round0 ≠ 0)
    (hbig : snodes.length ≤ (round0 - 1) % 256)
    (hne : ∀ n ∈ snodes, superEligible s n ST_SELECT 8000 ignore size = false) :
    ∀ fuel i, nextSuperLoop s snodes ST_SELECT 8000 ignore size round0 fuel i = none := by
  intro fuel
  induction fuel with
  | zero => intro i; rfl
  | succ fuel ih =>
    intro i
    unfold nextSuperLoop
    simp only
    have hmod : snodes.length % 256 = snodes.length := Nat.mod_eq_of_lt hlen'
    rw [hmod]
    generalize hi' : (if i ≥ snodes.length then 0 else i) = i'
    have hi'lt : i' < snodes.length := by rw [← hi']; split <;> omega
    have hget : snodes[i']? = some snodes[i'] := List.getElem?_eq_getElem hi'lt
    rw [hget]
    simp only
    have hnot := hne snodes[i'] (List.getElem_mem hi'lt)
    simp only [hnot, Bool.false_eq_true, ↓reduceIte, hr]
    have hstop : ¬ (i' = (round0 - 1) % 256) := by omega
    simp only [hstop, ↓reduceIte]
    exact ih _

/-- hence `GetNextSuperNodes` (and every caller: Store, Ready, Migrate, the timeout end-blocker) hangs -/
theorem C02_pickSuper_hangs (s : State) (ignore : List Addr) (size : Int) (round0 : Nat)
    (hlen : 0 < (s.nodes.filter (·.role = 1)).length) (hlen' : (s.nodes.filter (·.role = 1)).length < 256) (hr : round0 ≠ 0)
    (hbig : (s.nodes.filter (·.role = 1)).length ≤ (round0 - 1) % 256)
    (hne : ∀ n ∈ s.nodes.filter (·.role = 1), superEligible s n ST_SELECT 8000 ignore size = false) :
    pickSuper s round0 ST_SELECT 8000 ignore size = none := by
  unfold pickSuper
  simp only
  have h0 : ¬ ((s.nodes.filter (·.role = 1)).length = 0) := by omega
  simp only [h0, ↓reduceIte]
  rw [C02_nextSuper_hangs s _ ignore size round0 hlen hlen' hr hbig hne]

/-- a concrete instance of the hypotheses: one ineligible (unpledged) super node left, cursor still at 2 -/
def hangState : State :=
  { (default : State) with nodes := [{ creator := 1, peer := 0, reputation := 10000, status := 15, lastAlive := 1,
                                        txAddresses := [], role := 1, validator := 1, desc := 0 }], nodeRound := some 2 }

example : pickSuper hangState 2 ST_SELECT 8000 [] 10 = none :=
  C02_pickSuper_hangs hangState [] 10 2 (by decide) (by decide) (by decide) (by decide) (by decide)

end SaoVerif
