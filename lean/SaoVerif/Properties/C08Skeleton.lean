import SaoVerif.Skeleton.x_node_abci_go
import SaoVerif.Skeleton.x_node_keeper_msg_server_claim_reward_go
import SaoVerif.Skeleton.x_node_keeper_msg_server_add_vstorage_go
import SaoVerif.Skeleton.x_node_keeper_msg_server_remove_vstorage_go
import SaoVerif.Skeleton.x_node_keeper_shard_pledge_management_go
import SaoVerif.Skeleton.x_node_keeper_keeper_go
/-!
# C08 — the decision logic of the anchor files is the one that was modelled

The extractor (harness/cmd/extract) regenerates, on every run and from the tree under check, the *decision skeleton* of every
function: its branching constructs in source order, each guard with its condition and with how its branch ends (`return <err>`,
`continue`, `panic`, …). The hand-written model mirrors exactly these decisions (its `…Pre` / `…Guards` functions are the
guards of the handlers, in their order). This theorem says that for the files the property is anchored in
(x/node/abci.go, x/node/keeper/msg_server_claim_reward.go, x/node/keeper/msg_server_add_vstorage.go, x/node/keeper/msg_server_remove_vstorage.go, x/node/keeper/shard_pledge_management.go, x/node/keeper/keeper.go) the regenerated skeletons equal the ones the model was written against
(one kernel-evaluated equality per source file, `SaoVerif/Skeleton/<file>.lean`). A change of a guard, of its order, or a new or
removed branch breaks it: the correspondence then has to be re-established (the check searches the histories for a failing
input and reports the violation either way).
-/
namespace SaoVerif

theorem C08_decision_skeleton_as_modelled :
    [Generated.Skel.x_node_abci_go,
     Generated.Skel.x_node_keeper_msg_server_claim_reward_go,
     Generated.Skel.x_node_keeper_msg_server_add_vstorage_go,
     Generated.Skel.x_node_keeper_msg_server_remove_vstorage_go,
     Generated.Skel.x_node_keeper_shard_pledge_management_go,
     Generated.Skel.x_node_keeper_keeper_go] =
    [Expected.Skel.x_node_abci_go,
     Expected.Skel.x_node_keeper_msg_server_claim_reward_go,
     Expected.Skel.x_node_keeper_msg_server_add_vstorage_go,
     Expected.Skel.x_node_keeper_msg_server_remove_vstorage_go,
     Expected.Skel.x_node_keeper_shard_pledge_management_go,
     Expected.Skel.x_node_keeper_keeper_go] := by
  rw [skel_x_node_abci_go, skel_x_node_keeper_msg_server_claim_reward_go, skel_x_node_keeper_msg_server_add_vstorage_go, skel_x_node_keeper_msg_server_remove_vstorage_go, skel_x_node_keeper_shard_pledge_management_go, skel_x_node_keeper_keeper_go]

end SaoVerif
