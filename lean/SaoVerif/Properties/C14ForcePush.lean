import SaoVerif.Proofs.ShardsFoot
/-!
# C14 — a force-push settles every order of the replaced version before any shard record goes

`C14_settlement_removes_no_shard_record`: for every state and order, `model.TerminateOrder` — the refund computation, the
release of each stored shard's capacity and collateral, the refund and the removal of the order — leaves the shard store
exactly as it was. `C14_force_push_settles_before_removing`: so does the whole settlement loop of a force-push, however many
orders the replaced version has (a stored order and any number of renewals bought for it): the shard records are removed only
afterwards, all at once. That order matters because a renewal that has not started lists the same shards as the order it
renews, which still owns them: were the records dropped as each order is settled (the seeded change C14-9), the owning order
would find no shard to release and the provider's used capacity, collateral and income rate would stay booked for ever.
`Proofs/ShardsFoot.lean` is the footprint family of `Proofs/Fixed.lean` for the projection "the shard store", restricted to
the functions on this path.
-/
namespace SaoVerif

theorem C14_settlement_removes_no_shard_record (e : Env) (s s' : State) (o : Order) (x : Option String)
    (h : modelTerminateOrder e s o = .ok (s', x)) : s'.shards = s.shards :=
  modelTerminateOrder_shp e s s' o x h

theorem C14_force_push_settles_before_removing (e : Env) (lc : Bytes) (fuel : Nat) (s s' : State) (orders shardSet : List Nat)
    (x : List Nat × List Nat × Option String)
    (h : updateMeta.loop e lc fuel s orders shardSet = .ok (s', x)) : s'.shards = s.shards := by
  show shPart s' = shPart s
  induction fuel generalizing s orders shardSet with
  | zero =>
    unfold updateMeta.loop at h
    simp only [pure, Except.pure, Except.ok.injEq, Prod.mk.injEq] at h
    rw [← h.1]
  | succ n ih =>
    unfold updateMeta.loop at h
    split at h
    · simp only [pure, Except.pure, Except.ok.injEq, Prod.mk.injEq] at h; rw [← h.1]
    · split at h
      · simp only [pure, Except.pure, Except.ok.injEq, Prod.mk.injEq] at h; rw [← h.1]
      · split at h
        · simp only [pure, Except.pure, Except.ok.injEq, Prod.mk.injEq] at h; rw [← h.1]
        · simp only [bind, Except.bind, pure, Except.pure] at h
          split at h
          · cases h
          · rename_i y hy
            obtain ⟨s1, er⟩ := y
            simp only at h
            split at h
            · simp only [Except.ok.injEq, Prod.mk.injEq] at h; rw [← h.1]; exact modelTerminateOrder_shp _ _ _ _ _ hy
            · rw [ih _ _ _ h]; exact modelTerminateOrder_shp _ _ _ _ _ hy

end SaoVerif
