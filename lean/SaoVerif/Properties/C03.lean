import SaoVerif.Model.Step
/-!
# C03 — Crash-restart equivalence (and the in-memory half of C01)

In the model a process restart is `Op.restart`: the committed stores (`Sys.st`) are untouched and
the one mutable package variable of the code base goes back to its initial value. That no other
in-memory state exists is a *generated obligation* (`Generated.mutableGlobals`, keeper fields), and
the keeper-level emulation is cross-checked against real process restarts over a LevelDB.

`C03_statement`: inserting restarts anywhere in a history changes neither any result nor any
committed state. It is **refuted** on the unchanged tree (`C03_refuted`, replayed on the real
keepers as findings/F06) and proved for every history in which no staking message fails between
the two delegation hooks (`C03_partial`): exactly the histories on which the package variable is
zero at every transaction boundary.
-/
namespace SaoVerif

/-- run a history; `cuts` marks the positions after which the process is restarted -/
def runWith (e : Env) : Sys → List (Op × Bool) → List Res × Sys
  | y, [] => ([], y)
  | y, (op, cut) :: t =>
    let (r, y1) := step e y op
    let y2 := if cut then (step e y1 .restart).2 else y1
    let (rs, y3) := runWith e y2 t
    (r :: rs, y3)

def noCuts (ops : List (Op × Bool)) : List (Op × Bool) := ops.map (fun x => (x.1, false))

def C03_statement : Prop :=
  ∀ (e : Env) (y : Sys) (ops : List (Op × Bool)), y.global = 0 →
    (runWith e y ops).1 = (runWith e y (noCuts ops)).1 ∧ (runWith e y ops).2.st = (runWith e y (noCuts ops)).2.st

/-- every operation other than the three staking messages neither reads nor writes the package
    variable: by construction of `step` (handlers are functions of `State`). -/
theorem C03_nonstaking_independent (e : Env) (y : Sys) (g : Dec) (op : Op)
    (h1 : ∀ c v a, op ≠ .delegate c v a) (h2 : ∀ c v a, op ≠ .undelegate c v a) (h2r : ∀ c v w a, op ≠ .redelegate c v w a)
    (h3 : op ≠ .restart) (h4 : ∀ i, op ≠ .sim i) :
    (step e y op).1 = (step e ⟨y.st, g⟩ op).1 ∧ (step e y op).2.st = (step e ⟨y.st, g⟩ op).2.st ∧
    (step e y op).2.global = y.global := by
  cases op <;> first
    | exact absurd rfl (h1 _ _ _)
    | exact absurd rfl (h2 _ _ _)
    | exact absurd rfl (h2r _ _ _ _)
    | exact absurd rfl h3
    | exact absurd rfl (h4 _)
    | exact ⟨rfl, rfl, rfl⟩

/-- the same for the consensus step alone (no `sim` case to exclude) -/
theorem stepBase_nonstaking_global (e : Env) (y : Sys) (op : Op)
    (h1 : ∀ c v a, op ≠ .delegate c v a) (h2 : ∀ c v a, op ≠ .undelegate c v a) (h2r : ∀ c v w a, op ≠ .redelegate c v w a)
    (h3 : op ≠ .restart) :
    (stepBase e y op).2.global = y.global := by
  cases op <;> first
    | exact absurd rfl (h1 _ _ _)
    | exact absurd rfl (h2 _ _ _)
    | exact absurd rfl (h2r _ _ _ _)
    | exact absurd rfl h3
    | rfl

/-- **non-consensus calls (C01/C03).** A simulated or mempool-checked execution never changes the
    committed state, whatever it executes … -/
theorem C03_sim_commits_nothing (e : Env) (y : Sys) (inner : Op) :
    (step e y (.sim inner)).1 = .ok ∧ (step e y (.sim inner)).2.st = y.st := ⟨rfl, rfl⟩

/-- … and it is completely invisible (process memory included) unless it executes one of the three
    staking messages, the only operations that write the package variable (finding F06) -/
theorem C03_sim_invisible (e : Env) (y : Sys) (inner : Op)
    (h1 : ∀ c v a, inner ≠ .delegate c v a) (h2 : ∀ c v a, inner ≠ .undelegate c v a)
    (h2r : ∀ c v w a, inner ≠ .redelegate c v w a) (h3 : inner ≠ .restart) :
    (step e y (.sim inner)).2 = y := by
  have := stepBase_nonstaking_global e y inner h1 h2 h2r h3
  cases y
  simp only [step] at *
  simp_all

/-- a restart is invisible when the package variable is zero -/
theorem restart_noop (e : Env) (y : Sys) (h : y.global = 0) : (step e y .restart).2 = y := by
  cases y; simp_all [step, stepBase]

/-- histories on which the package variable is zero at every transaction boundary -/
def CleanRun (e : Env) : Sys → List (Op × Bool) → Prop
  | _, [] => True
  | y, (op, _) :: t => (step e y op).2.global = 0 ∧ CleanRun e (step e y op).2 t

theorem CleanRun_noCuts (e : Env) (y : Sys) (ops : List (Op × Bool)) (h : CleanRun e y ops) : CleanRun e y (noCuts ops) := by
  induction ops generalizing y with
  | nil => trivial
  | cons x t ih => exact ⟨h.1, ih _ h.2⟩

theorem C03_partial (e : Env) (y : Sys) (ops : List (Op × Bool)) (hc : CleanRun e y ops) :
    runWith e y ops = runWith e y (noCuts ops) := by
  induction ops generalizing y with
  | nil => rfl
  | cons x t ih =>
    obtain ⟨op, cut⟩ := x
    obtain ⟨h1, h2⟩ := hc
    simp only [runWith, noCuts, List.map_cons]
    have hr : (if cut then (step e (step e y op).2 .restart).2 else (step e y op).2) = (step e y op).2 := by
      split
      · exact restart_noop e _ h1
      · rfl
    rw [hr]
    have := ih (step e y op).2 h2
    simp only [noCuts] at this
    rw [this]
    rfl

/-- the staking hooks reset the variable on every successful path -/
theorem verifySuper_resets (e : Env) (s s' : State) (g g' : Dec) (v : ValAddr) (a : Option Addr) (b : Bool)
    (h : verifySuper e s g v a b = .ok (s', g')) : g' = 0 := by
  unfold verifySuper at h
  simp only [bind, Except.bind] at h
  split at h
  · cases h
  · split at h
    · cases h
    · simp only [pure, Except.pure, Except.ok.injEq, Prod.mk.injEq] at h
      exact h.2.symm

/-! ### refutation: the witness of findings/F06 at model level -/
def w06Node : Node := { creator := 2, peer := 0, reputation := 10000, status := 15, lastAlive := 1, txAddresses := [], role := 1, validator := 2, desc := 0 }
def w06State : State :=
  { (default : State) with
    nodes := [w06Node],
    pledges := [{ creator := 2, totalStoragePledged := 10, totalShardPledged := 0, reward := 0, rewardDebt := 0, totalStorage := 10000000, usedStorage := 0 }],
    params := { (default : NodeParams) with shareThreshold := 100000000000000000, vstorageThreshold := 5000000 },
    bank := [(11, 1000000)],
    staking := { validators := [{ addr := 2, tokens := 2115000, shares := 2115000 * precision, status := 3 }],
                 delegations := [{ del := 1, val := 2, shares := 1000000 * precision }, { del := 3, val := 2, shares := 900000 * precision },
                                 { del := 2, val := 2, shares := 215000 * precision }] } }

/-- with the residue 900000 left by a failed delegate, a 50000 delegation by a newcomer keeps
    node 2 super; after a restart (residue gone) the same delegation demotes it. -/
theorem C03_witness :
    ((step default ⟨w06State, 900000 * precision⟩ (.delegate 11 2 50000)).2.st.nodes.map (·.role)) = [1] ∧
    ((step default ⟨w06State, 0⟩ (.delegate 11 2 50000)).2.st.nodes.map (·.role)) = [0] := by
  constructor <;> decide

theorem C03_refuted : ¬ (∀ (e : Env) (y : Sys) (op : Op), (step e y op).2.st = (step e ⟨y.st, 0⟩ op).2.st) := by
  intro h
  have := h default ⟨w06State, 900000 * precision⟩ (.delegate 11 2 50000)
  have h1 := C03_witness.1
  have h2 := C03_witness.2
  rw [this] at h1
  simp only [] at h1
  rw [h2] at h1
  cases h1

/-- the history-level statement fails too: a failed delegate (insufficient funds after the
    Before hook), a restart or not, then the newcomer's delegation. -/
theorem C03_statement_refuted : ¬ C03_statement := by
  intro h
  have := (h default ⟨w06State, 0⟩ [(.delegate 3 2 5000000, true), (.delegate 11 2 50000, false)] rfl).2
  have hl : ((runWith default ⟨w06State, 0⟩ [(.delegate 3 2 5000000, true), (.delegate 11 2 50000, false)]).2.st.nodes.map (·.role)) = [0] := by decide
  have hr : ((runWith default ⟨w06State, 0⟩ (noCuts [(.delegate 3 2 5000000, true), (.delegate 11 2 50000, false)])).2.st.nodes.map (·.role)) = [1] := by decide
  rw [this] at hl
  rw [hr] at hl
  cases hl

end SaoVerif
