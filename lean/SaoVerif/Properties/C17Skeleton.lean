import SaoVerif.Skeleton.x_did_keeper_msg_server_binding_go
import SaoVerif.Skeleton.x_did_keeper_msg_server_update_go
import SaoVerif.Skeleton.x_did_keeper_msg_server_update_payment_address_go
import SaoVerif.Skeleton.x_did_keeper_did_management_go
import SaoVerif.Skeleton.x_did_keeper_utils_go
import SaoVerif.Skeleton.x_did_types_genesis_go
/-!
# C17 — the decision logic of the anchor files is the one that was modelled

The extractor (harness/cmd/extract) regenerates, on every run and from the tree under check, the *decision skeleton* of every
function: its branching constructs in source order, each guard with its condition and with how its branch ends (`return <err>`,
`continue`, `panic`, …). The hand-written model mirrors exactly these decisions (its `…Pre` / `…Guards` functions are the
guards of the handlers, in their order). This theorem says that for the files the property is anchored in
(x/did/keeper/msg_server_binding.go, x/did/keeper/msg_server_update.go, x/did/keeper/msg_server_update_payment_address.go, x/did/keeper/did_management.go, x/did/keeper/utils.go, x/did/types/genesis.go) the regenerated skeletons equal the ones the model was written against
(one kernel-evaluated equality per source file, `SaoVerif/Skeleton/<file>.lean`). A change of a guard, of its order, or a new or
removed branch breaks it: the correspondence then has to be re-established (the check searches the histories for a failing
input and reports the violation either way).
-/
namespace SaoVerif

theorem C17_decision_skeleton_as_modelled :
    [Generated.Skel.x_did_keeper_msg_server_binding_go,
     Generated.Skel.x_did_keeper_msg_server_update_go,
     Generated.Skel.x_did_keeper_msg_server_update_payment_address_go,
     Generated.Skel.x_did_keeper_did_management_go,
     Generated.Skel.x_did_keeper_utils_go,
     Generated.Skel.x_did_types_genesis_go] =
    [Expected.Skel.x_did_keeper_msg_server_binding_go,
     Expected.Skel.x_did_keeper_msg_server_update_go,
     Expected.Skel.x_did_keeper_msg_server_update_payment_address_go,
     Expected.Skel.x_did_keeper_did_management_go,
     Expected.Skel.x_did_keeper_utils_go,
     Expected.Skel.x_did_types_genesis_go] := by
  rw [skel_x_did_keeper_msg_server_binding_go, skel_x_did_keeper_msg_server_update_go, skel_x_did_keeper_msg_server_update_payment_address_go, skel_x_did_keeper_did_management_go, skel_x_did_keeper_utils_go, skel_x_did_types_genesis_go]

end SaoVerif
