import SaoVerif.Proofs.Fixed2
/-!
# C02 — when can the shard-expiry handler of the end-blocker panic?

`handleExpiredShard` runs in the sao end-blocker, where a panic halts the chain. Its only throwing step is the subtraction of
the released shard's collateral from the provider's recorded shard collateral (`sdk.Coin.Sub` panics on a negative result) —
every other failure of its callees is returned as an error value and ignored. `C02_expiry_handler_total`: if the provider's
recorded shard collateral covers the collateral of the shard being released, the handler returns normally, for every state.
That premise is the C14 invariant "shard collateral total = sum over the provider's stored shards" (monitor `shardPledgeAgrees`);
the halt of finding F01 was a state where a renewal top-up had been booked elsewhere, so the premise failed.
-/
namespace SaoVerif

theorem shardRelease_total (e : Env) (s : State) (sp : Addr) (sh : Shard)
    (hcov : ∀ pl pool, s.getPledge sp = some pl → s.pool = some pool → 0 ≤ (settle pool pl).totalShardPledged - sh.pledge) :
    ∃ r, shardRelease e s sp (some sh) = .ok r := by
  unfold shardRelease
  simp only [bind, Except.bind, pure, Except.pure, throw, throwThe, MonadExceptOf.throw]
  split
  · rename_i pl hpl
    split
    · rename_i pool hpool
      (try simp only)
      split
      · exact ⟨_, rfl⟩
      · have := hcov pl pool hpl hpool
        have hn : ¬ (settle pool pl).totalShardPledged - sh.pledge < 0 := by omega
        simp only [hn, if_false]
        exact ⟨_, rfl⟩
    · exact ⟨_, rfl⟩
  · exact ⟨_, rfl⟩

/-- **C02**: the expiry handler returns normally whenever the provider's recorded shard collateral covers the shard's -/
theorem C02_expiry_handler_total (e : Env) (s : State) (shardId : Nat)
    (hcov : ∀ sh pl pool, s.getShard shardId = some sh → s.getPledge sh.sp = some pl → s.pool = some pool →
      sh.pledge ≤ (settle pool pl).totalShardPledged) :
    ∃ s', handleExpiredShard e s shardId = .ok s' := by
  unfold handleExpiredShard
  cases hsh : s.getShard shardId with
  | none => exact ⟨s, rfl⟩
  | some shard =>
    simp only
    cases hord : s.getOrder shard.orderId with
    | none => exact ⟨s, rfl⟩
    | some order =>
      simp only [bind, Except.bind, pure, Except.pure]
      cases hri : shard.renewInfos with
      | nil =>
        simp only
        have hw : (workerRelease s order shard).1.getPledge shard.sp = s.getPledge shard.sp ∧ (workerRelease s order shard).1.pool = s.pool := by
          unfold workerRelease; split <;> exact ⟨rfl, rfl⟩
        obtain ⟨r, hr⟩ := shardRelease_total e (workerRelease s order shard).1 shard.sp shard (by
          intro pl pool hpl hpool
          rw [hw.1] at hpl; rw [hw.2] at hpool
          have := hcov shard pl pool hsh hpl hpool
          omega)
        rw [hr]
        simp only
        split
        · split <;> exact ⟨_, rfl⟩
        · exact ⟨_, rfl⟩
      | cons next rest =>
        simp only
        split
        · split <;> exact ⟨_, rfl⟩
        · exact ⟨_, rfl⟩

end SaoVerif
