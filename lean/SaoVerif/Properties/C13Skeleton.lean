import SaoVerif.Skeleton.x_order_keeper_order_go
import SaoVerif.Skeleton.x_order_keeper_shard_go
import SaoVerif.Skeleton.x_order_keeper_shard_management_go
import SaoVerif.Skeleton.x_model_keeper_data_management_go
import SaoVerif.Skeleton.x_sao_keeper_expire_management_go
import SaoVerif.Skeleton.x_sao_keeper_timeout_management_go
import SaoVerif.Skeleton.x_sao_keeper_msg_server_complete_go
import SaoVerif.Skeleton.x_sao_keeper_msg_server_migrate_go
import SaoVerif.Skeleton.x_sao_module_go
import SaoVerif.Skeleton.x_sao_keeper_msg_server_terminate_go
import SaoVerif.Skeleton.x_sao_keeper_msg_server_cancel_go
import SaoVerif.Skeleton.x_sao_keeper_msg_server_renew_go
import SaoVerif.Skeleton.x_sao_keeper_msg_server_store_go
import SaoVerif.Skeleton.x_sao_keeper_msg_server_ready_go
import SaoVerif.Skeleton.x_order_keeper_order_management_go
import SaoVerif.Skeleton.x_sao_keeper_expired_shard_go
import SaoVerif.Skeleton.x_sao_keeper_timeout_order_go
/-!
# C13 — the decision logic of the anchor files is the one that was modelled

The extractor (harness/cmd/extract) regenerates, on every run and from the tree under check, the *decision skeleton* of every
function: its branching constructs in source order, each guard with its condition and with how its branch ends (`return <err>`,
`continue`, `panic`, …). The hand-written model mirrors exactly these decisions (its `…Pre` / `…Guards` functions are the
guards of the handlers, in their order). This theorem says that for the files the property is anchored in
(x/order/keeper/order.go, x/order/keeper/shard.go, x/order/keeper/shard_management.go, x/model/keeper/data_management.go, x/sao/keeper/expire_management.go, x/sao/keeper/timeout_management.go, x/sao/keeper/msg_server_complete.go, x/sao/keeper/msg_server_migrate.go, x/sao/module.go; and, because the anchored code calls into them, x_sao_keeper_msg_server_terminate_go, x_sao_keeper_msg_server_cancel_go, x_sao_keeper_msg_server_renew_go, x_sao_keeper_msg_server_store_go, x_sao_keeper_msg_server_ready_go, x_order_keeper_order_management_go, x_sao_keeper_expired_shard_go, x_sao_keeper_timeout_order_go) the regenerated skeletons equal the ones the model was written against
(one kernel-evaluated equality per source file, `SaoVerif/Skeleton/<file>.lean`). A change of a guard, of its order, or a new or
removed branch breaks it: the correspondence then has to be re-established (the check searches the histories for a failing
input and reports the violation either way).
-/
namespace SaoVerif

theorem C13_decision_skeleton_as_modelled :
    [Generated.Skel.x_order_keeper_order_go,
     Generated.Skel.x_order_keeper_shard_go,
     Generated.Skel.x_order_keeper_shard_management_go,
     Generated.Skel.x_model_keeper_data_management_go,
     Generated.Skel.x_sao_keeper_expire_management_go,
     Generated.Skel.x_sao_keeper_timeout_management_go,
     Generated.Skel.x_sao_keeper_msg_server_complete_go,
     Generated.Skel.x_sao_keeper_msg_server_migrate_go,
     Generated.Skel.x_sao_module_go,
     Generated.Skel.x_sao_keeper_msg_server_terminate_go,
     Generated.Skel.x_sao_keeper_msg_server_cancel_go,
     Generated.Skel.x_sao_keeper_msg_server_renew_go,
     Generated.Skel.x_sao_keeper_msg_server_store_go,
     Generated.Skel.x_sao_keeper_msg_server_ready_go,
     Generated.Skel.x_order_keeper_order_management_go,
     Generated.Skel.x_sao_keeper_expired_shard_go,
     Generated.Skel.x_sao_keeper_timeout_order_go] =
    [Expected.Skel.x_order_keeper_order_go,
     Expected.Skel.x_order_keeper_shard_go,
     Expected.Skel.x_order_keeper_shard_management_go,
     Expected.Skel.x_model_keeper_data_management_go,
     Expected.Skel.x_sao_keeper_expire_management_go,
     Expected.Skel.x_sao_keeper_timeout_management_go,
     Expected.Skel.x_sao_keeper_msg_server_complete_go,
     Expected.Skel.x_sao_keeper_msg_server_migrate_go,
     Expected.Skel.x_sao_module_go,
     Expected.Skel.x_sao_keeper_msg_server_terminate_go,
     Expected.Skel.x_sao_keeper_msg_server_cancel_go,
     Expected.Skel.x_sao_keeper_msg_server_renew_go,
     Expected.Skel.x_sao_keeper_msg_server_store_go,
     Expected.Skel.x_sao_keeper_msg_server_ready_go,
     Expected.Skel.x_order_keeper_order_management_go,
     Expected.Skel.x_sao_keeper_expired_shard_go,
     Expected.Skel.x_sao_keeper_timeout_order_go] := by
  rw [skel_x_order_keeper_order_go, skel_x_order_keeper_shard_go, skel_x_order_keeper_shard_management_go, skel_x_model_keeper_data_management_go, skel_x_sao_keeper_expire_management_go, skel_x_sao_keeper_timeout_management_go, skel_x_sao_keeper_msg_server_complete_go, skel_x_sao_keeper_msg_server_migrate_go, skel_x_sao_module_go, skel_x_sao_keeper_msg_server_terminate_go, skel_x_sao_keeper_msg_server_cancel_go, skel_x_sao_keeper_msg_server_renew_go, skel_x_sao_keeper_msg_server_store_go, skel_x_sao_keeper_msg_server_ready_go, skel_x_order_keeper_order_management_go, skel_x_sao_keeper_expired_shard_go, skel_x_sao_keeper_timeout_order_go]

end SaoVerif
