import SaoVerif.Properties.C01
import SaoVerif.Properties.C12
import SaoVerif.Properties.C13
/-!
# C13 — the timeout clean-up keeps the order's shard list resolvable

`C13_settle_lists_existing`: for every state and order, after the timeout handler has dropped the shards
that never completed (`timeoutSettle`), the order is stored with exactly its completed shards, and every
id in that list still resolves to the same completed shard: no dangling shard reference is created, and
no completed shard is lost.
-/
namespace SaoVerif

theorem view_completed_spec (s : State) (o : Order) (id : Nat) (h : id ∈ (timeoutView s o).completed) :
    id ∈ o.shards ∧ ∃ sh, s.getShard id = some sh ∧ sh.status = ShardCompleted := by
  unfold timeoutView at h
  simp only [List.mem_map, List.mem_filter, List.mem_filterMap] at h
  obtain ⟨⟨i, sh⟩, ⟨⟨j, hj, hm⟩, hst⟩, hid⟩ := h
  cases hg : s.getShard j with
  | none => simp [hg] at hm
  | some sh' =>
    simp only [hg, Option.map_some, Option.some.injEq, Prod.mk.injEq] at hm
    obtain ⟨rfl, rfl⟩ := hm
    simp only at hid
    subst hid
    exact ⟨hj, sh', hg, by simpa using hst⟩

theorem view_uncompleted_spec (s : State) (o : Order) (id : Nat) (h : id ∈ (timeoutView s o).uncompleted) :
    ∃ sh, s.getShard id = some sh ∧ sh.status ≠ ShardCompleted := by
  unfold timeoutView at h
  simp only [List.mem_map, List.mem_filter, List.mem_filterMap] at h
  obtain ⟨⟨i, sh⟩, ⟨⟨j, hj, hm⟩, hst⟩, hid⟩ := h
  cases hg : s.getShard j with
  | none => simp [hg] at hm
  | some sh' =>
    simp only [hg, Option.map_some, Option.some.injEq, Prod.mk.injEq] at hm
    obtain ⟨rfl, rfl⟩ := hm
    simp only at hid
    subst hid
    exact ⟨sh', hg, by simpa using hst⟩

theorem getShard_id (s : State) (id : Nat) (sh : Shard) (h : s.getShard id = some sh) : sh.id = id := by
  have := List.find?_some h
  simpa using this

theorem find_filter_id (l : List Shard) (p : Shard → Bool) (id : Nat) (h : ∀ x : Shard, x.id = id → p x = true) :
    (l.filter p).find? (fun x => decide (x.id = id)) = l.find? (fun x => decide (x.id = id)) := by
  induction l with
  | nil => rfl
  | cons x t ih =>
    rw [List.filter_cons]
    by_cases hp : p x = true
    · rw [if_pos hp]; simp only [List.find?_cons]; rw [ih]
    · rw [if_neg hp]
      have hx : ¬ x.id = id := fun hx => hp (h x hx)
      simp only [List.find?_cons]
      have : decide (x.id = id) = false := by simpa using hx
      rw [this]; exact ih

/-- dropping the never-completed shards loses no completed shard of the order -/
theorem C13_settle_keeps_completed (s : State) (o : Order) (id : Nat) (h : id ∈ (timeoutView s o).completed) :
    ∃ sh, (timeoutSettle s o (timeoutView s o)).getShard id = some sh ∧ sh.status = ShardCompleted ∧ s.getShard id = some sh := by
  obtain ⟨_, sh, hg, hst⟩ := view_completed_spec s o id h
  have hnot : (timeoutView s o).uncompleted.contains id = false := by
    cases hc : (timeoutView s o).uncompleted.contains id with
    | false => rfl
    | true =>
      have hm : id ∈ (timeoutView s o).uncompleted := by simpa using hc
      obtain ⟨sh2, hg2, hst2⟩ := view_uncompleted_spec s o id hm
      rw [hg] at hg2; cases hg2; exact absurd hst hst2
  refine ⟨sh, ?_, hst, hg⟩
  have hshards : (timeoutSettle s o (timeoutView s o)).shards =
      s.shards.filter (fun x => !(timeoutView s o).uncompleted.contains x.id) := by
    unfold timeoutSettle
    simp only
    rw [foldl_removeShard]
    split <;> rfl
  unfold State.getShard at hg ⊢
  rw [hshards, find_filter_id _ _ id (by intro x hx; rw [hx, hnot]; rfl)]
  exact hg

/-- after the clean-up the order (when it had uncompleted shards) lists exactly its completed shards -/
theorem C13_settle_lists_existing (s : State) (o : Order) (hne : (timeoutView s o).uncompleted ≠ []) :
    ∃ o', (timeoutSettle s o (timeoutView s o)).getOrder o.id = some o' ∧ o'.shards = (timeoutView s o).completed ∧
      ∀ id ∈ o'.shards, ∃ sh, (timeoutSettle s o (timeoutView s o)).getShard id = some sh ∧ sh.status = ShardCompleted := by
  have hlen : (timeoutView s o).uncompleted.length ≠ 0 := by
    intro h0; exact hne (List.length_eq_zero_iff.mp h0)
  refine ⟨{ o with shards := (timeoutView s o).completed }, ?_, rfl, ?_⟩
  · unfold timeoutSettle
    simp only
    rw [if_pos hlen]
    exact getOrder_setOrder _ { o with shards := (timeoutView s o).completed }
  · intro id hid
    obtain ⟨sh, h1, h2, _⟩ := C13_settle_keeps_completed s o id hid
    exact ⟨sh, h1, h2⟩

end SaoVerif
