import SaoVerif.Properties.C07Shard
import SaoVerif.Properties.C12Ready
import SaoVerif.Properties.C12
/-!
# C13 — every shard task handed out for an order exists and names that order

"… every shard an order lists exists, every existing shard is listed by the existing order it names …"

`C13_generated_shards_are_listed_and_exist`: for every state, order and provider list, after `GenerateShards` (used by
Store, Ready and the timeout re-assignment through `newShardTask`) every id the order lists beyond those it listed before names
an existing shard record that is waiting, names this order and is below the shard counter; and nothing the order listed
before is dropped from its list. The ids come from the counter, so no later task overwrites an earlier one.
-/
namespace SaoVerif

theorem find_upsert_shard_other (l : List Shard) (x : Shard) (j : Nat) (h : j ≠ x.id) :
    (upsertBy (·.id) l x).find? (·.id = j) = l.find? (·.id = j) := by
  induction l with
  | nil =>
    simp only [upsertBy, List.find?_cons, List.find?_nil]
    have : decide (x.id = j) = false := by simpa using (Ne.symm h)
    rw [this]
  | cons y t ih =>
    unfold upsertBy
    split
    · rename_i hk
      simp only [List.find?_cons]
      have h1 : decide (x.id = j) = false := by simpa using (Ne.symm h)
      have h2 : decide (y.id = j) = false := by rw [hk]; exact h1
      rw [h1, h2]
    · split
      · simp only [List.find?_cons]
        have h1 : decide (x.id = j) = false := by simpa using (Ne.symm h)
        rw [h1]
      · simp only [List.find?_cons]
        split
        · rfl
        · exact ih

theorem getShard_setShard_other (s : State) (x : Shard) (j : Nat) (h : j ≠ x.id) : (s.setShard x).getShard j = s.getShard j := by
  unfold State.setShard State.getShard; exact find_upsert_shard_other _ _ _ h

/-- the record of a new task -/
def taskOf (s : State) (o : Order) (sp : Addr) : Shard :=
  { id := s.shardCount, orderId := o.id, status := ShardWaiting, size := o.size, cid := o.cid, pledge := 0, «from» := 0, sp := sp, duration := 0, createdAt := 0, renewInfos := [] }

/-- what one new task leaves behind -/
theorem newShardTask_spec (s : State) (o : Order) (sp : Addr) :
    (newShardTask s o sp).1.id = s.shardCount ∧
    (newShardTask s o sp).2.shardCount = s.shardCount + 1 ∧
    (newShardTask s o sp).2.getShard s.shardCount = some (newShardTask s o sp).1 ∧
    (newShardTask s o sp).1.orderId = o.id ∧ (newShardTask s o sp).1.status = ShardWaiting ∧ (newShardTask s o sp).1.sp = sp ∧
    (∀ j, j ≠ s.shardCount → (newShardTask s o sp).2.getShard j = s.getShard j) := by
  have e1 : ∀ (y : State) (c j : Nat), ({ y with shardCount := c } : State).getShard j = y.getShard j := fun _ _ _ => rfl
  refine ⟨rfl, rfl, ?_, rfl, rfl, rfl, ?_⟩
  · show ({ (s.setShard (taskOf s o sp)) with shardCount := s.shardCount + 1 } : State).getShard s.shardCount = some (taskOf s o sp)
    rw [e1]
    exact getShard_setShard s (taskOf s o sp)
  · intro j hj
    show ({ (s.setShard (taskOf s o sp)) with shardCount := s.shardCount + 1 } : State).getShard j = s.getShard j
    rw [e1]
    exact getShard_setShard_other s (taskOf s o sp) j hj

/-- the invariant of the loop of `GenerateShards` -/
def GenInv (base : List Nat) (oid : Nat) (acc : Order × State) : Prop :=
  acc.1.id = oid ∧ (∀ id ∈ base, id ∈ acc.1.shards) ∧
  ∀ id ∈ acc.1.shards, id ∉ base →
    id < acc.2.shardCount ∧ ∃ sh, acc.2.getShard id = some sh ∧ sh.orderId = oid ∧ sh.status = ShardWaiting

theorem genInv_step (base : List Nat) (oid : Nat) (acc : Order × State) (sp : Addr) (h : GenInv base oid acc) :
    GenInv base oid (({ acc.1 with shards := acc.1.shards ++ [(newShardTask acc.2 acc.1 sp).1.id] }, (newShardTask acc.2 acc.1 sp).2)) := by
  obtain ⟨h1, h2, h3⟩ := h
  obtain ⟨a, b, c, d, f, _, g⟩ := newShardTask_spec acc.2 acc.1 sp
  refine ⟨h1, fun id hid => List.mem_append_left _ (h2 id hid), ?_⟩
  intro id hid hnb
  simp only at hid ⊢
  rcases List.mem_append.mp hid with hold | hnew
  · obtain ⟨lt, sh, hs, ho, hst⟩ := h3 id hold hnb
    refine ⟨by rw [b]; omega, sh, ?_, ho, hst⟩
    rw [g id (by omega)]; exact hs
  · have : id = acc.2.shardCount := by rw [a] at hnew; simpa using hnew
    subst this
    exact ⟨by rw [b]; omega, _, c, by rw [d, h1], f⟩

theorem genInv_fold (base : List Nat) (oid : Nat) (sps : List Addr) (acc : Order × State) (h : GenInv base oid acc) :
    GenInv base oid (sps.foldl (fun (acc : Order × State) sp =>
        let (sh, s') := newShardTask acc.2 acc.1 sp
        ({ acc.1 with shards := acc.1.shards ++ [sh.id] }, s')) acc) := by
  induction sps generalizing acc with
  | nil => exact h
  | cons a t ih =>
    simp only [List.foldl_cons]
    exact ih _ (genInv_step base oid acc a h)

theorem C13_generated_shards_are_listed_and_exist (s : State) (o : Order) (sps : List Addr) :
    (∀ id ∈ o.shards, id ∈ (generateShards s o sps).1.shards) ∧
    ∀ id ∈ (generateShards s o sps).1.shards, id ∉ o.shards →
      id < (generateShards s o sps).2.shardCount ∧
      ∃ sh, (generateShards s o sps).2.getShard id = some sh ∧ sh.orderId = o.id ∧ sh.status = ShardWaiting := by
  have h0 : GenInv o.shards o.id (o, s) := ⟨rfl, fun _ h => h, fun id hid hn => absurd hid hn⟩
  have := genInv_fold o.shards o.id sps (o, s) h0
  unfold generateShards
  simp only
  obtain ⟨_, h2, h3⟩ := this
  split
  · exact ⟨h2, h3⟩
  · exact ⟨h2, h3⟩

/-- `Ready`: the order leaves the handler listing exactly tasks that exist, wait, and name it -/
theorem C13_ready_order_lists_existing_shards (s s' : State) (o : Order) (hempty : o.shards = [])
    (h : saoReadyBody s o = .ok s') :
    ∃ o', s'.getOrder o.id = some o' ∧
      ∀ id ∈ o'.shards, ∃ sh, s'.getShard id = some sh ∧ sh.orderId = o.id ∧ sh.status = ShardWaiting := by
  unfold saoReadyBody at h
  simp only [bind, Except.bind, pure, Except.pure] at h
  split at h
  · simp [throw, throwThe, MonadExceptOf.throw] at h
  · split at h
    · cases h
    · rename_i v hv
      obtain ⟨s1, sps⟩ := v
      simp only [Except.ok.injEq] at h
      obtain ⟨_, hgen⟩ := C13_generated_shards_are_listed_and_exist s1 o (sps.map (·.creator))
      have hid := (generateShards_fields s1 o (sps.map (·.creator))).1
      refine ⟨(generateShards s1 o (sps.map (·.creator))).1, ?_, ?_⟩
      · rw [← h, ← hid]
        exact getOrder_setOrder _ _
      · intro id hidm
        obtain ⟨_, sh, hs, ho, hst⟩ := hgen id hidm (by rw [hempty]; simp)
        refine ⟨sh, ?_, ho, hst⟩
        rw [← h]
        exact hs

end SaoVerif
