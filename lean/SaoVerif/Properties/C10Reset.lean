import SaoVerif.Properties.C10Registration
/-!
# C10 — an accepted Reset replaces the node's transaction addresses

`C10_reset_replaces_tx_addresses`: after an accepted Reset that names transaction addresses, the node's list is exactly the
one named: an address the node no longer lists keeps no authority (the seeded change C10-7 appended instead).
-/
namespace SaoVerif

theorem resetNode_txAddresses (s : State) (m : ResetMsg) (node n : Node) (h : resetNode s m node = .ok n) (hne : m.txAddrs ≠ []) :
    n.txAddresses = m.txAddrs := by
  unfold resetNode at h
  obtain ⟨n1, _, h⟩ := bind_ok h
  obtain ⟨n2, _, h⟩ := bind_ok h
  have c3 : (resetTx s m n2).txAddresses = m.txAddrs := by unfold resetTx; dsimp only; simp [hne]
  unfold resetShare at h
  split at h
  · split at h
    · split at h
      · obtain ⟨r, hr, h⟩ := bind_ok h
        split at h
        · simp only [pure, Except.pure, Except.ok.injEq] at h
          rw [← h]
          have := (checkNodeShare_reg s _ _ hr).1
          unfold reg at this
          simp only [Prod.mk.injEq] at this
          rw [this.2.2.1]; exact c3
        · simp only [pure, Except.pure, Except.ok.injEq] at h; rw [← h]; exact c3
      · simp only [pure, Except.pure, Except.ok.injEq] at h; rw [← h]; exact c3
    · simp only [pure, Except.pure, Except.ok.injEq] at h; rw [← h]; exact c3
  · simp only [pure, Except.pure, Except.ok.injEq] at h; rw [← h]; exact c3

theorem C10_reset_replaces_tx_addresses (e : Env) (s s' : State) (m : ResetMsg) (h : nodeReset e s m = .ok s') (hne : m.txAddrs ≠ []) :
    ∃ n, s'.getNode m.creator = some n ∧ n.txAddresses = m.txAddrs := by
  unfold nodeReset at h
  split at h
  · rename_i node hn
    obtain ⟨n, hn2, h⟩ := bind_ok h
    simp only [pure, Except.pure, Except.ok.injEq] at h
    refine ⟨n, ?_, resetNode_txAddresses s m node n hn2 hne⟩
    rw [← h]
    have hc : n.creator = m.creator := by rw [resetNode_creator s m node n hn2, getNode_creator s m.creator node hn]
    rw [← hc]; exact getNode_setNode e s n
  · cases h

end SaoVerif
