import SaoVerif.Properties.C17
import SaoVerif.Properties.C08Footprint
import SaoVerif.Spec.Inv
/-!
# C17 — an account is bound to at most one DID, over every history

`AccUnique d`: no account id occurs twice among the bindings. Binding preserves it (`C17_binding_unique`: the handler
refuses an account that is already bound), Update only removes bindings, UpdatePaymentAddress does not touch them, and no
other operation changes the registry at all (`C17_registry_changes_only_by_did_messages`). So it holds after every history
(`C17_unique_over_histories`), and with it the monitor predicate `didFunctional` (`C17_functional_over_histories`).
-/
namespace SaoVerif

def AccUnique (d : DidState) : Prop := (d.did.map (·.accountId)).Nodup

theorem C17_update_keeps_unique (s s' : State) (m : DidUpdateMsg) (h : didUpdate s m = .ok s') (hu : AccUnique s.did) :
    AccUnique s'.did := by
  unfold didUpdate at h
  split at h
  · split at h
    · cases h
    · split at h
      · cases h
      · split at h
        · cases h
        · simp only [pure, Except.pure, Except.ok.injEq] at h
          rw [← h]
          unfold AccUnique at hu ⊢
          show ((updateApply s.did m _ _).did.map (·.accountId)).Nodup
          unfold updateApply
          simp only
          exact List.Nodup.sublist (List.Sublist.map _ List.filter_sublist) hu
  · cases h
  · cases h

theorem C17_payaddr_keeps_bindings (s s' : State) (m : PayAddrMsg) (h : didUpdatePaymentAddress s m = .ok s') :
    s'.did.did = s.did.did := by
  rw [(didPayAddr_ok s s' m h).2]
  show (payAddrApply s.did m).did = s.did.did
  unfold payAddrApply
  split <;> rfl

/-- **C17, for every operation**: "an account is bound to at most one DID" survives it -/
theorem C17_step_keeps_unique (e : Env) (y : Sys) (op : Op) (hu : AccUnique y.st.did) : AccUnique (step e y op).2.st.did := by
  by_cases h1 : ∃ m, op = .payaddr m
  · obtain ⟨m, rfl⟩ := h1
    show AccUnique (atomic y.st (didUpdatePaymentAddress y.st m)).2.did
    unfold atomic
    split
    · rename_i s' hs
      unfold AccUnique at hu ⊢
      rw [C17_payaddr_keeps_bindings _ _ _ hs]; exact hu
    · split <;> exact hu
  by_cases h2 : ∃ m, op = .binding m
  · obtain ⟨m, rfl⟩ := h2
    show AccUnique (atomic y.st (didBinding y.st m)).2.did
    unfold atomic
    split
    · rename_i s' hs; exact C17_binding_unique _ _ _ hs hu
    · split <;> exact hu
  by_cases h3 : ∃ m, op = .didupdate m
  · obtain ⟨m, rfl⟩ := h3
    show AccUnique (atomic y.st (didUpdate y.st m)).2.did
    unfold atomic
    split
    · rename_i s' hs; exact C17_update_keeps_unique _ _ _ hs hu
    · split <;> exact hu
  · have := C17_registry_changes_only_by_did_messages e y op (fun m hm => h1 ⟨m, hm⟩) (fun m hm => h2 ⟨m, hm⟩) (fun m hm => h3 ⟨m, hm⟩)
    rw [this]; exact hu

/-- **C17 over histories** -/
theorem C17_unique_over_histories (e : Env) (y : Sys) (ops : List Op) (hu : AccUnique y.st.did) :
    AccUnique (runOps e y ops).st.did := by
  induction ops generalizing y with
  | nil => exact hu
  | cons op t ih => exact ih _ (C17_step_keeps_unique e y op hu)

theorem filter_length_one_of_nodup (l : List DidEntry) (hu : (l.map (·.accountId)).Nodup) (x : DidEntry) (hx : x ∈ l) :
    (l.filter (fun y => y.accountId = x.accountId)).length = 1 := by
  induction l with
  | nil => cases hx
  | cons a t ih =>
    simp only [List.map_cons, List.nodup_cons] at hu
    rcases List.mem_cons.mp hx with h | h
    · subst h
      have hnone : t.filter (fun y => decide (y.accountId = x.accountId)) = [] := by
        apply List.filter_eq_nil_iff.mpr
        intro y hy hyx
        simp only [decide_eq_true_eq] at hyx
        exact hu.1 (by rw [← hyx]; exact List.mem_map_of_mem hy)
      simp [List.filter_cons, hnone]
    · have hne : a.accountId ≠ x.accountId := by
        intro hax
        exact hu.1 (by rw [hax]; exact List.mem_map_of_mem h)
      simp only [List.filter_cons, hne, decide_false]
      exact ih hu.2 h

/-- what the monitor `didFunctional` evaluates on sampled histories holds on all of them -/
theorem C17_functional_over_histories (e : Env) (y : Sys) (ops : List Op) (hu : AccUnique y.st.did) :
    Spec.didFunctional (runOps e y ops).st.did = true := by
  have h := C17_unique_over_histories e y ops hu
  unfold Spec.didFunctional
  apply List.all_eq_true.mpr
  intro x hx
  simp only [decide_eq_true_eq]
  exact filter_length_one_of_nodup _ h x hx

example : AccUnique { (default : DidState) with did := [] } := List.nodup_nil

end SaoVerif
