import SaoVerif.Properties.C08Claim
import SaoVerif.Proofs.MapLemmas
/-!
# C08 — "claiming pays … less any collateral debt recorded against it"

`repayLoop debt rewards` takes the debt out of the claimed amounts in order. `C08_debt_left_means_nothing_paid`: when a debt
is still recorded against the provider after `RepayPledgeDebt`, every claimed amount has gone into it — the provider is paid
nothing (the seeded change C08-6 paid the claim in full although the debt had swallowed it).
-/
namespace SaoVerif

theorem repayLoop_left (debt : Int) (rs : List Int) (rs' : List Int) (d : Int) (h : repayLoop debt rs = (rs', some d)) :
    ∀ x ∈ rs', x = 0 := by
  induction rs generalizing debt rs' with
  | nil =>
    unfold repayLoop at h
    simp only [Prod.mk.injEq] at h
    intro x hx; rw [← h.1] at hx; cases hx
  | cons r t ih =>
    unfold repayLoop at h
    split at h
    · simp only [Prod.mk.injEq] at h; cases h.2
    · cases hrec : repayLoop (debt - r) t with
      | mk t' d' =>
        rw [hrec] at h
        simp only [Prod.mk.injEq] at h
        intro x hx
        rw [← h.1] at hx
        rcases List.mem_cons.mp hx with hx | hx
        · exact hx
        · exact ih (debt - r) t' (by rw [hrec, h.2]) x hx

/-- **C08**: a debt still recorded after the repayment means that nothing of what was claimed is paid out -/
theorem C08_debt_left_means_nothing_paid (s : State) (sp : Addr) (rewards : List Int) (d : Int)
    (hd : (repayPledgeDebt s sp rewards).1.getDebt sp = some d) (hdebt : (s.getDebt sp).isSome) :
    ∀ x ∈ (repayPledgeDebt s sp rewards).2, x = 0 := by
  unfold repayPledgeDebt at hd ⊢
  cases hg : s.getDebt sp with
  | none => rw [hg] at hdebt; cases hdebt
  | some debt =>
    rw [hg] at hd
    dsimp only at hd ⊢
    cases hl : repayLoop debt rewards with
    | mk rs od =>
      rw [hl] at hd
      cases od with
      | none =>
        exfalso
        dsimp only at hd
        unfold State.removeDebt State.getDebt at hd
        simp only at hd
        rw [Map.find?_erase_self] at hd; cases hd
      | some d' =>
        dsimp only
        exact repayLoop_left debt rewards rs d' hl

example : repayLoop 100 [30, 22] = ([0, 0], some 48) := by decide

end SaoVerif
