import SaoVerif.Properties.C06
/-!
# C06 — the first completion moves exactly the recorded payment from the order escrow to the market escrow

`C06_deposit_moves_recorded_amount`: for every state and order, an accepted `Deposit` debits the order escrow and credits the
market escrow by the amount the order records (`C04_store_records_the_charged_amount`: the amount charged), touches no other
balance and creates no coin; a refused one (`C06_deposit_refused_changes_nothing`) leaves the state exactly as it was. The
payment therefore sits in exactly one of the two escrows at any time: what the order escrow owes for orders not yet stored
plus what the market escrow owes for stored ones is what was charged.
-/
namespace SaoVerif

theorem C06_deposit_moves_recorded_amount (e : Env) (s s' : State) (o : Order) (hne : e.modOrder ≠ e.modMarket)
    (h : marketDeposit e s o = .ok (s', none)) :
    o.amount ≠ 0 ∧ o.amount ≤ s.bal e.modOrder ∧
    s'.bal e.modOrder = s.bal e.modOrder - o.amount ∧ s'.bal e.modMarket = s.bal e.modMarket + o.amount ∧
    (∀ c, c ≠ e.modOrder → c ≠ e.modMarket → s'.bal c = s.bal c) ∧ s'.supply = s.supply := by
  unfold marketDeposit at h
  split at h
  · simp [pure, Except.pure] at h
  · rename_i h0
    split at h
    · simp [pure, Except.pure] at h
    · rename_i s1 hs
      simp only [pure, Except.pure, Except.ok.injEq, Prod.mk.injEq, and_true] at h
      subst h
      obtain ⟨a, b, c, _, d, f⟩ := C06_send_conserves s s1 e.modOrder e.modMarket o.amount hs hne
      exact ⟨h0, d, a, b, c, f⟩

theorem C06_deposit_refused_changes_nothing (e : Env) (s s' : State) (o : Order) (m : String)
    (h : marketDeposit e s o = .ok (s', some m)) : s' = s := by
  unfold marketDeposit at h
  split at h
  · simp only [pure, Except.pure, Except.ok.injEq, Prod.mk.injEq] at h; exact h.1.symm
  · split at h
    · simp only [pure, Except.pure, Except.ok.injEq, Prod.mk.injEq] at h; exact h.1.symm
    · simp [pure, Except.pure] at h

end SaoVerif
