import SaoVerif.Proofs.MetaFoot
import SaoVerif.Properties.C16
/-!
# C16 — a late replica of a committed order does not touch the history

`C16_late_replica_keeps_history`: completing a further shard of an order that is already *completed* (its version was
committed by an earlier shard) only books the provider's market account: no model record is read for writing, the version
history, the current commit and the in-flight marker stay as they are, and the order is not paid into the market again. The
decision is taken on the order's own status (the seeded change C16-8 took it on the model's status, so that a late replica
arriving while the next update was in flight committed the old version a second time).
-/
namespace SaoVerif

theorem C16_late_replica_keeps_history (e : Env) (s s' : State) (o o' ip : Order) (sh sh' : Shard)
    (hc : o.status = OrderCompleted) (h : completeFresh e s o sh = .ok (s', o', sh', ip)) :
    s'.metas = s.metas ∧ s'.models = s.models ∧ s'.bank = s.bank ∧ o' = o ∧ ip = o := by
  unfold completeFresh at h
  simp only [hc, ne_eq, not_true_eq_false, ↓reduceIte, pure, Except.pure, Except.ok.injEq, Prod.mk.injEq] at h
  obtain ⟨hs, ho, _, hip⟩ := h
  refine ⟨?_, ?_, ?_, ho.symm, hip.symm⟩
  · rw [← hs]; rfl
  · rw [← hs]; rfl
  · rw [← hs]; rfl

end SaoVerif
