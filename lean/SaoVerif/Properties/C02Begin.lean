import SaoVerif.Model.Blocks
/-!
# C02 — the begin-blocker cannot panic on validated parameters

`nodeBeginBlock` throws exactly where the Go `BeginBlocker` panics: a coin built with a negative amount, a division by zero,
coins of different denominations. `C02_begin_blocker_never_panics`: for parameters that pass the validation of the parameter
store — block reward and yield not negative (the `fix:` of F23), both periods above ten — one coherent denomination, a pool
whose counters are not negative, and capacity recorded wherever collateral is (the pool's capacity is collateral × 10⁶ bytes:
`C14_totals_over_histories` with `addSize`/`remSize`), the begin-blocker returns normally, for every state and height.
Each hypothesis is needed: dropping "yield not negative" or "block reward not negative" is finding F23, dropping the reward
counter's range is F21 — both were chain halts from a genesis that passed validation.
-/
namespace SaoVerif

structure ParamsOk (p : NodeParams) : Prop where
  reward : 0 ≤ p.blockReward
  apy : 0 ≤ p.apy
  halving : 10 < p.halvingPeriod
  adjustment : 10 < p.adjustmentPeriod
  denom : p.denomIsSao = true

structure PoolOk (pool : Pool) : Prop where
  denom : pool.totalRewardIsSao = true
  reward : 0 ≤ pool.totalReward
  pledged : 0 ≤ pool.totalPledged
  storage : pool.totalPledged ≠ 0 → pool.totalStorage ≠ 0

theorem chopRound_nonneg (x : Int) (h : 0 ≤ x) : 0 ≤ Dec.chopRound x := by
  unfold Dec.chopRound
  simp only
  have : ¬ x < 0 := by omega
  simp only [this, if_false]
  exact Int.natCast_nonneg _

theorem getRewardAge_ok (pool : Pool) (h : PoolOk pool) : ∃ a, getRewardAge pool = .ok a := by
  unfold getRewardAge
  simp only [h.denom, Bool.not_true, Bool.false_eq_true, if_false, bind, Except.bind, pure, Except.pure]
  split
  · exact ⟨_, rfl⟩
  · rename_i hr
    have hpos : 0 < TOTAL_REWARD - pool.totalReward := by omega
    have hle : TOTAL_REWARD - pool.totalReward ≤ TOTAL_REWARD := by have := h.reward; omega
    have hq : 0 < Int.tdiv TOTAL_REWARD (TOTAL_REWARD - pool.totalReward) := by
      have h1 : (TOTAL_REWARD - pool.totalReward) * 1 ≤ TOTAL_REWARD := by omega
      have := Int.le_tdiv_of_mul_le (a := 1) hpos (by rw [Int.mul_comm] at h1; exact h1)
      omega
    have : ¬ Int.tdiv TOTAL_REWARD (TOTAL_REWARD - pool.totalReward) ≤ 0 := by omega
    simp only [this, if_false]
    exact ⟨_, rfl⟩

theorem cappedReward_ok (pool : Pool) (p : NodeParams) (subsidy : Int) (hp : ParamsOk p) (hpool : PoolOk pool) (hs : 0 ≤ subsidy) :
    ∃ r, cappedReward pool p subsidy = .ok r ∧ ∀ x, r = some x → 0 ≤ x := by
  unfold cappedReward
  split
  · split
    · exact ⟨none, rfl, fun x hx => by cases hx⟩
    · have hh : ¬ p.halvingPeriod / 2 = 0 := by have := hp.halving; omega
      simp only [hh, if_false]
      have hr : 0 ≤ Dec.truncate (Dec.quoInt (Dec.mul (Dec.ofInt pool.totalPledged) p.apy) (p.halvingPeriod / 2)) := by
        unfold Dec.truncate Dec.quoInt Dec.mul Dec.ofInt precision
        apply Int.tdiv_nonneg
        · apply Int.tdiv_nonneg
          · apply chopRound_nonneg
            exact Int.mul_nonneg (Int.mul_nonneg hpool.pledged (by decide)) hp.apy
          · have := hp.halving; omega
        · decide
      split
      · have : ¬ Dec.truncate (Dec.quoInt (Dec.mul (Dec.ofInt pool.totalPledged) p.apy) (p.halvingPeriod / 2)) < 0 := by omega
        simp only [this, if_false]
        exact ⟨_, rfl, fun x hx => by cases hx; exact hr⟩
      · exact ⟨_, rfl, fun x hx => by cases hx; exact hs⟩
  · exact ⟨_, rfl, fun x hx => by cases hx; exact hs⟩

theorem mintAmount_ok (pool : Pool) (p : NodeParams) (hp : ParamsOk p) (hpool : PoolOk pool) :
    ∃ r, mintAmount pool p = .ok r ∧ (∀ x, r = some x → 0 < x ∧ pool.totalPledged ≠ 0) := by
  unfold mintAmount
  split
  · exact ⟨none, rfl, fun x hx => by cases hx⟩
  · rename_i hpl
    split
    · exact ⟨none, rfl, fun x hx => by cases hx⟩
    · obtain ⟨a, ha⟩ := getRewardAge_ok pool hpool
      rw [ha]
      simp only
      have : ¬ p.blockReward < 0 := by have := hp.reward; omega
      simp only [this, if_false]
      obtain ⟨r, hr, hr0⟩ := cappedReward_ok pool p ((p.blockReward.toNat >>> a : Nat) : Int) hp hpool (Int.natCast_nonneg _)
      rw [hr]
      cases r with
      | none => exact ⟨none, rfl, fun x hx => by cases hx⟩
      | some v =>
        simp only
        split
        · exact ⟨none, rfl, fun x hx => by cases hx⟩
        · rename_i hv
          refine ⟨some v, rfl, fun x hx => ?_⟩
          cases hx
          have := hr0 v rfl
          exact ⟨by omega, hpl⟩

theorem beginPool_ok (pool : Pool) (p : NodeParams) (h reward : Int) (hp : ParamsOk p) (hst : pool.totalStorage ≠ 0) :
    ∃ pool', beginPool pool p h reward = .ok pool' := by
  unfold beginPool
  have ha : ¬ p.adjustmentPeriod = 0 := by have := hp.adjustment; omega
  simp only [bind, Except.bind, pure, Except.pure, ha, if_false, hp.denom, Bool.not_true, Bool.false_eq_true, false_and]
  have hs' : ∀ (q : Pool), q.totalStorage = pool.totalStorage → ¬ q.totalStorage = 0 := fun q hq => by rw [hq]; exact hst
  repeat' split
  all_goals (first | exact ⟨_, rfl⟩ | (exfalso; rename_i hz; revert hz; simp only; (first | exact hst | (split <;> exact hst))))

/-- **C02**: on validated parameters and a coherent pool the begin-blocker returns normally -/
theorem C02_begin_blocker_never_panics (e : Env) (s : State) (hp : ParamsOk s.params)
    (hpool : ∀ pool, s.pool = some pool → PoolOk pool) : ∃ s', nodeBeginBlock e s = .ok s' := by
  unfold nodeBeginBlock
  cases hpl : s.pool with
  | none => exact ⟨s, rfl⟩
  | some pool =>
    simp only [bind, Except.bind, pure, Except.pure]
    have hk := hpool pool hpl
    obtain ⟨r, hr, hr0⟩ := mintAmount_ok pool s.params hp hk
    rw [hr]
    cases r with
    | none => exact ⟨s, rfl⟩
    | some reward =>
      simp only
      obtain ⟨pool', hb⟩ := beginPool_ok pool s.params s.h reward hp (hk.storage (hr0 reward rfl).2)
      rw [hb]
      exact ⟨_, rfl⟩

end SaoVerif
