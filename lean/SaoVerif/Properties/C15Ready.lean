import SaoVerif.Properties.C15
/-!
# C15 — providers are selected for an order once

`C15_ready_requires_pending`: an accepted Ready found the order *pending* — with no providers selected yet. Since an accepted
Ready leaves the order in the data-ready state, a second Ready for the same order is refused: the selection (which ignores
nobody, the order having no shard yet) cannot run again on top of its own result (the seeded change C15-6).
-/
namespace SaoVerif

theorem C15_ready_requires_pending (s s' : State) (c p : Addr) (oid : Nat) (h : saoReady s c p oid = .ok s') :
    ∃ o, s.getOrder oid = some o ∧ o.status = OrderPending ∧ readyAllowed s c p o = true := by
  unfold saoReady at h
  split at h
  · cases h
  · rename_i o ho
    split at h
    · cases h
    · rename_i hall
      unfold saoReadyBody at h
      simp only [bind, Except.bind, pure, Except.pure] at h
      split at h
      · cases h
      · rename_i hst
        refine ⟨o, ho, ?_, by simpa using hall⟩
        simpa using hst

end SaoVerif
