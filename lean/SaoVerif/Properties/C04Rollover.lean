import SaoVerif.Properties.C07Shard
import SaoVerif.Properties.C04
/-!
# C04 / C11 — a shard that rolls over into its renewal starts a new term

`C04_rollover_restarts_term`: when the end of a shard's paid period is reached and a renewal has been bought, the expiry
handler re-creates the shard for the renewal order: created *now*, for the renewal's duration, naming the renewal order, with
the renewal taken off its list. The market account books a stored shard's income from the shard's creation height, so a
roll-over that kept the old creation height would credit the first term again (the seeded change C04-7; clause
`incomeContinuous` on the implementation's states).
-/
namespace SaoVerif

theorem getShard_setOrder (s : State) (o : Order) (i : Nat) : (s.setOrder o).getShard i = s.getShard i := rfl
theorem getShard_removeOrder (s : State) (j i : Nat) : (s.removeOrder j).getShard i = s.getShard i := rfl
theorem getShard_workerAppend (s : State) (o : Order) (sh : Shard) (i : Nat) : (workerAppend s o sh).getShard i = s.getShard i := rfl

theorem C04_rollover_restarts_term (e : Env) (s s' : State) (id : Nat) (sh : Shard) (o : Order) (next : RenewInfo) (rest : List RenewInfo)
    (hsh : s.getShard id = some sh) (ho : s.getOrder sh.orderId = some o) (hr : sh.renewInfos = next :: rest)
    (h : handleExpiredShard e s id = .ok s') :
    s'.getShard id = some { sh with renewInfos := rest, orderId := next.orderId, createdAt := toU64 s.h, duration := next.duration } := by
  have hid : sh.id = id := by
    unfold State.getShard at hsh
    have := List.find?_some hsh
    simpa using this
  subst hid
  have hh : (workerRelease s o sh).1.h = s.h := by unfold workerRelease; split <;> rfl
  unfold handleExpiredShard at h
  simp only [hsh, ho, hr, bind, Except.bind, pure, Except.pure] at h
  repeat' (split at h)
  all_goals (first | cases h | skip)
  all_goals (
    simp only [getShard_removeOrder, getShard_setOrder, getShard_workerAppend, hh]
    exact getShard_setShard (setExpiredShardBlock (workerRelease s o sh).1 sh.id (addU64 (toU64 s.h) next.duration))
      { sh with renewInfos := rest, orderId := next.orderId, createdAt := toU64 s.h, duration := next.duration })

end SaoVerif
