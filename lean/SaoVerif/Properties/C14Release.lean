import SaoVerif.Properties.C07Capacity
/-!
# C14 — a released shard is un-booked: used capacity and shard collateral drop by exactly what was booked

`C14_release_unbooks_capacity`: for every state, an accepted `ShardRelease` of a shard lowers the provider's used capacity
by the shard's size and its shard collateral by the shard's recorded pledge — the two amounts `C14_pledge_books_used_capacity`
shows were added when the shard was stored — leaves the pledged capacity alone and never drives the shard collateral below
zero (the handler refuses instead). Booking and un-booking are exact inverses on the two aggregates the property speaks
about; `usedAgrees` / `shardPledgeAgrees` monitor the resulting sums on every implementation state.
-/
namespace SaoVerif

theorem C14_release_unbooks_capacity (e : Env) (s s' : State) (sp : Addr) (sh : Shard) (pl : Pledge) (pool : Pool)
    (hpl : s.getPledge sp = some pl) (hpool : s.pool = some pool)
    (h : shardRelease e s sp (some sh) = .ok (s', none)) :
    ∃ pl', s'.getPledge sp = some pl' ∧ pl'.usedStorage = pl.usedStorage - toI64 sh.size ∧
      pl'.totalShardPledged = pl.totalShardPledged - sh.pledge ∧ pl'.totalStorage = pl.totalStorage ∧
      pl'.totalStoragePledged = pl.totalStoragePledged ∧ 0 ≤ pl'.totalShardPledged := by
  have hc : (settle pool pl).creator = sp := by
    have : pl.creator = sp := getPledge_creator s sp pl hpl
    rw [← this]; unfold settle; split <;> rfl
  have hset : ∀ f : Pledge → Int, (f = Pledge.usedStorage ∨ f = Pledge.totalShardPledged ∨ f = Pledge.totalStorage ∨ f = Pledge.totalStoragePledged) →
      f (settle pool pl) = f pl := by
    intro f hf; unfold settle; split <;> rcases hf with rfl | rfl | rfl | rfl <;> rfl
  unfold shardRelease at h
  simp only [hpl, hpool, bind, Except.bind, pure, Except.pure] at h
  generalize hr : repayPledgeDebt s sh.sp [sh.pledge] = r at h
  obtain ⟨s1, rs⟩ := r
  simp only at h
  split at h
  · simp only [Except.ok.injEq, Prod.mk.injEq, reduceCtorEq, and_false] at h
  · rename_i s2 hs2
    split at h
    · simp [throw, throwThe, MonadExceptOf.throw] at h
    · rename_i hneg
      simp only [Except.ok.injEq, Prod.mk.injEq, and_true] at h
      let pl' : Pledge := { (settle pool pl) with
        totalShardPledged := (settle pool pl).totalShardPledged - sh.pledge,
        usedStorage := (settle pool pl).usedStorage - toI64 sh.size,
        rewardDebt := Dec.mulInt pool.accRewardPerByte (settle pool pl).totalStorage }
      refine ⟨pl', ?_, ?_, ?_, ?_, ?_, ?_⟩
      · rw [← h]
        have := getPledge_setPledge s2 pl'
        rw [show pl'.creator = (settle pool pl).creator from rfl, hc] at this
        exact this
      · show (settle pool pl).usedStorage - toI64 sh.size = _
        rw [hset Pledge.usedStorage (Or.inl rfl)]
      · show (settle pool pl).totalShardPledged - sh.pledge = _
        rw [hset Pledge.totalShardPledged (Or.inr (Or.inl rfl))]
      · show (settle pool pl).totalStorage = _
        rw [hset Pledge.totalStorage (Or.inr (Or.inr (Or.inl rfl)))]
      · show (settle pool pl).totalStoragePledged = _
        rw [hset Pledge.totalStoragePledged (Or.inr (Or.inr (Or.inr rfl)))]
      · show 0 ≤ (settle pool pl).totalShardPledged - sh.pledge
        exact Int.not_lt.mp hneg

end SaoVerif
