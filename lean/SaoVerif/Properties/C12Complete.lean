import SaoVerif.Properties.C12
/-!
# C12 / C10 — a task that was taken away cannot be completed

`C12_complete_requires_open_task`: what an accepted Complete found for the completing provider is a shard of the order that is
*waiting* (assigned, not yet stored) or *migrating in* — not one the timeout mechanism has retired and handed to a replacement
provider (status timed-out), not one already stored. So after a re-assignment the former provider's report is refused and the
replica belongs to the replacement alone (the seeded changes C12-5 and C10-8 dropped the status test; the step clause
`completeOnlyPending` evaluates the same on the implementation).
-/
namespace SaoVerif

theorem C12_complete_requires_open_task (s : State) (p : Addr) (oid size : Nat) (ok : Bool) (o : Order) (sh : Shard) (md : Metadata)
    (h : completeGuards s p oid size ok = .ok (o, sh, md)) :
    s.getOrder oid = some o ∧ getOrderShardBySP s o p = some sh ∧
    (sh.status = ShardWaiting ∨ sh.status = ShardMigrating) ∧ size = sh.size ∧ ok = true := by
  unfold completeGuards at h
  simp only [bind, Except.bind, pure, Except.pure, throw, throwThe, MonadExceptOf.throw] at h
  repeat' (split at h)
  all_goals (first | cases h | skip)
  all_goals (try simp only [Except.ok.injEq, Prod.mk.injEq] at h)
  all_goals grind

end SaoVerif
