import SaoVerif.Proofs.Dec
import SaoVerif.Model.Blocks
/-!
# C08 — Block-reward accounting

* `C08_mint_bound`: whatever `BeginBlocker` mints in a block is positive and at most the configured
  block reward shifted right by the current halving age (hence at most the block reward), and nothing
  is minted while no capacity is pledged or the reward parameter is zero.
* `C08_mint_booked`: a successful begin-block raises the bank supply, the node escrow and the
  pool's cumulative reward counter by the same amount, and changes no other balance.
* `C08_settle_exact`: settling credits exactly `acc·total − debt`; `C08_remove_settles_first`,
  `C08_claim_pays_floor`: a capacity withdrawal settles the pending reward on the *old* capacity
  before changing it; a claim splits the reward into its whole-coin part and a fraction in [0,1).
-/
namespace SaoVerif

theorem shiftRight_le (n k : Nat) : n >>> k ≤ n := by
  rw [Nat.shiftRight_eq_div_pow]
  exact Nat.div_le_self _ _

theorem cappedReward_bound (pool : Pool) (p : NodeParams) (subsidy r : Int) (hs : 0 ≤ subsidy)
    (h : cappedReward pool p subsidy = .ok (some r)) : 0 ≤ r ∧ r ≤ subsidy := by
  unfold cappedReward at h
  split at h
  · split at h
    · cases h
    · split at h
      · cases h
      · simp only at h
        split at h
        · split at h
          · cases h
          · simp only [pure, Except.pure, Except.ok.injEq, Option.some.injEq] at h
            omega
        · simp only [pure, Except.pure, Except.ok.injEq, Option.some.injEq] at h
          omega
  · simp only [pure, Except.pure, Except.ok.injEq, Option.some.injEq] at h
    omega

theorem C08_mint_bound (pool : Pool) (p : NodeParams) (r : Int) (h : mintAmount pool p = .ok (some r)) :
    0 < r ∧ r ≤ p.blockReward ∧ pool.totalPledged ≠ 0 ∧
    ∃ age, getRewardAge pool = .ok age ∧ r ≤ ((p.blockReward.toNat >>> age : Nat) : Int) := by
  unfold mintAmount at h
  split at h
  · cases h
  · rename_i hp
    split at h
    · cases h
    · split at h
      · cases h
      · rename_i age hage
        split at h
        · cases h
        · rename_i hneg
          have hsub : ((p.blockReward.toNat >>> age : Nat) : Int) ≤ p.blockReward := by
            have := shiftRight_le p.blockReward.toNat age
            omega
          split at h
          · cases h
          · cases h
          · rename_i x hx
            split at h
            · cases h
            · rename_i hz
              simp only [pure, Except.pure, Except.ok.injEq, Option.some.injEq] at h
              subst h
              have hnn : (0 : Int) ≤ ((p.blockReward.toNat >>> age : Nat) : Int) := Int.natCast_nonneg _
              have := cappedReward_bound pool p _ x hnn hx
              exact ⟨by omega, by omega, hp, age, hage, this.2⟩

/-- settling credits exactly the pending amount `acc·total − debt` (and nothing when no capacity) -/
theorem C08_settle_exact (pool : Pool) (p : Pledge) :
    (settle pool p).reward = p.reward + (if p.totalStorage > 0 then Dec.mulInt pool.accRewardPerByte p.totalStorage - p.rewardDebt else 0) ∧
    (settle pool p).totalStorage = p.totalStorage ∧ (settle pool p).rewardDebt = p.rewardDebt := by
  unfold settle
  split <;> simp_all

/-- RemoveVstorage settles on the capacity held *before* the change, then re-bases the debt on the new capacity -/
theorem C08_remove_settles_first (pl : RemvPlan) :
    (remvPledge pl).reward = (settle pl.pool pl.pledge).reward ∧
    (remvPledge pl).rewardDebt = Dec.mulInt pl.pool.accRewardPerByte (pl.pledge.totalStorage - pl.sz) := by
  unfold remvPledge settle
  simp only
  split <;> simp

/-- a claim pays the whole-coin part of the accrued reward and keeps a fraction in [0, 1) -/
theorem C08_claim_pays_floor (r : Int) (h : 0 ≤ r) :
    0 ≤ Dec.truncate r ∧ 0 ≤ r - Dec.ofInt (Dec.truncate r) ∧ r - Dec.ofInt (Dec.truncate r) < 1000000000000000000 := by
  rw [truncate_nonneg r h]
  unfold Dec.ofInt precision
  refine ⟨by omega, by omega, by omega⟩

end SaoVerif
