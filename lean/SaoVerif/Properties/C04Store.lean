import SaoVerif.Proofs.Fixed2
import SaoVerif.Proofs.Frames
import SaoVerif.Properties.C05
import SaoVerif.Properties.C04Renewal
/-!
# C04 — a Store request is charged once, to its payer, at the quoted price

`C04_store_charges_payer_once`: for every state and request, when the paying-and-placing part of `Store` accepts, one
account — the sponsor when one is named, otherwise the payment account of the data owner — pays exactly the quoted price
(`orderPrice` of the order's size, replicas and duration, `C04_price_exact`) into the order escrow; no other balance moves in
the whole message (provider selection, order and shard creation, scheduling and the model attachment move no coins), the
payer could afford it, and no coin is created.
-/
namespace SaoVerif

def bankOf (s : State) : Map Addr Int × Int := (s.bank, s.supply)

@[grind =] theorem bankOf_def (s : State) : bankOf s = (s.bank, s.supply) := rfl

macro "bank_auto" h:ident : tactic => `(tactic| (
  simp only [bind, Except.bind, pure, Except.pure, throw, throwThe, MonadExceptOf.throw] at $h:ident
  repeat' (split at $h:ident)
  all_goals (first | cases $h:ident | skip)
  all_goals (try simp only [Except.ok.injEq, Prod.mk.injEq] at $h:ident)
  all_goals (first | grind | (simp only [bankOf_def, State.setOrder, State.removeOrder, State.setShard, State.removeShard, State.setMeta,
      State.removeMeta, State.setModel, State.removeModel, State.setNode, State.setPledge, State.setWorker,
                              State.setDebt, State.removeDebt]; grind [bankOf_def]))))

@[grind =] theorem setDataExpireBlock_bank (s : State) (d : Bytes) (a : Nat) : bankOf (setDataExpireBlock s d a) = bankOf s := rfl
@[grind =] theorem setTimeoutOrderBlock_bank (s : State) (i a : Nat) : bankOf (setTimeoutOrderBlock s i a) = bankOf s := rfl
@[grind =] theorem setMeta_bank (s : State) (m : Metadata) : bankOf (s.setMeta m) = bankOf s := rfl
@[grind =] theorem setOrder_bank (s : State) (o : Order) : bankOf (s.setOrder o) = bankOf s := rfl

@[grind →] theorem removeDataExpireBlock_bank (s s' : State) (d : Bytes) (a : Nat) (h : removeDataExpireBlock s d a = .ok s') :
    bankOf s' = bankOf s := by
  unfold removeDataExpireBlock at h
  split at h
  · simp only [pure, Except.pure, Except.ok.injEq] at h; subst h; rfl
  · split at h
    · cases h
    · simp only at h
      split at h <;> (simp only [pure, Except.pure, Except.ok.injEq] at h; subst h; rfl)

@[grind →] theorem updateMetaStatusAndCommit_bank (s s' : State) (o : Order) (x : Option String)
    (h : updateMetaStatusAndCommit s o = .ok (s', x)) : bankOf s' = bankOf s := by
  unfold updateMetaStatusAndCommit at h
  bank_auto h

@[grind =] theorem newMeta_bank (s : State) (o : Order) (m : Metadata) : bankOf (newMeta s o m).1 = bankOf s := by
  unfold newMeta
  repeat' split
  all_goals rfl

@[grind →] theorem storeAttach_bank (s s' : State) (m : StoreMsg) (o : Order) (a b : Bytes) (h : storeAttach s m o a b = .ok s') :
    bankOf s' = bankOf s := by
  unfold storeAttach softTx softTx' at h
  bank_auto h

@[grind =] theorem generateShards_bank (s : State) (o : Order) (sps : List Addr) : bankOf (generateShards s o sps).2 = bankOf s := by
  unfold generateShards
  have gen : ∀ (l : List Addr) (acc : Order × State),
      bankOf (l.foldl (fun (acc : Order × State) sp =>
        let (sh, s') := newShardTask acc.2 acc.1 sp
        ({ acc.1 with shards := acc.1.shards ++ [sh.id] }, s')) acc).2 = bankOf acc.2 := by
    intro l
    induction l with
    | nil => intro acc; rfl
    | cons a t ih => intro acc; simp only [List.foldl_cons]; rw [ih]; rfl
  exact gen sps (o, s)

@[grind =] theorem newOrder_bank (s : State) (o : Order) (sps : List Addr) : bankOf (newOrder s o sps).2 = bankOf s := by
  unfold newOrder
  simp only
  rw [setOrder_bank, generateShards_bank]
  rfl

theorem getSps_bank (s s' : State) (o : Order) (d : Bytes) (sps : List Node) (h : getSps s o d = .ok (s', sps)) :
    bankOf s' = bankOf s := by
  have := getSps_round _ _ _ _ _ h
  unfold sameButRound at this
  rw [this]; rfl

/-- the account a Store request is charged to -/
def storePayerOf (s : State) (m : StoreMsg) (payAddr : Option Addr) : Option Addr :=
  match payAddr with
  | some a => some a
  | none => s.paymentAddress m.p.owner

theorem C04_store_charges_payer_once (e : Env) (s s' : State) (m : StoreMsg) (order : Order) (payAddr : Option Addr) (isProvider : Bool)
    (lc c : Bytes) (h : storePlace e s m order payAddr isProvider lc c = .ok s') :
    ∃ payer amount, storePayerOf s m payAddr = some payer ∧ orderPrice order.size order.replica order.duration = .ok amount ∧
      amount ≠ 0 ∧ amount ≤ s.bal payer ∧ s'.supply = s.supply ∧
      (payer ≠ e.modOrder →
        s'.bal payer = s.bal payer - amount ∧ s'.bal e.modOrder = s.bal e.modOrder + amount ∧
        ∀ a, a ≠ payer → a ≠ e.modOrder → s'.bal a = s.bal a) := by
  unfold storePlace at h
  (try dsimp only at h)
  obtain ⟨v, hv, h⟩ := bind_ok h
  obtain ⟨s1, sps⟩ := v
  (try dsimp only at h)
  obtain ⟨amount, hamt, h⟩ := bind_ok h
  obtain ⟨payer, hpayer, h⟩ := bind_ok h
  split at h
  · exact (throw_bind_ne h).elim
  rename_i hbal
  obtain ⟨s2, hs2, h⟩ := bind_ok h
  (try dsimp only at h)
  have hs1 : bankOf s1 = bankOf s := by
    split at hv
    · exact getSps_bank _ _ _ _ _ hv
    · simp only [pure, Except.pure, Except.ok.injEq, Prod.mk.injEq] at hv; rw [← hv.1]
  have hpa : s1.paymentAddress m.p.owner = s.paymentAddress m.p.owner := by
    split at hv
    · have := getSps_round _ _ _ _ _ hv
      unfold sameButRound at this
      rw [this]; rfl
    · simp only [pure, Except.pure, Except.ok.injEq, Prod.mk.injEq] at hv; rw [← hv.1]
  have hb1 : ∀ a, s1.bal a = s.bal a := by
    intro a; unfold State.bal; have := congrArg Prod.fst hs1; simp only [bankOf] at this; rw [this]
  have hend : bankOf s' = bankOf s2 := by
    rw [storeAttach_bank _ _ _ _ _ _ h]
    split
    · rw [setTimeoutOrderBlock_bank, newOrder_bank]
    · rw [newOrder_bank]
  have hb2 : ∀ a, s'.bal a = s2.bal a := by
    intro a; unfold State.bal; have := congrArg Prod.fst hend; simp only [bankOf] at this; rw [this]
  have hsup : s'.supply = s2.supply := congrArg Prod.snd hend
  have hsup1 : s1.supply = s.supply := congrArg Prod.snd hs1
  refine ⟨payer, amount, ?_, hamt, ?_, ?_, ?_, ?_⟩
  · unfold storePayerOf
    cases payAddr with
    | some a => simp only [pure, Except.pure, Except.ok.injEq] at hpayer; rw [hpayer]
    | none =>
      simp only at hpayer ⊢
      rw [← hpa]
      split at hpayer
      · rename_i a ha; simp only [pure, Except.pure, Except.ok.injEq] at hpayer; rw [ha, hpayer]
      · simp [throw, throwThe, MonadExceptOf.throw] at hpayer
  · intro h0; unfold State.sendLit at hs2; simp [h0, throw, throwThe, MonadExceptOf.throw] at hs2
  · rw [← hb1]; exact Int.not_lt.mp hbal
  · rw [hsup, ← hsup1]
    unfold State.sendLit at hs2
    split at hs2
    · cases hs2
    · unfold State.send at hs2
      repeat' (split at hs2)
      all_goals (first | (simp only [pure, Except.pure, Except.ok.injEq] at hs2; subst hs2; rfl) | cases hs2)
  · intro hne
    unfold State.sendLit at hs2
    split at hs2
    · cases hs2
    · obtain ⟨a, b, c, _, _, _⟩ := C06_send_conserves s1 s2 payer e.modOrder amount hs2 hne
      refine ⟨by rw [hb2, a, hb1], by rw [hb2, b, hb1], fun x h1 h2 => by rw [hb2, c x h1 h2, hb1]⟩

/-- the whole message: an accepted `Store` passed the checks and was charged by `storePlace` exactly once -/
theorem C04_store_message_charged_once (e : Env) (s s' : State) (m : StoreMsg) (h : saoStore e s m = .ok s') :
    ∃ (order : Order) (payAddr : Option Addr) (payer : Addr) (amount : Int), storePayerOf s m payAddr = some payer ∧
      orderPrice order.size order.replica order.duration = .ok amount ∧ amount ≠ 0 ∧ amount ≤ s.bal payer ∧ s'.supply = s.supply ∧
      (payer ≠ e.modOrder →
        s'.bal payer = s.bal payer - amount ∧ s'.bal e.modOrder = s.bal e.modOrder + amount ∧
        ∀ a, a ≠ payer → a ≠ e.modOrder → s'.bal a = s.bal a) := by
  unfold saoStore at h
  obtain ⟨g, _, h⟩ := bind_ok h
  obtain ⟨order, payAddr, ip, lc, c⟩ := g
  obtain ⟨payer, amount, r⟩ := C04_store_charges_payer_once e s s' m order payAddr ip lc c h
  exact ⟨order, payAddr, payer, amount, r⟩

end SaoVerif
