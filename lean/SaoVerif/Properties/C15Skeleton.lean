import SaoVerif.Skeleton.x_node_keeper_reputation_go
import SaoVerif.Skeleton.x_node_keeper_node_go
import SaoVerif.Skeleton.x_sao_keeper_msg_server_store_go
import SaoVerif.Skeleton.x_sao_keeper_timeout_management_go
import SaoVerif.Skeleton.x_sao_keeper_msg_server_migrate_go
/-!
# C15 — the decision logic of the anchor files is the one that was modelled

The extractor (harness/cmd/extract) regenerates, on every run and from the tree under check, the *decision skeleton* of every
function: its branching constructs in source order, each guard with its condition and with how its branch ends (`return <err>`,
`continue`, `panic`, …). The hand-written model mirrors exactly these decisions (its `…Pre` / `…Guards` functions are the
guards of the handlers, in their order). This theorem says that for the files the property is anchored in
(x/node/keeper/reputation.go, x/node/keeper/node.go, x/sao/keeper/msg_server_store.go, x/sao/keeper/timeout_management.go, x/sao/keeper/msg_server_migrate.go) the regenerated skeletons equal the ones the model was written against
(one kernel-evaluated equality per source file, `SaoVerif/Skeleton/<file>.lean`). A change of a guard, of its order, or a new or
removed branch breaks it: the correspondence then has to be re-established (the check searches the histories for a failing
input and reports the violation either way).
-/
namespace SaoVerif

theorem C15_decision_skeleton_as_modelled :
    [Generated.Skel.x_node_keeper_reputation_go,
     Generated.Skel.x_node_keeper_node_go,
     Generated.Skel.x_sao_keeper_msg_server_store_go,
     Generated.Skel.x_sao_keeper_timeout_management_go,
     Generated.Skel.x_sao_keeper_msg_server_migrate_go] =
    [Expected.Skel.x_node_keeper_reputation_go,
     Expected.Skel.x_node_keeper_node_go,
     Expected.Skel.x_sao_keeper_msg_server_store_go,
     Expected.Skel.x_sao_keeper_timeout_management_go,
     Expected.Skel.x_sao_keeper_msg_server_migrate_go] := by
  rw [skel_x_node_keeper_reputation_go, skel_x_node_keeper_node_go, skel_x_sao_keeper_msg_server_store_go, skel_x_sao_keeper_timeout_management_go, skel_x_sao_keeper_msg_server_migrate_go]

end SaoVerif
