import SaoVerif.Generated.Facts
/-!
# C03 / C01 — facts about process memory, regenerated from the Go source on every run

`SaoVerif/Generated/Facts.lean` is written by `harness/cmd/extract` (go/parser + go/ast + go/types) from
the tree under check. The model's `Sys = (State, global)` claims that the *only* mutable in-memory value
of the consensus code is the package variable `x/node/keeper.sharesBeforeModified`; the theorems below are
that claim, checked against what the source says now:

* `C03_process_state_is_known` — the package-level variables of `app/` and `x/*` (outside `*/types`) are
  exactly the four listed: three are written once while the program initialises (`DefaultNodeHome`,
  `ModuleBasics`, `maccPerms`), the fourth is the variable modelled as `Sys.global` (finding F06);
* `C03_keepers_hold_no_memory` — every field of every `Keeper`, `msgServer`, `Hooks`, `Migrator` struct and of
  `app.App` has one of the listed types: store keys, codecs, parameter subspaces, other keepers, module
  plumbing. A cache (`map`, `sync.Map`, slice, pointer to a mutable record) added to a keeper has another
  type and breaks the theorem.

A change of these facts is a broken obligation, not yet a violation: `check.py` then searches for a history
on which a restarted (or non-serving) replica diverges — the twin run with real restarts from the database —
and reports `no-failing-input-found` with this theorem's name if it finds none.
-/
namespace SaoVerif

theorem C03_process_state_is_known :
    Generated.pkgVars =
      [ ("app", "DefaultNodeHome", "string="),
        ("app", "ModuleBasics", "=module.NewBasicManager(auth.AppModuleBasic{}, authzmodule.Ap"),
        ("app", "maccPerms", "=map[string][]string{…}"),
        ("x/node/keeper", "sharesBeforeModified", "=sdk.NewDec(0)") ] := by decide

/-- types a keeper-like struct may hold: references to stores, codecs, parameters, other keepers and the
    module manager — nothing that can carry data from one transaction to the next -/
def statelessFieldTypes : List String :=
  [ "storetypes.StoreKey", "Keeper", "types.BankKeeper", "paramtypes.Subspace", "codec.BinaryCodec", "types.AccountKeeper",
    "types.OrderKeeper", "types.MarketKeeper", "types.DidKeeper", "capabilitykeeper.ScopedKeeper", "types.StakingKeeper",
    "types.NodeKeeper", "types.ModelKeeper", "types.InterfaceRegistry", "upgradekeeper.Keeper", "stakingkeeper.Keeper",
    "slashingkeeper.Keeper", "saomodulekeeper.Keeper", "paramskeeper.Keeper", "ordermodulekeeper.Keeper", "nodemodulekeeper.Keeper",
    "module.Configurator", "modelmodulekeeper.Keeper", "mintkeeper.Keeper", "marketmodulekeeper.Keeper",
    "map[string]*storetypes.TransientStoreKey", "map[string]*storetypes.MemoryStoreKey", "map[string]*storetypes.KVStoreKey",
    "icahostkeeper.Keeper", "ibctransferkeeper.Keeper", "groupkeeper.Keeper", "govkeeper.Keeper", "feegrantkeeper.Keeper",
    "evidencekeeper.Keeper", "distrkeeper.Keeper", "didmodulekeeper.Keeper", "crisiskeeper.Keeper", "codec.Codec",
    "bankkeeper.Keeper", "authzkeeper.Keeper", "authkeeper.AccountKeeper", "*module.SimulationManager", "*module.Manager",
    "*ibckeeper.Keeper", "*codec.LegacyAmino", "*capabilitykeeper.Keeper", "*baseapp.BaseApp" ]

/-- the only fields that are not references: `App.invCheckPeriod uint` (a start-up option) and the
    blank import guards -/
def plainFields : List (String × String) := [("app", "App.invCheckPeriod")]

theorem C03_keepers_hold_no_memory :
    Generated.keeperFields.all (fun f => statelessFieldTypes.contains f.2.2 || plainFields.contains (f.1, f.2.1)) = true := by decide

/-- non-vacuity: the extractor did see the keepers (the six custom modules and the application) -/
theorem C03_facts_nonempty :
    (["x/did/keeper", "x/market/keeper", "x/model/keeper", "x/node/keeper", "x/order/keeper", "x/sao/keeper", "app"].all
      (fun d => Generated.keeperFields.any (fun f => f.1 = d))) = true := by decide

end SaoVerif
