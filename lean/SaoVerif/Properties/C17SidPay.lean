import SaoVerif.Properties.C17Registry
/-!
# C17 — a sid DID's payment address is one of its bound accounts on this chain, after every history

`SidPay d`: for every sid DID with a payment address `a` there is a binding of that DID whose chain address is `a`
(and `a` is a real address). Together with `Reg` (C17Registry.lean) it is preserved by every operation whose account-id
descriptions are consistent with the registry (`opWfIn`, checked by the driver on every operation: monitor `inputWf`):
UpdatePaymentAddress only accepts an account bound to the DID; Binding only adds bindings; Update refuses to unbind the
payment account and cannot remove another DID's bindings. `WfRun` says that every operation of a history satisfies the
input assumption in the state it is applied to.
-/
namespace SaoVerif

def SidPay (d : DidState) : Prop :=
  ∀ did a, Map.find? d.paymentAddress did = some a → did.isSid = true → ∃ x ∈ d.did, x.did = did ∧ x.addr = a ∧ a ≠ 0

def WfRun (e : Env) : Sys → List Op → Prop
  | _, [] => True
  | y, op :: t => opWfIn y.st.did op = true ∧ WfRun e (step e y op).2 t

theorem accWfIn_facts (d : DidState) (c : AccId) (h : accWfIn d c = true) :
    (c.cosmos = true → c.chainOk = true → c.addr ≠ 0) ∧ (∀ x ∈ d.did, x.accountId = c.raw → x.addr = accAddr c) := by
  unfold accWfIn at h
  simp only [Bool.and_eq_true, Bool.or_eq_true, Bool.not_eq_true', Bool.and_eq_false_iff, bne_iff_ne, ne_eq,
    List.all_eq_true, beq_iff_eq] at h
  refine ⟨fun h1 h2 => ?_, fun x hx hxa => ?_⟩
  · rcases h.1 with h3 | h3
    · rcases h3 with h3 | h3
      · rw [h1] at h3; cases h3
      · rw [h2] at h3; cases h3
    · exact h3
  · rcases h.2 x hx with h3 | h3
    · exact absurd hxa h3
    · exact h3

/-- what an accepted UpdatePaymentAddress of a sid DID has checked -/
theorem payAddr_sid_facts (d : DidState) (m : PayAddrMsg) (h : payAddrPre d m = none) (hs : m.did.isSid = true) :
    m.acc.cosmos = true ∧ m.acc.chainOk = true ∧ ∃ stored, d.getDid m.acc.raw = some stored ∧ stored.did = m.did := by
  unfold payAddrPre at h
  split at h; · cases h
  split at h; · cases h
  split at h; · cases h
  split at h; · cases h
  split at h; · cases h
  split at h; · cases h
  rename_i hc
  split at h
  · cases h
  · rename_i stored hst
    split at h
    · cases h
    · rename_i hd
      have hc : m.acc.cosmos = true ∧ m.acc.chainOk = true := by simpa using hc
      have hd : m.did = stored.did := by simpa using hd
      exact ⟨hc.1, hc.2, stored, hst, hd.symm⟩

theorem payaddr_keeps_sidpay (d : DidState) (m : PayAddrMsg) (hw : accWfIn d m.acc = true) (h : payAddrPre d m = none)
    (hs : SidPay d) : SidPay (payAddrApply d m) := by
  obtain ⟨w1, w2⟩ := accWfIn_facts d m.acc hw
  have edid : (payAddrApply d m).did = d.did := by unfold payAddrApply; split <;> rfl
  have epa : (payAddrApply d m).paymentAddress = Map.set d.paymentAddress m.did m.acc.addr := by unfold payAddrApply; split <;> rfl
  intro did a hf hsid
  rw [epa] at hf; rw [edid]
  by_cases hd : did = m.did
  · subst hd
    rw [Map.find?_set_self'] at hf; cases hf
    obtain ⟨c1, c2, stored, hst, hsd⟩ := payAddr_sid_facts d m h hsid
    unfold DidState.getDid at hst
    have hmem := List.mem_of_find?_eq_some hst
    have hacc : stored.accountId = m.acc.raw := by have := List.find?_some hst; simpa using this
    refine ⟨stored, hmem, hsd, ?_, w1 c1 c2⟩
    rw [w2 stored hmem hacc]; unfold accAddr; simp [c1, c2]
  · rw [Map.find?_set_other' _ _ _ _ hd] at hf
    exact hs did a hf hsid

theorem binding_keeps_sidpay (d : DidState) (m : BindingMsg) (hw : accWfIn d m.acc = true) (hs : SidPay d) :
    SidPay (bindingApply d m) := by
  obtain ⟨w1, _⟩ := accWfIn_facts d m.acc hw
  intro did a hf hsid
  rw [C17_binding_appends]
  rcases binding_payaddr d m with hp | ⟨_, c1, c2, hp⟩
  · rw [hp] at hf
    obtain ⟨x, hx, h1⟩ := hs did a hf hsid
    exact ⟨x, List.mem_append_left _ hx, h1⟩
  · rw [hp] at hf
    by_cases hd : did = m.did
    · subst hd
      rw [Map.find?_set_self'] at hf; cases hf
      refine ⟨bindingEntry m, List.mem_append_right _ (List.mem_singleton.mpr rfl), rfl, ?_, w1 c1 c2⟩
      unfold bindingEntry; simp [c1, c2]
    · rw [Map.find?_set_other' _ _ _ _ hd] at hf
      obtain ⟨x, hx, h1⟩ := hs did a hf hsid
      exact ⟨x, List.mem_append_left _ hx, h1⟩

/-- the payment account of the DID cannot be unbound, and nobody else's binding is removed -/
theorem update_keeps_sidpay (s s' : State) (m : DidUpdateMsg) (hw : m.removeAcc.all (accWfIn s.did) = true)
    (h : didUpdate s m = .ok s') (hr : Reg s.did) (hs : SidPay s.did) : SidPay s'.did := by
  intro did a hf hsid
  obtain ⟨accList, payAddr, r, hl, hpa, hp1, hchk, _, hs'⟩ := didUpdate_facts s s' m h
  have epa : s'.did.paymentAddress = s.did.paymentAddress := by rw [hs']; rfl
  rw [epa] at hf
  obtain ⟨x, hx, hxd, hxa, ha0⟩ := hs did a hf hsid
  refine ⟨x, ?_, hxd, hxa, ha0⟩
  by_cases hd : x.did = m.did
  · -- the DID's own payment account: the unbinding loop refused it
    have hdid : did = m.did := by rw [← hxd]; exact hd
    rw [hdid, hpa] at hf; cases hf
    rw [hs']
    show x ∈ (updateApply s.did m accList r).did
    have e1 : (updateApply s.did m accList r).did = s.did.did.filter (fun x => !r.contains x.accountId) := rfl
    rw [e1]
    obtain ⟨_, _, c3⟩ := updateChk_spec m s.did a m.remove [] r hchk
    have : x.accountId ∉ r := by
      intro hxr
      rcases c3 _ hxr with h0 | ⟨_, _, _, c, hc, hcr, hnot⟩
      · cases h0
      · have hcw := List.all_eq_true.mp hw c hc
        obtain ⟨_, w2⟩ := accWfIn_facts s.did c hcw
        have hxaddr := w2 x hx hcr.symm
        unfold accAddr at hxaddr
        split at hxaddr
        · rename_i hcc
          exact hnot ⟨hcc.1, hcc.2, by rw [← hxaddr]; exact hxa⟩
        · rw [hxa] at hxaddr; exact ha0 hxaddr
    simp [List.mem_filter, hx, this]
  · exact C17_update_removes_only_own_bindings s s' m h hr x hx hd

def RegPay (d : DidState) : Prop := Reg d ∧ SidPay d

/-- **C17, for every operation** with consistent account-id descriptions: the registry's tables agree and every sid
    DID's payment address is a bound account of that DID on this chain -/
theorem C17_step_keeps_sid_payaddr (e : Env) (y : Sys) (op : Op) (hw : opWfIn y.st.did op = true) (hp : RegPay y.st.did) :
    RegPay (step e y op).2.st.did := by
  refine ⟨C17_step_keeps_registry e y op hp.1, ?_⟩
  by_cases h1 : ∃ m, op = .payaddr m
  · obtain ⟨m, rfl⟩ := h1
    show SidPay (atomic y.st (didUpdatePaymentAddress y.st m)).2.did
    unfold atomic
    split
    · rename_i s' hs
      obtain ⟨hpre, rfl⟩ := didPayAddr_ok _ _ _ hs
      exact payaddr_keeps_sidpay _ _ hw hpre hp.2
    · split <;> exact hp.2
  by_cases h2 : ∃ m, op = .binding m
  · obtain ⟨m, rfl⟩ := h2
    show SidPay (atomic y.st (didBinding y.st m)).2.did
    have hw : (bindingWf m && accWfIn y.st.did m.acc) = true := hw
    simp only [Bool.and_eq_true] at hw
    unfold atomic
    split
    · rename_i s' hs
      obtain ⟨_, rfl⟩ := didBinding_ok _ _ _ hs
      exact binding_keeps_sidpay _ _ hw.2 hp.2
    · split <;> exact hp.2
  by_cases h3 : ∃ m, op = .didupdate m
  · obtain ⟨m, rfl⟩ := h3
    show SidPay (atomic y.st (didUpdate y.st m)).2.did
    unfold atomic
    split
    · rename_i s' hs; exact update_keeps_sidpay _ _ _ hw hs hp.1 hp.2
    · split <;> exact hp.2
  · have := C17_registry_changes_only_by_did_messages e y op (fun m hm => h1 ⟨m, hm⟩) (fun m hm => h2 ⟨m, hm⟩) (fun m hm => h3 ⟨m, hm⟩)
    rw [this]; exact hp.2

/-- **C17 over histories** -/
theorem C17_sid_payaddr_over_histories (e : Env) (y : Sys) (ops : List Op) (hw : WfRun e y ops) (hp : RegPay y.st.did) :
    RegPay (runOps e y ops).st.did := by
  induction ops generalizing y with
  | nil => exact hp
  | cons op t ih => exact ih _ hw.2 (C17_step_keeps_sid_payaddr e y op hw.1 hp)

/-- the payment account of a sid DID cannot be unbound: an Update that is accepted leaves its binding in place -/
theorem C17_payment_account_stays_bound (s s' : State) (m : DidUpdateMsg) (hw : m.removeAcc.all (accWfIn s.did) = true)
    (h : didUpdate s m = .ok s') (hr : Reg s.did) (hs : SidPay s.did) (a : Addr) (hsid : m.did.isSid = true)
    (hf : Map.find? s.did.paymentAddress m.did = some a) : ∃ x ∈ s'.did.did, x.did = m.did ∧ x.addr = a := by
  have := update_keeps_sidpay s s' m hw h hr hs m.did a ?_ hsid
  · obtain ⟨x, hx, h1, h2, _⟩ := this; exact ⟨x, hx, h1, h2⟩
  · obtain ⟨_, _, _, _, _, _, _, _, hs'⟩ := didUpdate_facts s s' m h
    rw [hs']; exact hf

example : RegPay (default : DidState) := by
  refine ⟨?_, ?_⟩
  · constructor
    · exact List.nodup_nil
    all_goals (intros; first | contradiction | (rename_i h; simp [Map.find?] at h) | skip)
    all_goals simp_all [Map.find?]
  · intro did a h; cases h

end SaoVerif
