import SaoVerif.Properties.C03
/-!
# C01 — Replica determinism

What can make two replicas disagree, and how each source is decided:

1. **Wall clock.** After the `fix:` of F07 no handler of the model takes a clock argument: `step`
   is a function of `(Env, Sys, Op)` only, where `Env` holds static scenario facts (module account
   ids, address order). Determinism of every operation in its inputs is then `C01_step_deterministic`
   (a definitional triviality that documents the shape of the model: no hidden inputs).
2. **Host-language map iteration.** The Go `range`-over-map loops with state effects delete a set
   of shards one by one (Terminate, force-push settlement). `C01_removeShards_perm` proves the
   result is the same for every order and multiplicity of the deletions — for all shard stores and
   all key lists, by characterising the fold as one filter.
3. **In-memory residue / non-consensus calls.** Exactly C03: `C03_nonstaking_independent`,
   `C03_partial`, refuted in general by `C03_statement_refuted` (finding F06).
The tie to the code is the correspondence (each run of the real keepers re-randomises Go's map
order) plus the twin runs; a seeded change that builds a result from a map (`seeded/C01-1`) is
caught by both.
-/
namespace SaoVerif

theorem C01_step_deterministic (e : Env) (y₁ y₂ : Sys) (op : Op) (h : y₁ = y₂) : step e y₁ op = step e y₂ op := by
  rw [h]

/-- deleting a collection of shards one by one equals one filter -/
theorem foldl_removeShard (ids : List Nat) (s : State) :
    ids.foldl (fun s id => s.removeShard id) s = { s with shards := s.shards.filter (fun sh => !ids.contains sh.id) } := by
  induction ids generalizing s with
  | nil =>
    have : ∀ (l : List Shard), l.filter (fun _ => true) = l := by
      intro l; induction l with
      | nil => rfl
      | cons x t ih => simp [List.filter_cons, ih]
    cases s; simp [this]
  | cons a t ih =>
    simp only [List.foldl_cons]
    rw [ih]
    unfold State.removeShard
    simp only [List.filter_filter]
    congr 1
    apply List.filter_congr
    intro x _
    simp only [List.contains_cons, Bool.not_or, ne_eq, decide_not]
    cases h1 : (x.id == a) <;> cases h2 : t.contains x.id <;> simp_all

/-- the order (and multiplicity) in which a host-language map hands out the keys is irrelevant -/
theorem C01_removeShards_perm (l₁ l₂ : List Nat) (s : State) (h : ∀ x, x ∈ l₁ ↔ x ∈ l₂) :
    l₁.foldl (fun s id => s.removeShard id) s = l₂.foldl (fun s id => s.removeShard id) s := by
  rw [foldl_removeShard, foldl_removeShard]
  congr 1
  apply List.filter_congr
  intro x _
  have := h x.id
  cases h1 : l₁.contains x.id <;> cases h2 : l₂.contains x.id <;> simp_all

example : [3, 1, 2].foldl (fun s id => State.removeShard s id) { (default : State) with shards := [{ (default : Shard) with id := 1 }, { (default : Shard) with id := 7 }] }
        = [2, 3, 1, 1].foldl (fun s id => State.removeShard s id) { (default : State) with shards := [{ (default : Shard) with id := 1 }, { (default : Shard) with id := 7 }] } :=
  C01_removeShards_perm _ _ _ (by intro x; simp; omega)

end SaoVerif
