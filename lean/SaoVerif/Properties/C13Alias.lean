import SaoVerif.Properties.C16
/-!
# C13 — a new data model gets its alias entry, and the two go together

"… every data model has exactly one alias entry pointing back at it."

`C13_new_model_gets_its_alias_entry`: for every state, an accepted `NewMeta` leaves the model record under its data id and
an alias entry under the model's (owner, alias, group) key whose target is that data id; it is refused when either the data
id or the key is already taken (`C13_new_model_refused_when_taken`), so an entry is never redirected to a second model.
`C13_delete_removes_model_and_alias`: `DeleteMeta` removes both, so none outlives the other.
-/
namespace SaoVerif

theorem getModel_setModel_fresh (s : State) (en : ModelEntry) (h : s.getModel en.key = none) :
    (s.setModel en).getModel en.key = some en := by
  unfold State.getModel at h
  have hany : s.models.any (·.key = en.key) = false := by
    apply Bool.eq_false_iff.mpr
    intro ha
    obtain ⟨x, hx, hk⟩ := List.any_eq_true.mp ha
    have := List.find?_eq_none.mp h x hx
    simp_all
  unfold State.setModel State.getModel
  simp only [hany, Bool.false_eq_true, if_false]
  rw [List.find?_append, h]
  simp

theorem C13_new_model_gets_its_alias_entry (s s' : State) (o : Order) (m : Metadata) (h : newMeta s o m = (s', none)) :
    s'.getMeta m.dataId = some m ∧ s'.getModel (metaKey m) = some { key := metaKey m, data := m.dataId } ∧
    s.getMeta m.dataId = none ∧ s.getModel (metaKey m) = none := by
  unfold newMeta at h
  split at h
  · simp at h
  · split at h
    · simp at h
    · split at h
      · simp at h
      · rename_i h2 h3
        simp only [Prod.mk.injEq, and_true] at h
        have hm : s.getMeta m.dataId = none := by simpa using h2
        have hk : s.getModel (metaKey m) = none := by simpa using h3
        rw [← h]
        refine ⟨?_, ?_, hm, hk⟩
        · show ((s.setModel _).setMeta m).getMeta m.dataId = some m
          exact getMeta_setMeta _ m
        · show (s.setModel { key := metaKey m, data := m.dataId }).getModel (metaKey m) = _
          exact getModel_setModel_fresh s { key := metaKey m, data := m.dataId } hk

theorem C13_new_model_refused_when_taken (s : State) (o : Order) (m : Metadata)
    (h : (s.getMeta m.dataId).isSome ∨ (s.getModel (metaKey m)).isSome) : ∃ msg, newMeta s o m = (s, some msg) := by
  unfold newMeta
  split
  · exact ⟨_, rfl⟩
  · split
    · exact ⟨_, rfl⟩
    · rename_i h2
      split
      · exact ⟨_, rfl⟩
      · rename_i h3
        rcases h with h | h
        · exact absurd h h2
        · exact absurd h h3

theorem C13_delete_removes_model_and_alias (s s' : State) (d : Bytes) (m : Metadata) (hm : s.getMeta d = some m)
    (h : deleteMeta s d = (s', none)) : s'.getMeta d = none ∧ s'.getModel (metaKey m) = none := by
  unfold deleteMeta at h
  simp only [hm, Prod.mk.injEq, and_true] at h
  rw [← h]
  constructor
  · show (s.removeMeta d).getMeta d = none
    unfold State.removeMeta State.getMeta
    simp only
    apply List.find?_eq_none.mpr
    intro x hx
    have := (List.mem_filter.mp hx).2
    simpa using this
  · unfold State.removeModel State.getModel
    simp only
    apply List.find?_eq_none.mpr
    intro x hx
    have := (List.mem_filter.mp hx).2
    simpa using this

end SaoVerif
