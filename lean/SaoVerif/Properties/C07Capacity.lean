import SaoVerif.Properties.C14Pledge
/-!
# C07 — a shard is booked only into free pledged capacity

"… its used capacity never exceeds its pledged capacity nor goes negative."

`C07_pledge_within_capacity`: for every state in which the provider's record is in range (0 ≤ used ≤ pledged capacity, an
`int64`), an accepted `ShardPledge` of a shard whose size is an `int64` leaves the record in range: used capacity grows by the
shard's size and still does not exceed the pledged capacity, which is unchanged. The guard is the comparison
`uint64(total − used) < size` of the Go code; the range hypothesis is what makes the unsigned conversion harmless, and it is
itself the monitored invariant `usedBounds`. With `C07_remove_guard` (capacity backing stored shards cannot be withdrawn) and
`C14_pledge_books_used_capacity` this is the inductive step of `usedBounds` for the two handlers that move its two sides
towards each other.
-/
namespace SaoVerif

theorem settle_capacity (pool : Pool) (pl : Pledge) :
    (settle pool pl).usedStorage = pl.usedStorage ∧ (settle pool pl).totalStorage = pl.totalStorage := by
  unfold settle; split <;> exact ⟨rfl, rfl⟩

theorem shardPledge_guard (e : Env) (s s' : State) (sh : Shard) (up : Dec) (pl : Pledge) (pool : Pool)
    (hpl : s.getPledge sh.sp = some pl) (hpool : s.pool = some pool) (h : shardPledge e s sh up = .ok (s', none)) :
    ¬ (toU64 ((settle pool pl).totalStorage - (settle pool pl).usedStorage) < sh.size) := by
  intro hlt
  unfold shardPledge at h
  simp only [hpl, hpool, bind, Except.bind, pure, Except.pure, hlt, if_true] at h
  simp at h

theorem C07_pledge_within_capacity (e : Env) (s s' : State) (sh : Shard) (up : Dec) (pl : Pledge) (pool : Pool)
    (hpl : s.getPledge sh.sp = some pl) (hpool : s.pool = some pool)
    (h0 : 0 ≤ pl.usedStorage) (h1 : pl.usedStorage ≤ pl.totalStorage) (h2 : pl.totalStorage < 9223372036854775808)
    (hs : sh.size < 9223372036854775808)
    (h : shardPledge e s sh up = .ok (s', none)) :
    ∃ pl', s'.getPledge sh.sp = some pl' ∧ pl'.totalStorage = pl.totalStorage ∧
      pl'.usedStorage = pl.usedStorage + (sh.size : Int) ∧ 0 ≤ pl'.usedStorage ∧ pl'.usedStorage ≤ pl'.totalStorage := by
  obtain ⟨pl', sh', hg, _, hu, _, ht⟩ := C14_pledge_books_used_capacity e s s' sh up pl pool hpl hpool h
  have hguard := shardPledge_guard e s s' sh up pl pool hpl hpool h
  obtain ⟨su, st⟩ := settle_capacity pool pl
  rw [su] at hu; rw [st] at ht
  rw [su, st] at hguard
  have hsz : toI64 sh.size = (sh.size : Int) := by
    unfold toI64
    have : sh.size % 18446744073709551616 = sh.size := Nat.mod_eq_of_lt (by omega)
    simp only [this]
    split
    · rfl
    · omega
  have hfree : toU64 (pl.totalStorage - pl.usedStorage) = (pl.totalStorage - pl.usedStorage).toNat := by
    unfold toU64
    have : (pl.totalStorage - pl.usedStorage) % 18446744073709551616 = pl.totalStorage - pl.usedStorage :=
      Int.emod_eq_of_lt (by omega) (by omega)
    rw [this]
  rw [hfree] at hguard
  refine ⟨pl', hg, ht, by rw [hu, hsz], by rw [hu, hsz]; omega, ?_⟩
  rw [hu, hsz, ht]
  omega

end SaoVerif
