import SaoVerif.Properties.C13
/-!
# C11 — Retention and expiry (and the block-skipping lemma the harness relies on)

* `C11_idle_endblock_noop`: an end-block at a height with nothing scheduled in any of the three
  queues, and no node crossing the offline threshold, changes nothing. This is what makes the
  harness's time travel sound (it jumps only over such heights) and what "not before" rests on:
  the end-blockers touch a shard only through `expiredShardQ[height]` / `timeoutQ[height]`.
* `C11_stale_entry_skipped`: a data-expiry entry naming a model whose lifetime ends later than the
  current height leaves the model alone (the `fix:` of F14).
Early release through a seeded wrong schedule (`seeded/C11-1`, `seeded/C13-1`, `seeded/C04-1`) is caught
by the correspondence of Complete / Renew / end-block and the monitors `modelOutlivesShards`,
`releasedEarly`, `noOverdueShard`.
-/
namespace SaoVerif

theorem C11_idle_endblock_noop (e : Env) (s : State)
    (h1 : Map.find? s.timeoutQ (toU64 s.h) = none) (h2 : Map.find? s.expiredShardQ (toU64 s.h) = none)
    (h3 : Map.find? s.expiredData (toU64 s.h) = none)
    (h4 : ∀ n ∈ s.nodes, ¬ (n.lastAlive + s.params.offlineTriggerHeight < s.h ∧ n.status &&& ST_ONLINE = ST_ONLINE)) :
    endBlock e s = .ok s := by
  unfold endBlock saoEndBlock
  simp only [h1, h2, bind, Except.bind, pure, Except.pure]
  have hn : nodeEndBlock s = s := by
    unfold nodeEndBlock
    have gen : ∀ (l : List Node), (∀ n ∈ l, ¬ (n.lastAlive + s.params.offlineTriggerHeight < s.h ∧ n.status &&& ST_ONLINE = ST_ONLINE)) →
        l.map (fun n => if n.lastAlive + s.params.offlineTriggerHeight < s.h ∧ n.status &&& ST_ONLINE = ST_ONLINE then { n with status := 0 } else n) = l := by
      intro l hl
      induction l with
      | nil => rfl
      | cons x t ih =>
        simp only [List.map_cons]
        rw [ih (fun n hn => hl n (List.mem_cons_of_mem _ hn))]
        simp [hl x List.mem_cons_self]
    rw [gen s.nodes h4]
  rw [hn]
  unfold modelEndBlock
  simp [h3]

theorem C11_stale_entry_skipped (s : State) (d : Bytes) (m : Metadata) (hm : s.getMeta d = some m)
    (hl : addU64 m.createdAt m.duration > toU64 s.h) (hq : Map.find? s.expiredData (toU64 s.h) = some [d]) :
    (modelEndBlock s).getMeta d = some m := by
  unfold modelEndBlock
  simp only [hq, List.foldl_cons, List.foldl_nil, hm, hl, ↓reduceIte]
  exact hm

end SaoVerif
