import SaoVerif.Properties.C08
import SaoVerif.Properties.C14
/-!
# C08 — what a claim leaves behind

`C08_claim_pays_floor` is arithmetic; this file ties it to the handler. Whenever `ClaimReward` is accepted,
the claimant's recorded reward afterwards is the fractional part of what had accrued: `0 ≤ reward < 1 coin`
— whatever happens to the whole-coin part (paid out, or kept as repayment of collateral debt). A handler
that resets the record only when coins are actually sent (seeded/C08-2: the reward repays debt *and* stays
claimable) violates exactly this; the monitor clause `claimLeavesFraction` evaluates it on every accepted claim.
-/
namespace SaoVerif

theorem find_pledge_replace (l : List Pledge) (p : Pledge) (h : l.any (·.creator = p.creator) = true) :
    (l.map (fun x => if x.creator = p.creator then p else x)).find? (·.creator = p.creator) = some p := by
  induction l with
  | nil => simp at h
  | cons x t ih =>
    simp only [List.map_cons, List.find?_cons]
    by_cases hx : x.creator = p.creator
    · simp [hx]
    · have : (t.any (·.creator = p.creator)) = true := by
        simp only [List.any_cons, Bool.or_eq_true, decide_eq_true_eq] at h
        rcases h with h | h
        · exact absurd h hx
        · simpa using h
      simp [hx, ih this]

theorem find_pledge_append (l : List Pledge) (p : Pledge) (h : l.any (·.creator = p.creator) = false) :
    (l ++ [p]).find? (·.creator = p.creator) = some p := by
  induction l with
  | nil => simp
  | cons x t ih =>
    simp only [List.any_cons, Bool.or_eq_false_iff, decide_eq_false_iff_not] at h
    simp [h.1, ih h.2]

theorem getPledge_setPledge (s : State) (p : Pledge) : (s.setPledge p).getPledge p.creator = some p := by
  unfold State.setPledge State.getPledge
  simp only
  split
  · rename_i h; exact find_pledge_replace _ _ h
  · rename_i h; exact find_pledge_append _ _ (by simpa using h)

theorem C08_claim_leaves_fraction (e : Env) (s s' : State) (c : Addr) (paid : Int)
    (h : nodeClaimReward e s c = .ok (s', paid)) :
    ∃ p, s'.getPledge c = some p ∧ 0 ≤ p.reward ∧ p.reward < 1000000000000000000 := by
  unfold nodeClaimReward at h
  simp only [bind, Except.bind, pure, Except.pure] at h
  split at h
  · cases h
  · split at h
    · cases h
    · rename_i x hrel
      obtain ⟨s1, _⟩ := x
      simp only at h
      split at h
      · rename_i pledge hp
        split at h
        · cases h
        · rename_i hclaim
          split at h
          · cases h
          · rename_i hrem
            split at h
            · cases h
            · rename_i y hy
              obtain ⟨s2, worker⟩ := y
              simp only at h
              have hc := getPledge_creator s1 c pledge hp
              -- whatever the three transfers do, the last write is the pledge with the fractional reward
              have key : ∀ (sf : State), (sf.setPledge { pledge with reward := pledge.reward - Dec.ofInt (Dec.truncate pledge.reward) }).getPledge c
                  = some { pledge with reward := pledge.reward - Dec.ofInt (Dec.truncate pledge.reward) } := by
                intro sf
                have := getPledge_setPledge sf { pledge with reward := pledge.reward - Dec.ofInt (Dec.truncate pledge.reward) }
                simpa [hc] using this
              have hr0 : 0 ≤ pledge.reward := by
                by_cases hn : 0 ≤ pledge.reward
                · exact hn
                · exfalso
                  have hn' : ¬ (0 : Int) ≤ (pledge.reward : Int) := hn
                  have hrem' : ¬ ((pledge.reward : Int) - Dec.ofInt (Dec.truncate pledge.reward) < (0 : Int)) := hrem
                  have ht : Dec.truncate pledge.reward ≤ 0 := by
                    unfold Dec.truncate precision
                    have h1 := Int.neg_tdiv (-pledge.reward) 1000000000000000000
                    have h2 : 0 ≤ (-pledge.reward).tdiv 1000000000000000000 := Int.tdiv_nonneg (by omega) (by omega)
                    rw [Int.neg_neg] at h1
                    omega
                  have ht0 : Dec.truncate pledge.reward = 0 := by omega
                  rw [ht0] at hrem'
                  simp only [Dec.ofInt, Int.zero_mul, Int.sub_zero] at hrem'
                  exact hn' (Int.not_lt.mp hrem')
              have hfl := C08_claim_pays_floor pledge.reward hr0
              repeat' (split at h)
              all_goals (first | cases h | skip)
              all_goals exact ⟨_, key _, hfl.2.1, hfl.2.2⟩
      · cases h

end SaoVerif
