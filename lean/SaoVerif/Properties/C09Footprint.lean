import SaoVerif.Proofs.MetaFoot
import SaoVerif.Properties.C08Footprint
/-!
# C09 — data-model records change only through data-model messages and the end-blocker

`metaPart s` (Proofs/MetaFoot.lean) = the model records (owner, permissions, version history, content id, …) and the alias index.
Only Store, Complete, Cancel, Terminate, Renew, UpdataPermission and the end-blocker (expiry, timeout roll-back) can change
it: node, DID, fault and staking messages, Ready, Migrate, ClaimReward and the begin-blocker leave every model exactly as it was,
for every state and whatever their arguments and outcome (`C09_models_change_only_by_model_messages`). Those seven are the
operations the authorisation theorems (`C09_store_unauthorised`, `C09_terminate_unauthorised`, `C09_perm_unauthorised`,
`C09_complete_reauthorises`) and the monitor `unauthorisedChange` speak about — there is no side door.
-/
namespace SaoVerif

/-! ### staking messages -/
theorem setRole_mtS (e : Env) (s : State) (a : Addr) (r : Nat) (v : Option ValAddr) : metaPart (setRole e s a r v) = metaPart s := by
  unfold setRole; split <;> rfl

theorem verifyLoop_mtS (e : Env) (val : ValAddr) (acc : Option Addr) (b : Bool) (sub : Dec) (l : List DelegationV) (s s' : State)
    (h : verifySuper.loop e val acc b sub l s = .ok s') : metaPart s' = metaPart s := by
  induction l generalizing s with
  | nil => unfold verifySuper.loop at h; simp only [pure, Except.pure, Except.ok.injEq] at h; rw [← h]
  | cons d t ih =>
    unfold verifySuper.loop at h
    have key : ∀ (x : State), metaPart x = metaPart s → verifySuper.loop e val acc b sub t x = .ok s' → metaPart s' = metaPart s :=
      fun x hx hl => (ih _ hl).trans hx
    have k1 : ∀ (c : Prop) [Decidable c] (a : Addr) (r : Nat) (v : Option ValAddr),
        metaPart (if c then setRole e s a r v else s) = metaPart s := by
      intro c _ a r v; split
      · exact setRole_mtS _ _ _ _ _
      · rfl
    split at h
    · exact ih _ h
    · split at h
      · exact ih _ h
      · split at h
        · exact key _ (k1 _ _ _ _) h
        · split at h
          · exact key _ (k1 _ _ _ _) h
          · dsimp only at h
            split at h
            all_goals (
              split at h
              · exact key _ (k1 _ _ _ _) h
              · obtain ⟨ok, _, h⟩ := bind_ok h
                split at h
                · exact key _ (k1 _ _ _ _) h
                · exact key _ (k1 _ _ _ _) h)

theorem verifySuper_mtS (e : Env) (s s' : State) (g g' : Dec) (v : ValAddr) (a : Option Addr) (b : Bool)
    (h : verifySuper e s g v a b = .ok (s', g')) : metaPart s' = metaPart s := by
  unfold verifySuper at h
  dsimp only at h
  obtain ⟨sub, _, h⟩ := bind_ok h
  obtain ⟨s1, hs1, h⟩ := bind_ok h
  simp only [pure, Except.pure, Except.ok.injEq, Prod.mk.injEq] at h
  rw [← h.1]
  exact verifyLoop_mtS _ _ _ _ _ _ _ _ hs1

theorem send_mtS (s s' : State) (a b : Addr) (x : Int) (h : s.send a b x = .ok s') : metaPart s' = metaPart s := send_mt _ _ _ _ _ h

/-- the outcome of a staking message: whatever the result and the package variable, committed `metaPart` is kept -/
def keepsMt (s : State) (r : Dec × TxM State) : Prop :=
  match r.2 with
  | .ok s' => metaPart s' = metaPart s
  | .error _ => True

theorem delegate_keepsMt (e : Env) (s : State) (g : Dec) (del : Addr) (val : ValAddr) (amt : Int) :
    keepsMt s (stakeDelegate e s g del val amt) := by
  unfold stakeDelegate
  split
  · simp [keepsMt, throw, throwThe, MonadExceptOf.throw]
  · dsimp only
    split
    · simp [keepsMt, throw, throwThe, MonadExceptOf.throw]
    · rename_i s1 hs1
      split
      · simp [keepsMt, throw, throwThe, MonadExceptOf.throw]
      · split
        · simp [keepsMt, throw, throwThe, MonadExceptOf.throw]
        · rename_i s2 g2 hv
          simp only [keepsMt, pure, Except.pure]
          rw [verifySuper_mtS _ _ _ _ _ _ _ _ hv]
          show metaPart s1 = metaPart s
          exact send_mtS _ _ _ _ _ hs1

theorem undelegate_keepsMt (e : Env) (s : State) (g : Dec) (del : Addr) (val : ValAddr) (amt : Int) :
    keepsMt s (stakeUndelegate e s g del val amt) := by
  unfold stakeUndelegate
  split
  · simp [keepsMt, throw, throwThe, MonadExceptOf.throw]
  · simp [keepsMt, throw, throwThe, MonadExceptOf.throw]
  · dsimp only
    split
    · simp [keepsMt, throw, throwThe, MonadExceptOf.throw]
    · split
      · simp [keepsMt, throw, throwThe, MonadExceptOf.throw]
      · split
        · simp [keepsMt, throw, throwThe, MonadExceptOf.throw]
        · split
          · simp [keepsMt, throw, throwThe, MonadExceptOf.throw]
          · rename_i s2 g2 hr
            have hs2 : metaPart s2 = metaPart s := by
              split at hr
              · obtain ⟨x, hx, hr⟩ := bind_ok hr
                obtain ⟨sx, gx⟩ := x
                simp only [pure, Except.pure, Except.ok.injEq, Prod.mk.injEq] at hr
                rw [← hr.1]
                show metaPart sx = metaPart s
                exact verifySuper_mtS _ _ _ _ _ _ _ _ hx
              · rw [verifySuper_mtS _ _ _ _ _ _ _ _ hr]; rfl
            split
            · split
              · simp [keepsMt, throw, throwThe, MonadExceptOf.throw]
              · rename_i s3 hs3
                simp only [keepsMt, pure, Except.pure]
                have := send_mtS _ _ _ _ _ hs3
                exact this.trans hs2
            · simp only [keepsMt, pure, Except.pure]
              exact hs2



theorem redelegate_keepsMt (e : Env) (s : State) (g : Dec) (del : Addr) (src dst : ValAddr) (amt : Int) :
    keepsMt s (stakeRedelegate e s g del src dst amt) := by
  unfold keepsMt
  split
  · rename_i s' hs
    exact redelegate_keeps metaPart (fun e s s' g g' v a b h => verifySuper_mtS e s s' g g' v a b h)
      (fun s s' a b x h => send_mtS s s' a b x h) (fun _ _ => rfl) e s g del src dst amt s' hs
  · trivial

/-! ### every operation -/
theorem begin_mt (e : Env) (s s' : State) (h : nodeBeginBlock e s = .ok s') : metaPart s' = metaPart s := by
  unfold nodeBeginBlock at h
  split at h
  · dsimp only at h
    obtain ⟨r, hr, h⟩ := bind_ok h
    split at h
    · obtain ⟨pool', _, h⟩ := bind_ok h
      simp only [pure, Except.pure, Except.ok.injEq] at h
      rw [← h]; rfl
    · simp only [pure, Except.pure, Except.ok.injEq] at h; rw [← h]
  · simp only [pure, Except.pure, Except.ok.injEq] at h; rw [← h]

theorem atomic_mt (s : State) (r : TxM State) (h : ∀ s', r = .ok s' → metaPart s' = metaPart s) : metaPart (atomic s r).2 = metaPart s := by
  unfold atomic
  split
  · exact h _ rfl
  · split <;> rfl

theorem blocker_mt (s : State) (r : TxM State) (h : ∀ s', r = .ok s' → metaPart s' = metaPart s) : metaPart (blocker s r).2 = metaPart s := by
  unfold blocker
  split
  · exact h _ rfl
  · split <;> rfl

/-- the operations that can change a model record -/
def isModelMsg : Op → Bool
  | .store .. => true
  | .complete .. => true
  | .cancel .. => true
  | .terminate .. => true
  | .renew .. => true
  | .perm .. => true
  | .end_ => true
  | _ => false

theorem stepC_mt (e : Env) (s : State) (op : Op) (hop : isModelMsg op = false) : metaPart (stepC e s op).2 = metaPart s := by
  cases op
  case store => cases hop
  case complete => cases hop
  case cancel => cases hop
  case terminate => cases hop
  case renew => cases hop
  case perm => cases hop
  case end_ => cases hop
  case advance to seed => rfl
  case begin_ => exact blocker_mt _ _ (fun s' h => begin_mt e s s' h)
  case create c => exact atomic_mt _ _ (fun s' h => nodeCreate_mt e s s' c h)
  case reset m => exact atomic_mt _ _ (fun s' h => nodeReset_mt e s s' m h)
  case addv c n => exact atomic_mt _ _ (fun s' h => nodeAddVstorage_mt e s s' c n h)
  case remv c n => exact atomic_mt _ _ (fun s' h => nodeRemoveVstorage_mt e s s' c n h)
  case claim c =>
    refine atomic_mt _ _ (fun s' h => ?_)
    cases hc : nodeClaimReward e s c with
    | error m => rw [hc] at h; cases h
    | ok v =>
      rw [hc] at h
      simp only [Except.map, Except.ok.injEq] at h
      rw [← h]
      exact nodeClaimReward_mt e s v.1 c v.2 hc
  case ready c p o => exact atomic_mt _ _ (fun s' h => saoReady_mt s s' c p o h)
  case migrate c p data => exact atomic_mt _ _ (fun s' h => saoMigrate_mt s s' c p data h)
  case report c p fs ids => exact atomic_mt _ _ (fun s' h => saoReportFaults_mt s s' c p fs ids h)
  case recover c p fs ik => exact atomic_mt _ _ (fun s' h => saoRecoverFaults_mt s s' c p fs ik h)
  case payaddr m => exact atomic_mt _ _ (fun s' h => by rw [(didPayAddr_ok s s' m h).2]; rfl)
  case binding m => exact atomic_mt _ _ (fun s' h => by rw [(didBinding_ok s s' m h).2]; rfl)
  case didupdate m => exact atomic_mt _ _ (fun s' h => by obtain ⟨d, hd⟩ := didUpdate_ok s s' m h; rw [hd]; rfl)
  all_goals rfl

/-- **C09, for every operation and state**: no model record and no alias entry is created, changed or removed by an
    operation other than Store, Complete, Cancel, Terminate, Renew, UpdataPermission and the end-blocker -/
theorem C09_models_change_only_by_model_messages (e : Env) (y : Sys) (op : Op) (hop : isModelMsg op = false) :
    (step e y op).2.st.metas = y.st.metas ∧ (step e y op).2.st.models = y.st.models := by
  have key : metaPart (step e y op).2.st = metaPart y.st := by
    cases op
    case delegate c v a =>
      simp only [step, stepBase, stakeStep]
      have := delegate_keepsMt e y.st y.global c v a
      unfold keepsMt at this
      split
      · rename_i s' hs; rw [hs] at this; exact this
      · rfl
    case undelegate c v a =>
      simp only [step, stepBase, stakeStep]
      have := undelegate_keepsMt e y.st y.global c v a
      unfold keepsMt at this
      split
      · rename_i s' hs; rw [hs] at this; exact this
      · rfl
    case redelegate c v w a =>
      simp only [step, stepBase, stakeStep]
      have := redelegate_keepsMt e y.st y.global c v w a
      unfold keepsMt at this
      split
      · rename_i s' hs; rw [hs] at this; exact this
      · rfl
    case restart => rfl
    case genesis => rfl
    case sim inner => rfl
    all_goals exact stepC_mt e y.st _ hop
  unfold metaPart at key
  exact ⟨congrArg Prod.fst key, congrArg Prod.snd key⟩

end SaoVerif
