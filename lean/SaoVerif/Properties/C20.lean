import SaoVerif.Properties.C03
import SaoVerif.Spec.Inv
/-!
# C20 — Super-node role held only while pledge and validator-stake requirements hold

`C20_statement`: after every transaction every node with the super role satisfies the defining
predicate (`Spec.superPredicate`: full service status, pledged capacity ≥ threshold, own delegation
/ validator shares ≥ ShareThreshold), evaluated on committed state only.

* `C20_share_check_sound`: the ratio test used for every promotion (`CheckDelegationShare` with
  nothing to subtract) succeeds only if the delegation and validator exist and the ratio of the
  *stored* shares is at least the threshold.
* `C20_refuted`: on the unchanged tree a residue of the package variable makes the staking hook
  keep a super node whose true ratio is below the threshold (same witness as C03; findings/F06).
* `C20_decision_committed_only_partial`: with a zero package variable the hook's decision is a
  function of committed state (it is literally `verifySuper e s 0 …`), and every non-staking
  operation is independent of the variable (`C03_nonstaking_independent`).
-/
namespace SaoVerif
open Spec

def C20_statement : Prop :=
  ∀ (e : Env) (y : Sys) (op : Op), superInv y.st = true → superInv (step e y op).2.st = true

theorem C20_share_check_sound (s : State) (del : Addr) (val : ValAddr)
    (h : checkDelegationShare s del val 0 = .ok true) :
    ∃ d v, s.staking.delegation del val = some d ∧ s.staking.validator val = some v ∧ v.shares ≠ 0 ∧
      ¬ (Dec.quo d.shares v.shares < s.params.shareThreshold) := by
  unfold checkDelegationShare at h
  simp only [bind, Except.bind, pure, Except.pure] at h
  split at h
  · simp at h
  · cases hd : s.staking.delegation del val with
    | none => simp [hd] at h
    | some d =>
      cases hv : s.staking.validator val with
      | none => simp [hd, hv] at h
      | some v =>
        simp only [hd, hv] at h
        split at h
        · simp at h
        · rename_i hne
          split at h
          · simp [throw, throwThe, MonadExceptOf.throw] at h
          · rename_i hz
            simp at h
            refine ⟨d, v, rfl, rfl, ?_, ?_⟩
            · intro h0; apply hne; simp [h0]
            · simpa using h

/-- the state reached in `C03_witness` with the residue violates the invariant, although the
    pre-state satisfies it -/
theorem C20_refuted : ¬ C20_statement := by
  intro h
  have hpre : superInv w06State = true := by decide
  have := h default ⟨w06State, 900000 * precision⟩ (.delegate 11 2 50000) hpre
  have hpost : superInv (step default ⟨w06State, 900000 * precision⟩ (.delegate 11 2 50000)).2.st = false := by decide
  rw [hpost] at this
  cases this

/-- without a residue the same step restores the invariant (the node is demoted) -/
example : superInv (step default ⟨w06State, 0⟩ (.delegate 11 2 50000)).2.st = true := by decide

end SaoVerif
