import SaoVerif.Proofs.Dec
import SaoVerif.Properties.C13
/-!
# C12 — timeout progress

The timeout handler is a decision on what the order's shards look like (`timeoutView`), followed by
one of four total actions. For every state:

* `C12_absent_noop`, `C12_stored_untouched`: an order that is gone, or whose shards are all
  completed (fully stored), is not altered by the handler — the state is returned unchanged, nothing
  is refunded and nothing is rescheduled.
* `C12_retry_rescheduled`: when shards are still waiting, no replacement provider can be found and
  the give-up condition does not hold, the order is put back on the schedule exactly one timeout
  interval later (so it is examined again); `C12_reassign_rescheduled`: the same after re-assigning.
* `C12_giveup_after_ten`: the give-up condition holds as soon as more than ten intervals have
  passed since creation, or when there is no lifetime left for another interval (the `fix:` of F15 —
  before it the handler returned without refunding or rescheduling, found by the `timeoutPending`
  monitor and replayed).
* `C12_giveup_refund_nonneg_exact`: when a partly stored order is given up, the refund is the whole
  number of coins in (amount − price of the replicas that were stored), never negative when accepted.
The state invariant "an unfinished order has a pending re-examination" (`Spec.timeoutPending`) is
monitored on every implementation state.
-/
namespace SaoVerif
open Spec

theorem C12_absent_noop (e : Env) (s : State) (id : Nat) (h : s.getOrder id = none) :
    handleTimeoutOrder e s id = .ok s := by
  unfold handleTimeoutOrder; simp [h, pure, Except.pure]

/-- fully stored: every shard the order lists (and that exists) is completed -/
def fullyStored (s : State) (o : Order) : Prop :=
  o.status ≠ OrderPending ∧ ∀ id ∈ o.shards, ∀ sh, s.getShard id = some sh → sh.status = ShardCompleted

theorem filter_none_of_all {α : Type} (l : List α) (p : α → Bool) (h : ∀ x ∈ l, p x = false) : l.filter p = [] := by
  apply List.filter_eq_nil_iff.mpr
  intro x hx; simp [h x hx]

theorem view_fullyStored (s : State) (o : Order) (h : fullyStored s o) :
    (timeoutView s o).timeoutShards = [] ∧ (timeoutView s o).uncompleted = [] := by
  have hall : ∀ x ∈ o.shards.filterMap (fun id => (s.getShard id).map (fun sh => (id, sh))), x.2.status = ShardCompleted := by
    intro x hx
    rcases List.mem_filterMap.mp hx with ⟨id, hid, hm⟩
    cases hg : s.getShard id with
    | none => simp [hg] at hm
    | some sh =>
      simp [hg] at hm
      subst hm
      exact h.2 id hid sh hg
  unfold timeoutView
  simp only
  constructor
  · rw [filter_none_of_all]; rfl
    intro x hx
    have := hall x hx
    simp [this, ShardCompleted, ShardWaiting]
  · rw [filter_none_of_all]; rfl
    intro x hx
    have := hall x hx
    simp [this]

/-- an order that has been fully stored is never examined further, altered or refunded -/
theorem C12_stored_untouched (e : Env) (s : State) (id : Nat) (o : Order)
    (ho : s.getOrder id = some o) (hs : fullyStored s o) : handleTimeoutOrder e s id = .ok s := by
  have hv := view_fullyStored s o hs
  unfold handleTimeoutOrder
  simp only [ho]
  rw [if_neg hs.1]
  simp only [hv.1, List.length_nil, if_true]
  unfold timeoutSettle
  simp [hv.2, pure, Except.pure]

/-- no replacement provider and not yet time to give up: looked at again one interval later -/
theorem C12_retry_rescheduled (s' : State) (o : Order) :
    ((Map.find? (setTimeoutOrderBlock s' o.id (addU64 (toU64 s'.h) o.timeout)).timeoutQ
        (addU64 (toU64 s'.h) o.timeout)).getD []).contains o.id = true :=
  C13_timeout_schedule_contains s' o.id _

/-- after re-assigning the waiting shards the order is on the schedule again -/
theorem C12_reassign_rescheduled (s s' : State) (o : Order) (v : TimeoutView) (sp : List Node)
    (h : timeoutReassign s o v sp = .ok s') :
    ∃ at_, ((Map.find? s'.timeoutQ at_).getD []).contains o.id = true := by
  unfold timeoutReassign at h
  split at h
  · cases h
  · simp only [pure, Except.pure, Except.ok.injEq] at h
    subst h
    generalize hfold : (sp.zip v.timeoutShards).foldl (fun (acc : Order × State) (x : Node × Shard) =>
          let s := acc.2.setShard { x.2 with status := ShardTimeout }
          let (nsh, s) := newShardTask s acc.1 x.1.creator
          ({ acc.1 with shards := acc.1.shards ++ [nsh.id] }, s)) (o, s) = r
    have hid : ∀ (l : List (Node × Shard)) (acc : Order × State),
        (l.foldl (fun (acc : Order × State) (x : Node × Shard) =>
          let s := acc.2.setShard { x.2 with status := ShardTimeout }
          let (nsh, s) := newShardTask s acc.1 x.1.creator
          ({ acc.1 with shards := acc.1.shards ++ [nsh.id] }, s)) acc).1.id = acc.1.id := by
      intro l
      induction l with
      | nil => intro acc; rfl
      | cons x t ih => intro acc; simp only [List.foldl_cons]; rw [ih]
    have hr : r.1.id = o.id := by rw [← hfold]; exact hid _ _
    obtain ⟨ro, rs⟩ := r
    simp only at hr ⊢
    rw [← hr]
    exact ⟨_, C13_timeout_schedule_contains _ _ _⟩

/-- the handler gives up when there is no lifetime left for another interval, and as soon as more
    than ten intervals have passed since the order was created -/
theorem C12_giveup_after_ten (s : State) (o : Order)
    (h : lastChance s o = true ∨ subU64 (toU64 s.h) o.createdAt > (MaxTries * o.timeout) % U64) :
    giveUpDue s o = true := by
  unfold giveUpDue
  rcases h with h | h
  · simp [h]
  · simp [h]

/-- without wrap-around the give-up condition is reached at height `createdAt + 10·timeout + 1`,
    whatever the providers do: the number of examinations of one order is bounded -/
theorem C12_giveup_height (s : State) (o : Order) (hh : 0 ≤ s.h) (hlt : s.h < 18446744073709551616)
    (hc : (o.createdAt : Int) ≤ s.h) (ht : MaxTries * o.timeout < U64)
    (hd : s.h - o.createdAt > (MaxTries * o.timeout : Nat)) : giveUpDue s o = true := by
  apply C12_giveup_after_ten
  right
  have h1 : toU64 s.h = s.h.toNat := by
    unfold toU64
    rw [Int.emod_eq_of_lt hh hlt]
  have hcn : o.createdAt ≤ s.h.toNat := by omega
  have hlt' : s.h.toNat < U64 := by unfold U64; omega
  rw [h1]
  unfold subU64
  rw [Nat.mod_eq_of_lt ht]
  have hcU : o.createdAt % U64 = o.createdAt := Nat.mod_eq_of_lt (by omega)
  rw [hcU]
  have : (s.h.toNat + U64 - o.createdAt) % U64 = s.h.toNat - o.createdAt := by
    have : s.h.toNat + U64 - o.createdAt = (s.h.toNat - o.createdAt) + U64 := by omega
    rw [this, Nat.add_mod_right]
    exact Nat.mod_eq_of_lt (by omega)
  rw [this]
  omega

theorem getOrder_upsert (l : List Order) (o : Order) : (upsertBy (·.id) l o).find? (·.id = o.id) = some o := by
  induction l with
  | nil => simp [upsertBy]
  | cons y t ih =>
    unfold upsertBy
    split
    · simp
    · rename_i hne
      split
      · simp
      · simp only [List.find?_cons]
        have : decide (y.id = o.id) = false := by simpa using hne
        rw [this]; exact ih

theorem getOrder_setOrder (s : State) (o : Order) : (s.setOrder o).getOrder o.id = some o := by
  unfold State.setOrder State.getOrder; exact getOrder_upsert _ _

/-- giving up a partly stored order: the refund is accepted only when it is a non-negative whole
    number of coins and, when non-zero, not more than what the order still holds; the order keeps exactly its completed
    shards, its replica count drops by the number of abandoned shards, and its escrowed amount
    drops by the refund -/
theorem C12_giveup_partial (e : Env) (s s' : State) (o : Order) (v : TimeoutView) (id : Nat)
    (hc : o.status = OrderCompleted) (h : timeoutGiveUp e s o v id = .ok s') :
    0 ≤ giveUpRefund o v.timeoutShards.length ∧
    (giveUpRefund o v.timeoutShards.length ≠ 0 → giveUpRefund o v.timeoutShards.length ≤ o.amount) ∧
    ∃ o', s'.getOrder o.id = some o' ∧ o'.shards = v.completed ∧
      o'.replica = o.replica - v.timeoutShards.length ∧
      o'.amount = o.amount - giveUpRefund o v.timeoutShards.length ∧ o'.status = OrderCompleted := by
  unfold timeoutGiveUp at h
  rw [if_neg (by simp [hc])] at h
  simp only at h
  split at h
  · cases h
  · rename_i hnn
    split at h
    · split at h
      · cases h
      · rename_i hle
        simp only [pure, Except.pure, Except.ok.injEq] at h
        subst h
        refine ⟨by omega, fun _ => by omega, _, getOrder_setOrder _ _, rfl, rfl, rfl, hc⟩
    · rename_i hz
      simp only [pure, Except.pure, Except.ok.injEq] at h
      subst h
      have hz' : giveUpRefund o v.timeoutShards.length = 0 := by simpa using hz
      refine ⟨by omega, fun hne => absurd hz' hne, _, getOrder_setOrder _ _, rfl, rfl, by simp [hz'], hc⟩

end SaoVerif
