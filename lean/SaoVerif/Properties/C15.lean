import SaoVerif.Proofs.Select
import SaoVerif.Model.Sao
/-!
# C15 — Replica placement: distinct, eligible providers with enough free capacity

`C15_statement`: for every state whose node store is well-formed (one record per address),
every requested count, ignore list, shard size and selection seed, if `RandomSP` returns, then
the chosen providers are pairwise distinct, none is in the ignore list (the providers that
already hold or timed out on a shard of the order), each is a registered node that is online,
serving storage, accepting orders, with reputation ≥ 8000 and free pledged capacity ≥ size, and
no more than `count` are returned. Under-replication is rejected by `getSps` (`C15_getSps_rejects`).
Termination of the selection loops is C02's concern (both selection loops are total functions of the model
after the `fix:` commits of F03 and F04).
-/
namespace SaoVerif
open List

def C15_statement : Prop :=
  ∀ (s s' : State) (count : Int) (ignore : List Addr) (size : Int) (sps : List Node),
    (s.nodes.map (·.creator)).Nodup →
    randomSP s count ignore size = .ok (s', sps) →
      (sps.map (·.creator)).Nodup ∧
      (∀ n ∈ sps, n.creator ∉ ignore ∧ Eligible s n size) ∧
      (sps.length : Int) ≤ count ∧
      s'.nodes = s.nodes ∧ s'.pledges = s.pledges

theorem pickSuper_sound (s0 s' : State) (r0 : Nat) (ignore : List Addr) (size : Int) (n : Node)
    (h : pickSuper s0 r0 ST_SELECT 8000 ignore size = (s', some n)) :
    n ∈ s0.nodes ∧ n.role = 1 ∧ n.creator ∉ ignore ∧ Eligible s0 n size := by
  unfold pickSuper at h
  simp only at h
  split at h
  · simp at h
  · rename_i i hi
    simp only [Prod.mk.injEq] at h
    obtain ⟨_, hget⟩ := h
    obtain ⟨m, hm, hel⟩ := nextSuperLoop_sound s0 _ ignore size r0 _ r0 i hi
    rw [hget] at hm
    cases hm
    have hmem : n ∈ s0.nodes.filter (·.role = 1) := List.mem_of_getElem? hget
    have hmem' := List.mem_filter.mp hmem
    have hel' := superEligible_imp s0 n ignore size hel
    exact ⟨hmem'.1, by simpa using hmem'.2, hel'.1, hmem'.1, hel'.2.1, hel'.2.2.1, hel'.2.2.2⟩

theorem pickSuper_frame (s0 s' : State) (r0 : Nat) (ignore : List Addr) (size : Int) (o : Option Node)
    (h : pickSuper s0 r0 ST_SELECT 8000 ignore size = (s', o)) :
    s'.nodes = s0.nodes ∧ s'.pledges = s0.pledges ∧ s'.seed = s0.seed := by
  unfold pickSuper at h
  simp only at h
  split at h
  · simp at h; obtain ⟨h1, _⟩ := h; subst h1; simp
  · simp at h; obtain ⟨h1, _⟩ := h; subst h1; simp

theorem getNextSuperNode_sound (s s' : State) (ignore : List Addr) (size : Int) (n : Node)
    (h : getNextSuperNode s ST_SELECT 8000 ignore size = (s', some n)) :
    n ∈ s.nodes ∧ n.role = 1 ∧ n.creator ∉ ignore ∧ Eligible s n size := by
  unfold getNextSuperNode at h
  split at h
  · have := pickSuper_sound _ _ _ _ _ _ h
    simpa [Eligible, State.getPledge] using this
  · exact pickSuper_sound _ _ _ _ _ _ h

theorem getNextSuperNode_frame (s s' : State) (ignore : List Addr) (size : Int) (o : Option Node)
    (h : getNextSuperNode s ST_SELECT 8000 ignore size = (s', o)) :
    s'.nodes = s.nodes ∧ s'.pledges = s.pledges ∧ s'.seed = s.seed := by
  unfold getNextSuperNode at h
  split at h
  · simpa using pickSuper_frame _ _ _ _ _ _ h
  · exact pickSuper_frame _ _ _ _ _ _ h

/-- two records of a store keyed by creator with the same creator are the same record -/
theorem node_eq_of_creator_eq {l : List Node} (hn : (l.map (·.creator)).Nodup) {a b : Node}
    (ha : a ∈ l) (hb : b ∈ l) (h : a.creator = b.creator) : a = b := by
  induction l with
  | nil => cases ha
  | cons x t ih =>
    simp only [List.map_cons, List.nodup_cons] at hn
    rcases List.mem_cons.mp ha with ha | ha <;> rcases List.mem_cons.mp hb with hb | hb
    · rw [ha, hb]
    · exfalso; apply hn.1; rw [← ha, h]; exact List.mem_map_of_mem hb
    · exfalso; apply hn.1; rw [← hb, ← h]; exact List.mem_map_of_mem ha
    · exact ih hn.2 ha hb

theorem candidates_facts (s : State) (ignore : List Addr) (size : Int) (hwf : (s.nodes.map (·.creator)).Nodup) :
    ((candidates s ignore size).map (·.creator)).Nodup ∧
    ∀ n ∈ candidates s ignore size, n ∈ s.nodes ∧ n.creator ∉ ignore ∧ Eligible s n size ∧ n.role = 0 := by
  unfold candidates
  have hfilt : ((s.nodes.filter (fun n => normalEligible s n ST_SELECT 8000 size)).map (·.creator)).Nodup :=
    ((List.filter_sublist (l := s.nodes)).map _).nodup hwf
  refine ⟨((foldl_removeFirst_sublist _ _).map _).nodup hfilt, ?_⟩
  intro n hn
  have h1 := foldl_removeFirst_not_mem ignore _ hfilt n hn
  have h2 := (foldl_removeFirst_sublist _ _).subset hn
  have h3 := List.mem_filter.mp h2
  have h4 := normalEligible_imp s n size (by simpa using h3.2)
  exact ⟨h3.1, h1, ⟨h3.1, h4.1, h4.2.1, h4.2.2.2⟩, h4.2.2.1⟩

theorem filterMap_get_nodup (sel : List Node) (idx : List Nat) (hsel : (sel.map (·.creator)).Nodup) (hidn : idx.Nodup) :
    ((idx.filterMap (fun i => sel[i]?)).map (·.creator)).Nodup := by
  induction idx with
  | nil => simp
  | cons i t ih =>
    simp only [List.nodup_cons] at hidn
    cases hi : sel[i]? with
    | none => simp [List.filterMap_cons, hi]; exact ih hidn.2
    | some m =>
      simp only [List.filterMap_cons, hi, List.map_cons, List.nodup_cons]
      refine ⟨?_, ih hidn.2⟩
      intro hm
      obtain ⟨m', hm1, hm2⟩ := List.mem_map.mp hm
      obtain ⟨j, hj, hj2⟩ := List.mem_filterMap.mp hm1
      obtain ⟨hil, hie⟩ := List.getElem?_eq_some_iff.mp hi
      obtain ⟨hjl, hje⟩ := List.getElem?_eq_some_iff.mp hj2
      have : (sel.map (·.creator))[i]'(by simpa using hil) = (sel.map (·.creator))[j]'(by simpa using hjl) := by
        simp [hie, hje, hm2]
      have hij := (List.getElem_inj hsel).mp this
      subst hij
      exact hidn.1 hj

theorem drawSPs_sound (s : State) (nodes : List Node) (count : Int) (sps : List Node)
    (hn : (nodes.map (·.creator)).Nodup) (h : drawSPs s nodes count = .ok sps) :
    (sps.map (·.creator)).Nodup ∧ (∀ m ∈ sps, m ∈ nodes) ∧ (sps.length : Int) ≤ count := by
  unfold drawSPs at h
  split at h
  · cases h
  · rename_i hmax
    simp only [pure, Except.pure, Except.ok.injEq] at h
    subst h
    obtain ⟨hidn, _, hidl⟩ := randomIndex_spec s.seed (maxCandidates nodes.length count).toNat count.toNat
    refine ⟨filterMap_get_nodup _ _ (selectNodes_nodup_creators _ nodes hn) hidn, ?_, ?_⟩
    · intro m hm
      obtain ⟨i, _, hi⟩ := List.mem_filterMap.mp hm
      exact selectNodes_mem _ nodes m (List.mem_of_getElem? hi)
    · have hl := List.length_filterMap_le (fun i => (selectNodes (maxCandidates nodes.length count).toNat nodes)[i]?)
        (randomIndex s.seed (maxCandidates nodes.length count).toNat count.toNat)
      unfold maxCandidates at hmax
      split at hmax <;> omega

theorem randomSPWith_sound (s s' : State) (sup : Option Node) (count : Int) (ignore : List Addr) (size : Int) (sps : List Node)
    (hwf : (s.nodes.map (·.creator)).Nodup)
    (hsup : ∀ n, sup = some n → n ∈ s.nodes ∧ n.role = 1 ∧ n.creator ∉ ignore ∧ Eligible s n size)
    (h : randomSPWith s sup count ignore size = .ok (s', sps)) :
    (sps.map (·.creator)).Nodup ∧ (∀ n ∈ sps, n.creator ∉ ignore ∧ Eligible s n size) ∧ (sps.length : Int) ≤ count ∧ s' = s := by
  obtain ⟨cn, cf⟩ := candidates_facts s ignore size hwf
  -- a super node never has the creator of a normal candidate
  have fresh : ∀ n, sup = some n → ∀ m ∈ candidates s ignore size, n.creator ≠ m.creator := by
    intro n hn m hm hc
    obtain ⟨h1, h2, _, _⟩ := hsup n hn
    have := node_eq_of_creator_eq hwf h1 (cf m hm).1 hc
    have h0 := (cf m hm).2.2.2
    rw [← this] at h0; omega
  unfold randomSPWith at h
  cases sup with
  | some n =>
    obtain ⟨h1, h2, h3, h4⟩ := hsup n rfl
    simp only at h
    split at h
    · rename_i hc
      simp only [pure, Except.pure, Except.ok.injEq, Prod.mk.injEq] at h
      obtain ⟨rfl, rfl⟩ := h
      refine ⟨by simp, ?_, by simp; omega, rfl⟩
      intro m hm; simp at hm; subst hm; exact ⟨h3, h4⟩
    · split at h
      · rename_i hle
        simp only [pure, Except.pure, Except.ok.injEq, Prod.mk.injEq] at h
        obtain ⟨rfl, rfl⟩ := h
        refine ⟨?_, ?_, by simp at hle ⊢; omega, rfl⟩
        · simp only [List.map_cons, List.nodup_cons]
          refine ⟨?_, cn⟩
          intro hm
          obtain ⟨m, hm1, hm2⟩ := List.mem_map.mp hm
          exact fresh n rfl m hm1 hm2.symm
        · intro m hm
          rcases List.mem_cons.mp hm with hm | hm
          · subst hm; exact ⟨h3, h4⟩
          · exact ⟨(cf m hm).2.1, (cf m hm).2.2.1⟩
      · cases hd : drawSPs s (candidates s ignore size) (count - 1) with
        | error e => simp [hd, bind, Except.bind] at h
        | ok sub =>
          simp only [hd, bind, Except.bind, pure, Except.pure, Except.ok.injEq, Prod.mk.injEq] at h
          obtain ⟨rfl, rfl⟩ := h
          obtain ⟨d1, d2, d3⟩ := drawSPs_sound s _ _ _ cn hd
          refine ⟨?_, ?_, by simp; omega, rfl⟩
          · simp only [List.map_cons, List.nodup_cons]
            refine ⟨?_, d1⟩
            intro hm
            obtain ⟨m, hm1, hm2⟩ := List.mem_map.mp hm
            exact fresh n rfl m (d2 m hm1) hm2.symm
          · intro m hm
            rcases List.mem_cons.mp hm with hm | hm
            · subst hm; exact ⟨h3, h4⟩
            · exact ⟨(cf m (d2 m hm)).2.1, (cf m (d2 m hm)).2.2.1⟩
  | none =>
    simp only at h
    split at h
    · rename_i hle
      simp only [pure, Except.pure, Except.ok.injEq, Prod.mk.injEq] at h
      obtain ⟨rfl, rfl⟩ := h
      exact ⟨cn, fun m hm => ⟨(cf m hm).2.1, (cf m hm).2.2.1⟩, hle, rfl⟩
    · cases hd : drawSPs s (candidates s ignore size) count with
      | error e => simp [hd, bind, Except.bind] at h
      | ok sub =>
        simp only [hd, bind, Except.bind, pure, Except.pure, Except.ok.injEq, Prod.mk.injEq] at h
        obtain ⟨rfl, rfl⟩ := h
        obtain ⟨d1, d2, d3⟩ := drawSPs_sound s _ _ _ cn hd
        exact ⟨d1, fun m hm => ⟨(cf m (d2 m hm)).2.1, (cf m (d2 m hm)).2.2.1⟩, d3, rfl⟩

/-- eligibility only reads the node and pledge stores -/
theorem Eligible_congr (s s1 : State) (n : Node) (size : Int) (hn : s1.nodes = s.nodes) (hp : s1.pledges = s.pledges)
    (h : Eligible s1 n size) : Eligible s n size := by
  unfold Eligible at *
  have : s1.getPledge n.creator = s.getPledge n.creator := by unfold State.getPledge; rw [hp]
  rw [hn, this] at h; exact h

theorem C15_full : C15_statement := by
  intro s s' count ignore size sps hwf h
  unfold randomSP at h
  generalize hsup : getNextSuperNode s ST_SELECT 8000 ignore size = r at h
  obtain ⟨s1, sup⟩ := r
  simp only at h
  obtain ⟨hfn, hfp, _⟩ := getNextSuperNode_frame _ _ _ _ _ hsup
  have hsupfacts : ∀ n, sup = some n → n ∈ s1.nodes ∧ n.role = 1 ∧ n.creator ∉ ignore ∧ Eligible s1 n size := by
    intro n hn; subst hn
    obtain ⟨a, b, c, d⟩ := getNextSuperNode_sound _ _ _ _ _ hsup
    refine ⟨hfn ▸ a, b, c, ?_⟩
    exact Eligible_congr s1 s n size hfn.symm hfp.symm d
  obtain ⟨r1, r2, r3, r4⟩ := randomSPWith_sound s1 s' sup count ignore size sps (hfn ▸ hwf) hsupfacts h
  subst r4
  exact ⟨r1, fun n hn => ⟨(r2 n hn).1, Eligible_congr s s' n size hfn hfp (r2 n hn).2⟩, r3, hfn, hfp⟩

/-- non-vacuity: a concrete population on which `RandomSP` returns two distinct providers -/
def exNode (a : Nat) : Node := { creator := a, peer := 0, reputation := 10000, status := 15, lastAlive := 1, txAddresses := [], role := 0, validator := 0, desc := 0 }
def exPledge (a : Nat) : Pledge := { creator := a, totalStoragePledged := 10, totalShardPledged := 0, reward := 0, rewardDebt := 0, totalStorage := 1000, usedStorage := 0 }
def exState : State := { (default : State) with nodes := [exNode 1, exNode 2], pledges := [exPledge 1, exPledge 2], seed := 123456 }

example : (exState.nodes.map (·.creator)).Nodup ∧
    (randomSP exState 2 [] 10).toOption.map (fun r => r.2.map (·.creator)) = some [1, 2] := by
  refine ⟨by decide, by decide⟩

/-- `getSps` (new order) rejects rather than under-replicates -/
theorem C15_getSps_rejects (s s' : State) (o : Order) (d : Bytes) (sps : List Node)
    (hop : o.operation = 1) (h : getSps s o d = .ok (s', sps)) : (sps.length : Int) ≥ o.replica ∧ o.replica > 0 := by
  unfold getSps at h
  simp only [hop, ↓reduceIte] at h
  cases hr : randomSP s o.replica [] (toI64 o.size) with
  | error e => simp [hr, bind, Except.bind] at h
  | ok r =>
    obtain ⟨s1, l⟩ := r
    simp only [hr, bind, Except.bind] at h
    split at h
    · cases h
    · rename_i hc
      simp only [pure, Except.pure, Except.ok.injEq, Prod.mk.injEq] at h
      obtain ⟨_, rfl⟩ := h
      omega

end SaoVerif
