import SaoVerif.Properties.C08Footprint
/-! C17: the write-footprint theorems of `Properties/C08Footprint.lean` that belong to this property
    (`C17_*` there) are part of this property's proof obligations: a change that breaks them breaks C17. -/
namespace SaoVerif
/-- restated for the audit: see `C17_registry_changes_only_by_did_messages`, `C17_did_messages_change_only_the_registry`,
    `C17_registry_over_histories` -/
theorem C17_footprint (e : Env) (y : Sys) (ops : List Op)
    (h : ∀ op ∈ ops, (∀ m, op ≠ .payaddr m) ∧ (∀ m, op ≠ .binding m) ∧ (∀ m, op ≠ .didupdate m)) :
    (runOps e y ops).st.did = y.st.did := C17_registry_over_histories e y ops h
end SaoVerif
