import SaoVerif.Proofs.NodesFoot
import SaoVerif.Proofs.Redelegate
import SaoVerif.Properties.C20Demote
import SaoVerif.Properties.C08Footprint
import SaoVerif.Proofs.MapLemmas
/-!
# C10 — only a node's own account changes its registration

"… only a node's own account can change its registration …"

`regOf a s`: what account `a` has registered — peer, declared service status, transaction addresses, description — or `none`.
`nodesPart` (Proofs/NodesFoot.lean): every function of the model except node creation and reset, the role changes made by
the capacity handlers and the staking hooks, the reputation credit of Complete and the offline detection of the node
end-blocker leaves the node records exactly as they are. The role and reputation writers rewrite a record they have just
read, changing role / validator / reputation only (`setNode_same_reg`), and Create / Reset write the sender's own record. So
for every state, operation and outcome, `regOf a` changes only by `a`'s own Create / Reset and by the end-blocker
(`C10_registration_changes_only_by_own_account`), hence over every history without those (`C10_registration_over_histories`).

Assumption `RankInj e` (the harness's environment satisfies it: ranks are positions in the sorted list of distinct
addresses): the store order of node records is injective on accounts — otherwise writing one record could replace another's.
-/
namespace SaoVerif

def reg (n : Node) : StrId × Nat × List Addr × StrId := (n.peer, n.status, n.txAddresses, n.desc)
def regOf (a : Addr) (s : State) : Option (StrId × Nat × List Addr × StrId) := (s.getNode a).map reg
def RankInj (e : Env) : Prop := ∀ a b, e.rankOf a = e.rankOf b → a = b

theorem find_upsert_other (e : Env) (hr : RankInj e) (l : List Node) (n : Node) (a : Addr) (h : a ≠ n.creator) :
    (upsertBy (fun x => e.rankOf x.creator) l n).find? (·.creator = a) = l.find? (·.creator = a) := by
  induction l with
  | nil =>
    simp only [upsertBy, List.find?_cons, List.find?_nil]
    have : decide (n.creator = a) = false := by simpa using (Ne.symm h)
    rw [this]
  | cons y t ih =>
    unfold upsertBy
    split
    · rename_i hk
      have hyc : y.creator = n.creator := hr _ _ hk
      simp only [List.find?_cons]
      have h1 : decide (n.creator = a) = false := by simpa using (Ne.symm h)
      have h2 : decide (y.creator = a) = false := by rw [hyc]; exact h1
      rw [h1, h2]
    · split
      · simp only [List.find?_cons]
        have h1 : decide (n.creator = a) = false := by simpa using (Ne.symm h)
        rw [h1]
      · simp only [List.find?_cons]
        split
        · rfl
        · exact ih

theorem getNode_setNode_other (e : Env) (hr : RankInj e) (s : State) (n : Node) (a : Addr) (h : a ≠ n.creator) :
    (s.setNode e n).getNode a = s.getNode a := by
  unfold State.setNode State.getNode; exact find_upsert_other e hr _ _ _ h

/-- writing `n` leaves everybody else's registration alone -/
theorem regOf_setNode_other (e : Env) (hr : RankInj e) (s : State) (n : Node) (a : Addr) (h : a ≠ n.creator) :
    regOf a (s.setNode e n) = regOf a s := by
  unfold regOf; rw [getNode_setNode_other e hr s n a h]

/-- rewriting a record that was just read, with the same registration, changes nobody's registration -/
theorem setNode_same_reg (e : Env) (hr : RankInj e) (s : State) (n0 n : Node) (h0 : s.getNode n.creator = some n0)
    (hreg : reg n = reg n0) (a : Addr) : regOf a (s.setNode e n) = regOf a s := by
  by_cases h : a = n.creator
  · subst h
    unfold regOf
    rw [getNode_setNode, h0]
    simp [hreg]
  · exact regOf_setNode_other e hr s n a h

theorem regOf_of_nodes {s s' : State} (h : nodesPart s' = nodesPart s) (a : Addr) : regOf a s' = regOf a s := by
  unfold regOf State.getNode; unfold nodesPart at h; rw [h]

/-! ### the writers that keep every registration -/
theorem increaseReputation_reg (e : Env) (hr : RankInj e) (s : State) (c : Addr) (v : Int) (a : Addr) :
    regOf a (increaseReputation e s c v) = regOf a s := by
  unfold increaseReputation
  split
  · rfl
  · rename_i n hn
    refine setNode_same_reg e hr s n { n with reputation := f32round (n.reputation + f32round v) } ?_ rfl a
    show s.getNode n.creator = some n
    rw [getNode_creator s c n hn]; exact hn

theorem setRole_reg (e : Env) (hr : RankInj e) (s : State) (n : Node) (hn : s.getNode n.creator = some n) (r : Nat)
    (v : Option ValAddr) (a : Addr) : regOf a (setRole e s n.creator r v) = regOf a s := by
  unfold setRole
  rw [hn]
  exact setNode_same_reg e hr s n { n with role := r, validator := v.getD n.validator } hn rfl a

theorem checkNodeShare_go_reg (s : State) (n : Node) (l : List DelegationV) (n' : Node)
    (h : checkNodeShare.go s n l = .ok (some n')) : reg n' = reg n ∧ n'.creator = n.creator := by
  induction l with
  | nil => unfold checkNodeShare.go at h; cases h
  | cons d t ih =>
    unfold checkNodeShare.go at h
    simp only [bind, Except.bind, pure, Except.pure] at h
    split at h
    · cases h
    · split at h
      · simp only [Except.ok.injEq, Option.some.injEq] at h; rw [← h]; exact ⟨rfl, rfl⟩
      · exact ih h

theorem checkNodeShare_reg (s : State) (n n' : Node) (h : checkNodeShare s n = .ok (some n')) :
    reg n' = reg n ∧ n'.creator = n.creator := by
  unfold checkNodeShare at h
  simp only [bind, Except.bind, pure, Except.pure] at h
  split at h
  · split at h
    · cases h
    · split at h
      · simp only [Except.ok.injEq, Option.some.injEq] at h; rw [← h]; exact ⟨rfl, rfl⟩
      · cases h
  · exact checkNodeShare_go_reg s n _ n' h

theorem promoteIfDue_reg (e : Env) (hr : RankInj e) (s s' : State) (c : Addr) (p : Pledge) (h : promoteIfDue e s c p = .ok s')
    (a : Addr) : regOf a s' = regOf a s := by
  unfold promoteIfDue at h
  split at h
  · split at h
    · cases h
    · rename_i node hn
      split at h
      · split at h
        · cases h
        · rename_i n' hc
          simp only [pure, Except.pure, Except.ok.injEq] at h
          rw [← h]
          obtain ⟨hreg, hcr⟩ := checkNodeShare_reg s node n' hc
          refine setNode_same_reg e hr s node n' ?_ hreg a
          rw [hcr, getNode_creator s c node hn]; exact hn
        · simp only [pure, Except.pure, Except.ok.injEq] at h; rw [← h]
      · simp only [pure, Except.pure, Except.ok.injEq] at h; rw [← h]
  · simp only [pure, Except.pure, Except.ok.injEq] at h; rw [← h]

theorem demoteIfDue_reg (e : Env) (hr : RankInj e) (s s' : State) (c : Addr) (p : Pledge) (h : demoteIfDue e s c p = .ok s')
    (a : Addr) : regOf a s' = regOf a s := by
  unfold demoteIfDue at h
  split at h
  · split at h
    · cases h
    · rename_i node hn
      split at h
      · simp only [pure, Except.pure, Except.ok.injEq] at h
        rw [← h]
        refine setNode_same_reg e hr s node { node with role := 0 } ?_ rfl a
        show s.getNode node.creator = some node
        rw [getNode_creator s c node hn]; exact hn
      · simp only [pure, Except.pure, Except.ok.injEq] at h; rw [← h]
  · simp only [pure, Except.pure, Except.ok.injEq] at h; rw [← h]

/-! ### the handlers -/
theorem nodeAddVstorage_reg (e : Env) (hr : RankInj e) (s s' : State) (c : Addr) (n : Nat) (h : nodeAddVstorage e s c n = .ok s')
    (a : Addr) : regOf a s' = regOf a s := by
  unfold nodeAddVstorage at h
  split at h; · cases h
  split at h; · cases h
  dsimp only at h
  split at h; · cases h
  split at h; · cases h
  rename_i s1 hs1
  split at h; · cases h
  rename_i s2 hs2
  simp only [pure, Except.pure, Except.ok.injEq] at h
  rw [← h]
  have h2 := promoteIfDue_reg e hr _ _ _ _ hs2 a
  have h1 : regOf a s1 = regOf a s := regOf_of_nodes (sendLit_nd _ _ _ _ _ hs1) a
  exact (h2.trans h1)

theorem nodeRemoveVstorage_reg (e : Env) (hr : RankInj e) (s s' : State) (c : Addr) (n : Nat) (h : nodeRemoveVstorage e s c n = .ok s')
    (a : Addr) : regOf a s' = regOf a s := by
  unfold nodeRemoveVstorage at h
  split at h; · cases h
  split at h; · cases h
  rename_i s1 hs1
  split at h; · cases h
  rename_i s2 hs2
  simp only [pure, Except.pure, Except.ok.injEq] at h
  rw [← h]
  have h2 := demoteIfDue_reg e hr _ _ _ _ hs2 a
  have h1 : regOf a s1 = regOf a s := regOf_of_nodes (send_nd _ _ _ _ _ hs1) a
  exact (h2.trans h1)

theorem completeTail_reg (e : Env) (hr : RankInj e) (s s' : State) (md : Metadata) (o : Order) (sh : Shard) (ip : Order) (p : Addr) (cid : StrId)
    (h : completeTail e s md o sh ip p cid = .ok s') (a : Addr) : regOf a s' = regOf a s := by
  unfold completeTail at h
  obtain ⟨v, hv, h⟩ := bind_ok h
  obtain ⟨v2, hv2, h⟩ := bind_ok h
  dsimp only at h
  split at h
  · exact (throw_bind_ne h).elim
  simp only [pure, Except.pure, Except.ok.injEq] at h
  rw [← h]
  have e1 : regOf a v = regOf a _ := regOf_of_nodes (extendMetaDuration_nd _ _ _ _ hv) a
  have e2 : regOf a v2 = regOf a v := regOf_of_nodes (shardPledge_nd _ _ _ _ _ _ (softTx_ok hv2)) a
  have e3 := increaseReputation_reg e hr v2 p (Int.tdiv o.amount o.replica) a
  have e4 : ∀ (x : State) (ord : Order), regOf a (x.setOrder ord) = regOf a x := fun _ _ => rfl
  rw [e4, e3, e2, e1]
  rfl

theorem saoComplete_reg (e : Env) (hr : RankInj e) (s s' : State) (c p : Addr) (oid sz : Nat) (ok : Bool) (cid : StrId)
    (h : saoComplete e s c p oid sz ok cid = .ok s') (a : Addr) : regOf a s' = regOf a s := by
  unfold saoComplete at h
  split at h
  · cases h
  · unfold saoCompleteBody at h
    obtain ⟨g, _, h⟩ := bind_ok h
    obtain ⟨o, sh, md⟩ := g
    dsimp only at h
    obtain ⟨v, hv, h⟩ := bind_ok h
    obtain ⟨s1, o1, sh1, ip⟩ := v
    dsimp only at h
    rw [completeTail_reg e hr _ _ _ _ _ _ _ _ h a]
    split at hv
    · exact regOf_of_nodes (completeMigration_nd _ _ _ _ _ _ hv) a
    · exact regOf_of_nodes (completeFresh_nd _ _ _ _ _ _ hv) a

/-- Create and Reset write the sender's own record: everybody else's registration stays -/
theorem nodeCreate_reg_other (e : Env) (hr : RankInj e) (s s' : State) (c : Addr) (h : nodeCreate e s c = .ok s') (a : Addr) (ha : a ≠ c) :
    regOf a s' = regOf a s := by
  unfold nodeCreate at h
  simp only [bind, Except.bind, pure, Except.pure] at h
  split at h
  · cases h
  · simp only [Except.ok.injEq] at h
    rw [← h]
    exact regOf_setNode_other e hr s _ a ha

theorem resetNode_creator (s : State) (m : ResetMsg) (node n : Node) (h : resetNode s m node = .ok n) : n.creator = node.creator := by
  unfold resetNode at h
  obtain ⟨n1, h1, h⟩ := bind_ok h
  obtain ⟨n2, h2, h⟩ := bind_ok h
  have c0 : (resetStatus m node).creator = node.creator := by unfold resetStatus; split <;> rfl
  have c1 : n1.creator = node.creator := by
    unfold resetPeer at h1
    split at h1
    · split at h1
      · simp only [pure, Except.pure, Except.ok.injEq] at h1; rw [← h1]; exact c0
      · cases h1
    · simp only [pure, Except.pure, Except.ok.injEq] at h1; rw [← h1]; exact c0
  have c2 : n2.creator = n1.creator := by
    unfold resetValidator at h2
    split at h2
    · split at h2
      · cases h2
      · split at h2
        · cases h2
        · simp only [pure, Except.pure, Except.ok.injEq] at h2; rw [← h2]
    · simp only [pure, Except.pure, Except.ok.injEq] at h2; rw [← h2]
  have c3 : (resetTx s m n2).creator = n2.creator := by unfold resetTx; dsimp only; split <;> rfl
  have c4 : n.creator = (resetTx s m n2).creator := by
    unfold resetShare at h
    split at h
    · split at h
      · split at h
        · obtain ⟨r, hr, h⟩ := bind_ok h
          split at h
          · simp only [pure, Except.pure, Except.ok.injEq] at h
            rw [← h]; exact (checkNodeShare_reg s _ _ hr).2
          · simp only [pure, Except.pure, Except.ok.injEq] at h; rw [← h]
        · simp only [pure, Except.pure, Except.ok.injEq] at h; rw [← h]
      · simp only [pure, Except.pure, Except.ok.injEq] at h; rw [← h]
    · simp only [pure, Except.pure, Except.ok.injEq] at h; rw [← h]
  rw [c4, c3, c2, c1]

theorem nodeReset_reg_other (e : Env) (hr : RankInj e) (s s' : State) (m : ResetMsg) (h : nodeReset e s m = .ok s') (a : Addr)
    (ha : a ≠ m.creator) : regOf a s' = regOf a s := by
  unfold nodeReset at h
  split at h
  · rename_i node hn
    obtain ⟨n, hn2, h⟩ := bind_ok h
    simp only [pure, Except.pure, Except.ok.injEq] at h
    rw [← h]
    refine regOf_setNode_other e hr s n a ?_
    rw [resetNode_creator s m node n hn2, getNode_creator s m.creator node hn]; exact ha
  · cases h

/-! ### staking hooks -/
theorem verifyLoop_reg (e : Env) (hr : RankInj e) (a : Addr) (val : ValAddr) (acc : Option Addr) (b : Bool) (sub : Dec) (l : List DelegationV) (s s' : State)
    (h : verifySuper.loop e val acc b sub l s = .ok s') : regOf a s' = regOf a s := by
  induction l generalizing s with
  | nil => unfold verifySuper.loop at h; simp only [pure, Except.pure, Except.ok.injEq] at h; rw [← h]
  | cons d t ih =>
    unfold verifySuper.loop at h
    split at h
    · exact ih _ h
    · rename_i node hn
      have hn' : s.getNode node.creator = some node := by rw [getNode_creator s d.del node hn]; exact hn
      have key : ∀ (x : State), regOf a x = regOf a s → verifySuper.loop e val acc b sub t x = .ok s' → regOf a s' = regOf a s :=
        fun x hx hl => (ih _ hl).trans hx
      have k1 : ∀ (c : Prop) [Decidable c] (r : Nat) (v : Option ValAddr),
          regOf a (if c then setRole e s node.creator r v else s) = regOf a s := by
        intro c _ r v; split
        · exact setRole_reg e hr s node hn' r v a
        · rfl
      split at h
      · exact ih _ h
      · split at h
        · exact key _ (k1 _ _ _) h
        · split at h
          · exact key _ (k1 _ _ _) h
          · dsimp only at h
            split at h
            all_goals (
              split at h
              · exact key _ (k1 _ _ _) h
              · obtain ⟨ok, _, h⟩ := bind_ok h
                split at h
                · exact key _ (k1 _ _ _) h
                · exact key _ (k1 _ _ _) h)

theorem verifySuper_reg (e : Env) (hr : RankInj e) (a : Addr) (s s' : State) (g g' : Dec) (v : ValAddr) (acc : Option Addr) (b : Bool)
    (h : verifySuper e s g v acc b = .ok (s', g')) : regOf a s' = regOf a s := by
  unfold verifySuper at h
  dsimp only at h
  obtain ⟨sub, _, h⟩ := bind_ok h
  obtain ⟨s1, hs1, h⟩ := bind_ok h
  simp only [pure, Except.pure, Except.ok.injEq, Prod.mk.injEq] at h
  rw [← h.1]
  exact verifyLoop_reg e hr a _ _ _ _ _ _ _ hs1

def keepsReg (a : Addr) (s : State) (r : Dec × TxM State) : Prop :=
  match r.2 with
  | .ok s' => regOf a s' = regOf a s
  | .error _ => True

theorem send_reg (a : Addr) (s s' : State) (x y : Addr) (v : Int) (h : s.send x y v = .ok s') : regOf a s' = regOf a s :=
  regOf_of_nodes (send_nd _ _ _ _ _ h) a

theorem delegate_keepsReg (e : Env) (hr : RankInj e) (a : Addr) (s : State) (g : Dec) (del : Addr) (val : ValAddr) (amt : Int) :
    keepsReg a s (stakeDelegate e s g del val amt) := by
  unfold stakeDelegate
  split
  · simp [keepsReg, throw, throwThe, MonadExceptOf.throw]
  · dsimp only
    split
    · simp [keepsReg, throw, throwThe, MonadExceptOf.throw]
    · rename_i s1 hs1
      split
      · simp [keepsReg, throw, throwThe, MonadExceptOf.throw]
      · split
        · simp [keepsReg, throw, throwThe, MonadExceptOf.throw]
        · rename_i s2 g2 hv
          simp only [keepsReg, pure, Except.pure]
          rw [verifySuper_reg e hr a _ _ _ _ _ _ _ hv]
          show regOf a s1 = regOf a s
          exact send_reg a _ _ _ _ _ hs1

theorem undelegate_keepsReg (e : Env) (hr : RankInj e) (a : Addr) (s : State) (g : Dec) (del : Addr) (val : ValAddr) (amt : Int) :
    keepsReg a s (stakeUndelegate e s g del val amt) := by
  unfold stakeUndelegate
  split
  · simp [keepsReg, throw, throwThe, MonadExceptOf.throw]
  · simp [keepsReg, throw, throwThe, MonadExceptOf.throw]
  · dsimp only
    split
    · simp [keepsReg, throw, throwThe, MonadExceptOf.throw]
    · split
      · simp [keepsReg, throw, throwThe, MonadExceptOf.throw]
      · split
        · simp [keepsReg, throw, throwThe, MonadExceptOf.throw]
        · split
          · simp [keepsReg, throw, throwThe, MonadExceptOf.throw]
          · rename_i s2 g2 hr2
            have hs2 : regOf a s2 = regOf a s := by
              split at hr2
              · obtain ⟨x, hx, hr2⟩ := bind_ok hr2
                obtain ⟨sx, gx⟩ := x
                simp only [pure, Except.pure, Except.ok.injEq, Prod.mk.injEq] at hr2
                rw [← hr2.1]
                show regOf a sx = regOf a s
                exact verifySuper_reg e hr a _ _ _ _ _ _ _ hx
              · rw [verifySuper_reg e hr a _ _ _ _ _ _ _ hr2]; rfl
            split
            · split
              · simp [keepsReg, throw, throwThe, MonadExceptOf.throw]
              · rename_i s3 hs3
                simp only [keepsReg, pure, Except.pure]
                exact (send_reg a _ _ _ _ _ hs3).trans hs2
            · simp only [keepsReg, pure, Except.pure]
              exact hs2

theorem redelegate_keepsReg (e : Env) (hr : RankInj e) (a : Addr) (s : State) (g : Dec) (del : Addr) (src dst : ValAddr) (amt : Int) :
    keepsReg a s (stakeRedelegate e s g del src dst amt) := by
  unfold keepsReg
  split
  · rename_i s' hs
    exact redelegate_keepsP (regOf a) RankInj (fun e hr s s' g g' v acc b h => verifySuper_reg e hr a s s' g g' v acc b h)
      (fun s s' x y v h => send_reg a s s' x y v h) (fun _ _ => rfl) e hr s g del src dst amt s' hs
  · trivial

/-! ### every operation -/
theorem atomic_reg (a : Addr) (s : State) (r : TxM State) (h : ∀ s', r = .ok s' → regOf a s' = regOf a s) : regOf a (atomic s r).2 = regOf a s := by
  unfold atomic
  split
  · exact h _ rfl
  · split <;> rfl

theorem blocker_reg (a : Addr) (s : State) (r : TxM State) (h : ∀ s', r = .ok s' → regOf a s' = regOf a s) : regOf a (blocker s r).2 = regOf a s := by
  unfold blocker
  split
  · exact h _ rfl
  · split <;> rfl

theorem begin_nd (e : Env) (s s' : State) (h : nodeBeginBlock e s = .ok s') : nodesPart s' = nodesPart s := by
  unfold nodeBeginBlock at h
  split at h
  · dsimp only at h
    obtain ⟨r, hr, h⟩ := bind_ok h
    split at h
    · obtain ⟨pool', _, h⟩ := bind_ok h
      simp only [pure, Except.pure, Except.ok.injEq] at h
      rw [← h]; rfl
    · simp only [pure, Except.pure, Except.ok.injEq] at h; rw [← h]
  · simp only [pure, Except.pure, Except.ok.injEq] at h; rw [← h]

/-- the operations that may change what account `a` has registered: its own Create and Reset, and the end-blocker
    (offline detection clears the status of a node that has not been heard of) -/
def ownRegOp (a : Addr) : Op → Bool
  | .create c => c == a
  | .reset m => m.creator == a
  | .end_ => true
  | _ => false

theorem stepC_reg (e : Env) (hr : RankInj e) (a : Addr) (s : State) (op : Op) (hop : ownRegOp a op = false) :
    regOf a (stepC e s op).2 = regOf a s := by
  cases op
  case end_ => cases hop
  case create c =>
    have hc : a ≠ c := by intro h; subst h; simp [ownRegOp] at hop
    exact atomic_reg a _ _ (fun s' h => nodeCreate_reg_other e hr s s' c h a hc)
  case reset m =>
    have hc : a ≠ m.creator := by intro h; subst h; simp [ownRegOp] at hop
    exact atomic_reg a _ _ (fun s' h => nodeReset_reg_other e hr s s' m h a hc)
  case advance to seed => rfl
  case begin_ => exact blocker_reg a _ _ (fun s' h => regOf_of_nodes (begin_nd e s s' h) a)
  case addv c n => exact atomic_reg a _ _ (fun s' h => nodeAddVstorage_reg e hr s s' c n h a)
  case remv c n => exact atomic_reg a _ _ (fun s' h => nodeRemoveVstorage_reg e hr s s' c n h a)
  case claim c =>
    refine atomic_reg a _ _ (fun s' h => ?_)
    cases hc : nodeClaimReward e s c with
    | error m => rw [hc] at h; cases h
    | ok v =>
      rw [hc] at h
      simp only [Except.map, Except.ok.injEq] at h
      rw [← h]
      exact regOf_of_nodes (nodeClaimReward_nd e s v.1 c v.2 hc) a
  case store m => exact atomic_reg a _ _ (fun s' h => regOf_of_nodes (saoStore_nd e s s' m h) a)
  case ready c p o => exact atomic_reg a _ _ (fun s' h => regOf_of_nodes (saoReady_nd s s' c p o h) a)
  case complete c p o sz ok cid => exact atomic_reg a _ _ (fun s' h => saoComplete_reg e hr s s' c p o sz ok cid h a)
  case cancel c p o => exact atomic_reg a _ _ (fun s' h => regOf_of_nodes (saoCancel_nd e s s' c p o h) a)
  case terminate c p ow d sv sd => exact atomic_reg a _ _ (fun s' h => regOf_of_nodes (saoTerminate_nd e s s' c p ow d sv sd h) a)
  case renew c p sv sd du t data =>
    refine atomic_reg a _ _ (fun s' h => ?_)
    cases hc : saoRenew e s c p sv sd du t data with
    | error m => rw [hc] at h; cases h
    | ok v =>
      rw [hc] at h
      simp only [Except.map, Except.ok.injEq] at h
      rw [← h]
      exact regOf_of_nodes (saoRenew_nd e s v.1 c p sv sd du t data v.2 hc) a
  case migrate c p data => exact atomic_reg a _ _ (fun s' h => regOf_of_nodes (saoMigrate_nd s s' c p data h) a)
  case perm c p ow d ro rw sv => exact atomic_reg a _ _ (fun s' h => regOf_of_nodes (saoPermission_nd s s' c p ow d ro rw sv h) a)
  case report c p fs ids => exact atomic_reg a _ _ (fun s' h => regOf_of_nodes (saoReportFaults_nd s s' c p fs ids h) a)
  case recover c p fs ik => exact atomic_reg a _ _ (fun s' h => regOf_of_nodes (saoRecoverFaults_nd s s' c p fs ik h) a)
  case payaddr m => exact atomic_reg a _ _ (fun s' h => by rw [(didPayAddr_ok s s' m h).2]; rfl)
  case binding m => exact atomic_reg a _ _ (fun s' h => by rw [(didBinding_ok s s' m h).2]; rfl)
  case didupdate m => exact atomic_reg a _ _ (fun s' h => by obtain ⟨d, hd⟩ := didUpdate_ok s s' m h; rw [hd]; rfl)
  all_goals rfl

/-- **C10, for every operation, state and outcome**: what account `a` has registered as a node (peer, service status,
    transaction addresses, description) changes only by `a`'s own Create / Reset and by the end-blocker -/
theorem C10_registration_changes_only_by_own_account (e : Env) (hr : RankInj e) (y : Sys) (op : Op) (a : Addr)
    (hop : ownRegOp a op = false) : regOf a (step e y op).2.st = regOf a y.st := by
  cases op
  case delegate c v x =>
    simp only [step, stepBase, stakeStep]
    have := delegate_keepsReg e hr a y.st y.global c v x
    unfold keepsReg at this
    split
    · rename_i s' hs; rw [hs] at this; exact this
    · rfl
  case undelegate c v x =>
    simp only [step, stepBase, stakeStep]
    have := undelegate_keepsReg e hr a y.st y.global c v x
    unfold keepsReg at this
    split
    · rename_i s' hs; rw [hs] at this; exact this
    · rfl
  case redelegate c v w x =>
    simp only [step, stepBase, stakeStep]
    have := redelegate_keepsReg e hr a y.st y.global c v w x
    unfold keepsReg at this
    split
    · rename_i s' hs; rw [hs] at this; exact this
    · rfl
  case restart => rfl
  case genesis => rfl
  case sim inner => rfl
  all_goals exact stepC_reg e hr a y.st _ hop

/-- **C10 over histories** without `a`'s own Create / Reset and without end-blocks -/
theorem C10_registration_over_histories (e : Env) (hr : RankInj e) (y : Sys) (ops : List Op) (a : Addr)
    (hops : ∀ op ∈ ops, ownRegOp a op = false) : regOf a (runOps e y ops).st = regOf a y.st := by
  induction ops generalizing y with
  | nil => rfl
  | cons op t ih =>
    have h1 := C10_registration_changes_only_by_own_account e hr y op a (hops op List.mem_cons_self)
    exact (ih _ (fun o ho => hops o (List.mem_cons_of_mem _ ho))).trans h1

/-- `RankInj` holds of an environment that ranks no account: the default rank is the account number itself -/
example : RankInj { (default : Env) with rank := [] } := by
  intro a b h
  have h' : 1000000 + a = 1000000 + b := h
  exact Nat.add_left_cancel h'

theorem pair_eq_of_nodup_snd {α β : Type} (l : List (α × β)) (hn : (l.map (·.2)).Nodup) (x y : α × β) (hx : x ∈ l) (hy : y ∈ l)
    (h : x.2 = y.2) : x = y := by
  induction l with
  | nil => cases hx
  | cons z t ih =>
    simp only [List.map_cons, List.nodup_cons] at hn
    rcases List.mem_cons.mp hx with hxz | hxt
    · rcases List.mem_cons.mp hy with hyz | hyt
      · rw [hxz, hyz]
      · exfalso; apply hn.1; rw [← hxz, h]; exact List.mem_map_of_mem hyt
    · rcases List.mem_cons.mp hy with hyz | hyt
      · exfalso; apply hn.1; rw [← hyz, ← h]; exact List.mem_map_of_mem hxt
      · exact ih hn.2 hxt hyt

/-- what the driver checks of every environment the harness supplies implies the assumption of the theorem -/
theorem rankInj_of_check (e : Env) (h : rankInjB e = true) : RankInj e := by
  unfold rankInjB at h
  simp only [Bool.and_eq_true, List.all_eq_true, decide_eq_true_eq] at h
  obtain ⟨hlt, hnd⟩ := h
  intro a b hab
  unfold Env.rankOf at hab
  cases ha : Map.find? e.rank a with
  | none =>
    cases hb : Map.find? e.rank b with
    | none =>
      rw [ha, hb] at hab
      exact Nat.add_left_cancel hab
    | some vb =>
      rw [ha, hb] at hab
      have := hlt _ (Map.mem_of_find? _ _ _ hb)
      simp only [Option.getD] at hab
      have h2 : vb < 1000000 := by simpa using this
      omega
  | some va =>
    cases hb : Map.find? e.rank b with
    | none =>
      rw [ha, hb] at hab
      have := hlt _ (Map.mem_of_find? _ _ _ ha)
      simp only [Option.getD] at hab
      have h2 : va < 1000000 := by simpa using this
      omega
    | some vb =>
      rw [ha, hb] at hab
      simp only [Option.getD] at hab
      have := pair_eq_of_nodup_snd e.rank hnd (a, va) (b, vb) (Map.mem_of_find? _ _ _ ha) (Map.mem_of_find? _ _ _ hb) hab
      exact congrArg Prod.fst this

end SaoVerif
