import SaoVerif.Properties.C20
/-!
# C20 — the share that counts is the one in the declared validator

`C20_promotion_checks_the_declared_validator`: for a node that has declared a validator, the promotion check succeeds only
when the node's own delegation *to that validator* passes the share test; a qualifying delegation somewhere else does not
count (the seeded change C20-8 walked all the node's delegations). `C20_undeclared_picks_a_qualifying_validator`: a node that
has declared none is promoted on, and bound to, a validator in which its own delegation passes the test.
-/
namespace SaoVerif

theorem C20_promotion_checks_the_declared_validator (s : State) (n n' : Node) (hv : n.validator ≠ 0)
    (h : checkNodeShare s n = .ok (some n')) :
    checkDelegationShare s n.creator n.validator 0 = .ok true ∧ n' = { n with role := 1 } := by
  unfold checkNodeShare at h
  simp only [bind, Except.bind, pure, Except.pure] at h
  rw [if_pos hv] at h
  split at h
  · cases h
  · rename_i b hb
    split at h
    · rename_i hbt
      simp only [Except.ok.injEq, Option.some.injEq] at h
      have : b = true := by simpa using hbt
      rw [this] at hb
      exact ⟨hb, h.symm⟩
    · cases h

theorem go_picks_qualifying (s : State) (n n' : Node) (l : List DelegationV) (h : checkNodeShare.go s n l = .ok (some n')) :
    ∃ d ∈ l, checkDelegationShare s n.creator d.val 0 = .ok true ∧ n' = { n with role := 1, validator := d.val } := by
  induction l with
  | nil => unfold checkNodeShare.go at h; cases h
  | cons d t ih =>
    unfold checkNodeShare.go at h
    simp only [bind, Except.bind, pure, Except.pure] at h
    split at h
    · cases h
    · rename_i b hb
      split at h
      · rename_i hbt
        simp only [Except.ok.injEq, Option.some.injEq] at h
        have : b = true := by simpa using hbt
        rw [this] at hb
        exact ⟨d, List.mem_cons_self, hb, h.symm⟩
      · obtain ⟨d', hd', h1, h2⟩ := ih h
        exact ⟨d', List.mem_cons_of_mem _ hd', h1, h2⟩

theorem C20_undeclared_picks_a_qualifying_validator (s : State) (n n' : Node) (hv : n.validator = 0)
    (h : checkNodeShare s n = .ok (some n')) :
    ∃ d ∈ s.staking.delegations, d.del = n.creator ∧ checkDelegationShare s n.creator d.val 0 = .ok true ∧
      n' = { n with role := 1, validator := d.val } := by
  unfold checkNodeShare at h
  simp only [bind, Except.bind, pure, Except.pure] at h
  rw [if_neg (by simp [hv])] at h
  obtain ⟨d, hd, h1, h2⟩ := go_picks_qualifying s n n' _ h
  have hm := List.mem_filter.mp hd
  exact ⟨d, hm.1, by simpa using hm.2, h1, h2⟩

end SaoVerif
