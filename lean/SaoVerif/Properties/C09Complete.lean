import SaoVerif.Properties.C09
/-!
# C09 — a completion re-checks the signer against the model it is applied to

`Store` authorises a request against the model that exists when the request is submitted; the model is
changed when a provider completes the order (`UpdateMeta`). Between the two the model may have changed hands
(terminated and re-created by another owner, finding F18) or the owner may have withdrawn the signer's grant.
`C09_complete_reauthorises`: whenever `UpdateMeta` changes a model for an order, the DID that signed the order
is that model's owner or holds read-write access *at that moment*. The monitor clause `unauthorisedChange`
evaluates the same predicate on every accepted completion; seeded/C09-2 removes the re-check.
-/
namespace SaoVerif

theorem C09_complete_reauthorises (e : Env) (s s' : State) (o : Order)
    (h : updateMeta e s o = .ok (s', none)) :
    ∃ md, s.getMeta o.dataId = some md ∧ mayWrite md o.owner = true := by
  unfold updateMeta at h
  simp only [bind, Except.bind, pure, Except.pure] at h
  split at h
  · simp at h
  · split at h
    · rename_i md hmd
      split at h
      · simp at h
      · rename_i hperm
        refine ⟨md, hmd, ?_⟩
        unfold mayWrite
        by_cases ho : md.owner = o.owner
        · simp [ho]
        · have : o.owner ∈ md.readwriteDids := by
            simp only [Bool.not_eq_true', Bool.or_eq_false_iff, decide_eq_false_iff_not, not_and, Bool.not_eq_false] at hperm
            simpa using hperm ho
          simp [this]
    · simp at h

/-- … and when the signer is no longer entitled the model is left exactly as it was -/
theorem C09_complete_unauthorised_untouched (e : Env) (s : State) (o : Order) (md : Metadata)
    (hmd : s.getMeta o.dataId = some md) (hun : mayWrite md o.owner = false) (hlen : o.dataId.length = 36) :
    updateMeta e s o = .ok (s, some "no permission") := by
  unfold updateMeta
  unfold mayWrite at hun
  simp only [Bool.or_eq_false_iff, decide_eq_false_iff_not] at hun
  have h2 : o.owner ∉ md.readwriteDids := by simpa using hun.2
  simp [hmd, hun.1, h2, hlen, bind, Except.bind, pure, Except.pure]

end SaoVerif
