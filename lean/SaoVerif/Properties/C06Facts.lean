import SaoVerif.Properties.C08Facts
/-! # C06 — every coin movement in the Go source is a transfer between two accounts (see Properties/C08Facts.lean) -/
namespace SaoVerif

theorem C06_no_burn_and_no_raw_balance_writes :
    Generated.coinCalls.all (fun x => transferMethods.contains x.2.2 || x.2.2 = "k.MintCoins" || x.2.2 = "k.bank.MintCoins") = true := by
  decide

theorem C06_transfer_sites_are_the_known_ones :
    ((Generated.coinCalls.filter (fun x => transferMethods.contains x.2.2)).map (fun x => (x.1, x.2.1))).eraseDups =
      [ ("x/did/keeper/did_management.go", "Keeper.SendCoinsFromModuleToDidBalances"),
        ("x/market/keeper/pool_management.go", "Keeper.Deposit"),
        ("x/market/keeper/pool_management.go", "Keeper.Withdraw"),
        ("x/node/keeper/msg_server_add_vstorage.go", "msgServer.AddVstorage"),
        ("x/node/keeper/msg_server_claim_reward.go", "msgServer.ClaimReward"),
        ("x/node/keeper/msg_server_remove_vstorage.go", "msgServer.RemoveVstorage"),
        ("x/node/keeper/shard_pledge_management.go", "Keeper.ShardPledge"),
        ("x/node/keeper/shard_pledge_management.go", "Keeper.ShardRelease"),
        ("x/order/keeper/order_management.go", "Keeper.RefundOrder"),
        ("x/order/keeper/order_management.go", "Keeper.RenewOrder"),
        ("x/order/keeper/order_management.go", "Keeper.TerminateOrder"),
        ("x/sao/keeper/msg_server_renew.go", "msgServer.Renew"),
        ("x/sao/keeper/msg_server_store.go", "msgServer.Store"),
        ("x/sao/keeper/timeout_management.go", "Keeper.HandleTimeoutOrder") ] := by decide

end SaoVerif
