import SaoVerif.Properties.C14Totals
/-!
# C10 — a provider's pledged capacity changes only by its own AddVstorage / RemoveVstorage

`capOf s a` = (capacity, capacity collateral) of provider `a`'s pledge record. For every state in which no provider has two
records, every operation and every provider `a`: unless the operation is `AddVstorage` or `RemoveVstorage` *sent by `a`
itself*, `capOf` of `a` is unchanged (`C10_capacity_changes_only_by_own_account`) — whatever other accounts send, whichever
provider they name, and whatever the end-blocker settles. (Used capacity, shard collateral and rewards of `a` do change when
`a`'s shards are stored, released or penalised; those are the subject of C07/C14.)
-/
namespace SaoVerif

def capOf (s : State) (a : Addr) : Option (Int × Int) := (s.getPledge a).map (fun p => (p.totalStorage, p.totalStoragePledged))

theorem capOf_ps (s : State) (a : Addr) : capOf s a = ((psPart s).2.find? (·.1 = a)).map (·.2) := by
  unfold capOf State.getPledge psPart
  simp only
  induction s.pledges with
  | nil => rfl
  | cons p t ih =>
    simp only [List.find?_cons, List.map_cons]
    by_cases h : p.creator = a
    · simp [h]
    · simp only [h, decide_false]; exact ih

theorem capOf_of_q {s s' : State} (hq : qPart s' = qPart s) (hu : uniquePledges s) (a : Addr) : capOf s' a = capOf s a := by
  unfold qPart at hq
  simp only [Prod.mk.injEq] at hq
  obtain ⟨hcr, hg⟩ := hq
  have hu' : (s'.pledges.map (·.creator)).Nodup := by rw [hcr]; exact hu
  unfold qGuard at hg
  unfold uniquePledges at hu
  simp only [hu, hu', if_true, Option.some.injEq] at hg
  rw [capOf_ps, capOf_ps, hg]

theorem getPledge_setPledge_other (s : State) (p : Pledge) (a : Addr) (h : a ≠ p.creator) :
    (s.setPledge p).getPledge a = s.getPledge a := by
  unfold State.setPledge State.getPledge
  simp only
  split
  · induction s.pledges with
    | nil => rfl
    | cons x t ih =>
      simp only [List.map_cons, List.find?_cons]
      by_cases hx : x.creator = p.creator
      · simp only [hx, if_true]
        have h1 : ¬ p.creator = a := fun h' => h h'.symm
        simp only [h1, decide_false]
        exact ih
      · simp only [hx, if_false]
        by_cases hxa : x.creator = a
        · simp [hxa]
        · simp only [hxa, decide_false]; exact ih
  · rw [List.find?_append]
    have h1 : ¬ p.creator = a := fun h' => h h'.symm
    simp [h1]

theorem addvPledge_creator (pool : Pool) (old : Option Pledge) (c : Addr) (amount sz : Int)
    (hold : ∀ p, old = some p → p.creator = c) : (addvPledge pool old c amount sz).creator = c := by
  unfold addvPledge
  cases old with
  | none => simp only; exact (settle_keys _ _).1
  | some p0 => simp only; rw [(settle_keys _ _).1]; exact hold p0 rfl

theorem add_other (e : Env) (s s' : State) (c a : Addr) (size : Nat) (hne : a ≠ c)
    (h : nodeAddVstorage e s c size = .ok s') : capOf s' a = capOf s a := by
  unfold nodeAddVstorage at h
  split at h
  · cases h
  · split at h
    · cases h
    · simp only at h
      split at h
      · cases h
      · split at h
        · cases h
        · rename_i s1 hs1
          split at h
          · cases h
          · rename_i s2 hs2
            simp only [pure, Except.pure, Except.ok.injEq] at h
            rw [← h]
            have h2 : s2.pledges = s.pledges := (promoteIfDue_frame _ _ _ _ _ hs2).trans (sendLit_frame _ _ _ _ _ hs1).1
            unfold capOf
            show ((s2.setPledge _).getPledge a).map _ = _
            rw [getPledge_setPledge_other]
            · unfold State.getPledge; rw [h2]
            · rw [addvPledge_creator _ _ _ _ _ (fun p hp => getPledge_creator s1 c p hp)]; exact hne

theorem remv_other (e : Env) (s s' : State) (c a : Addr) (size : Nat) (hne : a ≠ c)
    (h : nodeRemoveVstorage e s c size = .ok s') : capOf s' a = capOf s a := by
  obtain ⟨pl, s1, s2, hpl, hs1, hs2, rfl⟩ := remv_ok e s s' c size h
  have h2 : s2.pledges = s.pledges := (demoteIfDue_frame _ _ _ _ _ hs2).1.trans (send_frame _ _ _ _ _ hs1).1
  unfold capOf
  show ((s2.setPledge _).getPledge a).map _ = _
  rw [getPledge_setPledge_other]
  · unfold State.getPledge; rw [h2]
  · have hcr : (remvPledge pl).creator = c := by
      have := (remvPlan_ok _ _ _ _ hpl).2
      unfold remvPledge
      simp only
      rw [(settle_keys _ _).1]
      exact getPledge_creator s c pl.pledge this
    rw [hcr]; exact hne

/-- **C10**: only `a`'s own AddVstorage / RemoveVstorage changes `a`'s capacity and capacity collateral -/
theorem C10_capacity_changes_only_by_own_account (e : Env) (y : Sys) (op : Op) (a : Addr) (hu : uniquePledges y.st)
    (h1 : ∀ n, op ≠ .addv a n) (h2 : ∀ n, op ≠ .remv a n) :
    capOf (step e y op).2.st a = capOf y.st a := by
  by_cases hc : isCapacityMsg op = false
  · exact capOf_of_q (step_q e y op hc) hu a
  · cases op
    case addv c n =>
      have hne : a ≠ c := fun h => h1 n (by rw [h])
      show capOf (atomic y.st (nodeAddVstorage e y.st c n)).2 a = capOf y.st a
      unfold atomic
      split
      · rename_i s' hs; exact add_other e _ _ c a n hne hs
      · split <;> rfl
    case remv c n =>
      have hne : a ≠ c := fun h => h2 n (by rw [h])
      show capOf (atomic y.st (nodeRemoveVstorage e y.st c n)).2 a = capOf y.st a
      unfold atomic
      split
      · rename_i s' hs; exact remv_other e _ _ c a n hne hs
      · split <;> rfl
    all_goals exact absurd rfl hc

end SaoVerif
