import SaoVerif.Model.Select
/-! Model of x/market (pool_management.go), x/order (order_management.go, shard_management.go)
    and x/model (data_management.go). Soft errors are returned (`Option String`), panics are thrown. -/
namespace SaoVerif

def U64 : Nat := 18446744073709551616
def subU64 (a b : Nat) : Nat := (a + U64 - b % U64) % U64
def addU64 (a b : Nat) : Nat := (a + b) % U64

/-! ### market -/
def workerRelease (s : State) (o : Order) (sh : Shard) : State × Option String :=
  match s.getWorker sh.sp with
  | none => (s, some "worker not found")
  | some w =>
    let income := Dec.mulInt o.unitPrice (toI64 sh.size)
    let reward := Dec.mulInt w.incomePerSecond (s.h - w.lastRewardAt)
    (s.setWorker { w with reward := w.reward + reward, incomePerSecond := w.incomePerSecond - income,
                          storage := subU64 w.storage sh.size, lastRewardAt := s.h }, none)

def workerAppend (s : State) (o : Order) (sh : Shard) : State :=
  let w := (s.getWorker sh.sp).getD { sp := sh.sp, storage := 0, reward := 0, incomePerSecond := 0, lastRewardAt := 0 }
  let income := Dec.mulInt o.unitPrice (toI64 sh.size)
  let reward := Dec.mulInt income (s.h - toI64 sh.createdAt)
  let reward := if w.storage > 0 then reward + Dec.mulInt w.incomePerSecond (s.h - w.lastRewardAt) else reward
  s.setWorker { w with reward := w.reward + reward, lastRewardAt := s.h, storage := addU64 w.storage sh.size,
                       incomePerSecond := w.incomePerSecond + income }

def marketDeposit (e : Env) (s : State) (o : Order) : TxM (State × Option String) :=
  if o.amount = 0 then pure (s, some "invalid amount") else
  match s.send e.modOrder e.modMarket o.amount with
  | .error m => pure (s, some m)
  | .ok s => pure (s, none)

/-- refund accumulation of `Withdraw` over the order's shard list -/
def withdrawLoop (o : Order) : List Nat → State → Dec → State × Dec × Option String
  | [], s, r => (s, r, none)
  | id :: t, s, r =>
    match s.getShard id with
    | none => withdrawLoop o t s r
    | some sh =>
      if sh.orderId > o.id then withdrawLoop o t s r else
      let income := Dec.mulInt o.unitPrice (toI64 sh.size)
      if sh.status = ShardCompleted ∧ sh.orderId = o.id then
        let r := r + Dec.mulInt income (toI64 (addU64 sh.createdAt sh.duration) - s.h)
        match workerRelease s o sh with
        | (s, some m) => (s, r, some m)
        | (s, none) => withdrawLoop o t s r
      else if sh.status = ShardCompleted ∧ sh.orderId < o.id then
        -- a renewal paid for but not yet started: refund the whole renewed term (the `fix:` of F13)
        withdrawLoop o t s (r + Dec.mulInt income (toI64 o.duration))
      else if sh.status = ShardWaiting then
        withdrawLoop o t s (r + Dec.mulInt income (toI64 o.duration))
      else withdrawLoop o t s r

def i32toI64 (i : Int) : Int := i

/-- `market.Withdraw(order)`: returns the refund coin amount moved market → order. -/
def marketWithdraw (e : Env) (s : State) (o : Order) : TxM (State × Int × Option String) := do
  if o.amount = 0 then return (s, 0, some "invalid amount")
  let base := Dec.ofInt o.amount - Dec.mulInt (Dec.mulInt (Dec.mulInt o.unitPrice (toI64 o.size)) o.replica) (toI64 o.duration)
  let (s, refundDec, err) := withdrawLoop o o.shards s base
  if let some m := err then return (s, 0, some m)
  if refundDec < 0 then throw "negative dec coin"
  let refund := Dec.truncate refundDec
  if refund ≠ 0 then
    match s.send e.modMarket e.modOrder refund with
    | .error m => return (s, 0, some m)
    | .ok s => return (s, refund, none)
  return (s, refund, none)

def marketMigrate (s : State) (o : Order) (fromSh toSh : Shard) : State × Option String :=
  match workerRelease s o fromSh with
  | (s, some m) => (s, some m)
  | (s, none) => (workerAppend s o toSh, none)

/-! ### order -/
def newShardTask (s : State) (o : Order) (sp : Addr) : Shard × State :=
  let sh : Shard := { id := 0, orderId := o.id, status := ShardWaiting, size := o.size, cid := o.cid, pledge := 0,
                      «from» := 0, sp := sp, duration := 0, createdAt := 0, renewInfos := [] }
  let (id, s) := s.appendShard sh
  ({ sh with id := id }, s)

def generateShards (s : State) (o : Order) (sps : List Addr) : Order × State :=
  let (o, s) := sps.foldl (fun (acc : Order × State) sp =>
      let (sh, s') := newShardTask acc.2 acc.1 sp
      ({ acc.1 with shards := acc.1.shards ++ [sh.id] }, s')) (o, s)
  (if sps.length > 0 then { o with status := OrderDataReady } else o, s)

/-- `order.NewOrder(order, sps)` -/
def newOrder (s : State) (o : Order) (sps : List Addr) : Order × State :=
  let (id, s) := s.appendOrder o
  let o := { o with id := id }
  let (o, s) := generateShards s o sps
  let o := { o with createdAt := toU64 s.h }
  (o, s.setOrder o)

def renewOrder (e : Env) (s : State) (o : Order) : State × Order × Option String :=
  match s.paymentAddress o.owner with
  | none => (s, o, some "payment address not set")
  | some payer =>
    match s.sendLit payer e.modMarket o.amount with
    | .error m => (s, o, some m)
    | .ok s =>
      let (id, s) := s.appendOrder o
      let o := { o with id := id }
      (s.setOrder o, o, none)

/-- `did.SendCoinsFromModuleToDidBalances`: the `did` module account is not registered, so the
    module-to-module transfer panics whenever the amount is non-zero. -/
def sendToDidBalances (s : State) (_did : Did) (amount : Int) : TxM State :=
  if amount = 0 then pure s else throw "module account did does not exist"

/-- `order.TerminateOrder(orderId, refund)` -/
def orderTerminate (e : Env) (s : State) (orderId : Nat) (refund : Int) : TxM (State × Option String) := do
  let some o := s.getOrder orderId | return (s, some "order not found")
  if o.status ≠ OrderCompleted then return (s, some "invalid order status")
  match s.paymentAddress o.owner with
  | none =>
    let s ← sendToDidBalances s o.owner refund
    pure (s.removeOrder orderId, none)
  | some acc =>
    if refund ≠ 0 then
      match s.send e.modOrder acc refund with
      | .error m => pure (s, some m)
      | .ok s => pure (s.removeOrder orderId, none)
    else pure (s.removeOrder orderId, none)

def refundOrder (e : Env) (s : State) (orderId : Nat) : State × Option String :=
  match s.getOrder orderId with
  | none => (s, some "order not found")
  | some o =>
    let pd := if o.paymentDid ≠ 0 then o.paymentDid else o.owner
    match s.paymentAddress pd with
    | none => (s, some "payment address not set")
    | some acc =>
      match s.sendLit e.modOrder acc o.amount with
      | .error m => (s, some m)
      | .ok s => (s, none)

def getOrderShardBySP (s : State) (o : Order) (sp : Addr) : Option Shard :=
  o.shards.findSome? (fun id => match s.getShard id with
    | some sh => if sh.sp = sp then some sh else none
    | none => none)

/-! ### model -/
def versionOf (commit : Bytes) (h : Int) : Bytes := commit ++ [26] ++ natDigits h.toNat
def commitFromVersion (v : Bytes) : Bytes := (splitB v 26).headD []

def setDataExpireBlock (s : State) (d : Bytes) (at_ : Nat) : State :=
  let cur := (Map.find? s.expiredData at_).getD []
  { s with expiredData := Map.setN s.expiredData at_ (cur ++ [d]) }

/-- the literal Go loop of `removeDataExpireBlock`: deleting from the slice being ranged over.
    `arr` is the backing array (fixed length), `len` the current slice length. `none` = slice-bounds panic. -/
def removeLoop (d : Bytes) : Nat → Nat → List Bytes → Nat → Option (List Bytes × Nat)
  | 0, _, arr, len => some (arr, len)
  | n + 1, idx, arr, len =>
    match arr[idx]? with
    | none => some (arr, len)
    | some id =>
      if id = d then
        if idx + 1 > len then none
        else
          let arr' := arr.take idx ++ (arr.drop (idx + 1)).take (len - idx - 1) ++ arr.drop (len - 1)
          removeLoop d n (idx + 1) arr' (len - 1)
      else removeLoop d n (idx + 1) arr len

def removeDataExpireBlock (s : State) (d : Bytes) (at_ : Nat) : TxM State :=
  match Map.find? s.expiredData at_ with
  | none => pure s
  | some data =>
    match removeLoop d data.length 0 data data.length with
    | none => throw "slice bounds out of range"
    | some (arr, len) =>
      let data' := arr.take len
      if data'.length = 0 then pure { s with expiredData := Map.erase s.expiredData at_ }
      else pure { s with expiredData := Map.setN s.expiredData at_ data' }

def metaKey (m : Metadata) : ModelKey := { owner := m.owner, alias := m.alias, groupId := m.groupId }

/-- `ResetMetaDuration(&meta)`: returns the updated metadata (not stored) and state (schedules). -/
def resetMetaDuration (s : State) (m : Metadata) : TxM (State × Metadata) := do
  let shardEnd (sh : Shard) : Nat := sh.renewInfos.foldl (fun a ri => addU64 a ri.duration) (addU64 sh.createdAt sh.duration)
  let expired := m.orders.foldl (fun (acc : Nat) oid =>
      match s.getOrder oid with
      | none => acc
      | some o => o.shards.foldl (fun (acc : Nat) sid =>
          match s.getShard sid with
          | some sh => if sh.status = ShardCompleted then (if shardEnd sh > acc then shardEnd sh else acc) else acc
          | none => acc) acc) 0
  -- no completed shard left: keep the lifetime (the `fix:` of F16; before it the subtraction wrapped)
  if expired < m.createdAt then return (s, m)
  let newDuration := subU64 expired m.createdAt
  if m.duration ≠ newDuration then
    let s ← removeDataExpireBlock s m.dataId (addU64 m.createdAt m.duration)
    let m := { m with duration := newDuration }
    pure (setDataExpireBlock s m.dataId expired, m)
  else pure (s, m)

def extendMetaDuration (s : State) (d : Bytes) (at_ : Nat) : TxM State := do
  let m := (s.getMeta d).getD default
  let newDuration := subU64 at_ m.createdAt
  if m.duration < newDuration then
    let s ← removeDataExpireBlock s m.dataId (addU64 m.createdAt m.duration)
    let m := { m with duration := newDuration }
    let s := setDataExpireBlock s m.dataId at_
    pure (s.setMeta m)
  else pure s

def deleteMeta (s : State) (d : Bytes) : State × Option String :=
  match s.getMeta d with
  | none => (s, some "not found")
  | some m => ((s.removeMeta d).removeModel (metaKey m), none)

/-- `model.TerminateOrder(order)` -/
def modelTerminateOrder (e : Env) (s : State) (o : Order) : TxM (State × Option String) := do
  let (s, refund, err) ← marketWithdraw e s o
  if let some m := err then return (s, some m)
  let rec rel (l : List Nat) (s : State) : TxM (State × Option String) :=
    match l with
    | [] => pure (s, none)
    | id :: t =>
      match s.getShard id with
      | none => rel t s
      | some sh =>
        if sh.status = ShardCompleted ∧ sh.orderId = o.id then do
          let (s, err) ← shardRelease e s sh.sp (some sh)
          match err with
          | some m => pure (s, some m)
          | none => rel t s
        else rel t s
  let (s, err) ← rel o.shards s
  if let some m := err then return (s, some m)
  orderTerminate e s o.id refund

def rollbackMeta (s : State) (d : Bytes) : TxM State := do
  match s.getMeta d with
  | none => pure s
  | some m =>
    if m.commits.length = 0 then
      pure ((s.removeMeta d).removeModel (metaKey m))
    else
      let some lastOrder := m.orders.getLast? | throw "index out of range"
      let m := { m with status := MetaComplete, commit := commitFromVersion (m.commits.getLast?.getD []), orderId := lastOrder }
      let (s, m) ← resetMetaDuration s m
      pure (s.setMeta m)

/-- `model.CancelOrder(orderId)` -/
def cancelOrder (e : Env) (s : State) (orderId : Nat) : TxM (State × Option String) := do
  let o := (s.getOrder orderId).getD default
  match refundOrder e s orderId with
  | (s, some _) => pure (s, some "refund order failed")
  | (s, none) =>
    let s ← rollbackMeta s o.dataId
    pure (s.removeOrder orderId, none)

/-- `UpdateMeta(order)` -/
def updateMeta (e : Env) (s : State) (o : Order) : TxM (State × Option String) := do
  if o.dataId.length ≠ 36 then return (s, some "invalid dataid")
  let some m := s.getMeta o.dataId | return (s, some "not found")
  if !(m.owner = o.owner || m.readwriteDids.contains o.owner) then return (s, some "no permission")
  if o.operation = 1 then
    let m := { m with cid := o.cid, commit := o.commit, commits := m.commits ++ [versionOf o.commit s.h],
                      orders := m.orders ++ [o.id], status := MetaComplete }
    return (s.setMeta m, none)
  else if o.operation = 2 then
    let some lastV := m.commits.getLast? | throw "index out of range"
    let lastCommit := commitFromVersion lastV
    -- settle every trailing order of the replaced version
    let rec loop (fuel : Nat) (s : State) (orders : List Nat) (shardSet : List Nat) : TxM (State × List Nat × List Nat × Option String) :=
      match fuel with
      | 0 => pure (s, orders, shardSet, none)
      | fuel + 1 =>
        match orders.getLast? with
        | none => pure (s, orders, shardSet, none)
        | some lastId =>
          match s.getOrder lastId with
          | none => pure (s, orders, shardSet, some "last order not found")
          | some lo =>
            if lo.commit ≠ lastCommit then pure (s, orders, shardSet, none) else do
            let shardSet := shardSet ++ lo.shards
            let (s, err) ← modelTerminateOrder e s lo
            match err with
            | some m => pure (s, orders, shardSet, some m)
            | none => loop fuel s orders.dropLast shardSet
    let (s, orders, shardSet, err) ← loop (m.orders.length + 1) s m.orders []
    if let some msg := err then return (s, some msg)
    let s := shardSet.foldl (fun s id => s.removeShard id) s
    let commits := if m.commits.length > 0 then m.commits.dropLast else m.commits
    let m := { m with cid := o.cid, commit := o.commit, commits := commits ++ [versionOf o.commit s.h], orders := orders ++ [o.id] }
    let (s, m) ← resetMetaDuration s m
    return (s.setMeta { m with status := MetaComplete }, none)
  else if o.operation = 3 then
    let m := { m with orderId := o.id, orders := m.orders ++ [o.id], status := MetaComplete }
    return (s.setMeta m, none)
  else return (s, some "invalid operation")

/-- `UpdateMetaStatusAndCommit(order)` -/
def updateMetaStatusAndCommit (s : State) (o : Order) : TxM (State × Option String) := do
  let some m := s.getMeta o.dataId | return (s, some "not found")
  if m.status ≠ MetaComplete then return (s, some "unexpected meta status")
  let oldExpired := addU64 m.createdAt m.duration
  let newExpired := addU64 o.createdAt o.duration
  if oldExpired < toU64 s.h then return (s, some "metadata should have expired")
  let (s, m) ← (if oldExpired < newExpired then do
      let s ← removeDataExpireBlock s m.dataId oldExpired
      let m := { m with duration := subU64 newExpired m.createdAt }
      pure (setDataExpireBlock s m.dataId newExpired, m)
    else pure (s, m) : TxM (State × Metadata))
  let m := { m with status := (o.operation : Int), commit := o.commit, orderId := o.id }
  return (s.setMeta m, none)

/-- `NewMeta(order, metadata)` -/
def newMeta (s : State) (o : Order) (m : Metadata) : State × Option String :=
  if m.dataId.length ≠ 36 then (s, some "invalid dataid") else
  if (s.getMeta m.dataId).isSome then (s, some "dataid exists") else
  if (s.getModel (metaKey m)).isSome then (s, some "model exists") else
  let s := s.setModel { key := metaKey m, data := m.dataId }
  let s := s.setMeta m
  (setDataExpireBlock s m.dataId (addU64 o.createdAt o.duration), none)

def updatePermission (s : State) (owner : Did) (d : Bytes) (ro rw : List Did) : State × Option String :=
  match s.getMeta d with
  | none => (s, some "not found")
  | some m =>
    if owner ≠ m.owner then (s, some "no permission")
    else (s.setMeta { m with readonlyDids := ro, readwriteDids := rw }, none)

end SaoVerif
