import SaoVerif.Model.Keepers
/-! Model of x/sao message handlers and end-blocker helpers. -/
namespace SaoVerif

/-- lift a keeper call returning a soft error into a transaction: any error aborts. -/
def softTx {α : Type} (r : TxM (α × Option String)) : TxM α := do
  let (a, err) ← r
  match err with
  | some m => throw m
  | none => pure a

def softTx' {α : Type} (r : α × Option String) : TxM α :=
  match r.2 with
  | some m => throw m
  | none => pure r.1

/-- the `isProvider` block shared by most handlers: creator is the provider or one of its tx addresses -/
def actsFor (s : State) (creator provider : Addr) : Bool :=
  provider = creator ||
    (match s.getNode provider with
     | some n => n.txAddresses.contains creator
     | none => false)

/-- `did.CreatorIsBoundToDid` -/
def creatorBound (s : State) (creator : Addr) (d : Did) : Bool :=
  match s.did.did.find? (fun x => x.addr = creator) with
  | some x => x.did = d
  | none => false

structure FaultIn where
  dataId : Bytes
  orderId : Nat
  shardId : Nat
  commitId : Bytes
  provider : Addr
  deriving Repr, Inhabited

structure Proposal where
  owner : Did
  provider : Addr
  groupId : StrId
  duration : Nat
  replica : Int
  timeout : Int
  alias : StrId
  dataId : Bytes
  commitId : Bytes
  size : Nat
  operation : Nat
  readonlyDids : List Did
  readwriteDids : List Did
  paymentDid : Did
  deriving Repr, Inhabited

structure StoreMsg where
  creator : Addr
  msgProvider : Addr
  p : Proposal
  sigValid : Bool
  sigDid : Did
  cidOk : Bool
  cid : StrId
  deriving Repr, Inhabited

def setTimeoutOrderBlock (s : State) (orderId : Nat) (at_ : Nat) : State :=
  let cur := (Map.find? s.timeoutQ at_).getD []
  { s with timeoutQ := Map.setN s.timeoutQ at_ (cur ++ [orderId]) }

def setExpiredShardBlock (s : State) (shardId : Nat) (at_ : Nat) : State :=
  let cur := (Map.find? s.expiredShardQ at_).getD []
  { s with expiredShardQ := Map.setN s.expiredShardQ at_ (cur ++ [shardId]) }

/-- `FindSPByDataId` -/
def findSPByDataId (s : State) (d : Bytes) : List Node :=
  match s.getMeta d with
  | none => []
  | some m =>
    match s.getOrder m.orderId with
    | none => []
    | some o => o.shards.filterMap (fun id =>
        match s.getShard id with
        | some sh => s.getNode sh.sp
        | none => none)

/-- `GetSps(order, dataId)` -/
def getSps (s : State) (o : Order) (d : Bytes) : TxM (State × List Node) := do
  if o.operation = 1 then
    let (s, sps) ← randomSP s o.replica [] (toI64 o.size)
    if o.replica ≤ 0 ∨ o.replica > sps.length then throw "invalid replica"
    pure (s, sps)
  else if o.operation = 2 then
    if o.replica ≤ 0 then throw "invalid replica"
    let sps := findSPByDataId s d
    let (s, sps) ← (if o.replica < sps.length then pure (s, sps.take o.replica.toNat)
      else if o.replica > sps.length then do
        let (s, add) ← randomSP s (o.replica - sps.length) (sps.map (·.creator)) (toI64 o.size)
        pure (s, sps ++ add)
      else pure (s, sps) : TxM (State × List Node))
    if o.replica > sps.length then throw "invalid replica"
    pure (s, sps)
  else throw "unsupported operation"

/-- price of an order, rounded up to a whole coin -/
def orderPrice (size : Nat) (replica : Int) (duration : Nat) : TxM Int :=
  ceilCoin (Dec.mulInt (Dec.mulInt (Dec.mulInt unitPriceDec (toI64 size)) replica) (toI64 duration))

def BAR : Nat := 124  -- '|'

/-- the last part of `Store`: the new order is attached to the data model — an existing model must have no
    update in flight and its latest committed version must be the base the request names ("avoid version
    conflicts"); otherwise a new model is created -/
def storeAttach (s : State) (m : StoreMsg) (order : Order) (lastCommitId commitId : Bytes) : TxM State := do
  let p := m.p
  match s.getMeta p.dataId with
  | some md =>
    if md.orderId > order.id then throw "version conflict"
    let some lastOrder := s.getOrder md.orderId | throw "invalid last order"
    if lastOrder.status ≠ OrderCompleted then throw "unexpected last order"
    if !containsB md.commit lastCommitId then throw "invalid commitId"
    softTx (updateMetaStatusAndCommit s order)
  | none =>
    let md : Metadata := {
      dataId := p.dataId, owner := p.owner, alias := p.alias, groupId := p.groupId, orderId := order.id,
      tags := [], cid := m.cid, commits := [], extendInfo := 0, update := false, commit := commitId, rule := 0,
      duration := p.duration, createdAt := toU64 s.h, readonlyDids := p.readonlyDids, readwriteDids := [],
      status := MetaNew, orders := [] }
    softTx' (newMeta s order md)

/-- the paying and placing part of `Store`: providers are selected (when a gateway submitted the request), the price is
    charged to the payer, the order and its shards are created, the first timeout check is scheduled, and the order is
    attached to the data model -/
def storePlace (e : Env) (s : State) (m : StoreMsg) (order : Order) (payAddr : Option Addr) (isProvider : Bool)
    (lastCommitId commitId : Bytes) : TxM State := do
  let p := m.p
  let (s, sps) ← (if isProvider then getSps s order p.dataId else pure (s, []) : TxM (State × List Node))
  let order := { order with unitPrice := unitPriceDec }
  let amount ← orderPrice order.size order.replica order.duration
  let payer ← (match payAddr with
    | some a => pure a
    | none => match s.paymentAddress p.owner with
      | some a => pure a
      | none => throw "payment address not set" : TxM Addr)
  if s.bal payer < amount then throw "insufficient coin"
  let s ← s.sendLit payer e.modOrder amount
  let order := { order with amount := amount }
  let (order, s) := newOrder s order (sps.map (·.creator))
  let s := if isProvider then setTimeoutOrderBlock s order.id (addU64 order.createdAt order.timeout) else s
  storeAttach s m order lastCommitId commitId

/-- who pays: a sponsor (a key DID whose registered payment address is the sender itself), or nobody named — the owner -/
def storePayer (s : State) (m : StoreMsg) : TxM (Option Addr) :=
  if m.p.paymentDid ≠ 0 then do
    if !m.p.paymentDid.isKey then throw "not kid"
    let some a := s.paymentAddress m.p.paymentDid | throw "invalid payment did"
    if a ≠ m.creator then throw "creator should be payment address"
    pure (some a)
  else pure none

/-- the `isProvider` decision of Store: a sponsored request needs no gateway; an account bound to the owner submits for itself
    (the order stays pending); anybody else must be the gateway the signed request names, or one of its addresses -/
def storeActor (s : State) (m : StoreMsg) (orderProvider : Addr) (payAddr : Option Addr) : TxM Bool :=
  match payAddr with
  | some _ => pure true
  | none =>
    if creatorBound s m.creator m.p.owner then pure false
    else
      let ip := (orderProvider = m.creator && m.msgProvider = m.creator) ||
        (orderProvider = m.msgProvider &&
          (match s.getNode m.msgProvider with
           | some n => n.txAddresses.contains m.creator
           | none => false))
      if ip then pure true else throw "invalid provider"

/-- the checks of `Store`: signature, field sanity, permission on an existing model, who pays, the gateway named by the
    proposal, the base and new version, and whether the submitter may hand the order to providers right away. Returns
    the order skeleton, the sponsor's address (if any), that flag and the two version ids. -/
def storeGuards (s : State) (m : StoreMsg) : TxM (Order × Option Addr × Bool × Bytes × Bytes) := do
  let p := m.p
  if !m.sigValid then throw "invalid signature"
  if p.commitId = [] then throw "invalid commitId"
  if p.dataId = [] then throw "invalid dataId"
  if p.operation < 1 ∨ p.operation > 2 then throw "invalid operation"
  if p.duration < 3600 then throw "invalid duration"
  if !m.cidOk then throw "invalid cid"
  -- permission is checked for every request on an existing model (the `fix:` of F11)
  match s.getMeta p.dataId with
  | some md =>
    if !(md.owner = m.sigDid || md.readwriteDids.contains m.sigDid) then throw "no permission"
  | none =>
    if !containsB p.commitId p.dataId then throw "metadata not found"
  let payAddr : Option Addr ← storePayer s m
  let some node := s.getNode p.provider | throw "provider not registered"
  let (lastCommitId, commitId) :=
    if p.commitId.contains BAR then
      let parts := splitB p.commitId BAR
      (parts.headD [], (parts.drop 1).headD [])
    else (p.commitId, p.commitId)
  let size := if p.size = 0 then 1 else p.size
  if p.timeout ≤ 0 then throw "invalid timeout"
  let order : Order := {
    id := 0, creator := m.creator, owner := p.owner, provider := node.creator, cid := m.cid,
    duration := p.duration, status := OrderPending, replica := p.replica, shards := [], amount := 0,
    size := size, operation := p.operation, createdAt := 0, timeout := toU64 p.timeout,
    dataId := p.dataId, commit := commitId, unitPrice := 0, paymentDid := p.paymentDid }
  let isProvider ← storeActor s m order.provider payAddr
  pure (order, payAddr, isProvider, lastCommitId, commitId)

def saoStore (e : Env) (s : State) (m : StoreMsg) : TxM State := do
  let (order, payAddr, isProvider, lastCommitId, commitId) ← storeGuards s m
  storePlace e s m order payAddr isProvider lastCommitId commitId

/-- who may hand a pending order to providers: its gateway itself, or one of the gateway's addresses -/
def readyAllowed (s : State) (creator msgProvider : Addr) (o : Order) : Bool :=
  (o.provider = creator && msgProvider = creator) ||
    (o.provider = msgProvider &&
      (match s.getNode msgProvider with
       | some n => n.txAddresses.contains creator
       | none => false))

def saoReadyBody (s : State) (o : Order) : TxM State := do
  if o.status ≠ OrderPending then throw "expect pending order"
  let (s, sps) ← getSps s o o.dataId
  let (o, s) := generateShards s o (sps.map (·.creator))
  let s := s.setOrder o
  pure (setTimeoutOrderBlock s o.id (addU64 (toU64 s.h) o.timeout))

def saoReady (s : State) (creator msgProvider : Addr) (orderId : Nat) : TxM State :=
  match s.getOrder orderId with
  | none => throw "order not found"
  | some o => if !readyAllowed s creator msgProvider o then throw "invalid provider" else saoReadyBody s o

def increaseReputation (e : Env) (s : State) (a : Addr) (v : Int) : State :=
  match s.getNode a with
  | none => s
  | some n => s.setNode e { n with reputation := f32round (n.reputation + f32round v) }

/-- completion of a shard that is migrating in: the source shard is released and removed, its worker income moves to
    the new provider, and every order that listed the source shard now lists the new one (the `fix:` of F02) -/
def completeMigration (e : Env) (s : State) (order : Order) (shard : Shard) : TxM (State × Order × Shard × Order) := do
  if shard.«from» = 0 then throw "empty shard from"
  let oldShard? := getOrderShardBySP s order shard.«from»
  let s ← softTx (shardRelease e s shard.«from» oldShard?)
  let some oldShard := oldShard? | throw "nil pointer dereference"
  let inProgress := if oldShard.orderId ≠ order.id then (s.getOrder oldShard.orderId).getD default else order
  let shard := { shard with orderId := oldShard.orderId, renewInfos := oldShard.renewInfos, createdAt := toU64 s.h,
                            duration := subU64 (addU64 oldShard.createdAt oldShard.duration) (toU64 s.h) }
  let s ← softTx' (marketMigrate s inProgress oldShard shard)
  let s := s.removeShard oldShard.id
  let s0 := s
  -- order list: [order] ++ [inProgress if different] ++ the orders of every pending renewal not
  -- already in the list (the `fix:` of F02)
  let extraIds := (oldShard.renewInfos.map (·.orderId)).filter (fun id => id ≠ order.id ∧ id ≠ inProgress.id)
  let strip (o : Order) (first : Bool) : Order :=
    let ns := o.shards.filter (fun id => id ≠ oldShard.id ∧ (first ∨ id ≠ shard.id))
    { o with shards := if first then ns else ns ++ [shard.id] }
  let order' := strip order true
  let s := s.setOrder order'
  let (s, inProgress') := if oldShard.orderId ≠ order.id then
      let ip := strip inProgress false
      (s.setOrder ip, ip)
    else (s, order')
  -- each renewal order is read from the store at the time the list is built (before any SetOrder)
  let s := extraIds.foldl (fun (s' : State) id =>
      match s0.getOrder id with
      | some o => s'.setOrder (strip o false)
      | none => s') s
  pure (s, order', shard, inProgress')

/-- completion of a freshly assigned shard: the worker starts earning; the first completion of an order applies it to
    the data model and moves the payment into the market escrow -/
def completeFresh (e : Env) (s : State) (order : Order) (shard : Shard) : TxM (State × Order × Shard × Order) := do
  let shard := { shard with createdAt := toU64 s.h, duration := order.duration }
  let s := workerAppend s order shard
  if order.status ≠ OrderCompleted then
    let s ← softTx (updateMeta e s order)
    let s ← softTx (marketDeposit e s order)
    let order := { order with status := OrderCompleted }
    pure (s, order, shard, order)
  else pure (s, order, shard, order)

/-- the checks of `Complete`: the order, the shard of it the sender's provider holds, and the data model -/
def completeGuards (s : State) (msgProvider : Addr) (orderId size : Nat) (cidOk : Bool) : TxM (Order × Shard × Metadata) := do
  if size = 0 then throw "invalid shard size"
  let some order := s.getOrder orderId | throw "order not found"
  let some shard := getOrderShardBySP s order msgProvider | throw "not the order shard provider"
  if shard.status = ShardCompleted then throw "already completed"
  if shard.status ≠ ShardWaiting ∧ shard.status ≠ ShardMigrating then throw "invalid shard status"
  if size ≠ shard.size then throw "invalid shard size"
  let some md := s.getMeta order.dataId | throw "metadata not found"
  if md.status ≠ MetaNew ∧ md.status ≠ MetaComplete ∧ md.status ≠ (order.operation : Int) then throw "invalid operation"
  if let some lastId := md.orders.getLast? then
    match s.getOrder lastId with
    | some lo =>
      if lo.status = OrderPending ∨ lo.status = OrderInProgress ∨ lo.status = OrderDataReady then throw "unexpected last order"
    | none => throw "invalid last order"
  if !cidOk then throw "invalid cid"
  pure (order, shard, md)

/-- the last part of `Complete`: the shard is marked stored, its release is scheduled at the end of its paid period,
    the model's lifetime is extended to it, the provider's collateral is taken, its reputation raised -/
def completeTail (e : Env) (s : State) (md : Metadata) (order : Order) (shard : Shard) (inProgress : Order) (msgProvider : Addr)
    (cid : StrId) : TxM State := do
  let shard := { shard with status := ShardCompleted, cid := cid }
  let endAt := addU64 shard.createdAt shard.duration
  let s := setExpiredShardBlock s shard.id endAt
  let s ← extendMetaDuration s md.dataId endAt
  let s ← softTx (shardPledge e s shard inProgress.unitPrice)
  if order.replica = 0 then throw "division by zero"
  let amt := Int.tdiv order.amount order.replica
  let s := increaseReputation e s msgProvider amt
  pure (s.setOrder order)

def saoCompleteBody (e : Env) (s : State) (msgProvider : Addr) (orderId size : Nat) (cidOk : Bool) (cid : StrId) : TxM State := do
  let (order, shard, md) ← completeGuards s msgProvider orderId size cidOk
  let (s, order, shard, inProgress) ← (if shard.status = ShardMigrating then completeMigration e s order shard
    else completeFresh e s order shard)
  completeTail e s md order shard inProgress msgProvider cid

/-- who may cancel: the order's creator, or a sender claiming the order's own gateway when the
    order was created by one of that gateway's addresses (the `fix:` of F10) -/
def cancelAllowed (s : State) (creator msgProvider : Addr) (order : Order) : Bool :=
  order.creator = creator ||
    (msgProvider = order.provider &&
      (match s.getNode msgProvider with
       | some n => n.txAddresses.contains order.creator
       | none => false))

def saoCancelBody (e : Env) (s : State) (order : Order) (orderId : Nat) : TxM State := do
  if order.status = OrderCompleted then throw "order already completed"
  let rec loop (l : List Nat) (s : State) : TxM State :=
    match l with
    | [] => pure s
    | id :: t => do
      let some sh := s.getShard id | throw "shard not found"
      let s ← (if sh.status = ShardCompleted then softTx (shardRelease e s sh.sp (some sh)) else pure s : TxM State)
      loop t (s.removeShard id)
  let s ← loop order.shards s
  softTx (cancelOrder e s orderId)

def saoCancel (e : Env) (s : State) (creator msgProvider : Addr) (orderId : Nat) : TxM State :=
  match s.getOrder orderId with
  | none => throw "order not found"
  | some order =>
    if !cancelAllowed s creator msgProvider order then throw "only order creator allowed"
    else if !actsFor s creator msgProvider then throw "invalid provider"
    else saoCancelBody e s order orderId

/-- (all failures of a message are the same observable: the order of the checks is immaterial) -/
def saoComplete (e : Env) (s : State) (creator msgProvider : Addr) (orderId size : Nat) (cidOk : Bool) (cid : StrId) : TxM State :=
  if !actsFor s creator msgProvider then throw "invalid provider"
  else saoCompleteBody e s msgProvider orderId size cidOk cid

def saoTerminate (e : Env) (s : State) (creator msgProvider : Addr) (owner : Did) (dataId : Bytes) (sigValid : Bool) (sigDid : Did) : TxM State := do
  let _ := owner
  if !actsFor s creator msgProvider then throw "invalid provider"
  if !sigValid then throw "invalid signature"
  let some md := s.getMeta dataId | throw "dataId not found"
  if !(md.owner = sigDid || md.readwriteDids.contains sigDid) then throw "no permission"
  let rec loop (l : List Nat) (s : State) (set : List Nat) : TxM (State × List Nat) :=
    match l with
    | [] => pure (s, set)
    | oid :: t =>
      match s.getOrder oid with
      | none => loop t s set
      | some o => do
        let s ← softTx (modelTerminateOrder e s o)
        loop t s (set ++ o.shards)
  let (s, set) ← loop md.orders s []
  let s := set.foldl (fun s id => s.removeShard id) s
  softTx' (deleteMeta s dataId)

def MaxRenewDuration : Nat := 60 * 60 * 24 * 365 * 2

/-- the per-shard part of Renew -/
def renewShard (e : Env) (s : State) (sh : Shard) (newOrderId duration : Nat) (unitPrice : Dec) :
    TxM (State × Int × Nat) := do
  let newPledge ← ceilCoin (storeRewardPledge duration sh.size unitPrice)
  let (s, sh, change) ← (if newPledge > sh.pledge then do
      let extra := newPledge - sh.pledge
      let bal := s.bal sh.sp
      let s := if bal ≥ extra then
          (match s.send sh.sp e.modNode extra with | .ok s' => s' | .error _ => s)
        else
          let s1 := (match s.sendLit sh.sp e.modNode bal with | .ok s' => s' | .error _ => s)
          let debt := extra - bal
          s1.setDebt sh.sp (match s1.getDebt sh.sp with | some d => d + debt | none => debt)
      let some pl := s.getPledge sh.sp | throw "coin denom mismatch"
      let s := s.setPledge { pl with totalShardPledged := pl.totalShardPledged + extra }
      pure (s, { sh with pledge := newPledge }, extra)
    else pure (s, sh, 0) : TxM (State × Shard × Int))
  let sh := { sh with renewInfos := sh.renewInfos ++ [{ orderId := newOrderId, pledge := newPledge, duration := duration }] }
  let expiredAt := sh.renewInfos.foldl (fun a ri => addU64 a ri.duration) (addU64 sh.createdAt sh.duration)
  pure (s.setShard sh, change, expiredAt)

/-- the checks of Renew for one data id: the model, its current order and that order's shards; `none` = this data id
    is skipped (not found, not the signer's model, an update in flight, a shard neither stored nor migrating, expired) -/
def renewGuards (s : State) (sigDid : Did) (d : Bytes) : Option (Metadata × Order × List Shard) := do
  let md ← s.getMeta d
  if md.owner ≠ sigDid then none
  if md.status ≠ MetaComplete then none
  let order ← s.getOrder md.orderId
  let shards ← order.shards.mapM (fun id =>
    match s.getShard id with
    | none => none
    | some sh => if sh.status ≠ ShardCompleted ∧ sh.status ≠ ShardMigrating then none else some sh)
  if order.status ≠ OrderCompleted then none
  if toI64 order.createdAt + toI64 order.duration < s.h then none
  pure (md, order, shards)

/-- Renew for one data id that passed the checks -/
def renewBody (e : Env) (s : State) (pool : Pool) (creator msgProvider : Addr) (duration : Nat) (timeout : Int)
    (md : Metadata) (order : Order) (shards : List Shard) : TxM (State × Pool × Bool) := do
  let amount ← orderPrice order.size order.replica duration
  -- the renewal order lists only the shards it renews (the `fix:` of F12)
  let renewed := (shards.filter (fun sh => sh.status = ShardCompleted)).map (·.id)
  -- the renewal belongs to the model's owner, who signed the request (the `fix:` of F22; before it the owner
  -- field was copied from the order of the latest version, whose signer may be a read-write grantee)
  let newO : Order := { order with id := 0, creator := creator, owner := md.owner, provider := msgProvider, duration := duration, amount := amount, shards := renewed,
                                   operation := 3, createdAt := toU64 s.h, timeout := toU64 timeout, unitPrice := unitPriceDec,
                                   paymentDid := 0 }
  let (s, newO, err) := renewOrder e s newO
  if err.isSome then return (s, pool, false)
  let rec loop (l : List Shard) (s : State) (chg : Int) (mx : Nat) : TxM (State × Int × Nat) :=
    match l with
    | [] => pure (s, chg, mx)
    | sh :: t =>
      if sh.status = ShardMigrating then loop t s chg mx else do
      let (s, c, ex) ← renewShard e s sh newO.id duration newO.unitPrice
      loop t s (chg + c) (if ex > mx then ex else mx)
  let (s, _, mx) ← loop shards s 0 0
  let s ← extendMetaDuration s md.dataId mx
  let (s, _) ← updateMeta e s newO
  return (s, pool, true)

/-- one data id of Renew; `false` = this data id failed (the transaction carries on). -/
def renewOne (e : Env) (s : State) (pool : Pool) (creator msgProvider : Addr) (sigDid : Did) (duration : Nat) (timeout : Int) (d : Bytes) :
    TxM (State × Pool × Bool) :=
  match renewGuards s sigDid d with
  | none => pure (s, pool, false)
  | some (md, order, shards) => renewBody e s pool creator msgProvider duration timeout md order shards

def saoRenew (e : Env) (s : State) (creator msgProvider : Addr) (sigValid : Bool) (sigDid : Did) (duration : Nat) (timeout : Int) (data : List Bytes) :
    TxM (State × List Bool) := do
  if !sigValid then throw "invalid signature"
  if !actsFor s creator msgProvider then throw "invalid provider"
  if duration < 3600 then throw "invalid duration"
  if duration > MaxRenewDuration then throw "invalid duration"
  let some pool := s.pool | throw "pool not found"
  let rec loop (l : List Bytes) (s : State) (pool : Pool) (oks : List Bool) : TxM (State × List Bool) :=
    match l with
    | [] => pure (s, oks)
    | d :: t => do
      let (s, pool, ok) ← renewOne e s pool creator msgProvider sigDid duration timeout d
      loop t s pool (oks ++ [ok])
  loop data s pool []

def migrateOrderLoop (s : State) (msgProvider : Addr) : List Nat → List Bytes → State → TxM State
  | [], _, st => pure st
  | oid :: t, commits, st =>
    match st.getOrder oid with
    | none => migrateOrderLoop s msgProvider t commits st
    | some oldOrder =>
      if commits.contains oldOrder.commit then migrateOrderLoop s msgProvider t commits st else
      let commits := commits ++ [oldOrder.commit]
      match getOrderShardBySP st oldOrder msgProvider with
      | none => migrateOrderLoop s msgProvider t commits st
      | some oldShard =>
        if oldShard.status ≠ ShardCompleted then migrateOrderLoop s msgProvider t commits st else
        let shs := oldOrder.shards.filterMap st.getShard
        if shs.any (fun sh => sh.«from» = msgProvider) then migrateOrderLoop s msgProvider t commits st else do
        let (st, sps) ← randomSP st 1 (shs.map (·.sp)) (toI64 oldShard.size)
        match sps with
        | [] => migrateOrderLoop s msgProvider t commits st
        | n :: _ =>
          let sh : Shard := { id := 0, orderId := oldOrder.id, status := ShardMigrating, size := oldShard.size, cid := oldShard.cid,
                              pledge := 0, «from» := msgProvider, sp := n.creator, duration := 0, createdAt := 0, renewInfos := [] }
          let (id, st) := st.appendShard sh
          let st := st.setOrder { oldOrder with shards := oldOrder.shards ++ [id] }
          migrateOrderLoop s msgProvider t commits st

def saoMigrate (s : State) (creator msgProvider : Addr) (data : List Bytes) : TxM State := do
  if !actsFor s creator msgProvider then throw "invalid provider"
  let rec loop (l : List Bytes) (st : State) : TxM State :=
    match l with
    | [] => pure st
    | d :: t =>
      match st.getMeta d with
      | none => loop t st
      | some md => do
        let st ← migrateOrderLoop s msgProvider md.orders.reverse [] st
        loop t st
  loop data s

/-- `did.ValidDid` restricted to the DID shapes the harness generates (did:key or unparsable). -/
def validDid (s : State) (d : Did) : Bool := d.isKey && (s.paymentAddress d).isSome

def saoPermission (s : State) (creator msgProvider : Addr) (owner : Did) (dataId : Bytes) (ro rw : List Did) (sigValid : Bool) : TxM State := do
  if !actsFor s creator msgProvider then throw "invalid provider"
  if !sigValid then throw "invalid signature"
  if !(ro.all (validDid s)) then throw "invalid did"
  if !(rw.all (validDid s)) then throw "invalid did"
  softTx' (updatePermission s owner dataId ro rw)

/-! ### end-blocker helpers -/
def MaxTries : Nat := 10

/-- the shards of an order as the timeout handler sees them -/
structure TimeoutView where
  timeoutShards : List Shard   -- still waiting
  completed : List Nat
  uncompleted : List Nat
  sps : List Addr

def timeoutView (s : State) (order : Order) : TimeoutView :=
  let shs := order.shards.filterMap (fun id => (s.getShard id).map (fun sh => (id, sh)))
  { timeoutShards := (shs.filter (fun x => x.2.status = ShardWaiting)).map (·.2),
    completed := (shs.filter (fun x => x.2.status = ShardCompleted)).map (·.1),
    uncompleted := (shs.filter (fun x => x.2.status ≠ ShardCompleted)).map (·.1),
    sps := shs.map (·.2.sp) }

/-- no lifetime left for another interval: last examination (the `fix:` of F15) -/
def lastChance (s : State) (order : Order) : Bool :=
  addU64 (toU64 s.h) order.timeout ≥ addU64 order.createdAt order.duration

/-- the handler gives up: no lifetime left, or more than ten intervals since creation -/
def giveUpDue (s : State) (order : Order) : Bool :=
  lastChance s order || decide (subU64 (toU64 s.h) order.createdAt > (MaxTries * order.timeout) % U64)

/-- nothing is waiting: drop the shards that never completed -/
def timeoutSettle (s : State) (order : Order) (v : TimeoutView) : State :=
  let s := v.uncompleted.foldl (fun s id => s.removeShard id) s
  if v.uncompleted.length ≠ 0 then s.setOrder { order with shards := v.completed } else s

/-- the coins returned when the unfinished replicas of a partly stored order are given up -/
def giveUpRefund (order : Order) (timeoutCount : Nat) : Int :=
  Dec.truncate (Dec.ofInt order.amount -
    Dec.mulInt (Dec.mulInt (Dec.mulInt order.unitPrice (toI64 order.size)) (order.replica - timeoutCount)) (toI64 order.duration))

/-- give up: cancel and refund an order that never completed, or cut a partly stored order down
    to its completed replicas and refund the rest -/
def timeoutGiveUp (e : Env) (s : State) (order : Order) (v : TimeoutView) (orderId : Nat) : TxM State :=
  if order.status ≠ OrderCompleted then do
    let s := order.shards.foldl (fun s id => s.removeShard id) s
    let (s, _) ← cancelOrder e s orderId
    return s
  else
    let s := v.uncompleted.foldl (fun s id => s.removeShard id) s
    let refund := giveUpRefund order v.timeoutShards.length
    let order := { order with replica := order.replica - v.timeoutShards.length, shards := v.completed }
    if refund < 0 then throw "negative coin" else
    if refund ≠ 0 then
      let s := match s.paymentAddress order.owner with
        | some acc => (match s.send e.modMarket acc refund with | .ok s' => s' | .error _ => s)
        | none => s
      if order.amount - refund < 0 then throw "negative coin amount" else
      pure (s.setOrder { order with amount := order.amount - refund })
    else pure (s.setOrder order)

/-- hand each waiting shard to a replacement provider and look again one interval later -/
def timeoutReassign (s : State) (order : Order) (v : TimeoutView) (randSp : List Node) : TxM State :=
  if randSp.length > v.timeoutShards.length then throw "index out of range" else
  let pairs := randSp.zip v.timeoutShards
  let (order, s) := pairs.foldl (fun (acc : Order × State) (x : Node × Shard) =>
      let s := acc.2.setShard { x.2 with status := ShardTimeout }
      let (nsh, s) := newShardTask s acc.1 x.1.creator
      ({ acc.1 with shards := acc.1.shards ++ [nsh.id] }, s)) (order, s)
  let s := s.setOrder order
  pure (setTimeoutOrderBlock s order.id (addU64 (toU64 s.h) order.timeout))

/-- `HandleTimeoutOrder(orderId)`; errors of callees are ignored as in the Go code, panics propagate. -/
def handleTimeoutOrder (e : Env) (s : State) (orderId : Nat) : TxM State :=
  match s.getOrder orderId with
  | none => pure s
  | some order =>
    if order.status = OrderPending then
      match cancelOrder e s orderId with
      | .ok (s, _) => pure s
      | .error m => throw m
    else
    let v := timeoutView s order
    if v.timeoutShards.length = 0 then pure (timeoutSettle s order v) else
    match (if lastChance s order then pure (s, []) else randomSP s v.timeoutShards.length v.sps (toI64 order.size) : TxM (State × List Node)) with
    | .error m => throw m
    | .ok (s', randSp) =>
      if randSp.length = 0 then
        if giveUpDue s order then timeoutGiveUp e s' order v orderId
        else pure (setTimeoutOrderBlock s' order.id (addU64 (toU64 s'.h) order.timeout))
      else timeoutReassign s' order v randSp

/-- `HandleExpiredShard(shardId)` -/
def handleExpiredShard (e : Env) (s : State) (shardId : Nat) : TxM State := do
  let some shard := s.getShard shardId | return s
  let some order := s.getOrder shard.orderId | return s
  let (s, _) := workerRelease s order shard
  let s ← (match shard.renewInfos with
    | [] => do
      let (s, _) ← shardRelease e s shard.sp (some shard)
      pure (s.removeShard shardId)
    | next :: rest =>
      let shard := { shard with renewInfos := rest, orderId := next.orderId, createdAt := toU64 s.h, duration := next.duration }
      let s := setExpiredShardBlock s shard.id (addU64 shard.createdAt shard.duration)
      let s := s.setShard shard
      let newO := (s.getOrder shard.orderId).getD default
      pure (workerAppend s newO shard) : TxM State)
  if order.shards.length = 1 then
    if order.shards.head? = some shardId then return s.removeOrder order.id
    return s
  else
    return s.setOrder { order with shards := order.shards.eraseP (· = shardId) }

end SaoVerif
