import SaoVerif.Model.Store
/-! Model of x/did message handlers (Binding, Update, UpdatePaymentAddress). Cryptographic
    facts (proof signature valid, doc-id hash matches, timestamp fresh w.r.t. the clock the handler
    reads) are inputs computed by the harness from what it actually did. -/
namespace SaoVerif

structure AccId where
  raw : Bytes        -- the accountId string
  ok : Bool          -- matches the CAIP-10 regex
  cosmos : Bool      -- network = "cosmos"
  chainOk : Bool     -- chain = ctx.ChainID()
  eip155 : Bool      -- network = "eip155"
  addr : Addr        -- interned third component
  deriving Repr, Inhabited

def DidState.getDid (d : DidState) (accId : Bytes) : Option DidEntry := d.did.find? (·.accountId = accId)
def DidState.creatorBound (d : DidState) (creator : Addr) (did : Did) : Bool :=
  match d.did.find? (fun x => x.addr = creator) with
  | some x => x.did = did
  | none => false

structure PayAddrMsg where
  creator : Addr
  did : Did
  didOk : Bool       -- saodidparser.Parse succeeds
  acc : AccId
  deriving Repr, Inhabited

def didUpdatePaymentAddress (s : State) (m : PayAddrMsg) : TxM State := do
  if !m.didOk then throw "invalid did"
  if !m.acc.ok then throw "invalid account id"
  let d := s.did
  match Map.find? d.paymentAddress m.did with
  | some old =>
    if m.did.isKey then throw "cannot change payment address of a key did"
    if old = m.acc.addr then throw "same payment address"
  | none => pure ()
  if !(d.creatorBound m.creator m.did) ∧ !m.did.isKey then throw "invalid creator"
  if m.acc.cosmos ∧ m.acc.chainOk then
    if m.did.isSid then
      let some stored := d.getDid m.acc.raw | throw "binding not found"
      if m.did ≠ stored.did then throw "inconsistent did"
      pure { s with did := { d with paymentAddress := Map.set d.paymentAddress stored.did m.acc.addr } }
    else if m.did.isKey then
      if m.acc.addr ≠ m.creator then throw "invalid account id"
      if (Map.find? d.kid m.acc.addr).isSome then throw "kid exists"
      pure { s with did := { d with paymentAddress := Map.set d.paymentAddress m.did m.acc.addr,
                                    kid := Map.set d.kid m.acc.addr m.did } }
    else throw "unsupported did"
  else throw "invalid chain address"

structure BindingMsg where
  creator : Addr
  acc : AccId
  rootDocId : Bytes
  did : Did              -- proof.Did
  didMatchesRoot : Bool  -- "did:sid:"+rootDocId == proof.Did
  fresh : Bool           -- proof.Timestamp + 15min ≥ the clock the handler reads
  accountDid : Bytes
  auth : StrId
  proofOk : Bool         -- verifyBindingProof succeeds
  proofNamesDid : Bool := true   -- the signed message mentions proof.Did (never inspected by the handler)
  docIdOk : Bool         -- CalculateDocId(keys, timestamp) == rootDocId
  keys : StrId
  deriving Repr, Inhabited

def didBinding (s : State) (m : BindingMsg) : TxM State := do
  let d := s.did
  if !m.didMatchesRoot then throw "inconsistent did"
  if !m.fresh then throw "out of date"
  if !m.acc.ok then throw "invalid account id"
  let accList := Map.find? d.accountList m.did
  if (accList.getD []).contains m.accountDid then throw "auth exists"
  if (Map.find? d.accountAuth m.accountDid).isSome then throw "auth exists"
  let storedAccId := Map.find? d.accountId m.accountDid
  if let some x := storedAccId then
    if x ≠ m.acc.raw then throw "invalid account id"
  if (d.getDid m.acc.raw).isSome then throw "binding exists"
  if !m.proofOk then throw "invalid binding proof"
  let d ← (match Map.find? d.sidDocumentVersion m.rootDocId with
    | some _ =>
      if !(d.creatorBound m.creator m.did) then throw "invalid creator" else pure d
    | none => do
      if !m.docIdOk then throw "inconsistent doc id"
      if (Map.find? d.sidDocument m.rootDocId).isSome then throw "doc exists"
      let d := { d with sidDocument := Map.set d.sidDocument m.rootDocId m.keys,
                        sidDocumentVersion := Map.set d.sidDocumentVersion m.rootDocId [m.rootDocId] }
      if m.acc.cosmos ∧ m.acc.chainOk ∧ (Map.find? d.paymentAddress m.did).isNone then
        pure { d with paymentAddress := Map.set d.paymentAddress m.did m.acc.addr }
      else pure d : TxM DidState)
  let d := { d with accountAuth := Map.set d.accountAuth m.accountDid m.auth,
                    accountList := Map.set d.accountList m.did ((accList.getD []) ++ [m.accountDid]),
                    did := d.did ++ [{ accountId := m.acc.raw, did := m.did, addr := if m.acc.cosmos ∧ m.acc.chainOk then m.acc.addr else 0 }] }
  let d := if storedAccId.isNone then { d with accountId := Map.set d.accountId m.accountDid m.acc.raw } else d
  pure { s with did := d }

structure DidUpdateMsg where
  creator : Addr
  did : Did
  didOk : Bool           -- parser.Parse(did) succeeds
  rootDocId : Bytes      -- parsedDid.ID
  newDocId : Bytes
  docIdOk : Bool         -- CalculateDocId(keys, timestamp) == newDocId
  fresh : Bool
  keys : StrId
  update : List (Bytes × StrId)   -- accountDid, auth
  remove : List Bytes
  pastSeed : Bytes
  /-- for each accountDid in `remove` whose AccountId exists: the parse of that stored account id -/
  removeAcc : List AccId
  deriving Repr, Inhabited

def didUpdate (s : State) (m : DidUpdateMsg) : TxM State := do
  let d := s.did
  if !(d.creatorBound m.creator m.did) then throw "invalid creator"
  if !m.fresh then throw "out of date"
  if m.remove.length = 0 then throw "no need to update"
  if m.update.length = 0 then throw "update list empty"
  let some accList := Map.find? d.accountList m.did | throw "account list not found"
  if accList.length ≠ m.remove.length + m.update.length then throw "invalid auth count"
  if !(accList.all (fun a => m.remove.contains a || m.update.any (·.1 = a))) then throw "unhandled account did"
  let ps := Map.find? d.pastSeeds m.did
  if (ps.getD []).contains m.pastSeed ∧ ps.isSome then throw "seed exists"
  let some payAddr := Map.find? d.paymentAddress m.did | throw "pay addr not set"
  -- check remove accounts
  let rec chk (l : List Bytes) (acc : List Bytes) : TxM (List Bytes) :=
    match l with
    | [] => pure acc
    | a :: t =>
      match Map.find? d.accountId a with
      | none => throw "account id not found"
      | some accId =>
        match m.removeAcc.find? (·.raw = accId) with
        | none => throw "harness did not describe the stored account id"
        | some c =>
          if !c.ok then throw "invalid account id"
          else if c.cosmos ∧ c.chainOk ∧ c.addr = payAddr then throw "cannot unbind payment address"
          else chk t (acc ++ [accId])
  let removeAccId ← chk m.remove []
  if !m.didOk then throw "invalid did"
  let versions := (Map.find? d.sidDocumentVersion m.rootDocId).getD []
  if versions.contains m.newDocId then throw "doc exists"
  if (Map.find? d.sidDocument m.newDocId).isSome then throw "doc exists"
  if !m.docIdOk then throw "inconsistent doc id"
  let d := { d with did := d.did.filter (fun x => !removeAccId.contains x.accountId) }
  let d := { d with accountId := m.remove.foldl (fun acc a => Map.erase acc a) d.accountId }
  let d := { d with sidDocument := Map.set d.sidDocument m.newDocId m.keys,
                    sidDocumentVersion := Map.set d.sidDocumentVersion m.rootDocId (versions ++ [m.newDocId]) }
  let d := { d with accountAuth := m.update.foldl (fun acc (u : Bytes × StrId) => Map.set acc u.1 u.2) d.accountAuth }
  let d := { d with accountAuth := m.remove.foldl (fun acc a => Map.erase acc a) d.accountAuth }
  let accList' := m.remove.foldl (fun l a => l.erase a) accList
  let d := { d with accountList := Map.set d.accountList m.did accList' }
  let d := { d with pastSeeds := Map.set d.pastSeeds m.did ((ps.getD []) ++ [m.pastSeed]) }
  pure { s with did := d }

end SaoVerif
