import SaoVerif.Model.Store
/-! Model of x/did message handlers (Binding, Update, UpdatePaymentAddress). Cryptographic
    facts (proof signature valid, doc-id hash matches, timestamp fresh w.r.t. the clock the handler
    reads) are inputs computed by the harness from what it actually did. -/
namespace SaoVerif

structure AccId where
  raw : Bytes        -- the accountId string
  ok : Bool          -- matches the CAIP-10 regex
  cosmos : Bool      -- network = "cosmos"
  chainOk : Bool     -- chain = ctx.ChainID()
  eip155 : Bool      -- network = "eip155"
  addr : Addr        -- interned third component
  deriving Repr, Inhabited

def DidState.getDid (d : DidState) (accId : Bytes) : Option DidEntry := d.did.find? (·.accountId = accId)
def DidState.creatorBound (d : DidState) (creator : Addr) (did : Did) : Bool :=
  match d.did.find? (fun x => x.addr = creator) with
  | some x => x.did = did
  | none => false

structure PayAddrMsg where
  creator : Addr
  did : Did
  didOk : Bool       -- saodidparser.Parse succeeds
  acc : AccId
  deriving Repr, Inhabited

/-- the first check of `UpdatePaymentAddress` that fails, if any -/
def payAddrPre (d : DidState) (m : PayAddrMsg) : Option String :=
  if !m.didOk then some "invalid did"
  else if !m.acc.ok then some "invalid account id"
  else if (Map.find? d.paymentAddress m.did).isSome ∧ m.did.isKey then some "cannot change payment address of a key did"
  else if Map.find? d.paymentAddress m.did = some m.acc.addr then some "same payment address"
  else if !(d.creatorBound m.creator m.did) ∧ !m.did.isKey then some "invalid creator"
  else if !(m.acc.cosmos ∧ m.acc.chainOk) then some "invalid chain address"
  else if m.did.isSid then
    match d.getDid m.acc.raw with
    | none => some "binding not found"
    | some stored => if m.did ≠ stored.did then some "inconsistent did" else none
  else if m.did.isKey then
    if m.acc.addr ≠ m.creator then some "invalid account id"
    else if (Map.find? d.kid m.acc.addr).isSome then some "kid exists"
    else none
  else some "unsupported did"

def payAddrApply (d : DidState) (m : PayAddrMsg) : DidState :=
  if m.did.isSid then { d with paymentAddress := Map.set d.paymentAddress m.did m.acc.addr }
  else { d with paymentAddress := Map.set d.paymentAddress m.did m.acc.addr,
                kid := Map.set d.kid m.acc.addr m.did }

def didUpdatePaymentAddress (s : State) (m : PayAddrMsg) : TxM State :=
  match payAddrPre s.did m with
  | some e => throw e
  | none => pure { s with did := payAddrApply s.did m }

structure BindingMsg where
  creator : Addr
  acc : AccId
  rootDocId : Bytes
  did : Did              -- proof.Did
  didMatchesRoot : Bool  -- "did:sid:"+rootDocId == proof.Did
  fresh : Bool           -- proof.Timestamp + 15min ≥ the clock the handler reads
  accountDid : Bytes
  auth : StrId
  proofOk : Bool         -- verifyBindingProof succeeds
  proofNamesDid : Bool := true   -- the signed message mentions proof.Did (never inspected by the handler)
  docIdOk : Bool         -- CalculateDocId(keys, timestamp) == rootDocId
  keys : StrId
  deriving Repr, Inhabited

/-- the first check of `Binding` that fails, if any -/
def bindingPre (d : DidState) (m : BindingMsg) : Option String :=
  if !m.didMatchesRoot then some "inconsistent did"
  else if !m.fresh then some "out of date"
  else if !m.acc.ok then some "invalid account id"
  else if ((Map.find? d.accountList m.did).getD []).contains m.accountDid then some "auth exists"
  else if (Map.find? d.accountAuth m.accountDid).isSome then some "auth exists"
  else if ((Map.find? d.accountId m.accountDid).any (· != m.acc.raw)) then some "invalid account id"
  else if (d.getDid m.acc.raw).isSome then some "binding exists"
  else if !m.proofOk then some "invalid binding proof"
  else match Map.find? d.sidDocumentVersion m.rootDocId with
    | some _ => if !(d.creatorBound m.creator m.did) then some "invalid creator" else none
    | none =>
      if !m.docIdOk then some "inconsistent doc id"
      else if (Map.find? d.sidDocument m.rootDocId).isSome then some "doc exists"
      else none

def bindingApply (d0 : DidState) (m : BindingMsg) : DidState :=
  let accList := Map.find? d0.accountList m.did
  let storedAccId := Map.find? d0.accountId m.accountDid
  let d := match Map.find? d0.sidDocumentVersion m.rootDocId with
    | some _ => d0
    | none =>
      let d := { d0 with sidDocument := Map.set d0.sidDocument m.rootDocId m.keys,
                         sidDocumentVersion := Map.set d0.sidDocumentVersion m.rootDocId [m.rootDocId] }
      if m.acc.cosmos ∧ m.acc.chainOk ∧ (Map.find? d.paymentAddress m.did).isNone then
        { d with paymentAddress := Map.set d.paymentAddress m.did m.acc.addr }
      else d
  let d := { d with accountAuth := Map.set d.accountAuth m.accountDid m.auth,
                    accountList := Map.set d.accountList m.did ((accList.getD []) ++ [m.accountDid]),
                    did := d.did ++ [{ accountId := m.acc.raw, did := m.did, addr := if m.acc.cosmos ∧ m.acc.chainOk then m.acc.addr else 0 }] }
  if storedAccId.isNone then { d with accountId := Map.set d.accountId m.accountDid m.acc.raw } else d

def didBinding (s : State) (m : BindingMsg) : TxM State :=
  match bindingPre s.did m with
  | some e => throw e
  | none => pure { s with did := bindingApply s.did m }

structure DidUpdateMsg where
  creator : Addr
  did : Did
  didOk : Bool           -- parser.Parse(did) succeeds
  rootDocId : Bytes      -- parsedDid.ID
  newDocId : Bytes
  docIdOk : Bool         -- CalculateDocId(keys, timestamp) == newDocId
  fresh : Bool
  keys : StrId
  update : List (Bytes × StrId)   -- accountDid, auth
  remove : List Bytes
  pastSeed : Bytes
  /-- for each accountDid in `remove` whose AccountId exists: the parse of that stored account id -/
  removeAcc : List AccId
  deriving Repr, Inhabited

/-- the unbinding loop: every removed accountDid has a stored account id, and none of them is the
    DID's payment account on this chain -/
def updateChk (m : DidUpdateMsg) (d : DidState) (payAddr : Addr) (l : List Bytes) (acc : List Bytes) : TxM (List Bytes) :=
  match l with
  | [] => pure acc
  | a :: t =>
    match Map.find? d.accountId a with
    | none => throw "account id not found"
    | some accId =>
      match m.removeAcc.find? (·.raw = accId) with
      | none => throw "harness did not describe the stored account id"
      | some c =>
        if !c.ok then throw "invalid account id"
        else if c.cosmos ∧ c.chainOk ∧ c.addr = payAddr then throw "cannot unbind payment address"
        else updateChk m d payAddr t (acc ++ [accId])

def updatePre1 (d : DidState) (m : DidUpdateMsg) (accList : List Bytes) : Option String :=
  if !(d.creatorBound m.creator m.did) then some "invalid creator"
  else if !m.fresh then some "out of date"
  else if m.remove.length = 0 then some "no need to update"
  else if m.update.length = 0 then some "update list empty"
  else if accList.length ≠ m.remove.length + m.update.length then some "invalid auth count"
  else if !(accList.all (fun a => m.remove.contains a || m.update.any (·.1 = a))) then some "unhandled account did"
  else if ((Map.find? d.pastSeeds m.did).getD []).contains m.pastSeed ∧ (Map.find? d.pastSeeds m.did).isSome then some "seed exists"
  else none

def updatePre2 (d : DidState) (m : DidUpdateMsg) : Option String :=
  if !m.didOk then some "invalid did"
  else if ((Map.find? d.sidDocumentVersion m.rootDocId).getD []).contains m.newDocId then some "doc exists"
  else if (Map.find? d.sidDocument m.newDocId).isSome then some "doc exists"
  else if !m.docIdOk then some "inconsistent doc id"
  else none

def updateApply (d : DidState) (m : DidUpdateMsg) (accList removeAccId : List Bytes) : DidState :=
  let versions := (Map.find? d.sidDocumentVersion m.rootDocId).getD []
  let ps := Map.find? d.pastSeeds m.did
  let d := { d with did := d.did.filter (fun x => !removeAccId.contains x.accountId) }
  let d := { d with accountId := m.remove.foldl (fun acc a => Map.erase acc a) d.accountId }
  let d := { d with sidDocument := Map.set d.sidDocument m.newDocId m.keys,
                    sidDocumentVersion := Map.set d.sidDocumentVersion m.rootDocId (versions ++ [m.newDocId]) }
  let d := { d with accountAuth := m.update.foldl (fun acc (u : Bytes × StrId) => Map.set acc u.1 u.2) d.accountAuth }
  let d := { d with accountAuth := m.remove.foldl (fun acc a => Map.erase acc a) d.accountAuth }
  let accList' := m.remove.foldl (fun l a => l.erase a) accList
  let d := { d with accountList := Map.set d.accountList m.did accList' }
  { d with pastSeeds := Map.set d.pastSeeds m.did ((ps.getD []) ++ [m.pastSeed]) }

def didUpdate (s : State) (m : DidUpdateMsg) : TxM State :=
  match Map.find? s.did.accountList m.did, Map.find? s.did.paymentAddress m.did with
  | some accList, some payAddr =>
    match updatePre1 s.did m accList with
    | some e => throw e
    | none =>
      match updateChk m s.did payAddr m.remove [] with
      | .error e => throw e
      | .ok removeAccId =>
        match updatePre2 s.did m with
        | some e => throw e
        | none => pure { s with did := updateApply s.did m accList removeAccId }
  | none, _ => throw "account list not found"
  | _, none => throw "pay addr not set"

end SaoVerif
