import SaoVerif.Model.Base
/-! Records of the six custom stores and the abstract chain state (DESIGN §3.3). -/
namespace SaoVerif

abbrev Addr := Nat      -- interned bech32 account address, 0 = ""
abbrev Did := Nat       -- 3*k + method (1 = did:key, 2 = did:sid, 0 = other), 0 = ""
abbrev ValAddr := Nat   -- interned validator operator address, 0 = ""
abbrev StrId := Nat     -- interned opaque string

def Did.isKey (d : Did) : Bool := d % 3 == 1
def Did.isSid (d : Did) : Bool := d % 3 == 2 && d != 0

-- order status
def OrderPending : Int := 0
def OrderInProgress : Int := 1
def OrderCompleted : Int := 3
def OrderDataReady : Int := 6
-- shard status
def ShardWaiting : Int := 0
def ShardCompleted : Int := 2
def ShardMigrating : Int := 4
def ShardTimeout : Int := 5
-- meta status
def MetaNew : Int := 0
def MetaComplete : Int := 4
-- node status bits
def ST_ONLINE : Nat := 1
def ST_GATEWAY : Nat := 2
def ST_STORAGE : Nat := 4
def ST_ACCEPT : Nat := 8
def ST_SUPER_REQ : Nat := 15
def ST_SELECT : Nat := 13   -- ONLINE | SERVE_STORAGE | ACCEPT_ORDER

structure Order where
  id : Nat
  creator : Addr
  owner : Did
  provider : Addr
  cid : StrId
  duration : Nat
  status : Int
  replica : Int
  shards : List Nat
  amount : Int
  size : Nat
  operation : Nat
  createdAt : Nat
  timeout : Nat
  dataId : Bytes
  commit : Bytes
  unitPrice : Dec
  paymentDid : Did
  deriving DecidableEq, Repr, Inhabited

structure RenewInfo where
  orderId : Nat
  pledge : Int
  duration : Nat
  deriving DecidableEq, Repr, Inhabited

structure Shard where
  id : Nat
  orderId : Nat
  status : Int
  size : Nat
  cid : StrId
  pledge : Int
  «from» : Addr
  sp : Addr
  duration : Nat
  createdAt : Nat
  renewInfos : List RenewInfo
  deriving DecidableEq, Repr, Inhabited

structure Metadata where
  dataId : Bytes
  owner : Did
  alias : StrId
  groupId : StrId
  orderId : Nat
  tags : List StrId
  cid : StrId
  commits : List Bytes
  extendInfo : StrId
  update : Bool
  commit : Bytes
  rule : StrId
  duration : Nat
  createdAt : Nat
  readonlyDids : List Did
  readwriteDids : List Did
  status : Int
  orders : List Nat
  deriving DecidableEq, Repr, Inhabited

structure ModelKey where
  owner : Did
  alias : StrId
  groupId : StrId
  deriving DecidableEq, Repr, Inhabited

structure ModelEntry where
  key : ModelKey
  data : Bytes
  deriving DecidableEq, Repr, Inhabited

structure Node where
  creator : Addr
  peer : StrId
  reputation : Int
  status : Nat
  lastAlive : Int
  txAddresses : List Addr
  role : Nat
  validator : ValAddr
  desc : StrId
  deriving DecidableEq, Repr, Inhabited

structure Pledge where
  creator : Addr
  totalStoragePledged : Int
  totalShardPledged : Int
  reward : Dec
  rewardDebt : Dec
  totalStorage : Int
  usedStorage : Int
  deriving DecidableEq, Repr, Inhabited

structure Pool where
  totalPledged : Int
  totalReward : Int
  accPledgePerByte : Dec
  accRewardPerByte : Dec
  rewardPerBlock : Dec
  nextRewardPerBlock : Dec
  totalStorage : Int
  rewardedBlockCount : Int
  totalRewardIsSao : Bool
  deriving DecidableEq, Repr, Inhabited

structure NodeParams where
  blockReward : Int
  baseline : Int
  apy : Dec
  apyOk : Bool
  halvingPeriod : Int
  adjustmentPeriod : Int
  fishmen : List Addr
  penaltyBase : Nat
  maxPenalty : Nat
  shareThreshold : Dec
  vstorageThreshold : Int
  offlineTriggerHeight : Int
  denomIsSao : Bool
  deriving DecidableEq, Repr, Inhabited

structure Worker where
  sp : Addr
  storage : Nat
  reward : Dec
  incomePerSecond : Dec
  lastRewardAt : Int
  deriving DecidableEq, Repr, Inhabited

structure Fault where
  key : StrId
  dataId : Bytes
  orderId : Nat
  shardId : Nat
  commitId : Bytes
  provider : Addr
  reporter : Addr
  faultId : StrId
  status : Nat
  penalty : Nat
  confirms : List (List Int)
  deriving DecidableEq, Repr, Inhabited

structure FaultIdx where
  provider : Addr
  shardId : Nat
  faultId : StrId
  deriving DecidableEq, Repr, Inhabited

structure ValidatorV where
  addr : ValAddr
  tokens : Int
  shares : Dec
  status : Nat
  deriving DecidableEq, Repr, Inhabited

structure DelegationV where
  del : Addr
  val : ValAddr
  shares : Dec
  deriving DecidableEq, Repr, Inhabited

/-- number of unbonding-delegation entries of a (delegator, validator) pair (x/staking caps it at MaxEntries) -/
structure UnbondingV where
  del : Addr
  val : ValAddr
  entries : Nat
  deriving DecidableEq, Repr, Inhabited

/-- number of pending redelegation entries of a (delegator, source, destination) triple -/
structure RedelegationV where
  del : Addr
  src : ValAddr
  dst : ValAddr
  entries : Nat
  deriving Repr, DecidableEq, Inhabited

structure StakingView where
  validators : List ValidatorV
  delegations : List DelegationV
  unbonding : List UnbondingV := []
  redelegations : List RedelegationV := []
  deriving DecidableEq, Repr, Inhabited

structure DidEntry where
  accountId : Bytes
  did : Did
  addr : Addr        -- the cosmos address when accountId = cosmos:<this chain>:<addr>, else 0
  deriving DecidableEq, Repr, Inhabited

structure DidState where
  did : List DidEntry                      -- accountId -> did
  accountList : List (Did × List Bytes)    -- did -> accountDids
  accountAuth : List (Bytes × StrId)
  accountId : List (Bytes × Bytes)         -- accountDid -> accountId
  paymentAddress : List (Did × Addr)
  kid : List (Addr × Did)
  sidDocument : List (Bytes × StrId)
  sidDocumentVersion : List (Bytes × List Bytes)
  pastSeeds : List (Did × List Bytes)
  didBalances : List (Did × Int)
  deriving DecidableEq, Repr, Inhabited

structure State where
  h : Int
  seed : Nat
  bank : Map Addr Int
  supply : Int
  orders : List Order
  orderCount : Option Nat
  shards : List Shard
  shardCount : Nat
  metas : List Metadata
  models : List ModelEntry
  expiredData : Map Nat (List Bytes)
  timeoutQ : Map Nat (List Nat)
  expiredShardQ : Map Nat (List Nat)
  nodes : List Node
  nodeRound : Option Nat
  pledges : List Pledge
  debts : Map Addr Int
  pool : Option Pool
  params : NodeParams
  faults : List Fault
  faultIdx : List FaultIdx
  fishing : List ((Nat × Nat) × Dec)   -- key: (0, account address) or (1, interned other string such as "Insurance")
  workers : List Worker
  did : DidState
  staking : StakingView
  deriving DecidableEq, Repr, Inhabited

/-- the whole system as a process sees it: the committed stores plus the one mutable package
    variable of the code base (`x/node/keeper.sharesBeforeModified`). Message handlers and
    blockers are functions of `State` only — they cannot observe `global` by construction; only
    the staking hooks (`Model/Staking.lean`) take it as an extra argument. -/
structure Sys where
  st : State
  global : Dec
  deriving DecidableEq, Repr, Inhabited

/-- static facts about the scenario that are not state: module account ids, address order. -/
structure Env where
  modOrder : Addr
  modMarket : Addr
  modNode : Addr
  modDid : Addr
  rank : List (Addr × Nat)     -- lexicographic rank of each bech32 address (node store iteration order)
  chainOk : Bool := true
  modBonded : Addr := 0
  modNotBonded : Addr := 0
  rankB : List (Addr × Nat) := []      -- raw-byte order of account addresses (staking store keys)
  valRankB : List (ValAddr × Nat) := [] -- raw-byte order of validator addresses
  deriving Repr, Inhabited

end SaoVerif
