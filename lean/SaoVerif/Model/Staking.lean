import SaoVerif.Model.Node
/-! The slice of x/staking the node hooks observe (Delegate / Undelegate at exchange rate
    shares:tokens as stored) and x/node/keeper/hooks.go. The package variable
    `sharesBeforeModified` is `State.global`: it is *not* committed state, so a failing
    transaction rolls back everything except it (see `stakeStep`). -/
namespace SaoVerif

def Env.rankBOf (e : Env) (a : Addr) : Nat := (Map.find? e.rankB a).getD (1000000 + a)
def Env.valRankBOf (e : Env) (v : ValAddr) : Nat := (Map.find? e.valRankB v).getD (1000000 + v)

def delKeyLt (e : Env) (a b : DelegationV) : Bool :=
  e.rankBOf a.del < e.rankBOf b.del || (e.rankBOf a.del == e.rankBOf b.del && e.valRankBOf a.val < e.valRankBOf b.val)

/-- store-ordered upsert of a delegation -/
def setDelegation (e : Env) (l : List DelegationV) (d : DelegationV) : List DelegationV :=
  match l with
  | [] => [d]
  | x :: t =>
    if x.del = d.del ∧ x.val = d.val then d :: t
    else if delKeyLt e d x then d :: x :: t
    else x :: setDelegation e t d

def setValidator (l : List ValidatorV) (v : ValidatorV) : List ValidatorV :=
  l.map (fun x => if x.addr = v.addr then v else x)

def setRole (e : Env) (s : State) (a : Addr) (role : Nat) (val : Option ValAddr) : State :=
  match s.getNode a with
  | none => s.setNode e { (default : Node) with creator := 0, role := role, validator := val.getD 0 }  -- SetNode of a zero node (unreachable: callers found it)
  | some n => s.setNode e { n with role := role, validator := val.getD n.validator }

/-- `verifySuperStorageNodes(valAddr, accAddr, beforeDelegationRemoved)` -/
def verifySuper (e : Env) (s : State) (g : Dec) (val : ValAddr) (acc : Option Addr) (beforeRemoved : Bool) : TxM (State × Dec) := do
  let dels := s.staking.delegations.filter (·.val = val)
  let sharesToSub : Dec ← (match acc with
    | some a =>
      if g ≠ 0 then
        match s.staking.delegation a val with
        | none => throw "nil pointer dereference"   -- Delegation() returned nil
        | some d =>
          if g > d.shares then pure (g - d.shares)
          else if beforeRemoved then pure d.shares
          else pure 0
      else pure 0
    | none => pure 0 : TxM Dec)
  let rec loop (l : List DelegationV) (s : State) : TxM State :=
    match l with
    | [] => pure s
    | d :: t =>
      match s.getNode d.del with
      | none => loop t s
      | some node =>
        if !(node.validator = 0 || node.validator = val) then loop t s else
        if beforeRemoved && acc = some d.del then
          loop t (if node.role = 1 then setRole e s node.creator 0 none else s)
        else if node.status &&& ST_SUPER_REQ ≠ ST_SUPER_REQ then
          loop t (if node.role = 1 then setRole e s node.creator 0 none else s)
        else
          let pledged := match s.getPledge d.del with
            | some p => p.totalStorage ≥ s.params.vstorageThreshold
            | none => false
          if !pledged then loop t (if node.role = 1 then setRole e s node.creator 0 none else s)
          else do
            let ok ← checkDelegationShare s d.del val sharesToSub
            if ok then
              loop t (if node.role = 0 then setRole e s node.creator 1 (some val) else s)
            else
              loop t (if node.role = 1 then setRole e s node.creator 0 none else s)
  let s ← loop dels s
  pure (s, 0)   -- `if !sharesBeforeModified.IsZero() { sharesBeforeModified = 0 }`

/-- `msgServer.Delegate`. Returns the value of the package variable at the point where the
    transaction ended (kept even when the transaction fails) and the transaction result. -/
def stakeDelegate (e : Env) (s : State) (g0 : Dec) (del : Addr) (val : ValAddr) (amt : Int) : Dec × TxM State :=
  match s.staking.validator val with
  | none => (g0, throw "validator not found")
  | some v =>
    let existing := s.staking.delegation del val
    -- BeforeDelegationSharesModified / BeforeDelegationCreated
    let g := match existing with
      | some d => d.shares
      | none => g0
    let pool := if v.status = 3 then e.modBonded else e.modNotBonded
    match s.send del pool amt with
    | .error m => (g, throw m)
    | .ok s =>
      let issued : Dec := if v.shares = 0 then Dec.ofInt amt
        else if v.tokens = 0 then 0 else Dec.quoInt (Dec.mulInt v.shares amt) v.tokens
      if v.shares ≠ 0 ∧ v.tokens = 0 then (g, throw "invalid exchange rate") else
      let v' := { v with tokens := v.tokens + amt, shares := v.shares + issued }
      let d' : DelegationV := { del := del, val := val, shares := (existing.map (·.shares)).getD 0 + issued }
      let s := { s with staking := { s.staking with validators := setValidator s.staking.validators v',
                                                    delegations := setDelegation e s.staking.delegations d' } }
      match verifySuper e s g val (some del) false with
      | .error m => (g, throw m)
      | .ok (s', g') => (g', pure s')

/-- x/staking `MaxEntries` (default parameter): unbonding entries a (delegator, validator) pair may have pending -/
def MaxUnbondingEntries : Nat := 7

def StakingView.unbondingEntries (v : StakingView) (del : Addr) (val : ValAddr) : Nat :=
  ((v.unbonding.find? (fun u => u.del = del ∧ u.val = val)).map (·.entries)).getD 0

/-- one more pending entry for the pair; the list is kept in (delegator, validator) order -/
def addUnbondingEntry (l : List UnbondingV) (del : Addr) (val : ValAddr) : List UnbondingV :=
  match l with
  | [] => [{ del := del, val := val, entries := 1 }]
  | u :: t =>
    if u.del = del ∧ u.val = val then { u with entries := u.entries + 1 } :: t
    else if del < u.del ∨ (del = u.del ∧ val < u.val) then { del := del, val := val, entries := 1 } :: u :: t
    else u :: addUnbondingEntry t del val

/-- `msgServer.Undelegate` -/
def stakeUndelegate (e : Env) (s : State) (g0 : Dec) (del : Addr) (val : ValAddr) (amt : Int) : Dec × TxM State :=
  match s.staking.validator val, s.staking.delegation del val with
  | none, _ => (g0, throw "validator not found")
  | _, none => (g0, throw "no delegation")
  | some v, some d =>
    if v.tokens = 0 then (g0, throw "insufficient shares") else
    let shares0 := Dec.quoInt (Dec.mulInt v.shares amt) v.tokens
    if shares0 > d.shares then (g0, throw "invalid shares amount") else
    -- keeper.Undelegate: HasMaxUnbondingDelegationEntries is checked before Unbond (and its hooks) run
    if s.staking.unbondingEntries del val ≥ MaxUnbondingEntries then (g0, throw "too many unbonding delegation entries") else
    let shares := shares0
    -- Unbond: BeforeDelegationSharesModified
    let g : Dec := d.shares
    let d' : DelegationV := { d with shares := d.shares - shares }
    let r : TxM (State × Dec) :=
      if d'.shares = (0 : Int) then do
        -- RemoveDelegation: BeforeDelegationRemoved hook sees the old record
        let (s, g') ← verifySuper e s g val (some del) true
        pure ({ s with staking := { s.staking with delegations := s.staking.delegations.filter (fun x => !(x.del = del ∧ x.val = val)) } }, g')
      else do
        let s := { s with staking := { s.staking with delegations := setDelegation e s.staking.delegations d' } }
        verifySuper e s g val (some del) false
    match r with
    | .error m => (g, throw m)
    | .ok (s, g') =>
      -- RemoveValidatorTokensAndShares
      let remaining := v.shares - shares
      let issuedTokens := if remaining = 0 then v.tokens else Dec.truncate (Dec.quo (Dec.mulInt shares v.tokens) v.shares)
      let v' := { v with tokens := v.tokens - issuedTokens, shares := remaining }
      let s := { s with staking := { s.staking with validators := setValidator s.staking.validators v' } }
      if v.status = 3 then
        match s.send e.modBonded e.modNotBonded issuedTokens with
        | .error m => (g', throw m)
        | .ok s' => (g', pure { s' with staking := { s'.staking with unbonding := addUnbondingEntry s'.staking.unbonding del val } })
      else (g', pure s)

/-- x/staking `MaxEntries` also caps the redelegation entries of a (delegator, source, destination) triple -/
def StakingView.redelegationEntries (v : StakingView) (del : Addr) (src dst : ValAddr) : Nat :=
  ((v.redelegations.find? (fun u => u.del = del ∧ u.src = src ∧ u.dst = dst)).map (·.entries)).getD 0

/-- `HasReceivingRedelegation`: the delegator has a redelegation in progress whose destination is `val` -/
def StakingView.hasReceivingRedelegation (v : StakingView) (del : Addr) (val : ValAddr) : Bool :=
  v.redelegations.any (fun u => u.del = del ∧ u.dst = val)

/-- one more pending entry for the triple; the list is kept in (delegator, source, destination) order -/
def addRedelegationEntry (l : List RedelegationV) (del : Addr) (src dst : ValAddr) : List RedelegationV :=
  match l with
  | [] => [{ del := del, src := src, dst := dst, entries := 1 }]
  | u :: t =>
    if u.del = del ∧ u.src = src ∧ u.dst = dst then { u with entries := u.entries + 1 } :: t
    else if del < u.del ∨ (del = u.del ∧ (src < u.src ∨ (src = u.src ∧ dst < u.dst))) then
      { del := del, src := src, dst := dst, entries := 1 } :: u :: t
    else u :: addRedelegationEntry t del src dst

/-- the checks of `BeginRedelegate` before anything is written: the unbond amount, the two validators, no transitive
    redelegation, not too many entries. Returns source validator, source delegation, destination validator, shares. -/
def redelegateGuards (s : State) (del : Addr) (src dst : ValAddr) (amt : Int) : TxM (ValidatorV × DelegationV × ValidatorV × Dec) :=
  match s.staking.validator src, s.staking.delegation del src with
  | none, _ => throw "validator not found"
  | _, none => throw "no delegation"
  | some v, some d =>
    if v.tokens = 0 then throw "insufficient shares" else
    let shares := Dec.quoInt (Dec.mulInt v.shares amt) v.tokens
    if shares > d.shares then throw "invalid shares amount" else
    if src = dst then throw "cannot redelegate to the same validator" else
    match s.staking.validator dst with
    | none => throw "redelegation destination validator not found"
    | some v2 =>
      if s.staking.hasReceivingRedelegation del src then throw "redelegation to this validator already in progress" else
      if s.staking.redelegationEntries del src dst ≥ MaxUnbondingEntries then throw "too many redelegation entries" else
      pure (v, d, v2, shares)

/-- `Unbond(del, src, shares)`: the hooks run as for an undelegation, the delegation shrinks or disappears, the validator
    loses the tokens the shares are worth. Returns the package variable where the step ended, and on success the state, the
    variable and the tokens returned. -/
def redelegateUnbond (e : Env) (s : State) (v : ValidatorV) (d : DelegationV) (del : Addr) (src : ValAddr) (shares : Dec) :
    Dec × TxM (State × Dec × Int) :=
  -- BeforeDelegationSharesModified(src)
  let g : Dec := d.shares
  let d' : DelegationV := { d with shares := d.shares - shares }
  let r : TxM (State × Dec) :=
    if d'.shares = (0 : Int) then do
      let (s, g') ← verifySuper e s g src (some del) true
      pure ({ s with staking := { s.staking with delegations := s.staking.delegations.filter (fun x => !(x.del = del ∧ x.val = src)) } }, g')
    else do
      let s := { s with staking := { s.staking with delegations := setDelegation e s.staking.delegations d' } }
      verifySuper e s g src (some del) false
  match r with
  | .error m => (g, throw m)
  | .ok (s, g') =>
    -- RemoveValidatorTokensAndShares(src)
    let remaining := v.shares - shares
    let issuedTokens := if remaining = 0 then v.tokens else Dec.truncate (Dec.quo (Dec.mulInt shares v.tokens) v.shares)
    let v' := { v with tokens := v.tokens - issuedTokens, shares := remaining }
    (g', pure ({ s with staking := { s.staking with validators := setValidator s.staking.validators v' } }, g', issuedTokens))

/-- `Delegate(del, tokens, src status, dst validator, subtractAccount = false)` and the redelegation entry -/
def redelegateDelegate (e : Env) (s : State) (g' : Dec) (v v2 : ValidatorV) (del : Addr) (src dst : ValAddr) (tokens : Int) : Dec × TxM State :=
  if v2.shares ≠ 0 ∧ v2.tokens = 0 then (g', throw "invalid exchange rate") else
  let existing := s.staking.delegation del dst
  let g2 : Dec := match existing with
    | some d2 => d2.shares      -- BeforeDelegationSharesModified(dst)
    | none => g'                -- BeforeDelegationCreated(dst) does nothing
  let moved : TxM State :=
    if v.status = 3 ∧ v2.status ≠ 3 then s.send e.modBonded e.modNotBonded tokens
    else if v.status ≠ 3 ∧ v2.status = 3 then s.send e.modNotBonded e.modBonded tokens
    else pure s
  match moved with
  | .error m => (g2, throw m)
  | .ok s =>
    let issued : Dec := if v2.shares = 0 then Dec.ofInt tokens else Dec.quoInt (Dec.mulInt v2.shares tokens) v2.tokens
    let v2' := { v2 with tokens := v2.tokens + tokens, shares := v2.shares + issued }
    let d2' : DelegationV := { del := del, val := dst, shares := (existing.map (·.shares)).getD 0 + issued }
    let s := { s with staking := { s.staking with validators := setValidator s.staking.validators v2',
                                                  delegations := setDelegation e s.staking.delegations d2' } }
    match verifySuper e s g2 dst (some del) false with
    | .error m => (g2, throw m)
    | .ok (s', g3) =>
      -- getBeginInfo: an unbonded source completes at once; otherwise the redelegation is recorded
      if v.status = 1 then (g3, pure s')
      else (g3, pure { s' with staking := { s'.staking with redelegations := addRedelegationEntry s'.staking.redelegations del src dst } })

/-- `msgServer.BeginRedelegate`: `Unbond` from the source validator, then `Delegate` the returned tokens to the destination
    without touching the delegator's account; the coins move between the staking pools only when the two validators differ
    in bonded status -/
def stakeRedelegate (e : Env) (s : State) (g0 : Dec) (del : Addr) (src dst : ValAddr) (amt : Int) : Dec × TxM State :=
  match redelegateGuards s del src dst amt with
  | .error m => (g0, throw m)
  | .ok (v, d, v2, shares) =>
    match redelegateUnbond e s v d del src shares with
    | (g, .error m) => (g, throw m)
    | (_, .ok (s1, g', tokens)) =>
      if tokens = 0 then (g', throw "too few tokens to redelegate")
      else redelegateDelegate e s1 g' v v2 del src dst tokens

end SaoVerif
