import SaoVerif.Model.Store
/-! Model of x/node: pledges, block reward, claims, debt, super-node checks. -/
namespace SaoVerif

/-- Go `int64(x)` for a `uint64` value. -/
def toI64 (n : Nat) : Int :=
  let m := n % 18446744073709551616
  if m < 9223372036854775808 then (m : Int) else (m : Int) - 18446744073709551616

/-- Go `uint64(x)` for an `int64` value. -/
def toU64 (i : Int) : Nat := (i % 18446744073709551616).toNat

/-- round a non-negative integer to float32 precision (24 significant bits, ties to even). -/
def f32round (i : Int) : Int :=
  if i < 0 then i else
  let n := i.toNat
  if n < 16777216 then i else
  let bits := Nat.log2 n + 1
  let sh := bits - 24
  let q := n >>> sh
  let r := n - (q <<< sh)
  let half := 1 <<< (sh - 1)
  let q' := if r < half then q else if r > half then q + 1 else if q % 2 = 0 then q else q + 1
  ((q' <<< sh : Nat) : Int)

/-! ### staking view -/
def StakingView.delegation (v : StakingView) (d : Addr) (val : ValAddr) : Option DelegationV :=
  v.delegations.find? (fun x => x.del = d ∧ x.val = val)
def StakingView.validator (v : StakingView) (val : ValAddr) : Option ValidatorV :=
  v.validators.find? (·.addr = val)

/-- `CheckDelegationShare`; `none` = ok, `some msg` = error. A zero divisor panics. -/
def checkDelegationShare (s : State) (del : Addr) (val : ValAddr) (sharesToSub : Dec) : TxM Bool := do
  if val = 0 then return false   -- ValAddressFromBech32("") fails
  match s.staking.delegation del val with
  | none => return false
  | some d =>
    match s.staking.validator val with
    | none => return false
    | some v =>
      if v.shares = sharesToSub then return false
      let total := v.shares - sharesToSub
      if total = 0 then throw "Quo by zero"
      let ratio := Dec.quo d.shares total
      return !(ratio < s.params.shareThreshold)

/-- `CheckNodeShare`: returns the updated node when the share requirement is met. -/
def checkNodeShare (s : State) (n : Node) : TxM (Option Node) := do
  if n.validator ≠ 0 then
    if (← checkDelegationShare s n.creator n.validator 0) then
      return some { n with role := 1 }
    else return none
  else
    let dels := s.staking.delegations.filter (·.del = n.creator)
    let rec go (l : List DelegationV) : TxM (Option Node) :=
      match l with
      | [] => pure none
      | d :: t => do
        if (← checkDelegationShare s n.creator d.val 0) then
          pure (some { n with role := 1, validator := d.val })
        else go t
    go dels

/-! ### messages -/
def nodeCreate (e : Env) (s : State) (creator : Addr) : TxM State := do
  if (s.getNode creator).isSome then throw "already registered"
  pure (s.setNode e { creator := creator, peer := 0, reputation := 10000, status := 0, lastAlive := s.h,
                      txAddresses := [], role := 0, validator := 0, desc := 0 })

structure ResetMsg where
  creator : Addr
  status : Nat
  peer : StrId
  peerOk : Bool
  validator : ValAddr
  valKnown : Bool      -- the validator string parses as a bech32 validator address
  txAddrs : List Addr
  deriving Repr, Inhabited

/-! `MsgReset` computes the record it writes back from the one it read, field by field (no state change until the write) -/
def resetStatus (m : ResetMsg) (node : Node) : Node :=
  if m.status ≠ 0 ∧ node.status ≠ m.status then { node with status := m.status } else node

def resetPeer (m : ResetMsg) (node : Node) : TxM Node :=
  if m.peer ≠ 0 ∧ node.peer ≠ m.peer then
    if m.peerOk then pure { node with peer := m.peer } else throw "invalid peer"
  else pure node

def resetValidator (s : State) (m : ResetMsg) (node : Node) : TxM Node :=
  if m.validator ≠ 0 ∧ node.validator ≠ m.validator then
    if !m.valKnown then throw "invalid validator"
    else if (s.staking.validator m.validator).isNone then throw "validator not found"
    else pure { node with validator := m.validator }
  else pure node

def resetTx (s : State) (m : ResetMsg) (node : Node) : Node :=
  let node := if m.txAddrs ≠ [] then { node with txAddresses := m.txAddrs } else node
  { node with lastAlive := s.h, role := 0 }

/-- the role is re-derived: super again only with the full status, the threshold capacity and the share -/
def resetShare (s : State) (m : ResetMsg) (node : Node) : TxM Node :=
  if m.status &&& ST_SUPER_REQ = ST_SUPER_REQ then
    match s.getPledge m.creator with
    | some p =>
      if p.totalStorage ≥ s.params.vstorageThreshold then do
        match (← checkNodeShare s node) with
        | some n' => pure n'
        | none => pure node
      else pure node
    | none => pure node
  else pure node

def resetNode (s : State) (m : ResetMsg) (node : Node) : TxM Node := do
  let node ← resetPeer m (resetStatus m node)
  let node ← resetValidator s m node
  resetShare s m (resetTx s m node)

def nodeReset (e : Env) (s : State) (m : ResetMsg) : TxM State := do
  let some node := s.getNode m.creator | throw "node not found"
  let node ← resetNode s m node
  pure (s.setNode e node)

/-- capacity price arithmetic of AddVstorage: coins charged and bytes credited for `size`. -/
def addAmount (size : Nat) : Int := Dec.ceilInt (Dec.mulInt unitPriceDec (toI64 size))
def addSize (amount : Int) : Int := Dec.truncate (Dec.quo (Dec.ofInt amount) unitPriceDec)
/-- RemoveVstorage: coins released and bytes debited. -/
def remAmount (size : Nat) : Int := Dec.truncate (Dec.mulInt unitPriceDec (toI64 size))
def remSize (amount : Int) : Int := Dec.ceilInt (Dec.quo (Dec.ofInt amount) unitPriceDec)

/-- settle pending block reward into `pledge.reward` (the recurring snippet). -/
def settle (pool : Pool) (p : Pledge) : Pledge :=
  if p.totalStorage > 0 then
    { p with reward := p.reward + (Dec.mulInt pool.accRewardPerByte p.totalStorage - p.rewardDebt) }
  else p

/-- the pledge record after adding capacity: book the coins, settle pending reward on the old
    capacity, then raise the capacity and re-base the reward debt -/
def addvPledge (pool : Pool) (old : Option Pledge) (creator : Addr) (amount sz : Int) : Pledge :=
  let pledge := match old with
    | none => { creator := creator, totalStorage := 0, usedStorage := 0, totalStoragePledged := amount,
                totalShardPledged := 0, reward := 0, rewardDebt := 0 }
    | some p => { p with totalStoragePledged := p.totalStoragePledged + amount }
  let pledge := settle pool pledge
  let pledge := { pledge with totalStorage := pledge.totalStorage + sz }
  { pledge with rewardDebt := Dec.mulInt pool.accRewardPerByte pledge.totalStorage }

/-- promotion to super node when the new capacity reaches the threshold -/
def promoteIfDue (e : Env) (s : State) (creator : Addr) (pledge : Pledge) : TxM State :=
  if pledge.totalStorage ≥ s.params.vstorageThreshold then
    match s.getNode creator with
    | none => throw "node not found"
    | some node =>
      if node.role = 0 ∧ node.status &&& ST_SUPER_REQ = ST_SUPER_REQ then
        match checkNodeShare s node with
        | .error m => throw m
        | .ok (some n') => pure (s.setNode e n')
        | .ok none => pure s
      else pure s
  else pure s

def nodeAddVstorage (e : Env) (s : State) (creator : Addr) (size : Nat) : TxM State :=
  if (s.getNode creator).isNone then throw "node not found" else
  match s.pool with
  | none => throw "pool not found"
  | some pool =>
    let amount := addAmount size
    let sz := addSize amount
    if amount < 0 then throw "negative coin" else
    match s.sendLit creator e.modNode amount with
    | .error m => throw m
    | .ok s1 =>
      let pledge := addvPledge pool (s1.getPledge creator) creator amount sz
      match promoteIfDue e s1 creator pledge with
      | .error m => throw m
      | .ok s2 =>
        pure { (s2.setPledge pledge) with
               pool := some { pool with totalPledged := pool.totalPledged + amount, totalStorage := pool.totalStorage + sz } }

/-- the checks of RemoveVstorage: what is released (coins) and debited (bytes) -/
structure RemvPlan where
  pool : Pool
  pledge : Pledge
  amount : Int
  sz : Int

def remvPlan (s : State) (creator : Addr) (size : Nat) : TxM RemvPlan :=
  if (s.getNode creator).isNone then throw "node not found" else
  match s.pool, s.getPledge creator with
  | none, _ => throw "pool not found"
  | _, none => throw "not pledged"
  | some pool, some pledge =>
    let amount := remAmount size
    if amount = 0 then throw "zero amount" else
    let sz := remSize amount
    if sz > pledge.totalStorage - pledge.usedStorage then throw "no enough available vstorage" else
    if amount < 0 then throw "negative coin" else
    if pledge.totalStoragePledged - amount < 0 then throw "negative coin amount" else
    pure { pool := pool, pledge := pledge, amount := amount, sz := sz }

/-- the pledge record after a removal: settle pending reward first, then change the capacity -/
def remvPledge (pl : RemvPlan) : Pledge :=
  let p := { pl.pledge with totalStoragePledged := pl.pledge.totalStoragePledged - pl.amount }
  let p := settle pl.pool p
  let p := { p with totalStorage := p.totalStorage - pl.sz }
  { p with rewardDebt := Dec.mulInt pl.pool.accRewardPerByte p.totalStorage }

/-- demotion of a super node whose capacity falls below the threshold -/
def demoteIfDue (e : Env) (s : State) (creator : Addr) (pledge : Pledge) : TxM State :=
  if pledge.totalStorage < s.params.vstorageThreshold then
    match s.getNode creator with
    | none => throw "node not found"
    | some node => if node.role = 1 then pure (s.setNode e { node with role := 0 }) else pure s
  else pure s

def nodeRemoveVstorage (e : Env) (s : State) (creator : Addr) (size : Nat) : TxM State :=
  match remvPlan s creator size with
  | .error m => throw m
  | .ok pl =>
    match s.send e.modNode creator pl.amount with
    | .error m => throw m
    | .ok s1 =>
      match demoteIfDue e s1 creator (remvPledge pl) with
      | .error m => throw m
      | .ok s2 =>
        pure { (s2.setPledge (remvPledge pl)) with
               pool := some { pl.pool with totalPledged := pl.pool.totalPledged - pl.amount, totalStorage := pl.pool.totalStorage - pl.sz } }

/-- `RepayPledgeDebt` over a list of coin amounts; returns the reduced amounts. -/
def repayLoop (debt : Int) : List Int → List Int × Option Int
  | [] => ([], some debt)
  | r :: t =>
    if r ≥ debt then ((r - debt) :: t, none)
    else
      let (t', d') := repayLoop (debt - r) t
      (0 :: t', d')

def repayPledgeDebt (s : State) (sp : Addr) (rewards : List Int) : State × List Int :=
  match s.getDebt sp with
  | none => (s, rewards)
  | some debt =>
    match repayLoop debt rewards with
    | (rs, none) => (s.removeDebt sp, rs)
    | (rs, some d) => (s.setDebt sp d, rs)

/-- `market.Claim`: returns the whole-coin worker income and updates the worker. -/
def marketClaim (s : State) (sp : Addr) : TxM (State × Int) := do
  match s.getWorker sp with
  | none => pure (s, 0)
  | some w =>
    let reward := w.reward + Dec.mulInt w.incomePerSecond (s.h - w.lastRewardAt)
    let t := Dec.truncate reward
    if t = 0 then pure (s, 0)
    else
      if t < 0 then throw "negative coin"
      pure (s.setWorker { w with reward := reward - Dec.ofInt t, lastRewardAt := s.h }, t)

/-- `ShardRelease(sp, shard?)`: outer error = panic, inner `some msg` = returned error (partial effects stay). -/
def shardRelease (e : Env) (s : State) (sp : Addr) (shard : Option Shard) : TxM (State × Option String) := do
  let some pledge := s.getPledge sp | pure (s, some "pledge not found")
  let some pool := s.pool | pure (s, some "pool not found")
  let pledge := settle pool pledge
  match shard with
  | none =>
    let pledge := { pledge with rewardDebt := Dec.mulInt pool.accRewardPerByte pledge.totalStorage }
    pure (s.setPledge pledge, none)
  | some sh =>
    let (s, rs) := repayPledgeDebt s sh.sp [sh.pledge]
    let pay := rs.headD 0
    let r : Except String State := if pay ≠ 0 then s.send e.modNode sp pay else pure s
    match r with
    | .error m => pure (s, some m)
    | .ok s =>
      if pledge.totalShardPledged - sh.pledge < 0 then throw "negative coin amount"
      let pledge := { pledge with totalShardPledged := pledge.totalShardPledged - sh.pledge,
                                  usedStorage := pledge.usedStorage - toI64 sh.size }
      let pledge := { pledge with rewardDebt := Dec.mulInt pool.accRewardPerByte pledge.totalStorage }
      pure (s.setPledge pledge, none)

/-- `StoreRewardPledge(duration, size, unitPrice)`. -/
def storeRewardPledge (duration size : Nat) (unitPrice : Dec) : Dec :=
  Dec.quoInt (Dec.mulInt (Dec.mulInt (Dec.mulInt unitPrice (toI64 size)) (toI64 duration)) 1) 10

/-- `TruncateDecimal` then round up when a fraction remains (the recurring "ceil to a coin"). -/
def ceilCoin (d : Dec) : TxM Int := do
  let t := Dec.truncate d
  if t < 0 then throw "negative coin"
  let frac := d - Dec.ofInt t
  if frac < 0 then throw "negative dec coin"
  pure (if frac ≠ 0 then t + 1 else t)

/-- `ShardPledge(shard, unitPrice)`; returns the updated shard as stored. -/
def shardPledge (e : Env) (s : State) (sh : Shard) (unitPrice : Dec) : TxM (State × Option String) := do
  let some pledge := s.getPledge sh.sp | pure (s, some "not pledged yet")
  let some pool := s.pool | pure (s, some "pool not found")
  let pledge := settle pool pledge
  if toU64 (pledge.totalStorage - pledge.usedStorage) < sh.size then
    return (s, some "no enough available vstorage")
  let sp0 ← ceilCoin (storeRewardPledge sh.duration sh.size unitPrice)
  let shardPl := sh.renewInfos.foldl (fun acc ri => if acc < ri.pledge then ri.pledge else acc) sp0
  let pledge := { pledge with totalShardPledged := pledge.totalShardPledged + shardPl }
  let r : Except String State :=
    if sh.renewInfos ≠ [] then
      let balance := s.bal sh.sp
      if balance ≥ shardPl then s.send sh.sp e.modNode shardPl
      else do
        let s1 ← s.sendLit sh.sp e.modNode balance
        let d := match s1.getDebt sh.sp with
          | some d => d + (shardPl - balance)
          | none => shardPl - balance
        pure (s1.setDebt sh.sp d)
    else s.send sh.sp e.modNode shardPl
  match r with
  | .error m =>
    -- the debt branch writes the debt before the error is examined; on the plain branches nothing was written
    pure (s, some m)
  | .ok s =>
    let sh := { sh with pledge := shardPl }
    let pledge := { pledge with rewardDebt := Dec.mulInt pool.accRewardPerByte pledge.totalStorage,
                                usedStorage := pledge.usedStorage + toI64 sh.size }
    pure ((s.setPledge pledge).setShard sh, none)

def nodeClaimReward (e : Env) (s : State) (creator : Addr) : TxM (State × Int) := do
  if (s.getPledge creator).isNone then throw "pledge not found"
  let (s, _) ← shardRelease e s creator none
  let some pledge := s.getPledge creator | throw "unreachable"
  let claim := Dec.truncate pledge.reward
  if claim < 0 then throw "negative coin"
  let remain := pledge.reward - Dec.ofInt claim
  if remain < 0 then throw "negative dec coin"
  let pledge := { pledge with reward := remain }
  let (s, worker) ← marketClaim s creator
  let workerBefore := worker
  let (s, rs) := repayPledgeDebt s creator [claim, worker]
  let claim := rs.headD 0
  let worker := (rs.drop 1).headD 0
  -- debt repaid out of storage income moves market -> node escrow (the `fix:` of F09)
  let repaid := workerBefore - worker
  let s ← (if repaid ≠ 0 then s.send e.modMarket e.modNode repaid else pure s : TxM State)
  let s ← (if claim ≠ 0 then s.send e.modNode creator claim else pure s : TxM State)
  let s ← (if worker ≠ 0 then s.send e.modMarket creator worker else pure s : TxM State)
  pure (s.setPledge pledge, claim + worker)

end SaoVerif
