import SaoVerif.Model.Node
/-! Storage-provider selection: `RandomIndex`, `SelectNodes`, `GetNextSuperNodes`, `RandomSP`. -/
namespace SaoVerif

/-- `math.Pow10(int(math.Ceil(math.Log10(float64(total)))))` for `total ≥ 1`: least power of ten ≥ total. -/
def modOfAux : Nat → Nat → Nat → Nat
  | 0, p, _ => p
  | fuel + 1, p, total => if p ≥ total then p else modOfAux fuel (p * 10) total
def modOf (total : Nat) : Nat := modOfAux 40 1 total

/-- when the seed is exhausted: take the lowest unused indices (the `fix:` of F03). -/
def fillUnused (total : Nat) : Nat → Nat → List Nat → List Nat
  | _, 0, idx => idx
  | i, count + 1, idx =>
    if h : i < total then
      if idx.contains i then fillUnused total (i + 1) (count + 1) idx
      else fillUnused total (i + 1) count (idx ++ [i])
    else idx
termination_by i c _ => (total - i, c)

/-- the `for count > 0` loop of `RandomIndex`: one decimal digit of the seed per draw. -/
def randomIndexLoop (modulus total : Nat) (seed count : Nat) (idx : List Nat) : List Nat :=
  if count = 0 then idx
  else if hs : seed = 0 then fillUnused total 0 count idx
  else
    let rs := (seed % modulus) % total
    if idx.contains rs then randomIndexLoop modulus total (seed / 10) count idx
    else randomIndexLoop modulus total (seed / 10) (count - 1) (idx ++ [rs])
termination_by seed
decreasing_by all_goals (apply Nat.div_lt_self <;> omega)

def randomIndex (seed total count : Nat) : List Nat :=
  if total ≤ count then [] else randomIndexLoop (modOf total) total seed count []

/-! ### SelectNodes (the in-place partial heap "sort") -/
def nodeGe (a b : Node) : Bool := a.lastAlive ≥ b.lastAlive

/-- one child comparison of `heapify` -/
def heapSwap (l : List Node) (index c : Nat) : List Node :=
  match l[c]?, l[index]? with
  | some nc, some ni =>
    if nc.lastAlive ≥ ni.lastAlive then
      if nc.lastAlive = ni.lastAlive then
        if nc.reputation > ni.reputation then (l.set index nc).set c ni else l
      else (l.set index nc).set c ni
    else l
  | _, _ => l

def heapify (position : Nat) (l : List Node) : List Node :=
  let l := heapSwap l position (2 * position + 1)
  heapSwap l position (2 * position + 2)

/-- `buildHeap`: positions size/2-1 down to 0 -/
def buildHeap (l : List Node) : List Node :=
  (List.range (l.length / 2)).reverse.foldl (fun acc p => heapify p acc) l

def selectNodes (size : Nat) (nodes : List Node) : List Node :=
  let size := if nodes.length ≤ size then nodes.length else size
  let out := (List.range (size + 1)).foldl (fun acc i => acc.take i ++ buildHeap (acc.drop i)) nodes
  out.take size

/-! ### GetNextSuperNodes -/
def superEligible (s : State) (n : Node) (status : Nat) (rep : Int) (ignore : List Addr) (size : Int) : Bool :=
  let ign := ignore.contains n.creator
  let ign := match s.getPledge n.creator with
    | none => true
    | some p => ign || (p.totalStorage - p.usedStorage < size)
  !ign && (status &&& n.status = status) && n.reputation ≥ rep

/-- the cursor loop over `uint8 i`, bounded by `tries < len(snodes)` (the `fix:` of F04): the
    structural argument is the number of tries left. Returns the chosen index, if any. -/
def nextSuperLoop (s : State) (snodes : List Node) (status : Nat) (rep : Int) (ignore : List Addr) (size : Int) (round0 : Nat) :
    Nat → Nat → Option Nat
  | 0, _ => none
  | tries + 1, i =>
    let len8 := snodes.length % 256
    let i := if i ≥ len8 then 0 else i
    match snodes[i]? with
    | none => none   -- unreachable for 0 < len ≤ 255 (an index panic for longer lists is not modelled)
    | some n =>
      if superEligible s n status rep ignore size then some i
      else
        let stop := if round0 = 0 then i = (snodes.length - 1) % 256 else i = (round0 - 1) % 256
        if stop then none else nextSuperLoop s snodes status rep ignore size round0 tries ((i + 1) % 256)

/-- the body of `GetNextSuperNodes` once the stored cursor `round0` has been read -/
def pickSuper (s : State) (round0 : Nat) (status : Nat) (rep : Int) (ignore : List Addr) (size : Int) : State × Option Node :=
  let snodes := s.nodes.filter (·.role = 1)
  match nextSuperLoop s snodes status rep ignore size round0 snodes.length round0 with
  | none => (s, none)
  | some i =>
    let next := if (i + 1) % 256 ≥ snodes.length then 0 else (i + 1) % 256
    ({ s with nodeRound := some next }, snodes[i]?)

/-- `GetNextSuperNodes`: returns the state (cursor updated) and the chosen super node. -/
def getNextSuperNode (s : State) (status : Nat) (rep : Int) (ignore : List Addr) (size : Int) : State × Option Node :=
  match s.nodeRound with
  | none => pickSuper { s with nodeRound := some 0 } 0 status rep ignore size
  | some r => pickSuper s r status rep ignore size

def normalEligible (s : State) (n : Node) (status : Nat) (rep : Int) (size : Int) : Bool :=
  match s.getPledge n.creator with
  | none => false
  | some p => !(p.totalStorage - p.usedStorage < size) && (status &&& n.status = status) && n.reputation ≥ rep && n.role = 0

def removeFirst (l : List Node) (a : Addr) : List Node :=
  match l with
  | [] => []
  | n :: t => if n.creator = a then t else n :: removeFirst t a

/-- the error message that stands for "this loop never terminates" (a hang, not a panic). -/
def HANG : String := "HANG"

/-- normal-role candidates: eligible nodes minus the ignore list -/
def candidates (s : State) (ignore : List Addr) (size : Int) : List Node :=
  ignore.foldl removeFirst (s.nodes.filter (fun n => normalEligible s n ST_SELECT 8000 size))

/-- heap-select up to `2·count` candidates and draw `count` distinct ones from the seed;
    a negative slice bound is a Go panic. -/
def maxCandidates (n : Nat) (count : Int) : Int := if (n : Int) > count * 2 then count * 2 else n

def drawSPs (s : State) (nodes : List Node) (count : Int) : TxM (List Node) :=
  if maxCandidates nodes.length count < 0 then throw "slice bounds out of range"
  else
    pure ((randomIndex s.seed (maxCandidates nodes.length count).toNat count.toNat).filterMap
      (fun i => (selectNodes (maxCandidates nodes.length count).toNat nodes)[i]?))

/-- `RandomSP` after the round-robin super node has been determined -/
def randomSPWith (s : State) (sup : Option Node) (count : Int) (ignore : List Addr) (size : Int) : TxM (State × List Node) :=
  match sup with
  | some n =>
    if count = 1 then pure (s, [n])
    else if ((1 + (candidates s ignore size).length : Nat) : Int) ≤ count then pure (s, n :: candidates s ignore size)
    else do
      let sps ← drawSPs s (candidates s ignore size) (count - 1)
      pure (s, n :: sps)
  | none =>
    if (((candidates s ignore size).length : Nat) : Int) ≤ count then pure (s, candidates s ignore size)
    else do
      let sps ← drawSPs s (candidates s ignore size) count
      pure (s, sps)

/-- `RandomSP(count, ignore, size)`; an error is a Go panic (slice bounds). Both selection loops
    are total after the `fix:` commits of F03 and F04, so nothing here can hang any more. -/
def randomSP (s : State) (count : Int) (ignore : List Addr) (size : Int) : TxM (State × List Node) :=
  let (s, sup) := getNextSuperNode s ST_SELECT 8000 ignore size
  randomSPWith s sup count ignore size

end SaoVerif
