import SaoVerif.Model.Node
/-! Storage-provider selection: `RandomIndex`, `SelectNodes`, `GetNextSuperNodes`, `RandomSP`. -/
namespace SaoVerif

/-- `math.Pow10(int(math.Ceil(math.Log10(float64(total)))))` for `total ≥ 1`: least power of ten ≥ total. -/
def modOfAux : Nat → Nat → Nat → Nat
  | 0, p, _ => p
  | fuel + 1, p, total => if p ≥ total then p else modOfAux fuel (p * 10) total
def modOf (total : Nat) : Nat := modOfAux 40 1 total

/-- `RandomIndex` loop with explicit fuel; `none` = fuel exhausted (the Go loop would still be running). -/
def randomIndexLoop (modulus total : Nat) : Nat → Nat → Nat → List Nat → Option (List Nat)
  | _, _, 0, idx => some idx
  | 0, _, _ + 1, _ => none
  | fuel + 1, seed, count + 1, idx =>
    let rs := (seed % modulus) % total
    let seed' := seed / 10
    if idx.contains rs then randomIndexLoop modulus total fuel seed' (count + 1) idx
    else randomIndexLoop modulus total fuel seed' count (idx ++ [rs])

def randomIndex (fuel seed total count : Nat) : Option (List Nat) :=
  if total ≤ count then some [] else randomIndexLoop (modOf total) total fuel seed count []

/-- fuel that decides termination: once the seed is 0 every further draw is 0. -/
def seedFuel (seed count : Nat) : Nat := (Nat.log2 seed) + count + 4

/-! ### SelectNodes (the in-place partial heap "sort") -/
def nodeGe (a b : Node) : Bool := a.lastAlive ≥ b.lastAlive

/-- one child comparison of `heapify` -/
def heapSwap (l : List Node) (index c : Nat) : List Node :=
  match l[c]?, l[index]? with
  | some nc, some ni =>
    if nc.lastAlive ≥ ni.lastAlive then
      if nc.lastAlive = ni.lastAlive then
        if nc.reputation > ni.reputation then (l.set index nc).set c ni else l
      else (l.set index nc).set c ni
    else l
  | _, _ => l

def heapify (position : Nat) (l : List Node) : List Node :=
  let l := heapSwap l position (2 * position + 1)
  heapSwap l position (2 * position + 2)

/-- `buildHeap`: positions size/2-1 down to 0 -/
def buildHeap (l : List Node) : List Node :=
  (List.range (l.length / 2)).reverse.foldl (fun acc p => heapify p acc) l

def selectNodes (size : Nat) (nodes : List Node) : List Node :=
  let size := if nodes.length ≤ size then nodes.length else size
  let out := (List.range (size + 1)).foldl (fun acc i => acc.take i ++ buildHeap (acc.drop i)) nodes
  out.take size

/-! ### GetNextSuperNodes -/
def superEligible (s : State) (n : Node) (status : Nat) (rep : Int) (ignore : List Addr) (size : Int) : Bool :=
  let ign := ignore.contains n.creator
  let ign := match s.getPledge n.creator with
    | none => true
    | some p => ign || (p.totalStorage - p.usedStorage < size)
  !ign && (status &&& n.status = status) && n.reputation ≥ rep

/-- the `for {}` loop over `uint8 i`; `none` = fuel exhausted. Returns chosen node index. -/
def nextSuperLoop (s : State) (snodes : List Node) (status : Nat) (rep : Int) (ignore : List Addr) (size : Int) (round0 : Nat) :
    Nat → Nat → Option (Option Nat)
  | 0, _ => none
  | fuel + 1, i =>
    let len8 := snodes.length % 256
    let i := if i ≥ len8 then 0 else i
    match snodes[i]? with
    | none => none   -- index out of range: Go panics; unreachable for len ≤ 255 (treated as hang/halt)
    | some n =>
      if superEligible s n status rep ignore size then some (some i)
      else
        let stop := if round0 = 0 then i = (snodes.length - 1) % 256 else i = (round0 - 1) % 256
        if stop then some none else nextSuperLoop s snodes status rep ignore size round0 fuel ((i + 1) % 256)

/-- `GetNextSuperNodes`: returns the state (cursor updated) and the chosen super node, `none` = hang. -/
def getNextSuperNode (s : State) (status : Nat) (rep : Int) (ignore : List Addr) (size : Int) : Option (State × Option Node) :=
  let (s, round0) := match s.nodeRound with
    | none => ({ s with nodeRound := some 0 }, 0)
    | some r => (s, r)
  let snodes := s.nodes.filter (·.role = 1)
  if snodes.length = 0 then some (s, none) else
  match nextSuperLoop s snodes status rep ignore size round0 600 round0 with
  | none => none
  | some none => some (s, none)
  | some (some i) =>
    let next := if (i + 1) % 256 ≥ snodes.length then 0 else (i + 1) % 256
    some ({ s with nodeRound := some next }, snodes[i]?)

def normalEligible (s : State) (n : Node) (status : Nat) (rep : Int) (size : Int) : Bool :=
  match s.getPledge n.creator with
  | none => false
  | some p => !(p.totalStorage - p.usedStorage < size) && (status &&& n.status = status) && n.reputation ≥ rep && n.role = 0

def removeFirst (l : List Node) (a : Addr) : List Node :=
  match l with
  | [] => []
  | n :: t => if n.creator = a then t else n :: removeFirst t a

/-- the error message that stands for "this loop never terminates" (a hang, not a panic). -/
def HANG : String := "HANG"

/-- `RandomSP(count, ignore, size)`: throws `HANG` when a selection loop does not terminate,
    any other error is a Go panic (slice bounds). -/
def randomSP (s : State) (count : Int) (ignore : List Addr) (size : Int) : TxM (State × List Node) :=
  match getNextSuperNode s ST_SELECT 8000 ignore size with
  | none => throw HANG
  | some (s, sup) =>
    let superCount : Nat := if sup.isSome then 1 else 0
    if superCount = 1 ∧ count = 1 then pure (s, sup.toList) else
    let nodes := s.nodes.filter (fun n => normalEligible s n ST_SELECT 8000 size)
    let nodes := ignore.foldl removeFirst nodes
    if ((superCount + nodes.length : Nat) : Int) ≤ count then pure (s, sup.toList ++ nodes) else
    let count := if superCount > 0 then count - 1 else count
    let maxC : Int := if (nodes.length : Int) > count * 2 then count * 2 else nodes.length
    if maxC < 0 then throw "slice bounds out of range"   -- nodes[:size] with a negative size
    else
    let maxC := maxC.toNat
    let sel := selectNodes maxC nodes
    let cnt := count.toNat
    match randomIndex (seedFuel s.seed cnt) s.seed maxC cnt with
    | none => throw HANG
    | some idx =>
      let sps := idx.filterMap (fun i => sel[i]?)
      pure (s, sup.toList ++ sps)

end SaoVerif
