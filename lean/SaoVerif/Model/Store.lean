import SaoVerif.Model.Types
/-! Store accessors (Get/Set/Remove of each keeper) and the bank slice. -/
namespace SaoVerif

def upsertBy {α : Type} (key : α → Nat) (l : List α) (x : α) : List α :=
  match l with
  | [] => [x]
  | y :: t => if key y = key x then x :: t else if key x < key y then x :: y :: t else y :: upsertBy key t x

def State.getOrder (s : State) (id : Nat) : Option Order := s.orders.find? (·.id = id)
def State.setOrder (s : State) (o : Order) : State := { s with orders := upsertBy (·.id) s.orders o }
def State.removeOrder (s : State) (id : Nat) : State := { s with orders := s.orders.filter (·.id ≠ id) }
/-- `GetOrderCount`: missing or zero means 1. -/
def State.getOrderCount (s : State) : Nat :=
  match s.orderCount with
  | none => 1
  | some 0 => 1
  | some n => n
/-- `AppendOrder`: stores the order under the current count and bumps it. -/
def State.appendOrder (s : State) (o : Order) : Nat × State :=
  let c := s.getOrderCount
  (c, { (s.setOrder { o with id := c }) with orderCount := some (c + 1) })

def State.getShard (s : State) (id : Nat) : Option Shard := s.shards.find? (·.id = id)
def State.setShard (s : State) (x : Shard) : State := { s with shards := upsertBy (·.id) s.shards x }
def State.removeShard (s : State) (id : Nat) : State := { s with shards := s.shards.filter (·.id ≠ id) }
def State.appendShard (s : State) (x : Shard) : Nat × State :=
  let c := s.shardCount
  (c, { (s.setShard { x with id := c }) with shardCount := c + 1 })

def State.getMeta (s : State) (d : Bytes) : Option Metadata := s.metas.find? (·.dataId = d)
def State.setMeta (s : State) (m : Metadata) : State :=
  { s with metas := if s.metas.any (·.dataId = m.dataId) then s.metas.map (fun x => if x.dataId = m.dataId then m else x) else s.metas ++ [m] }
def State.removeMeta (s : State) (d : Bytes) : State := { s with metas := s.metas.filter (·.dataId ≠ d) }

def State.getModel (s : State) (k : ModelKey) : Option ModelEntry := s.models.find? (·.key = k)
def State.setModel (s : State) (e : ModelEntry) : State :=
  { s with models := if s.models.any (·.key = e.key) then s.models.map (fun x => if x.key = e.key then e else x) else s.models ++ [e] }
def State.removeModel (s : State) (k : ModelKey) : State := { s with models := s.models.filter (·.key ≠ k) }

def Env.rankOf (e : Env) (a : Addr) : Nat := (Map.find? e.rank a).getD (1000000 + a)

def State.getNode (s : State) (a : Addr) : Option Node := s.nodes.find? (·.creator = a)
/-- nodes are kept in store-iteration order (lexicographic by bech32 string = `Env.rank`). -/
def State.setNode (e : Env) (s : State) (n : Node) : State :=
  { s with nodes := upsertBy (fun x => e.rankOf x.creator) s.nodes n }

def State.getPledge (s : State) (a : Addr) : Option Pledge := s.pledges.find? (·.creator = a)
def State.setPledge (s : State) (p : Pledge) : State :=
  { s with pledges := if s.pledges.any (·.creator = p.creator) then s.pledges.map (fun x => if x.creator = p.creator then p else x) else s.pledges ++ [p] }

def State.getWorker (s : State) (a : Addr) : Option Worker := s.workers.find? (·.sp = a)
def State.setWorker (s : State) (w : Worker) : State :=
  { s with workers := if s.workers.any (·.sp = w.sp) then s.workers.map (fun x => if x.sp = w.sp then w else x) else s.workers ++ [w] }

def State.getDebt (s : State) (a : Addr) : Option Int := Map.find? s.debts a
def State.setDebt (s : State) (a : Addr) (d : Int) : State := { s with debts := Map.set s.debts a d }
def State.removeDebt (s : State) (a : Addr) : State := { s with debts := Map.erase s.debts a }

def State.paymentAddress (s : State) (d : Did) : Option Addr := Map.find? s.did.paymentAddress d

/-! ### bank -/
def State.bal (s : State) (a : Addr) : Int := (Map.find? s.bank a).getD 0
def State.setBal (s : State) (a : Addr) (v : Int) : State := { s with bank := Map.set s.bank a v }

/-- `bank.SendCoins`: insufficient funds is an error; amounts are never negative here
    (callers construct them through `sdk.NewCoin`, which panics on a negative amount). -/
def State.send (s : State) (frm to : Addr) (amt : Int) : TxM State :=
  if amt < 0 then throw "negative coin" else
  if s.bal frm < amt then throw "insufficient funds" else
  let s1 := s.setBal frm (s.bal frm - amt)
  pure (s1.setBal to (s1.bal to + amt))

/-- a transfer whose amount is written as the literal `sdk.Coins{coin}`: a zero coin makes the
    set invalid and the bank refuses it (sites that build the set with `NewCoins().Add` or guard
    with `IsZero` use `send`) -/
def State.sendLit (s : State) (frm to : Addr) (amt : Int) : TxM State :=
  if amt = 0 then throw "invalid coins" else s.send frm to amt

def State.mint (s : State) (to : Addr) (amt : Int) : State :=
  { (s.setBal to (s.bal to + amt)) with supply := s.supply + amt }

end SaoVerif
