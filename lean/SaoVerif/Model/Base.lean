/-
  Base definitions of the executable model: fixed-point decimals with the exact
  semantics of cosmos-sdk v0.46.2 `sdk.Dec`, association-list maps, error monad.
  Core Lean only (no Mathlib) so that the driver can be compiled.
-/
namespace SaoVerif

/-- `sdk.Dec`: raw integer at scale 10^18. -/
abbrev Dec := Int

def precision : Int := 1000000000000000000

namespace Dec
/-- `sdk.NewDec(i)` / `NewDecFromInt`. -/
def ofInt (i : Int) : Dec := i * precision
/-- `Dec.MulInt64`, `Dec.MulInt` (exact). -/
def mulInt (d : Dec) (i : Int) : Dec := d * i
/-- `Dec.QuoInt64` (big.Int.Quo truncates toward zero); the caller guards `i ≠ 0` (Go panics). -/
def quoInt (d : Dec) (i : Int) : Dec := Int.tdiv d i
/-- `Dec.TruncateInt`. -/
def truncate (d : Dec) : Int := Int.tdiv d precision
/-- `Dec.Ceil().TruncateInt()`. -/
def ceilInt (d : Dec) : Int :=
  let q := Int.tdiv d precision
  let r := Int.tmod d precision
  if r = 0 then q else if r < 0 then q else q + 1
/-- `chopPrecisionAndRound`: divide by 10^18 with banker's rounding, sign-symmetric. -/
def chopRound (x : Int) : Int :=
  let a := x.natAbs
  let q := a / precision.natAbs
  let r := a % precision.natAbs
  let h := precision.natAbs / 2
  let q' : Nat := if r = 0 then q else if r < h then q else if r > h then q + 1 else (if q % 2 = 0 then q else q + 1)
  if x < 0 then - (q' : Int) else (q' : Int)
/-- `Dec.Mul`. -/
def mul (a b : Dec) : Dec := chopRound (a * b)
/-- `Dec.Quo` (the caller guards `b ≠ 0`). -/
def quo (a b : Dec) : Dec := chopRound (Int.tdiv (a * precision * precision) b)
end Dec

/-- 10^-6 : the hard-coded unit price `sdk.NewDecWithPrec(1, 6)`. -/
def unitPriceDec : Dec := 1000000000000

/-! ### Association-list maps (iteration in key order is the caller's concern: the
    harness dumps stores in iterator order and the model preserves order on update). -/
abbrev Map (κ ν : Type) := List (κ × ν)

namespace Map
variable {κ ν : Type} [DecidableEq κ]

def find? (m : Map κ ν) (k : κ) : Option ν :=
  match m with
  | [] => none
  | (k', v) :: t => if k' = k then some v else find? t k

def contains (m : Map κ ν) (k : κ) : Bool := (find? m k).isSome

def erase (m : Map κ ν) (k : κ) : Map κ ν :=
  match m with
  | [] => []
  | (k', v) :: t => if k' = k then erase t k else (k', v) :: erase t k

/-- replace in place when present, else append at the end (order fixed up by `insertSorted` users) -/
def set (m : Map κ ν) (k : κ) (v : ν) : Map κ ν :=
  match m with
  | [] => [(k, v)]
  | (k', v') :: t => if k' = k then (k, v) :: t else (k', v') :: set t k v

def keys (m : Map κ ν) : List κ := m.map Prod.fst
def vals (m : Map κ ν) : List ν := m.map Prod.snd
end Map

/-- sorted insert for maps keyed by `Nat` (IAVL iteration order of big-endian uint64 keys). -/
def Map.setN {ν : Type} (m : Map Nat ν) (k : Nat) (v : ν) : Map Nat ν :=
  match m with
  | [] => [(k, v)]
  | (k', v') :: t => if k' = k then (k, v) :: t else if k < k' then (k, v) :: (k', v') :: t else (k', v') :: Map.setN t k v

abbrev Bytes := List Nat

/-- `strings.Contains(s, sub)` on byte strings. -/
def isPrefixB : Bytes → Bytes → Bool
  | [], _ => true
  | _ :: _, [] => false
  | a :: as, b :: bs => a == b && isPrefixB as bs

def containsB (s sub : Bytes) : Bool :=
  match s with
  | [] => sub.isEmpty
  | _ :: t => isPrefixB sub s || containsB t sub

/-- `strings.Split(s, sep)` for a single-byte separator. -/
def splitB (s : Bytes) (sep : Nat) : List Bytes :=
  let rec go (s : Bytes) (cur : Bytes) : List Bytes :=
    match s with
    | [] => [cur.reverse]
    | c :: t => if c = sep then cur.reverse :: go t [] else go t (c :: cur)
  go s []

/-- decimal digits of a natural number as ASCII bytes (`fmt.Sprintf("%d")`). -/
def natDigits (n : Nat) : Bytes := (toString n).toList.map (fun c => c.toNat)

inductive Res where
  | ok | err | panic | hang
  deriving DecidableEq, Repr, Inhabited

/-- transaction-level error (message only for diagnostics; never compared) -/
abbrev TxM := Except String

def guard' (b : Bool) (msg : String) : TxM Unit := if b then pure () else throw msg

end SaoVerif
