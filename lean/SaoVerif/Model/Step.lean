import SaoVerif.Model.Blocks
import SaoVerif.Model.Staking
import SaoVerif.Model.DidM
import SaoVerif.Model.Faults
/-! The operation alphabet and `step`. -/
namespace SaoVerif

inductive Op where
  | advance (to : Int) (seed : Nat)
  | begin_
  | end_
  | create (creator : Addr)
  | reset (m : ResetMsg)
  | addv (creator : Addr) (size : Nat)
  | remv (creator : Addr) (size : Nat)
  | claim (creator : Addr)
  | store (m : StoreMsg)
  | ready (creator msgProvider : Addr) (orderId : Nat)
  | complete (creator msgProvider : Addr) (orderId size : Nat) (cidOk : Bool) (cid : StrId)
  | cancel (creator msgProvider : Addr) (orderId : Nat)
  | terminate (creator msgProvider : Addr) (owner : Did) (dataId : Bytes) (sigValid : Bool) (sigDid : Did)
  | renew (creator msgProvider : Addr) (sigValid : Bool) (sigDid : Did) (duration : Nat) (timeout : Int) (data : List Bytes)
  | migrate (creator msgProvider : Addr) (data : List Bytes)
  | perm (creator msgProvider : Addr) (owner : Did) (dataId : Bytes) (ro rw : List Did) (sigValid : Bool)
  | report (creator msgProvider : Addr) (faults : List FaultIn) (newIds : List StrId)
  | recover (creator msgProvider : Addr) (faults : List FaultIn) (insuranceKey : Nat)
  | payaddr (m : PayAddrMsg)
  | binding (m : BindingMsg)
  | didupdate (m : DidUpdateMsg)
  | delegate (creator : Addr) (val : ValAddr) (amount : Int)
  | undelegate (creator : Addr) (val : ValAddr) (amount : Int)
  | redelegate (creator : Addr) (src dst : ValAddr) (amount : Int)
  /-- a governance parameter change of the fishmen list (written to the parameter store directly, not through a message handler) -/
  | govfishmen (fishmen : List Addr)
  | restart
  | genesis
  | unmodelled (k : String)
  /-- a non-consensus execution of `inner` (CheckTx, gas simulation): runs on a branch of the committed
      state that is thrown away -/
  | sim (inner : Op)
  deriving Repr, Inhabited

/-- what ExportGenesis → Validate → InitGenesis of the six modules preserves: every store that has
    a genesis field. The fault stores, the fishing-reward ledger and the super-node cursor have none
    (x/node/genesis.go), so they come back empty. -/
def exportImport (s : State) : State :=
  { s with faults := [], faultIdx := [], fishing := [], nodeRound := none,
           orderCount := some s.getOrderCount }

/-- baseapp atomicity: a failing (or panicking) message leaves the state unchanged. -/
def atomic (s : State) (r : TxM State) : Res × State :=
  match r with
  | .ok s' => (.ok, s')
  | .error m => if m = HANG then (.hang, s) else (.err, s)

/-- blockers are not recovered: a panic halts the chain. -/
def blocker (s : State) (r : TxM State) : Res × State :=
  match r with
  | .ok s' => (.ok, s')
  | .error m => if m = HANG then (.hang, s) else (.panic, s)

/-- a staking message: committed state is atomic, the package variable is not -/
def stakeStep (s : State) (r : Dec × TxM State) : Res × Sys :=
  match r.2 with
  | .ok s' => (.ok, ⟨s', r.1⟩)
  | .error _ => (.err, ⟨s, r.1⟩)

/-- every operation except the staking messages: a function of the committed state alone -/
def stepC (e : Env) (s : State) : Op → Res × State
  | .advance to seed => (.ok, { s with h := to, seed := seed })
  | .begin_ => blocker s (nodeBeginBlock e s)
  | .end_ => blocker s (endBlock e s)
  | .create c => atomic s (nodeCreate e s c)
  | .reset m => atomic s (nodeReset e s m)
  | .addv c n => atomic s (nodeAddVstorage e s c n)
  | .remv c n => atomic s (nodeRemoveVstorage e s c n)
  | .claim c => atomic s ((nodeClaimReward e s c).map (·.1))
  | .store m => atomic s (saoStore e s m)
  | .ready c p o => atomic s (saoReady s c p o)
  | .complete c p o sz ok cid => atomic s (saoComplete e s c p o sz ok cid)
  | .cancel c p o => atomic s (saoCancel e s c p o)
  | .terminate c p ow d sv sd => atomic s (saoTerminate e s c p ow d sv sd)
  | .renew c p sv sd du t data => atomic s ((saoRenew e s c p sv sd du t data).map (·.1))
  | .migrate c p data => atomic s (saoMigrate s c p data)
  | .perm c p ow d ro rw sv => atomic s (saoPermission s c p ow d ro rw sv)
  | .report c p fs ids => atomic s (saoReportFaults s c p fs ids)
  | .recover c p fs ik => atomic s (saoRecoverFaults s c p fs ik)
  | .payaddr m => atomic s (didUpdatePaymentAddress s m)
  | .binding m => atomic s (didBinding s m)
  | .didupdate m => atomic s (didUpdate s m)
  | .delegate _ _ _ => (.ok, s)
  | .undelegate _ _ _ => (.ok, s)
  | .redelegate _ _ _ _ => (.ok, s)
  | .govfishmen l => (.ok, { s with params := { s.params with fishmen := l } })
  | .restart => (.ok, s)
  | .genesis => (.ok, exportImport s)
  | .unmodelled _ => (.ok, s)
  | .sim _ => (.ok, s)

/-- one consensus operation on the whole system: committed state + package variable -/
def stepBase (e : Env) (y : Sys) (op : Op) : Res × Sys :=
  match op with
  | .delegate c v a => stakeStep y.st (stakeDelegate e y.st y.global c v a)
  | .undelegate c v a => stakeStep y.st (stakeUndelegate e y.st y.global c v a)
  | .redelegate c v1 v2 a => stakeStep y.st (stakeRedelegate e y.st y.global c v1 v2 a)
  | .restart => (.ok, ⟨y.st, 0⟩)
  | .genesis => (.ok, ⟨exportImport y.st, y.global⟩)
  | op => ((stepC e y.st op).1, ⟨(stepC e y.st op).2, y.global⟩)

/-- one operation: a consensus operation, or a non-consensus execution (`sim`) whose writes to the
    committed state are discarded — what it does to process memory (the package variable) is not -/
def step (e : Env) (y : Sys) (op : Op) : Res × Sys :=
  match op with
  | .sim inner => (.ok, ⟨y.st, (stepBase e y inner).2.global⟩)
  | op => stepBase e y op

end SaoVerif
