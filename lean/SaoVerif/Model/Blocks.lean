import SaoVerif.Model.Sao
/-! Begin/end blockers of the custom modules (x/node/abci.go, x/sao/abci.go, x/model/abic.go). -/
namespace SaoVerif

def TOTAL_REWARD : Int := 400000000000000

/-- `GetRewardAge(pool)`; throws where Go panics (denom mismatch, negative remainder, division by zero). -/
def getRewardAge (pool : Pool) : TxM Nat := do
  if !pool.totalRewardIsSao then throw "invalid coin denominations"
  let remain := TOTAL_REWARD - pool.totalReward
  -- nothing left to emit (only a genesis can say so): the age is beyond every halving, the subsidy
  -- shifts to zero (the `fix:` of F21; before it Coin.Sub / Int.Quo panicked in the begin-blocker)
  if remain ≤ 0 then return 256
  let q := Int.tdiv TOTAL_REWARD remain
  -- uint(math.Log2(float64(q))): q = 0 gives -Inf -> uint conversion is platform-defined; q ≥ 1 when remain ≤ total
  if q ≤ 0 then throw "log2 of zero"
  pure (Nat.log2 q.toNat)

/-- the block reward for this age, capped by the APY formula while the pledge total is below the baseline -/
def cappedReward (pool : Pool) (p : NodeParams) (subsidy : Int) : TxM (Option Int) :=
  if pool.totalPledged < p.baseline then
    if !p.apyOk then pure none
    else if p.halvingPeriod / 2 = 0 then throw "division by zero"
    else
      let r := Dec.truncate (Dec.quoInt (Dec.mul (Dec.ofInt pool.totalPledged) p.apy) (p.halvingPeriod / 2))
      if r < subsidy then
        if r < 0 then throw "negative coin" else pure (some r)
      else pure (some subsidy)
  else pure (some subsidy)

/-- how many coins this block mints (`none` = none): the configured reward for the current
    halving age, capped by the APY formula while the total pledge is below the baseline -/
def mintAmount (pool : Pool) (p : NodeParams) : TxM (Option Int) :=
  if pool.totalPledged = 0 then pure none
  else if p.blockReward = 0 then pure none
  else
    match getRewardAge pool with
    | .error m => throw m
    | .ok age =>
      if p.blockReward < 0 then throw "negative coin"
      else
        match cappedReward pool p ((p.blockReward.toNat >>> age : Nat) : Int) with
        | .error m => throw m
        | .ok none => pure none
        | .ok (some r) => if r = 0 then pure none else pure (some r)

/-- the pool record after a block that mints `reward`: the smoothed reward-per-block figures, the cumulative reward
    counter and the reward-per-byte accumulator (throws where the Go code panics) -/
def beginPool (pool : Pool) (p : NodeParams) (h reward : Int) : TxM Pool := do
  let pool := if pool.nextRewardPerBlock = 0 then { pool with nextRewardPerBlock := Dec.ofInt reward } else pool
  if p.adjustmentPeriod = 0 then throw "division by zero"
  let pool := if Int.tmod h p.adjustmentPeriod = 0 then
      { pool with rewardPerBlock := pool.nextRewardPerBlock, nextRewardPerBlock := Dec.ofInt reward } else pool
  let pool := { pool with nextRewardPerBlock := Dec.quo (pool.nextRewardPerBlock + Dec.ofInt reward) (Dec.ofInt 2) }
  if !p.denomIsSao ∧ pool.totalRewardIsSao then throw "invalid coin denominations"
  if pool.totalStorage = 0 then throw "division by zero"
  let acc := pool.accRewardPerByte + Dec.quoInt (Dec.ofInt reward) pool.totalStorage
  pure { pool with totalReward := pool.totalReward + reward, accRewardPerByte := acc, accPledgePerByte := acc,
                   rewardedBlockCount := pool.rewardedBlockCount + 1 }

def nodeBeginBlock (e : Env) (s : State) : TxM State := do
  let some pool := s.pool | return s
  let p := s.params
  let some reward ← mintAmount pool p | return s
  let pool ← beginPool pool p s.h reward
  pure { (s.mint e.modNode reward) with pool := some pool }

/-- `node.EndBlock`: offline detection (DoPenalty reads the index store whose values are not
    protobuf faults, so it never finds a confirmed fault; see DESIGN C19). -/
def nodeEndBlock (s : State) : State :=
  { s with nodes := s.nodes.map (fun n =>
      if n.lastAlive + s.params.offlineTriggerHeight < s.h ∧ n.status &&& ST_ONLINE = ST_ONLINE
      then { n with status := 0 } else n) }

def saoEndBlock (e : Env) (s : State) : TxM State := do
  let hN := toU64 s.h
  let s ← (match Map.find? s.timeoutQ hN with
    | some l => do
      let s ← l.foldlM (fun s id => handleTimeoutOrder e s id) s
      pure { s with timeoutQ := Map.erase s.timeoutQ hN }
    | none => pure s : TxM State)
  match Map.find? s.expiredShardQ hN with
  | some l => do
    let s ← l.foldlM (fun s id => handleExpiredShard e s id) s
    pure { s with expiredShardQ := Map.erase s.expiredShardQ hN }
  | none => pure s

def modelEndBlock (s : State) : State :=
  let hN := toU64 s.h
  match Map.find? s.expiredData hN with
  | none => s
  | some l =>
    -- stale entries (a model created again with a later expiry) are skipped: the `fix:` of F14
    let s := l.foldl (fun s d =>
      match s.getMeta d with
      | some m => if addU64 m.createdAt m.duration > hN then s else (deleteMeta s d).1
      | none => (deleteMeta s d).1) s
    { s with expiredData := Map.erase s.expiredData hN }

/-- end blockers in the order wired in app.go: sao, node, (order), model -/
def endBlock (e : Env) (s : State) : TxM State := do
  let s ← saoEndBlock e s
  let s := nodeEndBlock s
  pure (modelEndBlock s)

end SaoVerif
