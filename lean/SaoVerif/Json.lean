import Lean.Data.Json
import SaoVerif.Model.Step
/-! JSON decoding of the harness line protocol (not part of the model; used only by the driver). -/
open Lean
namespace SaoVerif

deriving instance FromJson, ToJson for Order, RenewInfo, Shard, Metadata, ModelKey, ModelEntry, Node, Pledge, Pool,
  NodeParams, Worker, Fault, FaultIdx, ValidatorV, DelegationV, UnbondingV, RedelegationV, StakingView, DidEntry, DidState, State, Env,
  ResetMsg, Proposal, StoreMsg, FaultIn, AccId, PayAddrMsg, BindingMsg, DidUpdateMsg

def getF {α : Type} [FromJson α] (j : Json) (k : String) : Except String α :=
  match j.getObjVal? k with
  | .ok v => (fromJson? v).mapError (fun e => s!"field {k}: {e}")
  | .error e => .error s!"field {k}: {e}"

def parseOp1 (j : Json) : Except String Op := do
  let k : String ← getF j "k"
  match k with
  | "advance" => pure (.advance (← getF j "to") (← getF j "seed"))
  | "begin" => pure .begin_
  | "end" => pure .end_
  | "create" => pure (.create (← getF j "creator"))
  | "reset" => pure (.reset (← fromJson? j))
  | "addv" => pure (.addv (← getF j "creator") (← getF j "size"))
  | "remv" => pure (.remv (← getF j "creator") (← getF j "size"))
  | "claim" => pure (.claim (← getF j "creator"))
  | "store" => pure (.store (← fromJson? j))
  | "ready" => pure (.ready (← getF j "creator") (← getF j "msgProvider") (← getF j "orderId"))
  | "complete" => pure (.complete (← getF j "creator") (← getF j "msgProvider") (← getF j "orderId") (← getF j "size") (← getF j "cidOk") (← getF j "cid"))
  | "cancel" => pure (.cancel (← getF j "creator") (← getF j "msgProvider") (← getF j "orderId"))
  | "terminate" =>
    let p ← j.getObjVal? "p"
    pure (.terminate (← getF j "creator") (← getF j "msgProvider") (← getF p "owner") (← getF p "dataId") (← getF j "sigValid") (← getF j "sigDid"))
  | "renew" =>
    let p ← j.getObjVal? "p"
    pure (.renew (← getF j "creator") (← getF j "msgProvider") (← getF j "sigValid") (← getF j "sigDid") (← getF p "duration") (← getF p "timeout") (← getF p "data"))
  | "migrate" => pure (.migrate (← getF j "creator") (← getF j "msgProvider") (← getF j "data"))
  | "perm" =>
    let p ← j.getObjVal? "p"
    pure (.perm (← getF j "creator") (← getF j "msgProvider") (← getF p "owner") (← getF p "dataId") (← getF p "readonlyDids") (← getF p "readwriteDids") (← getF j "sigValid"))
  | "report" => pure (.report (← getF j "creator") (← getF j "msgProvider") (← getF j "faults") (← getF j "newIds"))
  | "recover" => pure (.recover (← getF j "creator") (← getF j "msgProvider") (← getF j "faults") (← getF j "insuranceKey"))
  | "payaddr" => pure (.payaddr (← fromJson? j))
  | "binding" => pure (.binding (← fromJson? j))
  | "didupdate" => pure (.didupdate (← fromJson? j))
  | "delegate" => pure (.delegate (← getF j "creator") (← getF j "val") (← getF j "amount"))
  | "undelegate" => pure (.undelegate (← getF j "creator") (← getF j "val") (← getF j "amount"))
  | "redelegate" => pure (.redelegate (← getF j "creator") (← getF j "val") (← getF j "val2") (← getF j "amount"))
  | "govfishmen" => pure (.govfishmen (← getF j "fishmen"))
  | "restart" => pure .restart
  | "genesis" => pure .genesis
  | other => pure (.unmodelled other)

def parseOp (j : Json) : Except String Op := do
  let k : String ← getF j "k"
  if k = "sim" then
    let inner ← j.getObjVal? "inner"
    pure (.sim (← parseOp1 inner))
  else parseOp1 j

def parseRes (s : String) : Res :=
  match s with
  | "ok" => .ok
  | "err" => .err
  | "panic" => .panic
  | "hang" => .hang
  | _ => .err

end SaoVerif
