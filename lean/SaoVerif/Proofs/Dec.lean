import SaoVerif.Model.Node
/-! Arithmetic facts about the fixed-point decimal model (scale 10^18). -/
namespace SaoVerif

theorem truncate_nonneg (x : Int) (h : 0 ≤ x) : Dec.truncate x = x / 1000000000000000000 := by
  unfold Dec.truncate precision
  exact Int.tdiv_eq_ediv_of_nonneg h

theorem ceilInt_nonneg (x : Int) (h : 0 ≤ x) : Dec.ceilInt x = (x + 999999999999999999) / 1000000000000000000 := by
  unfold Dec.ceilInt precision
  simp only
  rw [Int.tdiv_eq_ediv_of_nonneg h, Int.tmod_eq_emod_of_nonneg h]
  split
  · omega
  · split <;> omega

/-- rounding an exact multiple of 10^18 is exact -/
theorem chopRound_exact (k : Int) (hk : 0 ≤ k) : Dec.chopRound (k * 1000000000000000000) = k := by
  unfold Dec.chopRound precision
  simp only
  have h1 : (k * 1000000000000000000).natAbs = k.toNat * 1000000000000000000 := by omega
  have h2 : (1000000000000000000 : Int).natAbs = 1000000000000000000 := by decide
  rw [h1, h2]
  have h3 : k.toNat * 1000000000000000000 % 1000000000000000000 = 0 := by omega
  have h4 : k.toNat * 1000000000000000000 / 1000000000000000000 = k.toNat := by omega
  simp only [h3, h4, ↓reduceIte]
  split <;> omega

/-- `Dec(a) / 10^-6` is exactly `a · 10^6` -/
theorem quo_unitPrice (a : Int) (ha : 0 ≤ a) : Dec.quo (Dec.ofInt a) unitPriceDec = a * 1000000 * 1000000000000000000 := by
  unfold Dec.quo Dec.ofInt unitPriceDec precision
  have e : a * 1000000000000000000 * 1000000000000000000 * 1000000000000000000 =
      (a * 1000000 * 1000000000000000000 * 1000000000000000000) * 1000000000000 := by
    simp only [Int.mul_assoc]
    congr 1
  rw [e, Int.mul_tdiv_cancel _ (by decide)]
  exact chopRound_exact (a * 1000000 * 1000000000000000000) (by omega)

/-- "truncate, then add one coin when a fraction remains" is the ceiling, for non-negative amounts -/
theorem ceilCoin_nonneg (d : Int) (h : 0 ≤ d) : ceilCoin d = .ok ((d + 999999999999999999) / 1000000000000000000) := by
  unfold ceilCoin
  simp only [bind, Except.bind, pure, Except.pure]
  rw [truncate_nonneg d h]
  unfold Dec.ofInt precision
  have h1 : ¬ (d / 1000000000000000000 < 0) := by omega
  have h2 : ¬ (d - d / 1000000000000000000 * 1000000000000000000 < 0) := by omega
  simp only [h1, h2, ↓reduceIte]
  split
  · rename_i hnz
    congr 1
    have : d - d / 1000000000000000000 * 1000000000000000000 ≠ 0 := hnz
    omega
  · rename_i hz
    congr 1
    have : ¬ (d - d / 1000000000000000000 * 1000000000000000000 ≠ 0) := hz
    omega

theorem toI64_small (n : Nat) (h : n < 9223372036854775808) : toI64 n = (n : Int) := by
  unfold toI64
  have : n % 18446744073709551616 = n := Nat.mod_eq_of_lt (by omega)
  simp only [this]
  split <;> omega

end SaoVerif
