import SaoVerif.Proofs.Fixed2
namespace SaoVerif

def shPart (s : State) : List Shard := s.shards

@[simp] theorem setOrder_shp (s : State) (o : Order) : shPart (s.setOrder o) = shPart s := rfl
@[simp] theorem removeOrder_shp (s : State) (i : Nat) : shPart (s.removeOrder i) = shPart s := rfl
@[simp] theorem appendOrder_shp (s : State) (o : Order) : shPart (s.appendOrder o).2 = shPart s := rfl
@[simp] theorem setMeta_shp (s : State) (m : Metadata) : shPart (s.setMeta m) = shPart s := rfl
@[simp] theorem removeMeta_shp (s : State) (d : Bytes) : shPart (s.removeMeta d) = shPart s := rfl
@[simp] theorem setModel_shp (s : State) (m : ModelEntry) : shPart (s.setModel m) = shPart s := rfl
@[simp] theorem removeModel_shp (s : State) (k : ModelKey) : shPart (s.removeModel k) = shPart s := rfl
@[simp] theorem setNode_shp (e : Env) (s : State) (n : Node) : shPart (s.setNode e n) = shPart s := rfl
@[simp] theorem setPledge_shp (s : State) (p : Pledge) : shPart (s.setPledge p) = shPart s := rfl
@[simp] theorem setWorker_shp (s : State) (w : Worker) : shPart (s.setWorker w) = shPart s := rfl
@[simp] theorem setDebt_shp (s : State) (a : Addr) (d : Int) : shPart (s.setDebt a d) = shPart s := rfl
@[simp] theorem removeDebt_shp (s : State) (a : Addr) : shPart (s.removeDebt a) = shPart s := rfl
@[simp] theorem setBal_shp (s : State) (a : Addr) (v : Int) : shPart (s.setBal a v) = shPart s := rfl
@[simp] theorem setDataExpireBlock_shp (s : State) (d : Bytes) (a : Nat) : shPart (setDataExpireBlock s d a) = shPart s := rfl
@[simp] theorem setTimeoutOrderBlock_shp (s : State) (i a : Nat) : shPart (setTimeoutOrderBlock s i a) = shPart s := rfl
@[simp] theorem setExpiredShardBlock_shp (s : State) (i a : Nat) : shPart (setExpiredShardBlock s i a) = shPart s := rfl

theorem send_shp (s s' : State) (a b : Addr) (x : Int) (h : s.send a b x = .ok s') : shPart s' = shPart s := by
  unfold State.send at h
  split at h
  · cases h
  · split at h
    · cases h
    · simp only [pure, Except.pure, Except.ok.injEq] at h; subst h; rfl

theorem sendLit_shp (s s' : State) (a b : Addr) (x : Int) (h : s.sendLit a b x = .ok s') : shPart s' = shPart s := by
  unfold State.sendLit at h
  split at h
  · cases h
  · exact send_shp _ _ _ _ _ h

theorem removeDataExpireBlock_shp (s s' : State) (d : Bytes) (a : Nat) (h : removeDataExpireBlock s d a = .ok s') :
    shPart s' = shPart s := by
  unfold removeDataExpireBlock at h
  split at h
  · simp only [pure, Except.pure, Except.ok.injEq] at h; subst h; rfl
  · split at h
    · cases h
    · simp only at h
      split at h <;> (simp only [pure, Except.pure, Except.ok.injEq] at h; subst h; rfl)

theorem workerRelease_shp (s : State) (o : Order) (sh : Shard) : shPart (workerRelease s o sh).1 = shPart s := by
  unfold workerRelease; split <;> rfl

@[simp] theorem workerAppend_shp (s : State) (o : Order) (sh : Shard) : shPart (workerAppend s o sh) = shPart s := rfl

theorem withdrawLoop_shp (o : Order) (l : List Nat) (s : State) (r : Dec) : shPart (withdrawLoop o l s r).1 = shPart s := by
  induction l generalizing s r with
  | nil => rfl
  | cons id t ih =>
    unfold withdrawLoop
    split
    · exact ih _ _
    · split
      · exact ih _ _
      · simp only
        split
        · split
          · rename_i sh _ _ _ _ s1 m hw
            have := workerRelease_shp s o sh
            rw [hw] at this
            exact this
          · rename_i sh _ _ _ _ s1 hw
            rw [ih]
            have := workerRelease_shp s o sh
            rw [hw] at this
            exact this
        · split
          · exact ih _ _
          · split <;> exact ih _ _

attribute [grind →] send_shp sendLit_shp removeDataExpireBlock_shp
attribute [grind =] setOrder_shp removeOrder_shp appendOrder_shp
  setMeta_shp removeMeta_shp setModel_shp removeModel_shp setNode_shp setPledge_shp setWorker_shp setDebt_shp
  removeDebt_shp setBal_shp setDataExpireBlock_shp setTimeoutOrderBlock_shp setExpiredShardBlock_shp workerAppend_shp
  workerRelease_shp withdrawLoop_shp

theorem shPart_def (s : State) : shPart s = s.shards := rfl

macro "shp_auto" h:ident : tactic => `(tactic| (
  simp only [bind, Except.bind, pure, Except.pure, throw, throwThe, MonadExceptOf.throw] at $h:ident
  repeat' (split at $h:ident)
  all_goals (first | cases $h:ident | skip)
  all_goals (try simp only [Except.ok.injEq, Prod.mk.injEq] at $h:ident)
  all_goals (first | grind | (simp only [shPart_def, State.setOrder, State.removeOrder, State.setMeta,
      State.removeMeta, State.setModel, State.removeModel, State.setNode, State.setPledge, State.setWorker, State.setDebt,
      State.removeDebt, State.setBal, State.setMeta]; grind [shPart_def]))))

@[grind →] theorem marketWithdraw_shp (e : Env) (s s' : State) (o : Order) (x : Int × Option String)
    (h : marketWithdraw e s o = .ok (s', x)) : shPart s' = shPart s := by
  unfold marketWithdraw at h
  shp_auto h

@[grind =] theorem repayPledgeDebt_shp (s : State) (sp : Addr) (l : List Int) : shPart (repayPledgeDebt s sp l).1 = shPart s := by
  unfold repayPledgeDebt
  repeat' split
  all_goals grind

@[grind →] theorem shardRelease_shp (e : Env) (s s' : State) (sp : Addr) (sh : Option Shard) (x : Option String)
    (h : shardRelease e s sp sh = .ok (s', x)) : shPart s' = shPart s := by
  unfold shardRelease at h
  shp_auto h

@[grind →] theorem sendToDidBalances_shp (s s' : State) (d : Did) (a : Int) (h : sendToDidBalances s d a = .ok s') : s' = s := by
  unfold sendToDidBalances at h
  split at h
  · simp only [pure, Except.pure, Except.ok.injEq] at h; exact h.symm
  · cases h

@[grind →] theorem orderTerminate_shp (e : Env) (s s' : State) (oid : Nat) (r : Int) (x : Option String)
    (h : orderTerminate e s oid r = .ok (s', x)) : shPart s' = shPart s := by
  unfold orderTerminate at h
  shp_auto h

@[grind →] theorem terminateRel_shp (e : Env) (o : Order) (l : List Nat) (s s' : State) (x : Option String)
    (h : modelTerminateOrder.rel e o l s = .ok (s', x)) : shPart s' = shPart s := by
  induction l generalizing s with
  | nil =>
    unfold modelTerminateOrder.rel at h
    simp only [pure, Except.pure, Except.ok.injEq, Prod.mk.injEq] at h
    rw [← h.1]
  | cons id t ih =>
    unfold modelTerminateOrder.rel at h
    split at h
    · exact ih _ h
    · split at h
      · simp only [bind, Except.bind, pure, Except.pure] at h
        split at h
        · cases h
        · rename_i y hy
          obtain ⟨s1, er⟩ := y
          simp only at h
          split at h
          · simp only [Except.ok.injEq, Prod.mk.injEq] at h; rw [← h.1]; exact shardRelease_shp _ _ _ _ _ _ hy
          · rw [ih _ h]; exact shardRelease_shp _ _ _ _ _ _ hy
      · exact ih _ h

@[grind →] theorem modelTerminateOrder_shp (e : Env) (s s' : State) (o : Order) (x : Option String)
    (h : modelTerminateOrder e s o = .ok (s', x)) : shPart s' = shPart s := by
  unfold modelTerminateOrder at h
  shp_auto h

end SaoVerif
