import SaoVerif.Proofs.Frames
import SaoVerif.Model.Step
/-! Who writes the node records: every function of the model except node creation / reset, the role changes of the capacity
    handlers and the staking hooks, the reputation credit of Complete and the offline detection of the end-blocker leaves
    `s.nodes` exactly as it was (clone of Proofs/Fixed.lean + Fixed2.lean for the projection `nodesPart`). -/
namespace SaoVerif

def nodesPart (s : State) : List Node := s.nodes

/-! ### primitives (record updates of other fields): by `rfl` -/
@[simp] theorem setOrder_nd (s : State) (o : Order) : nodesPart (s.setOrder o) = nodesPart s := rfl
@[simp] theorem removeOrder_nd (s : State) (i : Nat) : nodesPart (s.removeOrder i) = nodesPart s := rfl
@[simp] theorem appendOrder_nd (s : State) (o : Order) : nodesPart (s.appendOrder o).2 = nodesPart s := rfl
@[simp] theorem setShard_nd (s : State) (x : Shard) : nodesPart (s.setShard x) = nodesPart s := rfl
@[simp] theorem removeShard_nd (s : State) (i : Nat) : nodesPart (s.removeShard i) = nodesPart s := rfl
@[simp] theorem appendShard_nd (s : State) (x : Shard) : nodesPart (s.appendShard x).2 = nodesPart s := rfl
@[simp] theorem setMeta_nd (s : State) (m : Metadata) : nodesPart (s.setMeta m) = nodesPart s := rfl
@[simp] theorem removeMeta_nd (s : State) (d : Bytes) : nodesPart (s.removeMeta d) = nodesPart s := rfl
@[simp] theorem setModel_nd (s : State) (m : ModelEntry) : nodesPart (s.setModel m) = nodesPart s := rfl
@[simp] theorem removeModel_nd (s : State) (k : ModelKey) : nodesPart (s.removeModel k) = nodesPart s := rfl
@[simp] theorem setPledge_nd (s : State) (p : Pledge) : nodesPart (s.setPledge p) = nodesPart s := rfl
@[simp] theorem setWorker_nd (s : State) (w : Worker) : nodesPart (s.setWorker w) = nodesPart s := rfl
@[simp] theorem setDebt_nd (s : State) (a : Addr) (d : Int) : nodesPart (s.setDebt a d) = nodesPart s := rfl
@[simp] theorem removeDebt_nd (s : State) (a : Addr) : nodesPart (s.removeDebt a) = nodesPart s := rfl
@[simp] theorem setBal_nd (s : State) (a : Addr) (v : Int) : nodesPart (s.setBal a v) = nodesPart s := rfl
@[simp] theorem setDataExpireBlock_nd (s : State) (d : Bytes) (a : Nat) : nodesPart (setDataExpireBlock s d a) = nodesPart s := rfl
@[simp] theorem setTimeoutOrderBlock_nd (s : State) (i a : Nat) : nodesPart (setTimeoutOrderBlock s i a) = nodesPart s := rfl
@[simp] theorem setExpiredShardBlock_nd (s : State) (i a : Nat) : nodesPart (setExpiredShardBlock s i a) = nodesPart s := rfl

theorem send_nd (s s' : State) (a b : Addr) (x : Int) (h : s.send a b x = .ok s') : nodesPart s' = nodesPart s := by
  unfold State.send at h
  split at h
  · cases h
  · split at h
    · cases h
    · simp only [pure, Except.pure, Except.ok.injEq] at h; subst h; rfl

theorem sendLit_nd (s s' : State) (a b : Addr) (x : Int) (h : s.sendLit a b x = .ok s') : nodesPart s' = nodesPart s := by
  unfold State.sendLit at h
  split at h
  · cases h
  · exact send_nd _ _ _ _ _ h

theorem removeDataExpireBlock_nd (s s' : State) (d : Bytes) (a : Nat) (h : removeDataExpireBlock s d a = .ok s') :
    nodesPart s' = nodesPart s := by
  unfold removeDataExpireBlock at h
  split at h
  · simp only [pure, Except.pure, Except.ok.injEq] at h; subst h; rfl
  · split at h
    · cases h
    · simp only at h
      split at h <;> (simp only [pure, Except.pure, Except.ok.injEq] at h; subst h; rfl)

/-! ### market -/
theorem workerRelease_nd (s : State) (o : Order) (sh : Shard) : nodesPart (workerRelease s o sh).1 = nodesPart s := by
  unfold workerRelease; split <;> rfl

@[simp] theorem workerAppend_nd (s : State) (o : Order) (sh : Shard) : nodesPart (workerAppend s o sh) = nodesPart s := rfl

theorem marketDeposit_nd (e : Env) (s s' : State) (o : Order) (x : Option String)
    (h : marketDeposit e s o = .ok (s', x)) : nodesPart s' = nodesPart s := by
  unfold marketDeposit at h
  split at h
  · simp only [pure, Except.pure, Except.ok.injEq, Prod.mk.injEq] at h; rw [← h.1]
  · split at h
    · simp only [pure, Except.pure, Except.ok.injEq, Prod.mk.injEq] at h; rw [← h.1]
    · rename_i s1 hs
      simp only [pure, Except.pure, Except.ok.injEq, Prod.mk.injEq] at h; rw [← h.1]
      exact send_nd _ _ _ _ _ hs

theorem withdrawLoop_nd (o : Order) (l : List Nat) (s : State) (r : Dec) : nodesPart (withdrawLoop o l s r).1 = nodesPart s := by
  induction l generalizing s r with
  | nil => rfl
  | cons id t ih =>
    unfold withdrawLoop
    split
    · exact ih _ _
    · split
      · exact ih _ _
      · simp only
        split
        · split
          · rename_i sh _ _ _ _ s1 m hw
            have := workerRelease_nd s o sh
            rw [hw] at this
            exact this
          · rename_i sh _ _ _ _ s1 hw
            rw [ih]
            have := workerRelease_nd s o sh
            rw [hw] at this
            exact this
        · split
          · exact ih _ _
          · split <;> exact ih _ _


attribute [grind →] send_nd sendLit_nd removeDataExpireBlock_nd marketDeposit_nd
attribute [grind =] setOrder_nd removeOrder_nd appendOrder_nd setShard_nd removeShard_nd appendShard_nd
  setMeta_nd removeMeta_nd setModel_nd removeModel_nd setPledge_nd setWorker_nd setDebt_nd
  removeDebt_nd setBal_nd setDataExpireBlock_nd setTimeoutOrderBlock_nd setExpiredShardBlock_nd workerAppend_nd
  workerRelease_nd withdrawLoop_nd

/-- `nodesPart` of a state written as a record literal (`{ s with pool := … }` elaborates to one) -/
@[grind =] theorem nodesPart_mk (h : Int) (seed : Nat) (bank : Map Addr Int) (supply : Int) (orders : List Order) (orderCount : Option Nat)
    (shards : List Shard) (shardCount : Nat) (metas : List Metadata) (models : List ModelEntry) (expiredData : Map Nat (List Bytes))
    (timeoutQ : Map Nat (List Nat)) (expiredShardQ : Map Nat (List Nat)) (nodes : List Node) (nodeRound : Option Nat)
    (pledges : List Pledge) (debts : Map Addr Int) (pool : Option Pool) (params : NodeParams) (faults : List Fault)
    (faultIdx : List FaultIdx) (fishing : List ((Nat × Nat) × Dec)) (workers : List Worker) (did : DidState) (staking : StakingView) :
    nodesPart { h := h, seed := seed, bank := bank, supply := supply, orders := orders, orderCount := orderCount, shards := shards,
                shardCount := shardCount, metas := metas, models := models, expiredData := expiredData, timeoutQ := timeoutQ,
                expiredShardQ := expiredShardQ, nodes := nodes, nodeRound := nodeRound, pledges := pledges, debts := debts, pool := pool,
                params := params, faults := faults, faultIdx := faultIdx, fishing := fishing, workers := workers, did := did,
                staking := staking } = nodes := rfl

theorem nodesPart_def (s : State) : nodesPart s = s.nodes := rfl

/-- unfold-free finishing tactic: split every `if`/`match` of the hypothesis, drop the failing branches, and let
    `grind` chain the footprint lemmas of the callees along each successful path -/
macro "nd_auto" h:ident : tactic => `(tactic| (
  simp only [bind, Except.bind, pure, Except.pure, throw, throwThe, MonadExceptOf.throw] at $h:ident
  repeat' (split at $h:ident)
  all_goals (first | cases $h:ident | skip)
  all_goals (try simp only [Except.ok.injEq, Prod.mk.injEq] at $h:ident)
  all_goals (first | grind | (simp only [nodesPart_def, State.setOrder, State.removeOrder, State.setShard, State.removeShard, State.setMeta,
      State.removeMeta, State.setModel, State.removeModel, State.setNode, State.setPledge, State.setWorker, State.setDebt,
      State.removeDebt, State.setBal]; grind [nodesPart_def]))))

@[grind →] theorem marketWithdraw_nd (e : Env) (s s' : State) (o : Order) (x : Int × Option String)
    (h : marketWithdraw e s o = .ok (s', x)) : nodesPart s' = nodesPart s := by
  unfold marketWithdraw at h
  nd_auto h

@[grind =] theorem marketMigrate_nd (s : State) (o : Order) (a b : Shard) : nodesPart (marketMigrate s o a b).1 = nodesPart s := by
  unfold marketMigrate
  split <;> grind

/-! ### node -/
@[grind =] theorem repayPledgeDebt_nd (s : State) (sp : Addr) (l : List Int) : nodesPart (repayPledgeDebt s sp l).1 = nodesPart s := by
  unfold repayPledgeDebt
  repeat' split
  all_goals grind

@[grind →] theorem marketClaim_nd (s s' : State) (sp : Addr) (x : Int) (h : marketClaim s sp = .ok (s', x)) : nodesPart s' = nodesPart s := by
  unfold marketClaim at h
  nd_auto h

@[grind →] theorem shardRelease_nd (e : Env) (s s' : State) (sp : Addr) (sh : Option Shard) (x : Option String)
    (h : shardRelease e s sp sh = .ok (s', x)) : nodesPart s' = nodesPart s := by
  unfold shardRelease at h
  nd_auto h

@[grind →] theorem shardPledge_nd (e : Env) (s s' : State) (sh : Shard) (up : Dec) (x : Option String)
    (h : shardPledge e s sh up = .ok (s', x)) : nodesPart s' = nodesPart s := by
  unfold shardPledge at h
  nd_auto h

@[grind →] theorem nodeClaimReward_nd (e : Env) (s s' : State) (c : Addr) (x : Int)
    (h : nodeClaimReward e s c = .ok (s', x)) : nodesPart s' = nodesPart s := by
  unfold nodeClaimReward at h
  nd_auto h

/-! ### order / model keepers -/
@[grind =] theorem newShardTask_nd (s : State) (o : Order) (sp : Addr) : nodesPart (newShardTask s o sp).2 = nodesPart s := rfl

@[grind =] theorem generateShards_nd (s : State) (o : Order) (sps : List Addr) : nodesPart (generateShards s o sps).2 = nodesPart s := by
  unfold generateShards
  have gen : ∀ (l : List Addr) (acc : Order × State),
      nodesPart (l.foldl (fun (acc : Order × State) sp =>
        let (sh, s') := newShardTask acc.2 acc.1 sp
        ({ acc.1 with shards := acc.1.shards ++ [sh.id] }, s')) acc).2 = nodesPart acc.2 := by
    intro l
    induction l with
    | nil => intro acc; rfl
    | cons a t ih => intro acc; simp only [List.foldl_cons]; rw [ih]; rfl
  exact gen sps (o, s)

@[grind =] theorem newOrder_nd (s : State) (o : Order) (sps : List Addr) : nodesPart (newOrder s o sps).2 = nodesPart s := by
  unfold newOrder
  simp only
  rw [setOrder_nd, generateShards_nd]
  rfl

@[grind =] theorem renewOrder_nd (e : Env) (s : State) (o : Order) : nodesPart (renewOrder e s o).1 = nodesPart s := by
  unfold renewOrder
  repeat' split
  all_goals (first | rfl | grind)

@[grind →] theorem sendToDidBalances_nd (s s' : State) (d : Did) (a : Int) (h : sendToDidBalances s d a = .ok s') : s' = s := by
  unfold sendToDidBalances at h
  split at h
  · simp only [pure, Except.pure, Except.ok.injEq] at h; exact h.symm
  · cases h

@[grind →] theorem orderTerminate_nd (e : Env) (s s' : State) (oid : Nat) (r : Int) (x : Option String)
    (h : orderTerminate e s oid r = .ok (s', x)) : nodesPart s' = nodesPart s := by
  unfold orderTerminate at h
  nd_auto h

@[grind =] theorem refundOrder_nd (e : Env) (s : State) (oid : Nat) : nodesPart (refundOrder e s oid).1 = nodesPart s := by
  unfold refundOrder
  repeat' split
  all_goals (first | rfl | grind)

@[grind →] theorem resetMetaDuration_nd (s s' : State) (m m' : Metadata) (h : resetMetaDuration s m = .ok (s', m')) :
    nodesPart s' = nodesPart s := by
  unfold resetMetaDuration at h
  nd_auto h

@[grind →] theorem extendMetaDuration_nd (s s' : State) (d : Bytes) (a : Nat) (h : extendMetaDuration s d a = .ok s') :
    nodesPart s' = nodesPart s := by
  unfold extendMetaDuration at h
  nd_auto h

@[grind =] theorem deleteMeta_nd (s : State) (d : Bytes) : nodesPart (deleteMeta s d).1 = nodesPart s := by
  unfold deleteMeta
  split <;> rfl

@[grind →] theorem terminateRel_nd (e : Env) (o : Order) (l : List Nat) (s s' : State) (x : Option String)
    (h : modelTerminateOrder.rel e o l s = .ok (s', x)) : nodesPart s' = nodesPart s := by
  induction l generalizing s with
  | nil =>
    unfold modelTerminateOrder.rel at h
    simp only [pure, Except.pure, Except.ok.injEq, Prod.mk.injEq] at h
    rw [← h.1]
  | cons id t ih =>
    unfold modelTerminateOrder.rel at h
    split at h
    · exact ih _ h
    · split at h
      · simp only [bind, Except.bind, pure, Except.pure] at h
        split at h
        · cases h
        · rename_i y hy
          obtain ⟨s1, er⟩ := y
          simp only at h
          split at h
          · simp only [Except.ok.injEq, Prod.mk.injEq] at h; rw [← h.1]; exact shardRelease_nd _ _ _ _ _ _ hy
          · rw [ih _ h]; exact shardRelease_nd _ _ _ _ _ _ hy
      · exact ih _ h

@[grind →] theorem modelTerminateOrder_nd (e : Env) (s s' : State) (o : Order) (x : Option String)
    (h : modelTerminateOrder e s o = .ok (s', x)) : nodesPart s' = nodesPart s := by
  unfold modelTerminateOrder at h
  nd_auto h

@[grind →] theorem rollbackMeta_nd (s s' : State) (d : Bytes) (h : rollbackMeta s d = .ok s') : nodesPart s' = nodesPart s := by
  unfold rollbackMeta at h
  nd_auto h

@[grind →] theorem cancelOrder_nd (e : Env) (s s' : State) (oid : Nat) (x : Option String)
    (h : cancelOrder e s oid = .ok (s', x)) : nodesPart s' = nodesPart s := by
  unfold cancelOrder at h
  nd_auto h

@[grind →] theorem updateMetaStatusAndCommit_nd (s s' : State) (o : Order) (x : Option String)
    (h : updateMetaStatusAndCommit s o = .ok (s', x)) : nodesPart s' = nodesPart s := by
  unfold updateMetaStatusAndCommit at h
  nd_auto h

@[grind =] theorem newMeta_nd (s : State) (o : Order) (m : Metadata) : nodesPart (newMeta s o m).1 = nodesPart s := by
  unfold newMeta
  repeat' split
  all_goals rfl

@[grind =] theorem updatePermission_nd (s : State) (ow : Did) (d : Bytes) (ro rw : List Did) :
    nodesPart (updatePermission s ow d ro rw).1 = nodesPart s := by
  unfold updatePermission
  repeat' split
  all_goals rfl

@[grind =] theorem foldl_removeShard_nd (ids : List Nat) (s : State) :
    nodesPart (ids.foldl (fun s id => s.removeShard id) s) = nodesPart s := by
  induction ids generalizing s with
  | nil => rfl
  | cons a t ih => simp only [List.foldl_cons]; rw [ih]; rfl

@[grind →] theorem updateMetaLoop_nd (e : Env) (lc : Bytes) (fuel : Nat) (s s' : State) (orders shardSet : List Nat)
    (x : List Nat × List Nat × Option String)
    (h : updateMeta.loop e lc fuel s orders shardSet = .ok (s', x)) : nodesPart s' = nodesPart s := by
  induction fuel generalizing s orders shardSet with
  | zero =>
    unfold updateMeta.loop at h
    simp only [pure, Except.pure, Except.ok.injEq, Prod.mk.injEq] at h
    rw [← h.1]
  | succ n ih =>
    unfold updateMeta.loop at h
    split at h
    · simp only [pure, Except.pure, Except.ok.injEq, Prod.mk.injEq] at h; rw [← h.1]
    · split at h
      · simp only [pure, Except.pure, Except.ok.injEq, Prod.mk.injEq] at h; rw [← h.1]
      · split at h
        · simp only [pure, Except.pure, Except.ok.injEq, Prod.mk.injEq] at h; rw [← h.1]
        · simp only [bind, Except.bind, pure, Except.pure] at h
          split at h
          · cases h
          · rename_i y hy
            obtain ⟨s1, er⟩ := y
            simp only at h
            split at h
            · simp only [Except.ok.injEq, Prod.mk.injEq] at h; rw [← h.1]; exact modelTerminateOrder_nd _ _ _ _ _ hy
            · rw [ih _ _ _ h]; exact modelTerminateOrder_nd _ _ _ _ _ hy

@[grind →] theorem updateMeta_nd (e : Env) (s s' : State) (o : Order) (x : Option String)
    (h : updateMeta e s o = .ok (s', x)) : nodesPart s' = nodesPart s := by
  unfold updateMeta at h
  nd_auto h

/-! ### sao handlers -/
@[grind →] theorem getSps_nd (s s' : State) (o : Order) (d : Bytes) (sps : List Node) (h : getSps s o d = .ok (s', sps)) :
    nodesPart s' = nodesPart s := by
  have := getSps_round _ _ _ _ _ h
  unfold sameButRound at this
  rw [this]; rfl

@[grind →] theorem randomSP_nd (s s' : State) (c : Int) (ig : List Addr) (sz : Int) (sps : List Node)
    (h : randomSP s c ig sz = .ok (s', sps)) : nodesPart s' = nodesPart s := by
  have := randomSP_round _ _ _ _ _ _ h
  unfold sameButRound at this
  rw [this]; rfl

@[grind →] theorem storeAttach_nd (s s' : State) (m : StoreMsg) (o : Order) (a b : Bytes) (h : storeAttach s m o a b = .ok s') :
    nodesPart s' = nodesPart s := by
  unfold storeAttach softTx softTx' at h
  nd_auto h

@[grind →] theorem saoReadyBody_nd (s s' : State) (o : Order) (h : saoReadyBody s o = .ok s') : nodesPart s' = nodesPart s := by
  unfold saoReadyBody at h
  nd_auto h

@[grind →] theorem saoReady_nd (s s' : State) (c p : Addr) (oid : Nat) (h : saoReady s c p oid = .ok s') : nodesPart s' = nodesPart s := by
  unfold saoReady at h
  nd_auto h

@[grind →] theorem cancelLoop_nd (e : Env) (l : List Nat) (s s' : State) (h : saoCancelBody.loop e l s = .ok s') :
    nodesPart s' = nodesPart s := by
  induction l generalizing s with
  | nil => unfold saoCancelBody.loop at h; simp only [pure, Except.pure, Except.ok.injEq] at h; rw [← h]
  | cons id t ih =>
    unfold saoCancelBody.loop softTx at h
    simp only [bind, Except.bind, pure, Except.pure, throw, throwThe, MonadExceptOf.throw] at h
    split at h
    · split at h
      · cases h
      · rename_i v hv
        rw [ih _ h, removeShard_nd]
        repeat' (split at hv)
        all_goals (first | cases hv | skip)
        all_goals (try simp only [Except.ok.injEq] at hv)
        all_goals grind
    · cases h

@[grind →] theorem saoCancelBody_nd (e : Env) (s s' : State) (o : Order) (oid : Nat) (h : saoCancelBody e s o oid = .ok s') :
    nodesPart s' = nodesPart s := by
  unfold saoCancelBody softTx at h
  nd_auto h

@[grind →] theorem saoCancel_nd (e : Env) (s s' : State) (c p : Addr) (oid : Nat) (h : saoCancel e s c p oid = .ok s') :
    nodesPart s' = nodesPart s := by
  unfold saoCancel at h
  nd_auto h

theorem foldl_nd {α : Type} (f : State → α → State) (hf : ∀ s a, nodesPart (f s a) = nodesPart s) (l : List α) (s : State) :
    nodesPart (l.foldl f s) = nodesPart s := by
  induction l generalizing s with
  | nil => rfl
  | cons a t ih => simp only [List.foldl_cons]; rw [ih, hf]

/-! ### inversion of the transaction monad (kernel-cheap alternative to `split` on large handlers) -/
theorem bind_ok {α β : Type} {x : TxM α} {f : α → TxM β} {b : β} (h : (x >>= f) = .ok b) : ∃ a, x = .ok a ∧ f a = .ok b := by
  cases x with
  | error e => cases h
  | ok a => exact ⟨a, rfl, h⟩

theorem throw_bind_ne {α β : Type} {m : String} {f : α → TxM β} {b : β} (h : ((throw m : TxM α) >>= f) = .ok b) : False := by
  cases h

theorem softTx_ok {α : Type} {r : TxM (α × Option String)} {a : α} (h : softTx r = .ok a) : r = .ok (a, none) := by
  unfold softTx at h
  obtain ⟨x, hx, h⟩ := bind_ok h
  obtain ⟨a', er⟩ := x
  cases er with
  | some m => cases h
  | none => simp only [pure, Except.pure, Except.ok.injEq] at h; rw [hx, h]

theorem softTx'_ok {α : Type} {r : α × Option String} {a : α} (h : softTx' r = .ok a) : r.1 = a := by
  unfold softTx' at h
  split at h
  · cases h
  · simp only [pure, Except.pure, Except.ok.injEq] at h; exact h




@[grind →] theorem completeMigration_nd (e : Env) (s s' : State) (o : Order) (sh : Shard) (x : Order × Shard × Order)
    (h : completeMigration e s o sh = .ok (s', x)) : nodesPart s' = nodesPart s := by
  unfold completeMigration softTx softTx' at h
  simp only [bind, Except.bind, pure, Except.pure, throw, throwThe, MonadExceptOf.throw] at h
  split at h
  · cases h
  · split at h
    · cases h
    · rename_i v hv
      have hv' : nodesPart v = nodesPart s := by
        split at hv
        · cases hv
        · rename_i w hw
          split at hv
          · cases hv
          · simp only [Except.ok.injEq] at hv
            rw [← hv]
            exact shardRelease_nd _ _ _ _ _ _ hw
      split at h
      · split at h
        · cases h
        · rename_i v2 hv2
          have hv2' : nodesPart v2 = nodesPart v := by
            split at hv2
            · cases hv2
            · simp only [Except.ok.injEq] at hv2
              rw [← hv2]
              exact marketMigrate_nd _ _ _ _
          simp only [Except.ok.injEq, Prod.mk.injEq] at h
          rw [← h.1, foldl_nd _ (by intro s a; split <;> rfl)]
          split <;> simp [hv2', hv']
      · cases h

@[grind →] theorem completeFresh_nd (e : Env) (s s' : State) (o : Order) (sh : Shard) (x : Order × Shard × Order)
    (h : completeFresh e s o sh = .ok (s', x)) : nodesPart s' = nodesPart s := by
  unfold completeFresh softTx at h
  simp only [bind, Except.bind, pure, Except.pure, throw, throwThe, MonadExceptOf.throw] at h
  split at h
  · split at h
    · cases h
    · rename_i v hv
      have hv' : nodesPart v = nodesPart s := by
        split at hv
        · cases hv
        · rename_i w hw
          split at hv
          · cases hv
          · simp only [Except.ok.injEq] at hv
            rw [← hv, updateMeta_nd _ _ _ _ _ hw]; rfl
      split at h
      · cases h
      · rename_i v2 hv2
        have hv2' : nodesPart v2 = nodesPart v := by
          split at hv2
          · cases hv2
          · rename_i w hw
            split at hv2
            · cases hv2
            · simp only [Except.ok.injEq] at hv2
              rw [← hv2]; exact marketDeposit_nd _ _ _ _ _ hw
        simp only [Except.ok.injEq, Prod.mk.injEq] at h
        rw [← h.1, hv2', hv']
  · simp only [Except.ok.injEq, Prod.mk.injEq] at h
    rw [← h.1]; rfl

/-! ### Terminate -/
@[grind →] theorem terminateLoop_nd (e : Env) (l : List Nat) (s s' : State) (set set' : List Nat)
    (h : saoTerminate.loop e l s set = .ok (s', set')) : nodesPart s' = nodesPart s := by
  induction l generalizing s set with
  | nil =>
    unfold saoTerminate.loop at h
    simp only [pure, Except.pure, Except.ok.injEq, Prod.mk.injEq] at h
    rw [← h.1]
  | cons oid t ih =>
    unfold saoTerminate.loop at h
    split at h
    · exact ih _ _ h
    · obtain ⟨v, hv, h⟩ := bind_ok h
      rw [ih _ _ h, modelTerminateOrder_nd _ _ _ _ _ (softTx_ok hv)]

@[grind →] theorem saoTerminate_nd (e : Env) (s s' : State) (c p : Addr) (ow : Did) (d : Bytes) (sv : Bool) (sd : Did)
    (h : saoTerminate e s c p ow d sv sd = .ok s') : nodesPart s' = nodesPart s := by
  unfold saoTerminate at h
  dsimp only at h
  split at h
  · exact (throw_bind_ne h).elim
  split at h
  · exact (throw_bind_ne h).elim
  split at h
  · rename_i md hmd
    split at h
    · exact (throw_bind_ne h).elim
    · obtain ⟨v, hv, h⟩ := bind_ok h
      obtain ⟨s1, set⟩ := v
      dsimp only at h
      have := softTx'_ok h
      rw [← this, deleteMeta_nd, foldl_removeShard_nd, terminateLoop_nd _ _ _ _ _ _ hv]
  · cases h

/-! ### Renew -/
theorem send_or_self_nd (s : State) (a b : Addr) (x : Int) :
    nodesPart (match s.send a b x with | .ok s' => s' | .error _ => s) = nodesPart s := by
  split
  · rename_i s' h; exact send_nd _ _ _ _ _ h
  · rfl

theorem sendLit_or_self_nd (s : State) (a b : Addr) (x : Int) :
    nodesPart (match s.sendLit a b x with | .ok s' => s' | .error _ => s) = nodesPart s := by
  split
  · rename_i s' h; exact sendLit_nd _ _ _ _ _ h
  · rfl

@[grind →] theorem renewShard_nd (e : Env) (s s' : State) (sh : Shard) (oid dur : Nat) (up : Dec) (x : Int × Nat)
    (h : renewShard e s sh oid dur up = .ok (s', x)) : nodesPart s' = nodesPart s := by
  unfold renewShard at h
  obtain ⟨np, _, h⟩ := bind_ok h
  obtain ⟨v, hv, h⟩ := bind_ok h
  obtain ⟨s1, sh1, chg⟩ := v
  dsimp only at h
  simp only [pure, Except.pure, Except.ok.injEq, Prod.mk.injEq] at h
  rw [← h.1, setShard_nd]
  split at hv
  · dsimp only at hv
    split at hv
    · rename_i pl hpl
      simp only [pure, Except.pure, Except.ok.injEq, Prod.mk.injEq] at hv
      rw [← hv.1, setPledge_nd]
      split
      · exact send_or_self_nd _ _ _ _
      · rw [setDebt_nd]; exact sendLit_or_self_nd _ _ _ _
    · cases hv
  · simp only [pure, Except.pure, Except.ok.injEq, Prod.mk.injEq] at hv
    rw [← hv.1]

@[grind →] theorem renewLoop_nd (e : Env) (dur : Nat) (newO : Order) (l : List Shard) (s s' : State) (chg : Int) (mx : Nat) (x : Int × Nat)
    (h : renewBody.loop e dur newO l s chg mx = .ok (s', x)) : nodesPart s' = nodesPart s := by
  induction l generalizing s chg mx with
  | nil =>
    unfold renewBody.loop at h
    simp only [pure, Except.pure, Except.ok.injEq, Prod.mk.injEq] at h
    rw [← h.1]
  | cons sh t ih =>
    unfold renewBody.loop at h
    split at h
    · exact ih _ _ _ h
    · obtain ⟨v, hv, h⟩ := bind_ok h
      obtain ⟨s1, c, ex⟩ := v
      dsimp only at h
      rw [ih _ _ _ h, renewShard_nd _ _ _ _ _ _ _ _ hv]

@[grind →] theorem renewBody_nd (e : Env) (s s' : State) (pool : Pool) (c p : Addr) (dur : Nat) (to : Int) (md : Metadata) (o : Order)
    (shs : List Shard) (x : Pool × Bool) (h : renewBody e s pool c p dur to md o shs = .ok (s', x)) : nodesPart s' = nodesPart s := by
  unfold renewBody at h
  obtain ⟨amount, _, h⟩ := bind_ok h
  dsimp only at h
  split at h
  · -- the charge failed: this data id is skipped, the state is what renewOrder returned
    simp only [pure, Except.pure, Except.ok.injEq, Prod.mk.injEq] at h
    rw [← h.1, renewOrder_nd]
  · obtain ⟨v, hv, h⟩ := bind_ok h
    obtain ⟨s1, c1, mx⟩ := v
    dsimp only at h
    obtain ⟨s2, hs2, h⟩ := bind_ok h
    obtain ⟨v3, hv3, h⟩ := bind_ok h
    obtain ⟨s3, er⟩ := v3
    simp only [pure, Except.pure, Except.ok.injEq, Prod.mk.injEq] at h
    rw [← h.1, updateMeta_nd _ _ _ _ _ hv3, extendMetaDuration_nd _ _ _ _ hs2, renewLoop_nd _ _ _ _ _ _ _ _ _ hv, renewOrder_nd]

@[grind →] theorem renewOne_nd (e : Env) (s s' : State) (pool : Pool) (c p : Addr) (sd : Did) (dur : Nat) (to : Int) (d : Bytes)
    (x : Pool × Bool) (h : renewOne e s pool c p sd dur to d = .ok (s', x)) : nodesPart s' = nodesPart s := by
  unfold renewOne at h
  split at h
  · simp only [pure, Except.pure, Except.ok.injEq, Prod.mk.injEq] at h; rw [← h.1]
  · exact renewBody_nd _ _ _ _ _ _ _ _ _ _ _ _ h

@[grind →] theorem saoRenewLoop_nd (e : Env) (c p : Addr) (sd : Did) (dur : Nat) (to : Int) (l : List Bytes) (s s' : State) (pool : Pool)
    (oks oks' : List Bool) (h : saoRenew.loop e c p sd dur to l s pool oks = .ok (s', oks')) : nodesPart s' = nodesPart s := by
  induction l generalizing s pool oks with
  | nil =>
    unfold saoRenew.loop at h
    simp only [pure, Except.pure, Except.ok.injEq, Prod.mk.injEq] at h
    rw [← h.1]
  | cons d t ih =>
    unfold saoRenew.loop at h
    obtain ⟨v, hv, h⟩ := bind_ok h
    obtain ⟨s1, pool1, ok⟩ := v
    dsimp only at h
    rw [ih _ _ _ h, renewOne_nd _ _ _ _ _ _ _ _ _ _ _ hv]

@[grind →] theorem saoRenew_nd (e : Env) (s s' : State) (c p : Addr) (sv : Bool) (sd : Did) (dur : Nat) (to : Int) (data : List Bytes)
    (oks : List Bool) (h : saoRenew e s c p sv sd dur to data = .ok (s', oks)) : nodesPart s' = nodesPart s := by
  unfold saoRenew at h
  dsimp only at h
  split at h
  · exact (throw_bind_ne h).elim
  split at h
  · exact (throw_bind_ne h).elim
  split at h
  · exact (throw_bind_ne h).elim
  split at h
  · exact (throw_bind_ne h).elim
  split at h
  · exact saoRenewLoop_nd _ _ _ _ _ _ _ _ _ _ _ _ h
  · cases h

/-! ### Migrate -/
@[grind →] theorem migrateOrderLoop_nd (s0 : State) (p : Addr) (l : List Nat) (commits : List Bytes) (st s' : State)
    (h : migrateOrderLoop s0 p l commits st = .ok s') : nodesPart s' = nodesPart st := by
  induction l generalizing commits st with
  | nil =>
    unfold migrateOrderLoop at h
    simp only [pure, Except.pure, Except.ok.injEq] at h
    rw [← h]
  | cons oid t ih =>
    unfold migrateOrderLoop at h
    split at h
    · exact ih _ _ h
    · split at h
      · exact ih _ _ h
      · (try dsimp only at h)
        split at h
        · exact ih _ _ h
        · split at h
          · exact ih _ _ h
          · (try dsimp only at h)
            split at h
            · exact ih _ _ h
            · obtain ⟨v, hv, h⟩ := bind_ok h
              obtain ⟨st1, sps⟩ := v
              dsimp only at h
              split at h
              · rw [ih _ _ h, randomSP_nd _ _ _ _ _ _ hv]
              · rw [ih _ _ h, setOrder_nd, appendShard_nd, randomSP_nd _ _ _ _ _ _ hv]

@[grind →] theorem saoMigrateLoop_nd (s0 : State) (p : Addr) (l : List Bytes) (st s' : State)
    (h : saoMigrate.loop s0 p l st = .ok s') : nodesPart s' = nodesPart st := by
  induction l generalizing st with
  | nil =>
    unfold saoMigrate.loop at h
    simp only [pure, Except.pure, Except.ok.injEq] at h
    rw [← h]
  | cons d t ih =>
    unfold saoMigrate.loop at h
    split at h
    · exact ih _ h
    · obtain ⟨v, hv, h⟩ := bind_ok h
      rw [ih _ h, migrateOrderLoop_nd _ _ _ _ _ _ hv]

@[grind →] theorem saoMigrate_nd (s s' : State) (c p : Addr) (data : List Bytes) (h : saoMigrate s c p data = .ok s') :
    nodesPart s' = nodesPart s := by
  unfold saoMigrate at h
  split at h
  · exact (throw_bind_ne h).elim
  · exact saoMigrateLoop_nd _ _ _ _ _ h

/-! ### permission, timeout and expiry handlers -/
@[grind →] theorem saoPermission_nd (s s' : State) (c p : Addr) (ow : Did) (d : Bytes) (ro rw : List Did) (sv : Bool)
    (h : saoPermission s c p ow d ro rw sv = .ok s') : nodesPart s' = nodesPart s := by
  unfold saoPermission at h
  dsimp only at h
  split at h
  · exact (throw_bind_ne h).elim
  split at h
  · exact (throw_bind_ne h).elim
  split at h
  · exact (throw_bind_ne h).elim
  split at h
  · exact (throw_bind_ne h).elim
  have := softTx'_ok h
  rw [← this, updatePermission_nd]

@[grind =] theorem timeoutSettle_nd (s : State) (o : Order) (v : TimeoutView) : nodesPart (timeoutSettle s o v) = nodesPart s := by
  unfold timeoutSettle
  dsimp only
  split
  · rw [setOrder_nd, foldl_removeShard_nd]
  · rw [foldl_removeShard_nd]

@[grind →] theorem timeoutGiveUp_nd (e : Env) (s s' : State) (o : Order) (v : TimeoutView) (oid : Nat)
    (h : timeoutGiveUp e s o v oid = .ok s') : nodesPart s' = nodesPart s := by
  unfold timeoutGiveUp at h
  split at h
  · obtain ⟨x, hx, h⟩ := bind_ok h
    obtain ⟨s1, er⟩ := x
    simp only [pure, Except.pure, Except.ok.injEq] at h
    rw [← h, cancelOrder_nd _ _ _ _ _ hx, foldl_removeShard_nd]
  · dsimp only at h
    split at h
    · cases h
    · split at h
      · split at h
        · cases h
        · simp only [pure, Except.pure, Except.ok.injEq] at h
          rw [← h, setOrder_nd]
          split
          · split
            · rename_i s2 hs2; rw [send_nd _ _ _ _ _ hs2, foldl_removeShard_nd]
            · rw [foldl_removeShard_nd]
          · rw [foldl_removeShard_nd]
      · simp only [pure, Except.pure, Except.ok.injEq] at h
        rw [← h, setOrder_nd, foldl_removeShard_nd]

@[grind →] theorem timeoutReassign_nd (s s' : State) (o : Order) (v : TimeoutView) (sps : List Node)
    (h : timeoutReassign s o v sps = .ok s') : nodesPart s' = nodesPart s := by
  unfold timeoutReassign at h
  split at h
  · cases h
  · dsimp only at h
    simp only [pure, Except.pure, Except.ok.injEq] at h
    rw [← h, setTimeoutOrderBlock_nd, setOrder_nd]
    have gen : ∀ (l : List (Node × Shard)) (acc : Order × State),
        nodesPart (l.foldl (fun (acc : Order × State) (x : Node × Shard) =>
          let s := acc.2.setShard { x.2 with status := ShardTimeout }
          let (nsh, s) := newShardTask s acc.1 x.1.creator
          ({ acc.1 with shards := acc.1.shards ++ [nsh.id] }, s)) acc).2 = nodesPart acc.2 := by
      intro l
      induction l with
      | nil => intro acc; rfl
      | cons a t ih => intro acc; simp only [List.foldl_cons]; rw [ih]; rfl
    exact gen _ (o, s)

@[grind →] theorem handleTimeoutOrder_nd (e : Env) (s s' : State) (oid : Nat) (h : handleTimeoutOrder e s oid = .ok s') :
    nodesPart s' = nodesPart s := by
  unfold handleTimeoutOrder at h
  split at h
  · simp only [pure, Except.pure, Except.ok.injEq] at h; rw [← h]
  · split at h
    · split at h
      · rename_i s1 x hc
        simp only [pure, Except.pure, Except.ok.injEq] at h
        rw [← h]; exact cancelOrder_nd _ _ _ _ _ hc
      · cases h
    · dsimp only at h
      split at h
      · simp only [pure, Except.pure, Except.ok.injEq] at h; rw [← h, timeoutSettle_nd]
      · split at h
        · cases h
        · rename_i s1 sps hsel
          have hs1 : nodesPart s1 = nodesPart s := by
            split at hsel
            · simp only [pure, Except.pure, Except.ok.injEq, Prod.mk.injEq] at hsel; rw [← hsel.1]
            · exact randomSP_nd _ _ _ _ _ _ hsel
          split at h
          · split at h
            · rw [timeoutGiveUp_nd _ _ _ _ _ _ h, hs1]
            · simp only [pure, Except.pure, Except.ok.injEq] at h; rw [← h, setTimeoutOrderBlock_nd, hs1]
          · rw [timeoutReassign_nd _ _ _ _ _ h, hs1]

@[grind →] theorem handleExpiredShard_nd (e : Env) (s s' : State) (id : Nat) (h : handleExpiredShard e s id = .ok s') :
    nodesPart s' = nodesPart s := by
  unfold handleExpiredShard at h
  split at h
  · rename_i sh hsh
    split at h
    · rename_i o ho
      dsimp only at h
      obtain ⟨v, hv, h⟩ := bind_ok h
      have hv' : nodesPart v = nodesPart s := by
        split at hv
        · obtain ⟨x, hx, hv⟩ := bind_ok hv
          obtain ⟨s1, er⟩ := x
          simp only [pure, Except.pure, Except.ok.injEq] at hv
          rw [← hv, removeShard_nd, shardRelease_nd _ _ _ _ _ _ hx, workerRelease_nd]
        · simp only [pure, Except.pure, Except.ok.injEq] at hv
          rw [← hv, workerAppend_nd, setShard_nd, setExpiredShardBlock_nd, workerRelease_nd]
      split at h
      · split at h
        · simp only [pure, Except.pure, Except.ok.injEq] at h; rw [← h, removeOrder_nd, hv']
        · simp only [pure, Except.pure, Except.ok.injEq] at h; rw [← h, hv']
      · simp only [pure, Except.pure, Except.ok.injEq] at h; rw [← h, setOrder_nd, hv']
    · simp only [pure, Except.pure, Except.ok.injEq] at h; rw [← h]
  · simp only [pure, Except.pure, Except.ok.injEq] at h; rw [← h]

/-! ### end-blockers -/
theorem foldlM_nd {α : Type} (f : State → α → TxM State) (hf : ∀ s a s', f s a = .ok s' → nodesPart s' = nodesPart s)
    (l : List α) (s s' : State) (h : l.foldlM f s = .ok s') : nodesPart s' = nodesPart s := by
  induction l generalizing s with
  | nil => simp only [List.foldlM, pure, Except.pure, Except.ok.injEq] at h; rw [← h]
  | cons a t ih =>
    simp only [List.foldlM] at h
    obtain ⟨v, hv, h⟩ := bind_ok h
    rw [ih _ h, hf _ _ _ hv]

@[grind =] theorem modelEndBlock_nd (s : State) : nodesPart (modelEndBlock s) = nodesPart s := by
  unfold modelEndBlock
  dsimp only
  split
  · rfl
  · show nodesPart (List.foldl _ s _) = nodesPart s
    apply foldl_nd
    intro s a
    repeat' split
    all_goals (first | rfl | exact deleteMeta_nd _ _)

@[grind →] theorem saoEndBlock_nd (e : Env) (s s' : State) (h : saoEndBlock e s = .ok s') : nodesPart s' = nodesPart s := by
  unfold saoEndBlock at h
  dsimp only at h
  obtain ⟨v, hv, h⟩ := bind_ok h
  have hv' : nodesPart v = nodesPart s := by
    split at hv
    · obtain ⟨w, hw, hv⟩ := bind_ok hv
      simp only [pure, Except.pure, Except.ok.injEq] at hv
      rw [← hv]
      have := foldlM_nd _ (fun s a s' h => handleTimeoutOrder_nd e s s' a h) _ _ _ hw
      rw [← this]; rfl
    · simp only [pure, Except.pure, Except.ok.injEq] at hv; rw [← hv]
  split at h
  · obtain ⟨w, hw, h⟩ := bind_ok h
    simp only [pure, Except.pure, Except.ok.injEq] at h
    rw [← h]
    have := foldlM_nd _ (fun s a s' h => handleExpiredShard_nd e s s' a h) _ _ _ hw
    rw [← hv', ← this]; rfl
  · simp only [pure, Except.pure, Except.ok.injEq] at h; rw [← h, hv']

/-! ### Store -/
@[grind →] theorem storePlace_nd (e : Env) (s s' : State) (m : StoreMsg) (o : Order) (pa : Option Addr) (ip : Bool) (a b : Bytes)
    (h : storePlace e s m o pa ip a b = .ok s') : nodesPart s' = nodesPart s := by
  unfold storePlace at h
  (try dsimp only at h)
  obtain ⟨v, hv, h⟩ := bind_ok h
  obtain ⟨s1, sps⟩ := v
  (try dsimp only at h)
  obtain ⟨amount, _, h⟩ := bind_ok h
  obtain ⟨payer, _, h⟩ := bind_ok h
  split at h
  · exact (throw_bind_ne h).elim
  obtain ⟨s2, hs2, h⟩ := bind_ok h
  (try dsimp only at h)
  have hs1 : nodesPart s1 = nodesPart s := by
    split at hv
    · exact getSps_nd _ _ _ _ _ hv
    · simp only [pure, Except.pure, Except.ok.injEq, Prod.mk.injEq] at hv; rw [← hv.1]
  rw [storeAttach_nd _ _ _ _ _ _ h]
  split
  · rw [setTimeoutOrderBlock_nd, newOrder_nd, sendLit_nd _ _ _ _ _ hs2, hs1]
  · rw [newOrder_nd, sendLit_nd _ _ _ _ _ hs2, hs1]

@[grind →] theorem saoStore_nd (e : Env) (s s' : State) (m : StoreMsg) (h : saoStore e s m = .ok s') : nodesPart s' = nodesPart s := by
  unfold saoStore at h
  obtain ⟨g, _, h⟩ := bind_ok h
  exact storePlace_nd _ _ _ _ _ _ _ _ _ h

/-! ### fault reports -/
/-- the outcome of a state transformer leaves the fixed part alone (nothing is claimed about a failure) -/
def okNd (s : State) (r : TxM State) : Prop :=
  match r with
  | .ok s' => nodesPart s' = nodesPart s
  | .error _ => True

theorem okNd_elim {s s' : State} {r : TxM State} (h : okNd s r) (hr : r = .ok s') : nodesPart s' = nodesPart s := by
  subst hr; exact h

@[simp] theorem setFault_nd (s : State) (f : Fault) : nodesPart (s.setFault f) = nodesPart s := rfl
@[simp] theorem removeFault_nd (s : State) (f : Fault) : nodesPart (s.removeFault f) = nodesPart s := rfl
@[simp] theorem fishAdd_nd (s : State) (k : Nat × Nat) (v : Dec) : nodesPart (fishAdd s k v) = nodesPart s := by
  unfold fishAdd; split <;> rfl
@[simp] theorem faultBySpShard_nd (s : State) (p : Addr) (sh : Nat) : nodesPart (s.faultBySpShard p sh).1 = nodesPart s := by
  unfold State.faultBySpShard
  repeat' split
  all_goals rfl

theorem reportStep_nd (c p : Addr) (s : State) (x : FaultIn × StrId) : nodesPart (reportStep c p s x) = nodesPart s := by
  unfold reportStep
  dsimp only
  repeat' split
  all_goals (first | rfl | simp)

@[grind →] theorem saoReportFaults_nd (s s' : State) (c p : Addr) (fs : List FaultIn) (ids : List StrId)
    (h : saoReportFaults s c p fs ids = .ok s') : nodesPart s' = nodesPart s := by
  unfold saoReportFaults at h
  split at h
  · cases h
  · split at h
    · cases h
    · simp only [pure, Except.pure, Except.ok.injEq] at h
      rw [← h]
      exact foldl_nd _ (reportStep_nd c p) _ _

theorem okNd_of_eq {s s1 : State} {r : TxM State} (h : nodesPart s1 = nodesPart s) (hr : okNd s1 r) : okNd s r := by
  unfold okNd at *
  split
  · rename_i s' _; simp only at hr; rw [hr, h]
  · trivial

theorem recoverSettle_okNd (pool : Pool) (ik : Nat) (s : State) (o : Order) (org fm : Fault) (pl : Pledge) :
    okNd s (recoverSettle pool ik s o org fm pl) := by
  unfold recoverSettle
  dsimp only
  split
  · simp [okNd, throw, throwThe, MonadExceptOf.throw]
  · split
    · simp [okNd, throw, throwThe, MonadExceptOf.throw]
    · simp only [okNd, pure, Except.pure]
      rw [removeFault_nd, setPledge_nd, foldl_nd _ (fun s c => fishAdd_nd s _ _), fishAdd_nd]
      split <;> rfl

theorem recoverStep_okNd (c p : Addr) (pool : Pool) (ik : Nat) (s : State) (f : FaultIn) :
    okNd s (recoverStep c p pool ik s f) := by
  have hb := faultBySpShard_nd s f.provider f.shardId
  unfold recoverStep
  split
  · simp [okNd, pure, Except.pure]
  split
  · simp [okNd, pure, Except.pure]
  split
  · simp [okNd, pure, Except.pure]
  split
  · simp [okNd, pure, Except.pure]
  split
  · simp [okNd, pure, Except.pure]
  -- from here on the state is the one `faultBySpShard` returned
  generalize hq : s.faultBySpShard f.provider f.shardId = q at hb ⊢
  obtain ⟨s1, org?⟩ := q
  (try dsimp only at hb ⊢)
  split
  · simp only [okNd, pure, Except.pure]; exact hb
  split
  · simp only [okNd, pure, Except.pure]; exact hb
  (try dsimp only)
  split
  · simp only [okNd, pure, Except.pure]; exact hb
  · split
    · split
      · exact okNd_of_eq hb (recoverSettle_okNd _ _ _ _ _ _ _)
      · simp only [okNd, pure, Except.pure]; rw [setFault_nd]; exact hb
    · simp only [okNd, pure, Except.pure]; rw [setFault_nd]; exact hb

@[grind →] theorem saoRecoverFaults_nd (s s' : State) (c p : Addr) (fs : List FaultIn) (ik : Nat)
    (h : saoRecoverFaults s c p fs ik = .ok s') : nodesPart s' = nodesPart s := by
  unfold saoRecoverFaults at h
  dsimp only at h
  split at h
  · rename_i node hn
    -- the role check is a guard: whichever branch, the state it hands on is `s`
    have key : ∀ (pool : Pool), fs.foldlM (recoverStep c p pool ik) s = .ok s' → nodesPart s' = nodesPart s := by
      intro pool hf
      exact foldlM_nd _ (fun s a s' h => okNd_elim (recoverStep_okNd c p pool ik s a) h) _ _ _ hf
    split at h
    · split at h
      · exact (throw_bind_ne h).elim
      · split at h
        · exact key _ h
        · cases h
    · split at h
      · exact (throw_bind_ne h).elim
      · split at h
        · exact key _ h
        · cases h
  · cases h

end SaoVerif
