import SaoVerif.Model.Select
/-! Helper lemmas about the selection functions. -/
namespace SaoVerif
open List

/-! ### fillUnused / randomIndex -/
theorem fillUnused_spec (total : Nat) (i count : Nat) (idx : List Nat)
    (hn : idx.Nodup) (hb : ∀ x ∈ idx, x < total) :
    (fillUnused total i count idx).Nodup ∧ (∀ x ∈ fillUnused total i count idx, x < total) ∧
    (fillUnused total i count idx).length ≤ idx.length + count := by
  fun_induction fillUnused total i count idx with
  | case1 i idx => exact ⟨hn, hb, by omega⟩
  | case2 i count idx hlt hc ih =>
    obtain ⟨a, b, c⟩ := ih hn hb
    exact ⟨a, b, by omega⟩
  | case3 i count idx hlt hc ih =>
    have hn' : (idx ++ [i]).Nodup := by
      rw [List.nodup_append]
      refine ⟨hn, by simp, ?_⟩
      intro a ha b hb'
      simp at hb'
      subst hb'
      intro h; subst h
      simp [List.contains_iff_mem] at hc
      exact hc ha
    have hb' : ∀ x ∈ idx ++ [i], x < total := by
      intro x hx
      rcases List.mem_append.mp hx with h | h
      · exact hb x h
      · simp at h; omega
    obtain ⟨a, b, c⟩ := ih hn' hb'
    refine ⟨a, b, ?_⟩
    simp at c; omega
  | case4 i count idx hge => exact ⟨hn, hb, by omega⟩

theorem randomIndexLoop_spec (modulus total seed count : Nat) (idx : List Nat) (ht : 0 < total)
    (hn : idx.Nodup) (hb : ∀ x ∈ idx, x < total) :
    (randomIndexLoop modulus total seed count idx).Nodup ∧
    (∀ x ∈ randomIndexLoop modulus total seed count idx, x < total) ∧
    (randomIndexLoop modulus total seed count idx).length ≤ idx.length + count := by
  fun_induction randomIndexLoop modulus total seed count idx with
  | case1 idx => exact ⟨hn, hb, by omega⟩
  | case2 count idx hc => exact fillUnused_spec total 0 count idx hn hb
  | case3 seed count idx hc hs rs hdup ih =>
    exact ih hn hb
  | case4 seed count idx hc hs rs hdup ih =>
    have hrs : rs < total := Nat.mod_lt _ ht
    have hn' : (idx ++ [rs]).Nodup := by
      rw [List.nodup_append]
      refine ⟨hn, by simp, ?_⟩
      intro a ha b hb'
      simp at hb'
      subst hb'
      intro h; subst h
      simp [List.contains_iff_mem] at hdup
      exact hdup ha
    have hb' : ∀ x ∈ idx ++ [rs], x < total := by
      intro x hx
      rcases List.mem_append.mp hx with h | h
      · exact hb x h
      · simp at h; omega
    obtain ⟨a, b, c⟩ := ih hn' hb'
    refine ⟨a, b, ?_⟩
    simp at c; omega

/-- `RandomIndex` returns distinct in-range indices, never more than requested. -/
theorem randomIndex_spec (seed total count : Nat) :
    (randomIndex seed total count).Nodup ∧ (∀ x ∈ randomIndex seed total count, x < total) ∧
    (randomIndex seed total count).length ≤ count := by
  unfold randomIndex
  split
  · simp
  · rename_i h
    have := randomIndexLoop_spec (modOf total) total seed count [] (by omega) (by simp) (by simp)
    simpa using this

end SaoVerif

namespace SaoVerif
open List

/-! ### SelectNodes is a rearrangement -/
theorem heapSwap_perm (l : List Node) (i c : Nat) : heapSwap l i c ~ l := by
  unfold heapSwap
  split
  · rename_i nc ni hc hi
    have hc' := List.getElem?_eq_some_iff.mp hc
    have hi' := List.getElem?_eq_some_iff.mp hi
    obtain ⟨hcl, hce⟩ := hc'
    obtain ⟨hil, hie⟩ := hi'
    have key : (l.set i nc).set c ni ~ l := by
      subst hce; subst hie
      exact List.set_set_perm hil hcl
    split
    · split
      · split
        · exact key
        · exact Perm.refl _
      · exact key
    · exact Perm.refl _
  · exact Perm.refl _

theorem heapify_perm (p : Nat) (l : List Node) : heapify p l ~ l := by
  unfold heapify
  exact (heapSwap_perm _ _ _).trans (heapSwap_perm _ _ _)

theorem foldl_heapify_perm (ps : List Nat) (l : List Node) :
    ps.foldl (fun acc p => heapify p acc) l ~ l := by
  induction ps generalizing l with
  | nil => exact Perm.refl _
  | cons p ps ih => simp only [List.foldl_cons]; exact (ih _).trans (heapify_perm p l)

theorem buildHeap_perm (l : List Node) : buildHeap l ~ l := by
  unfold buildHeap; exact foldl_heapify_perm _ _

theorem selectStep_perm (l : List Node) (i : Nat) : l.take i ++ buildHeap (l.drop i) ~ l := by
  have h : l.take i ++ buildHeap (l.drop i) ~ l.take i ++ l.drop i :=
    Perm.append_left _ (buildHeap_perm _)
  simpa using h

theorem foldl_selectStep_perm (is : List Nat) (l : List Node) :
    is.foldl (fun acc i => acc.take i ++ buildHeap (acc.drop i)) l ~ l := by
  induction is generalizing l with
  | nil => exact Perm.refl _
  | cons i is ih => simp only [List.foldl_cons]; exact (ih _).trans (selectStep_perm l i)

/-- the candidates returned by `SelectNodes` are a sub-multiset of the input -/
theorem selectNodes_subperm (size : Nat) (nodes : List Node) :
    ∃ out, out ~ nodes ∧ selectNodes size nodes = out.take (if nodes.length ≤ size then nodes.length else size) := by
  unfold selectNodes
  exact ⟨_, foldl_selectStep_perm _ _, rfl⟩

theorem selectNodes_mem (size : Nat) (nodes : List Node) (n : Node) (h : n ∈ selectNodes size nodes) : n ∈ nodes := by
  obtain ⟨out, hp, he⟩ := selectNodes_subperm size nodes
  rw [he] at h
  exact hp.mem_iff.mp (List.mem_of_mem_take h)

theorem selectNodes_nodup_creators (size : Nat) (nodes : List Node) (h : (nodes.map (·.creator)).Nodup) :
    ((selectNodes size nodes).map (·.creator)).Nodup := by
  obtain ⟨out, hp, he⟩ := selectNodes_subperm size nodes
  rw [he]
  have h1 : (out.map (·.creator)).Nodup := (hp.map _).nodup_iff.mpr h
  rw [List.map_take]
  exact (List.take_sublist _ _).nodup h1

end SaoVerif

namespace SaoVerif
open List

/-- what the property demands of every newly chosen provider, at the moment of selection -/
def Eligible (s : State) (n : Node) (size : Int) : Prop :=
  n ∈ s.nodes ∧ (ST_SELECT &&& n.status = ST_SELECT) ∧ n.reputation ≥ 8000 ∧
  ∃ p, s.getPledge n.creator = some p ∧ ¬ (p.totalStorage - p.usedStorage < size)

theorem superEligible_imp (s : State) (n : Node) (ignore : List Addr) (size : Int)
    (h : superEligible s n ST_SELECT 8000 ignore size = true) :
    n.creator ∉ ignore ∧ (ST_SELECT &&& n.status = ST_SELECT) ∧ n.reputation ≥ 8000 ∧
    ∃ p, s.getPledge n.creator = some p ∧ ¬ (p.totalStorage - p.usedStorage < size) := by
  unfold superEligible at h
  cases hp : s.getPledge n.creator with
  | none => simp [hp] at h
  | some p =>
    simp [hp] at h
    obtain ⟨⟨⟨h1, h2⟩, h3⟩, h4⟩ := h
    refine ⟨?_, h3, h4, p, rfl, by omega⟩
    exact h1

theorem normalEligible_imp (s : State) (n : Node) (size : Int)
    (h : normalEligible s n ST_SELECT 8000 size = true) :
    (ST_SELECT &&& n.status = ST_SELECT) ∧ n.reputation ≥ 8000 ∧ n.role = 0 ∧
    ∃ p, s.getPledge n.creator = some p ∧ ¬ (p.totalStorage - p.usedStorage < size) := by
  unfold normalEligible at h
  cases hp : s.getPledge n.creator with
  | none => simp [hp] at h
  | some p =>
    simp [hp] at h
    obtain ⟨⟨⟨h1, h2⟩, h3⟩, h4⟩ := h
    exact ⟨h2, h3, h4, p, rfl, by omega⟩

/-- the super-node loop only ever returns the index of an eligible super node -/
theorem nextSuperLoop_sound (s : State) (snodes : List Node) (ignore : List Addr) (size : Int) (round0 fuel i j : Nat)
    (h : nextSuperLoop s snodes ST_SELECT 8000 ignore size round0 fuel i = some j) :
    ∃ n, snodes[j]? = some n ∧ superEligible s n ST_SELECT 8000 ignore size = true := by
  induction fuel generalizing i with
  | zero => simp [nextSuperLoop] at h
  | succ fuel ih =>
    unfold nextSuperLoop at h
    simp only at h
    split at h
    · simp at h
    · rename_i n hn
      split at h
      · rename_i he
        simp at h
        subst h
        exact ⟨n, hn, he⟩
      · repeat' (split at h)
        all_goals first | (exact ih _ h) | (simp at h)

theorem removeFirst_sublist (l : List Node) (a : Addr) : (removeFirst l a).Sublist l := by
  induction l with
  | nil => exact Sublist.refl _
  | cons n t ih =>
    unfold removeFirst
    split
    · exact sublist_cons_self _ _
    · exact ih.cons_cons _

theorem removeFirst_not_mem (l : List Node) (a : Addr) (hn : (l.map (·.creator)).Nodup) :
    ∀ n ∈ removeFirst l a, n.creator ≠ a := by
  induction l with
  | nil => simp [removeFirst]
  | cons x t ih =>
    simp only [List.map_cons, List.nodup_cons] at hn
    unfold removeFirst
    split
    · rename_i hx
      intro n hn' hc
      apply hn.1
      rw [hx, ← hc]
      exact List.mem_map_of_mem hn'
    · rename_i hx
      intro n hn'
      rcases List.mem_cons.mp hn' with h | h
      · subst h; exact hx
      · exact ih hn.2 n h

theorem foldl_removeFirst_sublist (ignore : List Addr) (l : List Node) : (ignore.foldl removeFirst l).Sublist l := by
  induction ignore generalizing l with
  | nil => exact Sublist.refl _
  | cons a t ih => simp only [List.foldl_cons]; exact (ih _).trans (removeFirst_sublist l a)

theorem foldl_removeFirst_not_mem (ignore : List Addr) (l : List Node) (hn : (l.map (·.creator)).Nodup) :
    ∀ n ∈ ignore.foldl removeFirst l, n.creator ∉ ignore := by
  induction ignore generalizing l with
  | nil => simp
  | cons a t ih =>
    simp only [List.foldl_cons]
    intro n hn'
    have hsub := removeFirst_sublist l a
    have hn2 : ((removeFirst l a).map (·.creator)).Nodup := (hsub.map _).nodup hn
    have h1 := ih (removeFirst l a) hn2 n hn'
    have h2 : n ∈ removeFirst l a := (foldl_removeFirst_sublist t _).subset hn'
    have h3 := removeFirst_not_mem l a hn n h2
    simp only [List.mem_cons, not_or]
    exact ⟨h3, h1⟩

end SaoVerif
