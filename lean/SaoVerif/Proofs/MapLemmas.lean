import SaoVerif.Model.Base
/-! Lookup after update / removal for association-list maps over any key type. -/
namespace SaoVerif
namespace Map
variable {κ ν : Type} [DecidableEq κ]

theorem find?_set_self' (m : Map κ ν) (k : κ) (v : ν) : find? (set m k v) k = some v := by
  induction m with
  | nil => simp [set, find?]
  | cons x t ih =>
    obtain ⟨k', v'⟩ := x
    unfold set
    split
    · simp [find?]
    · rename_i h; simp [find?, h, ih]

theorem find?_set_other' (m : Map κ ν) (k k2 : κ) (v : ν) (h : k2 ≠ k) : find? (set m k v) k2 = find? m k2 := by
  induction m with
  | nil => simp [set, find?, Ne.symm h]
  | cons x t ih =>
    obtain ⟨k', v'⟩ := x
    unfold set
    split
    · rename_i hk; subst hk; simp [find?, Ne.symm h]
    · simp only [find?]
      split
      · rfl
      · exact ih

theorem find?_erase_self (m : Map κ ν) (k : κ) : find? (erase m k) k = none := by
  induction m with
  | nil => simp [erase, find?]
  | cons x t ih =>
    obtain ⟨k', v'⟩ := x
    unfold erase
    split
    · exact ih
    · rename_i h; simp [find?, h, ih]

theorem find?_erase_other (m : Map κ ν) (k k2 : κ) (h : k2 ≠ k) : find? (erase m k) k2 = find? m k2 := by
  induction m with
  | nil => simp [erase, find?]
  | cons x t ih =>
    obtain ⟨k', v'⟩ := x
    unfold erase
    split
    · rename_i hk; subst hk; simp [find?, Ne.symm h, ih]
    · simp only [find?]
      split
      · rfl
      · exact ih

theorem find?_foldl_erase (l : List κ) (m : Map κ ν) (k : κ) :
    find? (l.foldl erase m) k = if k ∈ l then none else find? m k := by
  induction l generalizing m with
  | nil => simp
  | cons a t ih =>
    simp only [List.foldl_cons, ih, List.mem_cons]
    by_cases hk : k = a
    · subst hk; simp [find?_erase_self]
    · simp [hk, find?_erase_other _ _ _ hk]

/-- a found value is an entry of the list -/
theorem mem_of_find? (m : Map κ ν) (k : κ) (v : ν) (h : find? m k = some v) : (k, v) ∈ m := by
  induction m with
  | nil => simp [find?] at h
  | cons x t ih =>
    obtain ⟨k', v'⟩ := x
    simp only [find?] at h
    split at h
    · rename_i hk; subst hk; cases h; exact List.mem_cons_self
    · exact List.mem_cons_of_mem _ (ih h)

end Map
end SaoVerif
