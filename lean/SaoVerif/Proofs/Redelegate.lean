import SaoVerif.Proofs.Fixed2
/-!
# Redelegation leaves alone whatever the staking hooks, transfers and staking records leave alone

`BeginRedelegate` is `Unbond` from the source validator followed by `Delegate` to the destination: it writes staking records,
runs the node keeper's hooks twice and may move coins between the two staking pools. So any projection of the state that is
invariant under `verifySuper`, under a transfer, and under an update of the staking view is invariant under an accepted
redelegation (`redelegate_keeps`) — one generic lemma, instantiated by each footprint family.
-/
namespace SaoVerif

variable {β : Type} (π : State → β)

theorem redelegateUnbond_keeps
    (hv : ∀ (e : Env) (s s' : State) (g g' : Dec) (v : ValAddr) (a : Option Addr) (b : Bool), verifySuper e s g v a b = .ok (s', g') → π s' = π s)
    (hst : ∀ (s : State) (x : StakingView), π { s with staking := x } = π s)
    (e : Env) (s : State) (v : ValidatorV) (d : DelegationV) (del : Addr) (src : ValAddr) (shares : Dec) (s1 : State) (g' : Dec) (t : Int)
    (h : (redelegateUnbond e s v d del src shares).2 = .ok (s1, g', t)) : π s1 = π s := by
  unfold redelegateUnbond at h
  dsimp only at h
  split at h
  · cases h
  · rename_i s2 g2 hr
    simp only [pure, Except.pure, Except.ok.injEq, Prod.mk.injEq] at h
    rw [← h.1, hst]
    split at hr
    · obtain ⟨x, hx, hr⟩ := bind_ok hr
      obtain ⟨sx, gx⟩ := x
      simp only [pure, Except.pure, Except.ok.injEq, Prod.mk.injEq] at hr
      rw [← hr.1, hst]
      exact hv _ _ _ _ _ _ _ _ hx
    · rw [hv _ _ _ _ _ _ _ _ hr, hst]

theorem redelegateDelegate_keeps
    (hv : ∀ (e : Env) (s s' : State) (g g' : Dec) (v : ValAddr) (a : Option Addr) (b : Bool), verifySuper e s g v a b = .ok (s', g') → π s' = π s)
    (hsend : ∀ (s s' : State) (a b : Addr) (x : Int), s.send a b x = .ok s' → π s' = π s)
    (hst : ∀ (s : State) (x : StakingView), π { s with staking := x } = π s)
    (e : Env) (s : State) (g' : Dec) (v v2 : ValidatorV) (del : Addr) (src dst : ValAddr) (tokens : Int) (s' : State)
    (h : (redelegateDelegate e s g' v v2 del src dst tokens).2 = .ok s') : π s' = π s := by
  unfold redelegateDelegate at h
  split at h
  · cases h
  · dsimp only at h
    split at h
    · cases h
    · rename_i s3 hs3
      have hs3' : π s3 = π s := by
        split at hs3
        · exact hsend _ _ _ _ _ hs3
        · split at hs3
          · exact hsend _ _ _ _ _ hs3
          · simp only [pure, Except.pure, Except.ok.injEq] at hs3
            rw [← hs3]
      split at h
      · cases h
      · rename_i s4 g4 hv4
        have hs4 : π s4 = π s := by rw [hv _ _ _ _ _ _ _ _ hv4, hst, hs3']
        split at h
        · simp only [pure, Except.pure, Except.ok.injEq] at h
          rw [← h]; exact hs4
        · simp only [pure, Except.pure, Except.ok.injEq] at h
          rw [← h, hst]; exact hs4

theorem redelegate_keeps
    (hv : ∀ (e : Env) (s s' : State) (g g' : Dec) (v : ValAddr) (a : Option Addr) (b : Bool), verifySuper e s g v a b = .ok (s', g') → π s' = π s)
    (hsend : ∀ (s s' : State) (a b : Addr) (x : Int), s.send a b x = .ok s' → π s' = π s)
    (hst : ∀ (s : State) (x : StakingView), π { s with staking := x } = π s)
    (e : Env) (s : State) (g : Dec) (del : Addr) (src dst : ValAddr) (amt : Int) (s' : State)
    (h : (stakeRedelegate e s g del src dst amt).2 = .ok s') : π s' = π s := by
  unfold stakeRedelegate at h
  split at h
  · cases h
  · split at h
    · cases h
    · rename_i s1 g' tokens hu
      split at h
      · cases h
      · have h1 := redelegateUnbond_keeps π hv hst _ _ _ _ _ _ _ s1 g' tokens (by rw [hu])
        rw [redelegateDelegate_keeps π hv hsend hst _ _ _ _ _ _ _ _ _ _ h, h1]

/-! ### the same under a condition on the environment (e.g. "the store order of node records is injective") -/
variable (P : Env → Prop)

theorem redelegateUnbond_keepsP
    (hv : ∀ (e : Env), P e → ∀ (s s' : State) (g g' : Dec) (v : ValAddr) (a : Option Addr) (b : Bool), verifySuper e s g v a b = .ok (s', g') → π s' = π s)
    (hst : ∀ (s : State) (x : StakingView), π { s with staking := x } = π s)
    (e : Env) (hP : P e) (s : State) (v : ValidatorV) (d : DelegationV) (del : Addr) (src : ValAddr) (shares : Dec) (s1 : State) (g' : Dec) (t : Int)
    (h : (redelegateUnbond e s v d del src shares).2 = .ok (s1, g', t)) : π s1 = π s := by
  unfold redelegateUnbond at h
  dsimp only at h
  split at h
  · cases h
  · rename_i s2 g2 hr
    simp only [pure, Except.pure, Except.ok.injEq, Prod.mk.injEq] at h
    rw [← h.1, hst]
    split at hr
    · obtain ⟨x, hx, hr⟩ := bind_ok hr
      obtain ⟨sx, gx⟩ := x
      simp only [pure, Except.pure, Except.ok.injEq, Prod.mk.injEq] at hr
      rw [← hr.1, hst]
      exact hv _ hP _ _ _ _ _ _ _ hx
    · rw [hv _ hP _ _ _ _ _ _ _ hr, hst]

theorem redelegateDelegate_keepsP
    (hv : ∀ (e : Env), P e → ∀ (s s' : State) (g g' : Dec) (v : ValAddr) (a : Option Addr) (b : Bool), verifySuper e s g v a b = .ok (s', g') → π s' = π s)
    (hsend : ∀ (s s' : State) (a b : Addr) (x : Int), s.send a b x = .ok s' → π s' = π s)
    (hst : ∀ (s : State) (x : StakingView), π { s with staking := x } = π s)
    (e : Env) (hP : P e) (s : State) (g' : Dec) (v v2 : ValidatorV) (del : Addr) (src dst : ValAddr) (tokens : Int) (s' : State)
    (h : (redelegateDelegate e s g' v v2 del src dst tokens).2 = .ok s') : π s' = π s := by
  unfold redelegateDelegate at h
  split at h
  · cases h
  · dsimp only at h
    split at h
    · cases h
    · rename_i s3 hs3
      have hs3' : π s3 = π s := by
        split at hs3
        · exact hsend _ _ _ _ _ hs3
        · split at hs3
          · exact hsend _ _ _ _ _ hs3
          · simp only [pure, Except.pure, Except.ok.injEq] at hs3
            rw [← hs3]
      split at h
      · cases h
      · rename_i s4 g4 hv4
        have hs4 : π s4 = π s := by rw [hv _ hP _ _ _ _ _ _ _ hv4, hst, hs3']
        split at h
        · simp only [pure, Except.pure, Except.ok.injEq] at h
          rw [← h]; exact hs4
        · simp only [pure, Except.pure, Except.ok.injEq] at h
          rw [← h, hst]; exact hs4

theorem redelegate_keepsP
    (hv : ∀ (e : Env), P e → ∀ (s s' : State) (g g' : Dec) (v : ValAddr) (a : Option Addr) (b : Bool), verifySuper e s g v a b = .ok (s', g') → π s' = π s)
    (hsend : ∀ (s s' : State) (a b : Addr) (x : Int), s.send a b x = .ok s' → π s' = π s)
    (hst : ∀ (s : State) (x : StakingView), π { s with staking := x } = π s)
    (e : Env) (hP : P e) (s : State) (g : Dec) (del : Addr) (src dst : ValAddr) (amt : Int) (s' : State)
    (h : (stakeRedelegate e s g del src dst amt).2 = .ok s') : π s' = π s := by
  unfold stakeRedelegate at h
  split at h
  · cases h
  · split at h
    · cases h
    · rename_i s1 g' tokens hu
      split at h
      · cases h
      · have h1 := redelegateUnbond_keepsP π P hv hst _ hP _ _ _ _ _ _ s1 g' tokens (by rw [hu])
        rw [redelegateDelegate_keepsP π P hv hsend hst _ hP _ _ _ _ _ _ _ _ _ h, h1]


end SaoVerif
