import SaoVerif.Proofs.Fixed2
/-!
# Which functions never touch the order and shard stores

`osPart s` = the order store, the order counter, the shard store and the shard counter. Every function of the model that
is *not* one of the 34 that write an order or a shard (directly or through a callee) leaves `osPart` exactly as it was:
market, node, DID, fault and staking code, the model keeper's metadata functions, the selection functions. The lemmas follow
`Proofs/Fixed.lean` function by function. `Proofs/Ids.lean` treats the functions that do write orders and shards.
-/
namespace SaoVerif

def osPart (s : State) : List Order × Option Nat × List Shard × Nat := (s.orders, s.orderCount, s.shards, s.shardCount)

/-! ### primitives that write other stores: by `rfl` -/
@[simp] theorem setMeta_os (s : State) (m : Metadata) : osPart (s.setMeta m) = osPart s := rfl
@[simp] theorem removeMeta_os (s : State) (d : Bytes) : osPart (s.removeMeta d) = osPart s := rfl
@[simp] theorem setModel_os (s : State) (m : ModelEntry) : osPart (s.setModel m) = osPart s := rfl
@[simp] theorem removeModel_os (s : State) (k : ModelKey) : osPart (s.removeModel k) = osPart s := rfl
@[simp] theorem setNode_os (e : Env) (s : State) (n : Node) : osPart (s.setNode e n) = osPart s := rfl
@[simp] theorem setPledge_os (s : State) (p : Pledge) : osPart (s.setPledge p) = osPart s := rfl
@[simp] theorem setWorker_os (s : State) (w : Worker) : osPart (s.setWorker w) = osPart s := rfl
@[simp] theorem setDebt_os (s : State) (a : Addr) (d : Int) : osPart (s.setDebt a d) = osPart s := rfl
@[simp] theorem removeDebt_os (s : State) (a : Addr) : osPart (s.removeDebt a) = osPart s := rfl
@[simp] theorem setBal_os (s : State) (a : Addr) (v : Int) : osPart (s.setBal a v) = osPart s := rfl
@[simp] theorem setDataExpireBlock_os (s : State) (d : Bytes) (a : Nat) : osPart (setDataExpireBlock s d a) = osPart s := rfl
@[simp] theorem setTimeoutOrderBlock_os (s : State) (i a : Nat) : osPart (setTimeoutOrderBlock s i a) = osPart s := rfl
@[simp] theorem setExpiredShardBlock_os (s : State) (i a : Nat) : osPart (setExpiredShardBlock s i a) = osPart s := rfl
@[simp] theorem workerAppend_os (s : State) (o : Order) (sh : Shard) : osPart (workerAppend s o sh) = osPart s := rfl


theorem send_os (s s' : State) (a b : Addr) (x : Int) (h : s.send a b x = .ok s') : osPart s' = osPart s := by
  unfold State.send at h
  split at h
  · cases h
  · split at h
    · cases h
    · simp only [pure, Except.pure, Except.ok.injEq] at h; subst h; rfl

theorem sendLit_os (s s' : State) (a b : Addr) (x : Int) (h : s.sendLit a b x = .ok s') : osPart s' = osPart s := by
  unfold State.sendLit at h
  split at h
  · cases h
  · exact send_os _ _ _ _ _ h

theorem removeDataExpireBlock_os (s s' : State) (d : Bytes) (a : Nat) (h : removeDataExpireBlock s d a = .ok s') :
    osPart s' = osPart s := by
  unfold removeDataExpireBlock at h
  split at h
  · simp only [pure, Except.pure, Except.ok.injEq] at h; subst h; rfl
  · split at h
    · cases h
    · simp only at h
      split at h <;> (simp only [pure, Except.pure, Except.ok.injEq] at h; subst h; rfl)

/-! ### market -/
theorem workerRelease_os (s : State) (o : Order) (sh : Shard) : osPart (workerRelease s o sh).1 = osPart s := by
  unfold workerRelease; split <;> rfl


theorem marketDeposit_os (e : Env) (s s' : State) (o : Order) (x : Option String)
    (h : marketDeposit e s o = .ok (s', x)) : osPart s' = osPart s := by
  unfold marketDeposit at h
  split at h
  · simp only [pure, Except.pure, Except.ok.injEq, Prod.mk.injEq] at h; rw [← h.1]
  · split at h
    · simp only [pure, Except.pure, Except.ok.injEq, Prod.mk.injEq] at h; rw [← h.1]
    · rename_i s1 hs
      simp only [pure, Except.pure, Except.ok.injEq, Prod.mk.injEq] at h; rw [← h.1]
      exact send_os _ _ _ _ _ hs

theorem withdrawLoop_os (o : Order) (l : List Nat) (s : State) (r : Dec) : osPart (withdrawLoop o l s r).1 = osPart s := by
  induction l generalizing s r with
  | nil => rfl
  | cons id t ih =>
    unfold withdrawLoop
    split
    · exact ih _ _
    · split
      · exact ih _ _
      · simp only
        split
        · split
          · rename_i sh _ _ _ _ s1 m hw
            have := workerRelease_os s o sh
            rw [hw] at this
            exact this
          · rename_i sh _ _ _ _ s1 hw
            rw [ih]
            have := workerRelease_os s o sh
            rw [hw] at this
            exact this
        · split
          · exact ih _ _
          · split <;> exact ih _ _

attribute [grind →] send_os sendLit_os removeDataExpireBlock_os marketDeposit_os
attribute [grind =] setMeta_os removeMeta_os setModel_os removeModel_os setNode_os setPledge_os setWorker_os setDebt_os
  removeDebt_os setBal_os setDataExpireBlock_os setTimeoutOrderBlock_os setExpiredShardBlock_os workerAppend_os
  workerRelease_os withdrawLoop_os

@[grind =] theorem osPart_mk (h : Int) (seed : Nat) (bank : Map Addr Int) (supply : Int) (orders : List Order) (orderCount : Option Nat)
    (shards : List Shard) (shardCount : Nat) (metas : List Metadata) (models : List ModelEntry) (expiredData : Map Nat (List Bytes))
    (timeoutQ : Map Nat (List Nat)) (expiredShardQ : Map Nat (List Nat)) (nodes : List Node) (nodeRound : Option Nat)
    (pledges : List Pledge) (debts : Map Addr Int) (pool : Option Pool) (params : NodeParams) (faults : List Fault)
    (faultIdx : List FaultIdx) (fishing : List ((Nat × Nat) × Dec)) (workers : List Worker) (did : DidState) (staking : StakingView) :
    osPart { h := h, seed := seed, bank := bank, supply := supply, orders := orders, orderCount := orderCount, shards := shards,
                shardCount := shardCount, metas := metas, models := models, expiredData := expiredData, timeoutQ := timeoutQ,
                expiredShardQ := expiredShardQ, nodes := nodes, nodeRound := nodeRound, pledges := pledges, debts := debts, pool := pool,
                params := params, faults := faults, faultIdx := faultIdx, fishing := fishing, workers := workers, did := did,
                staking := staking } = (orders, orderCount, shards, shardCount) := rfl

theorem osPart_def (s : State) : osPart s = (s.orders, s.orderCount, s.shards, s.shardCount) := rfl

macro "os_auto" h:ident : tactic => `(tactic| (
  simp only [bind, Except.bind, pure, Except.pure, throw, throwThe, MonadExceptOf.throw] at $h:ident
  repeat' (split at $h:ident)
  all_goals (first | cases $h:ident | skip)
  all_goals (try simp only [Except.ok.injEq, Prod.mk.injEq] at $h:ident)
  all_goals (first | grind | (simp only [osPart_def, State.setMeta,
      State.removeMeta, State.setModel, State.removeModel, State.setNode, State.setPledge, State.setWorker, State.setDebt,
      State.removeDebt, State.setBal]; grind [osPart_def]))))


@[grind →] theorem marketWithdraw_os (e : Env) (s s' : State) (o : Order) (x : Int × Option String)
    (h : marketWithdraw e s o = .ok (s', x)) : osPart s' = osPart s := by
  unfold marketWithdraw at h
  os_auto h

@[grind =] theorem marketMigrate_os (s : State) (o : Order) (a b : Shard) : osPart (marketMigrate s o a b).1 = osPart s := by
  unfold marketMigrate
  split <;> grind

/-! ### node -/
@[grind →] theorem nodeCreate_os (e : Env) (s s' : State) (c : Addr) (h : nodeCreate e s c = .ok s') : osPart s' = osPart s := by
  unfold nodeCreate at h
  os_auto h

@[grind →] theorem nodeReset_os (e : Env) (s s' : State) (m : ResetMsg) (h : nodeReset e s m = .ok s') : osPart s' = osPart s := by
  unfold nodeReset at h
  os_auto h

@[grind →] theorem promoteIfDue_os (e : Env) (s s' : State) (c : Addr) (p : Pledge) (h : promoteIfDue e s c p = .ok s') :
    osPart s' = osPart s := by
  unfold promoteIfDue at h
  os_auto h

@[grind →] theorem demoteIfDue_os (e : Env) (s s' : State) (c : Addr) (p : Pledge) (h : demoteIfDue e s c p = .ok s') :
    osPart s' = osPart s := by
  unfold demoteIfDue at h
  os_auto h

@[grind →] theorem nodeAddVstorage_os (e : Env) (s s' : State) (c : Addr) (n : Nat) (h : nodeAddVstorage e s c n = .ok s') :
    osPart s' = osPart s := by
  unfold nodeAddVstorage at h
  os_auto h

@[grind →] theorem nodeRemoveVstorage_os (e : Env) (s s' : State) (c : Addr) (n : Nat) (h : nodeRemoveVstorage e s c n = .ok s') :
    osPart s' = osPart s := by
  unfold nodeRemoveVstorage at h
  os_auto h

@[grind =] theorem repayPledgeDebt_os (s : State) (sp : Addr) (l : List Int) : osPart (repayPledgeDebt s sp l).1 = osPart s := by
  unfold repayPledgeDebt
  repeat' split
  all_goals grind

@[grind →] theorem marketClaim_os (s s' : State) (sp : Addr) (x : Int) (h : marketClaim s sp = .ok (s', x)) : osPart s' = osPart s := by
  unfold marketClaim at h
  os_auto h

@[grind →] theorem shardRelease_os (e : Env) (s s' : State) (sp : Addr) (sh : Option Shard) (x : Option String)
    (h : shardRelease e s sp sh = .ok (s', x)) : osPart s' = osPart s := by
  unfold shardRelease at h
  os_auto h

@[grind →] theorem nodeClaimReward_os (e : Env) (s s' : State) (c : Addr) (x : Int)
    (h : nodeClaimReward e s c = .ok (s', x)) : osPart s' = osPart s := by
  unfold nodeClaimReward at h
  os_auto h

@[grind →] theorem sendToDidBalances_os (s s' : State) (d : Did) (a : Int) (h : sendToDidBalances s d a = .ok s') : s' = s := by
  unfold sendToDidBalances at h
  split at h
  · simp only [pure, Except.pure, Except.ok.injEq] at h; exact h.symm
  · cases h

@[grind =] theorem refundOrder_os (e : Env) (s : State) (oid : Nat) : osPart (refundOrder e s oid).1 = osPart s := by
  unfold refundOrder
  repeat' split
  all_goals (first | rfl | grind)

@[grind →] theorem resetMetaDuration_os (s s' : State) (m m' : Metadata) (h : resetMetaDuration s m = .ok (s', m')) :
    osPart s' = osPart s := by
  unfold resetMetaDuration at h
  os_auto h

@[grind →] theorem extendMetaDuration_os (s s' : State) (d : Bytes) (a : Nat) (h : extendMetaDuration s d a = .ok s') :
    osPart s' = osPart s := by
  unfold extendMetaDuration at h
  os_auto h

@[grind =] theorem deleteMeta_os (s : State) (d : Bytes) : osPart (deleteMeta s d).1 = osPart s := by
  unfold deleteMeta
  split <;> rfl

@[grind →] theorem terminateRel_os (e : Env) (o : Order) (l : List Nat) (s s' : State) (x : Option String)
    (h : modelTerminateOrder.rel e o l s = .ok (s', x)) : osPart s' = osPart s := by
  induction l generalizing s with
  | nil =>
    unfold modelTerminateOrder.rel at h
    simp only [pure, Except.pure, Except.ok.injEq, Prod.mk.injEq] at h
    rw [← h.1]
  | cons id t ih =>
    unfold modelTerminateOrder.rel at h
    split at h
    · exact ih _ h
    · split at h
      · simp only [bind, Except.bind, pure, Except.pure] at h
        split at h
        · cases h
        · rename_i y hy
          obtain ⟨s1, er⟩ := y
          simp only at h
          split at h
          · simp only [Except.ok.injEq, Prod.mk.injEq] at h; rw [← h.1]; exact shardRelease_os _ _ _ _ _ _ hy
          · rw [ih _ h]; exact shardRelease_os _ _ _ _ _ _ hy
      · exact ih _ h

@[grind →] theorem rollbackMeta_os (s s' : State) (d : Bytes) (h : rollbackMeta s d = .ok s') : osPart s' = osPart s := by
  unfold rollbackMeta at h
  os_auto h

@[grind →] theorem updateMetaStatusAndCommit_os (s s' : State) (o : Order) (x : Option String)
    (h : updateMetaStatusAndCommit s o = .ok (s', x)) : osPart s' = osPart s := by
  unfold updateMetaStatusAndCommit at h
  os_auto h

@[grind =] theorem newMeta_os (s : State) (o : Order) (m : Metadata) : osPart (newMeta s o m).1 = osPart s := by
  unfold newMeta
  repeat' split
  all_goals rfl

@[grind =] theorem updatePermission_os (s : State) (ow : Did) (d : Bytes) (ro rw : List Did) :
    osPart (updatePermission s ow d ro rw).1 = osPart s := by
  unfold updatePermission
  repeat' split
  all_goals rfl

/-! ### sao handlers -/
@[grind →] theorem getSps_os (s s' : State) (o : Order) (d : Bytes) (sps : List Node) (h : getSps s o d = .ok (s', sps)) :
    osPart s' = osPart s := by
  have := getSps_round _ _ _ _ _ h
  unfold sameButRound at this
  rw [this]; rfl

@[grind →] theorem randomSP_os (s s' : State) (c : Int) (ig : List Addr) (sz : Int) (sps : List Node)
    (h : randomSP s c ig sz = .ok (s', sps)) : osPart s' = osPart s := by
  have := randomSP_round _ _ _ _ _ _ h
  unfold sameButRound at this
  rw [this]; rfl

@[grind →] theorem storeAttach_os (s s' : State) (m : StoreMsg) (o : Order) (a b : Bytes) (h : storeAttach s m o a b = .ok s') :
    osPart s' = osPart s := by
  unfold storeAttach softTx softTx' at h
  os_auto h

@[grind =] theorem increaseReputation_os (e : Env) (s : State) (a : Addr) (v : Int) : osPart (increaseReputation e s a v) = osPart s := by
  unfold increaseReputation
  split <;> rfl

theorem foldl_os {α : Type} (f : State → α → State) (hf : ∀ s a, osPart (f s a) = osPart s) (l : List α) (s : State) :
    osPart (l.foldl f s) = osPart s := by
  induction l generalizing s with
  | nil => rfl
  | cons a t ih => simp only [List.foldl_cons]; rw [ih, hf]

/-! ### Renew -/
theorem send_or_self_os (s : State) (a b : Addr) (x : Int) :
    osPart (match s.send a b x with | .ok s' => s' | .error _ => s) = osPart s := by
  split
  · rename_i s' h; exact send_os _ _ _ _ _ h
  · rfl

theorem sendLit_or_self_os (s : State) (a b : Addr) (x : Int) :
    osPart (match s.sendLit a b x with | .ok s' => s' | .error _ => s) = osPart s := by
  split
  · rename_i s' h; exact sendLit_os _ _ _ _ _ h
  · rfl

/-! ### permission, timeout and expiry handlers -/
@[grind →] theorem saoPermission_os (s s' : State) (c p : Addr) (ow : Did) (d : Bytes) (ro rw : List Did) (sv : Bool)
    (h : saoPermission s c p ow d ro rw sv = .ok s') : osPart s' = osPart s := by
  unfold saoPermission at h
  dsimp only at h
  split at h
  · exact (throw_bind_ne h).elim
  split at h
  · exact (throw_bind_ne h).elim
  split at h
  · exact (throw_bind_ne h).elim
  split at h
  · exact (throw_bind_ne h).elim
  have := softTx'_ok h
  rw [← this, updatePermission_os]

/-! ### end-blockers -/
theorem foldlM_os {α : Type} (f : State → α → TxM State) (hf : ∀ s a s', f s a = .ok s' → osPart s' = osPart s)
    (l : List α) (s s' : State) (h : l.foldlM f s = .ok s') : osPart s' = osPart s := by
  induction l generalizing s with
  | nil => simp only [List.foldlM, pure, Except.pure, Except.ok.injEq] at h; rw [← h]
  | cons a t ih =>
    simp only [List.foldlM] at h
    obtain ⟨v, hv, h⟩ := bind_ok h
    rw [ih _ h, hf _ _ _ hv]

@[grind =] theorem nodeEndBlock_os (s : State) : osPart (nodeEndBlock s) = osPart s := rfl

@[grind =] theorem modelEndBlock_os (s : State) : osPart (modelEndBlock s) = osPart s := by
  unfold modelEndBlock
  dsimp only
  split
  · rfl
  · show osPart (List.foldl _ s _) = osPart s
    apply foldl_os
    intro s a
    repeat' split
    all_goals (first | rfl | exact deleteMeta_os _ _)

/-- the outcome of a state transformer leaves the order and shard stores alone (nothing is claimed about a failure) -/
def okOs (s : State) (r : TxM State) : Prop :=
  match r with
  | .ok s' => osPart s' = osPart s
  | .error _ => True

theorem okOs_elim {s s' : State} {r : TxM State} (h : okOs s r) (hr : r = .ok s') : osPart s' = osPart s := by
  subst hr; exact h

@[simp] theorem setFault_os (s : State) (f : Fault) : osPart (s.setFault f) = osPart s := rfl
@[simp] theorem removeFault_os (s : State) (f : Fault) : osPart (s.removeFault f) = osPart s := rfl
@[simp] theorem fishAdd_os (s : State) (k : Nat × Nat) (v : Dec) : osPart (fishAdd s k v) = osPart s := by
  unfold fishAdd; split <;> rfl
@[simp] theorem faultBySpShard_os (s : State) (p : Addr) (sh : Nat) : osPart (s.faultBySpShard p sh).1 = osPart s := by
  unfold State.faultBySpShard
  repeat' split
  all_goals rfl

theorem reportStep_os (c p : Addr) (s : State) (x : FaultIn × StrId) : osPart (reportStep c p s x) = osPart s := by
  unfold reportStep
  dsimp only
  repeat' split
  all_goals (first | rfl | simp)

@[grind →] theorem saoReportFaults_os (s s' : State) (c p : Addr) (fs : List FaultIn) (ids : List StrId)
    (h : saoReportFaults s c p fs ids = .ok s') : osPart s' = osPart s := by
  unfold saoReportFaults at h
  split at h
  · cases h
  · split at h
    · cases h
    · simp only [pure, Except.pure, Except.ok.injEq] at h
      rw [← h]
      exact foldl_os _ (reportStep_os c p) _ _

theorem okOs_of_eq {s s1 : State} {r : TxM State} (h : osPart s1 = osPart s) (hr : okOs s1 r) : okOs s r := by
  unfold okOs at *
  split
  · rename_i s' _; simp only at hr; rw [hr, h]
  · trivial

theorem recoverSettle_okOs (pool : Pool) (ik : Nat) (s : State) (o : Order) (org fm : Fault) (pl : Pledge) :
    okOs s (recoverSettle pool ik s o org fm pl) := by
  unfold recoverSettle
  dsimp only
  split
  · simp [okOs, throw, throwThe, MonadExceptOf.throw]
  · split
    · simp [okOs, throw, throwThe, MonadExceptOf.throw]
    · simp only [okOs, pure, Except.pure]
      rw [removeFault_os, setPledge_os, foldl_os _ (fun s c => fishAdd_os s _ _), fishAdd_os]
      split <;> rfl

theorem recoverStep_okOs (c p : Addr) (pool : Pool) (ik : Nat) (s : State) (f : FaultIn) :
    okOs s (recoverStep c p pool ik s f) := by
  have hb := faultBySpShard_os s f.provider f.shardId
  unfold recoverStep
  split
  · simp [okOs, pure, Except.pure]
  split
  · simp [okOs, pure, Except.pure]
  split
  · simp [okOs, pure, Except.pure]
  split
  · simp [okOs, pure, Except.pure]
  split
  · simp [okOs, pure, Except.pure]
  -- from here on the state is the one `faultBySpShard` returned
  generalize hq : s.faultBySpShard f.provider f.shardId = q at hb ⊢
  obtain ⟨s1, org?⟩ := q
  (try dsimp only at hb ⊢)
  split
  · simp only [okOs, pure, Except.pure]; exact hb
  split
  · simp only [okOs, pure, Except.pure]; exact hb
  (try dsimp only)
  split
  · simp only [okOs, pure, Except.pure]; exact hb
  · split
    · split
      · exact okOs_of_eq hb (recoverSettle_okOs _ _ _ _ _ _ _)
      · simp only [okOs, pure, Except.pure]; rw [setFault_os]; exact hb
    · simp only [okOs, pure, Except.pure]; rw [setFault_os]; exact hb

@[grind →] theorem saoRecoverFaults_os (s s' : State) (c p : Addr) (fs : List FaultIn) (ik : Nat)
    (h : saoRecoverFaults s c p fs ik = .ok s') : osPart s' = osPart s := by
  unfold saoRecoverFaults at h
  dsimp only at h
  split at h
  · rename_i node hn
    -- the role check is a guard: whichever branch, the state it hands on is `s`
    have key : ∀ (pool : Pool), fs.foldlM (recoverStep c p pool ik) s = .ok s' → osPart s' = osPart s := by
      intro pool hf
      exact foldlM_os _ (fun s a s' h => okOs_elim (recoverStep_okOs c p pool ik s a) h) _ _ _ hf
    split at h
    · split at h
      · exact (throw_bind_ne h).elim
      · split at h
        · exact key _ h
        · cases h
    · split at h
      · exact (throw_bind_ne h).elim
      · split at h
        · exact key _ h
        · cases h
  · cases h

end SaoVerif
